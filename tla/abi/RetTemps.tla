------------------------------ MODULE RetTemps ------------------------------
(* C06, several struct values returned by calls in one full expression.
   C11 6.2.4p8: the value of a call with struct/union type that contains an
   array member is a temporary object that lives until the end of the full
   expression, so pointers into two such temporaries may be live at once:
       use(f(1).a, f(2).a)      use(f(1).a, f(2).a, f(3).a)      d = rev(f(1).a)
   psABI: for a MEMORY-class type the callee writes its result through rdi at
   any time; for a register-class type the caller stores rax/rdx/xmm0/xmm1 into
   its temporary after the call.  Either way every call whose value is still
   referenced needs memory of its own, and the slot handed to a callee must not
   be the object its argument points into.

   Level I (parse.c funcall): every call node gets its own unnamed local
   `ret_buffer`.  Shared = TRUE is the variant "one buffer per return type and
   function" (sensitivity control, must be rejected).

   The callee of call i computes G(i) (a maker: no pointer input) or, for the
   last call of shape "chain", F of the value its pointer argument points to (inside the previous temporary);
   its steps are taken in every admissible order (RetSlot.tla): early flavour
   Z R W, late flavour R L C; for a register-class type there is only
   "compute, return in registers" and the caller's store into the buffer.   *)
EXTENDS Integers, Sequences, FiniteSets, TLC, Json, CSV, IOUtils

CONSTANTS Shared, Emit

Shapes == {"pair", "triple", "chain"}
Classes == {"mem", "reg"}
Flavours == {"early", "late"}
NCalls(sh) == IF sh = "triple" THEN 3 ELSE 2
G(i) == 100 + i                       \* the value maker i returns
F(x) == x + 10                        \* what the chained function makes of its input
Buf(i) == IF Shared THEN "t1" ELSE <<"t1", "t2", "t3">>[i]

VARIABLES shape, cls, flav, mem, i, pc, todo, r
vars == <<shape, cls, flav, mem, i, pc, todo, r>>
Init == /\ shape \in Shapes /\ cls \in Classes /\ flav \in Flavours
        /\ (cls = "reg" => flav = "late")
        /\ mem = [t1 |-> 91, t2 |-> 92, t3 |-> 93, loc |-> 94]
        /\ i = 1 /\ pc = "call" /\ todo = {} /\ r = 0

IsChainCall == shape = "chain" /\ i = 2
Input == IF IsChainCall THEN mem[Buf(1)] ELSE 0          \* read through the pointer into the first temporary
Result(x) == IF IsChainCall THEN F(x) ELSE G(i)

Call == /\ pc = "call" /\ i <= NCalls(shape)
        /\ todo' = IF cls = "reg" THEN {"R", "S"} ELSE IF flav = "early" THEN {"Z", "R", "W"} ELSE {"R", "L", "C"}
        /\ pc' = "callee" /\ UNCHANGED <<shape, cls, flav, mem, i, r>>
Step(x) ==
  /\ pc = "callee" /\ x \in todo
  /\ x \in {"W", "C", "S"} => todo = {x}
  /\ x = "L" => "R" \notin todo
  /\ todo' = todo \ {x}
  /\ CASE x = "Z" -> mem' = [mem EXCEPT ![Buf(i)] = 0] /\ r' = r
       [] x = "R" -> r' = Input /\ mem' = mem
       [] x = "W" -> mem' = [mem EXCEPT ![Buf(i)] = Result(r)] /\ r' = r
       [] x = "L" -> mem' = [mem EXCEPT !.loc = Result(r)] /\ r' = r
       [] x = "C" -> mem' = [mem EXCEPT ![Buf(i)] = mem.loc] /\ r' = r
       [] x = "S" -> mem' = [mem EXCEPT ![Buf(i)] = Result(r)] /\ r' = r      \* copy_ret_buffer: registers -> temporary
  /\ UNCHANGED <<shape, cls, flav, i, pc>>
Ret == /\ pc = "callee" /\ todo = {}
       /\ i' = i + 1 /\ pc' = IF i = NCalls(shape) THEN "use" ELSE "call"
       /\ UNCHANGED <<shape, cls, flav, mem, todo, r>>
(* the consumer reads through all the pointers it was given *)
Use == /\ pc = "use" /\ pc' = "done" /\ UNCHANGED <<shape, cls, flav, mem, i, todo, r>>
       /\ IF Emit THEN CSVWrite("%1$s", <<ToJson([shape |-> shape, cls |-> cls, flavour |-> flav])>>, IOEnv.OUT) ELSE TRUE
Next == Call \/ (\E x \in {"Z", "R", "W", "L", "C", "S"} : Step(x)) \/ Ret \/ Use
Spec == Init /\ [][Next]_vars

Seen == IF shape = "chain" THEN <<mem[Buf(2)]>> ELSE [k \in 1..NCalls(shape) |-> mem[Buf(k)]]
Want == IF shape = "chain" THEN <<F(G(1))>> ELSE [k \in 1..NCalls(shape) |-> G(k)]
ValuesOK == pc = "done" => Seen = Want
=============================================================================
