SPECIFICATION Spec
CONSTANTS
 Direct = TRUE
 MaxActive = 1
 Emit = FALSE
INVARIANTS AtCall
CHECK_DEADLOCK FALSE
