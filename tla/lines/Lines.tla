------------------------------- MODULE Lines -------------------------------
(* C18: source positions survive preprocessing.

   A file is a sequence of *units*; a unit occupies one or more physical lines:
     X    code without probe                          1 line
     P    code with a probe (__LINE__/__FILE__)       1
     B    blank line                                  1
     C    // comment                                  1
     CS   // comment ending in a backslash, probe on the next line (swallowed)   2
     K2 K3  block comment spanning 2 / 3 lines        2 / 3
     KP   block comment spanning 2 lines, probe after its end      2 (probe on the 2nd)
     SN SN3  code spliced with backslash-newline over 2 / 3 lines  2 / 3
     SP   spliced code, probe on the continuation line             2 (probe on the 2nd)
     D    #define M(t) ... __LINE__ ... __FILE__      1
     U    use of M                                    1
     V    invocation of M spread over 3 lines         3 (macro name on the 1st)
     I0 I2 J1 IL  #include of a header (h0: probe; h2: two lines then probe;
          g1: a line, #include "h0", probe; hl: #line 50, probe)    1
     L    #line 100                                   1
     F    #line 200 "foo.c"                           1
     W    use of OUT, a macro defined in the header mac.h whose body invokes M   1
     MB MC MK  ONE statement over 2 lines with a probe (a call) on each line:
          binary operator / call with arguments on separate lines / comma        2
     MT   one statement `a ? b : c` over 3 lines, a probe on each               3
          (the M* probes have no __LINE__; they are observed through .loc only)
     IM   #include "mac.h" (blank line, #define OUT(t) M(t)); DO = that #define  1
     G1 G0 GE GX   #if 1 / #if 0 / #else / #endif: conditional groups around the other
          units (well nested; groups still open at the end of the body are closed
          before the epilogue).  Units in a skipped group keep their physical lines and
          have no other effect: their probes are not seen, their #line and #include
          directives are not executed.  A #line in a processed group works as anywhere.  1
   x line ending LF / CRLF / CR, with or without a terminator on the last line
   x how the file ends (trunc): "none" = the epilogue `return 0; }`; or the file is CUT OFF, so that the
     compiler has to report an error at the end of input:
       "body"   the last line is a statement, the function body is never closed            tail unit X   1 line
       "invoc"  an invocation of M whose argument list is never closed, over 2 lines       tail unit TV  2
       "dir"    the last line is a directive with an incomplete operand (`#if 1 +`)         tail unit TD  1
     In every cut-off file the last physical line holds a token.

   Level A (C11 5.1.1.2, 6.10.4, 6.10.8.1): the position of a token is the
     physical line of its first character in its own file; after `#line n` on
     physical line d the line d+1+k is presumed to be n+k; __FILE__ is the
     presumed name; a probe produced by a macro takes the position of the
     macro name of the invocation; a #line inside a header ends with the header.
     The same position is the position of the TOKEN for everything done with it later (diagnostics of
     the parser, debug line records): a #line directive governs the lines that FOLLOW it, up to the next
     one; it never changes the position of a token that precedes it.
     The end of input is a position too (pseudo-probe EOF of the main file): it lies behind the last
     character of the last physical line L, so a diagnostic attached to it names the presumed number of
     L or that number + 1 (the line a further character would be on once L is terminated) - never a
     line that no position of the file has.

   Level I (tokenize.c / preprocess.c): read_file's final newline,
     canonicalize_newline, remove_backslash_newline with its deferred newlines,
     the comment skipping of tokenize, add_line_numbers (count of '\n' before
     the token in the transformed buffer), File.line_delta / display_name set
     by read_line_marker, line_macro/file_macro through `origin`; preprocess2 stamps the File's
     current line_delta on every token it passes through and preprocess_pp_tokens adds it to line_no at
     the end (field pline: what the parser and codegen see), whereas __LINE__ is computed at expansion
     time (field line).  The EOF token is a token of add_line_numbers' list: it is numbered (count of
     '\n' in the whole buffer + 1, i.e. L + 1 after read_file's final newline) but never stamped with a
     delta, and the three end-of-input diagnostics (parser at EOF; read_macro_arg_one "premature end of
     input" at EOF; a directive operand error at copy_line's new_eof copy of EOF) print its line_no.
     Characters are abstract: "x" a token without interest, "c" comment text,
     "<" ">" "/" comment delimiters, "\\" "\n" "\r", everything else is a token
     with a payload (probe, directive).

   The tree as it is departs from Level A in two recorded ways (findings):
   D16-line: read_line_marker sets delta = n - (line of the directive), so the
     line after `#line n` becomes n+1 (LineOff = 1).  test/line.c encodes n+1,
     so it is recorded, not repaired.
   D16-splice: all tokens of a spliced logical line get its first physical
     line, so a probe on a continuation line (unit SP) is one too low.
   The main invariant SameButRecorded speaks about the tree as it is: every
   probe has the Level A identity and file name; probes not on a continuation
   line have the Level A line, plus exactly RecordedLineDev iff the probe is
   governed by a #line directive of its own file (field g of Level A).
   Controls that TLC must reject: LineOff = 2 (any other delta error), the
   strict invariant (RecordedLineDev = 0) with LineOff = 1, and SameAll
   (continuation-line probes included).  LineOff = 0 with RecordedLineDev = 0
   is the repaired design (Lines_repaired.cfg).
   Recorded in the fifth round (finding C18-eof-ignores-line): because the EOF token is never stamped,
     a diagnostic at the end of input of a file whose end is governed by a #line prints the PHYSICAL
     L + 1 (RecordedEofDev; EofStamp = FALSE transcribes it; Lines_repaired.cfg: EofStamp = TRUE).
   Further controls: DeltaStamp = "file" (the delta is taken from the File when preprocessing is over,
     not stamped per token: positions BEFORE a #line shift) and NumberEof = FALSE (add_line_numbers
     stops at the EOF token: line 0) must both be rejected.
   LineInGroupFix = FALSE transcribes read_line_marker before its repair: the
   operands of #line were macro-replaced by preprocess(), which ends with the
   "unterminated conditional directive" test and so rejects a #line written
   inside an open conditional; TLC must reject it too (control).              *)
EXTENDS Integers, Sequences, SequencesExt, FiniteSets, TLC, Json, CSV, IOUtils

CONSTANTS MaxLen,        \* units per main file (between the fixed prologue and epilogue)
          Pad,           \* number of comment lines between prologue and body (long-file family: the harness sizes
                         \* them so that line ends fall on and around the 4096-byte read boundaries)
          Kinds,         \* unit alphabet of the main file
          Eols,          \* subset of {"LF", "CRLF", "CR"}
          Seed, Stride,
          LineOff,       \* what read_line_marker does: the line after `#line n` is presumed to be n + LineOff
                         \* (1 = the tree as it is: delta = n - line of the directive; 0 = repaired; 2 = control)
          LineInGroupFix,  \* TRUE: #line inside an open conditional is executed; FALSE: the file is rejected (control)
          Truncs,        \* subset of {"none", "body", "invoc", "dir"}: how the main file ends
          DeltaStamp,    \* "token": preprocess2 stamps the File's current delta on each token (the tree); "file": control
          NumberEof,     \* TRUE: add_line_numbers numbers the EOF token (the tree); FALSE: control (line 0)
          EofStamp,      \* FALSE: the EOF token never gets a delta (the tree as it is); TRUE: repaired
          RecordedEofDev,  \* TRUE: tolerate exactly "physical L + 1 at an end of input governed by #line" (finding); FALSE once repaired
          RecordedLineDev, \* the deviation recorded as finding D16-line and tolerated by SameButRecorded (1; 0 once repaired)
          Emit

(* ---- units -------------------------------------------------------------- *)
Hdr == [I0 |-> "h0.h", I2 |-> "h2.h", J1 |-> "g1.h", IL |-> "hl.h", IM |-> "mac.h"]
HdrUnits(name) ==
  CASE name = "h0.h" -> <<"P">>
    [] name = "h2.h" -> <<"B", "C", "P">>
    [] name = "g1.h" -> <<"SN", "I0", "P">>
    [] name = "hl.h" -> <<"P", "L50", "P", "K2", "P">>
    [] name = "mac.h" -> <<"B", "DO">>
IsInc(k) == k \in DOMAIN Hdr
NPhys(k) == CASE k \in {"CS", "K2", "KP", "SN", "SP", "MB", "MC", "MK", "TV"} -> 2 [] k \in {"K3", "SN3", "V", "MT"} -> 3 [] OTHER -> 1
(* physical-line offsets of the probes of a unit, and the suffix that tells them apart *)
ProbeOffs(k) == CASE k \in {"P", "U", "V", "W"} -> <<0>> [] k \in {"KP", "SP"} -> <<1>>
                  [] k \in {"MB", "MC", "MK"} -> <<0, 1>> [] k = "MT" -> <<0, 1, 2>> [] OTHER -> <<>>
Sfx(k, j) == IF Len(ProbeOffs(k)) = 1 THEN "" ELSE <<"a", "b", "c">>[j]
LineArg(k) == CASE k = "L" -> 100 [] k = "F" -> 200 [] k = "L50" -> 50 [] OTHER -> 0
Id(tag, k, u) == tag \o k \o ToString(u)      \* probe identity: file tag, unit kind, unit index

(* ---- Level A ------------------------------------------------------------- *)
(* state while walking a file: phys = physical line of the next unit; base = <<n, d>> after #line n on line d *)
Presumed(base, l) == IF base = <<>> THEN l ELSE base[1] + (l - base[2] - 1)
(* 6.10.1: grp = stack of [act, taken] of the open conditionals; a unit is processed iff every group is active *)
GrpKinds == {"G1", "G0", "GE", "GX"}
Active(grp) == \A j \in DOMAIN grp : grp[j].act
GrpNext(grp, k) ==
  CASE k = "G1" -> Append(grp, [act |-> TRUE, taken |-> TRUE])
    [] k = "G0" -> Append(grp, [act |-> FALSE, taken |-> FALSE])
    [] k = "GE" -> [grp EXCEPT ![Len(grp)] = [act |-> ~@.taken, taken |-> TRUE]]
    [] k = "GX" -> SubSeq(grp, 1, Len(grp) - 1)
RECURSIVE WalkA(_, _, _, _, _, _, _, _)
WalkA(units, i, phys, base, name, tag, grp, acc) ==
  IF i > Len(units) THEN acc
  ELSE LET k == units[i] IN
       IF k \in GrpKinds
       THEN WalkA(units, i + 1, phys + 1, base, name, tag, GrpNext(grp, k), acc)
       ELSE IF ~Active(grp)
       THEN WalkA(units, i + 1, phys + NPhys(k), base, name, tag, grp, acc)
       ELSE IF ProbeOffs(k) # <<>>
       THEN WalkA(units, i + 1, phys + NPhys(k), base, name, tag, grp,
                  acc \o [j \in DOMAIN ProbeOffs(k) |->
                            [id |-> Id(tag, k, i) \o Sfx(k, j), line |-> Presumed(base, phys + ProbeOffs(k)[j]), file |-> name, k |-> k, g |-> base # <<>>]])
       ELSE IF LineArg(k) > 0
       THEN WalkA(units, i + 1, phys + 1, <<LineArg(k), phys>>, IF k = "F" THEN "foo.c" ELSE name, tag, grp, acc)
       ELSE IF IsInc(k)
       THEN WalkA(units, i + 1, phys + 1, base, name, tag, grp,
                  WalkA(HdrUnits(Hdr[k]), 1, 1, <<>>, Hdr[k], Hdr[k], <<>>, acc))
       ELSE WalkA(units, i + 1, phys + NPhys(k), base, name, tag, grp, acc)
(* the end of input of the main file: L = its last physical line, under the #line in force there
   (directives of headers end with the header; directives in skipped groups are not executed) *)
EndA(units) ==
  LET r == FoldLeft(LAMBDA st, k :
                      IF k \in GrpKinds THEN [st EXCEPT !.phys = @ + 1, !.grp = GrpNext(@, k)]
                      ELSE IF Active(st.grp) /\ LineArg(k) > 0
                      THEN [st EXCEPT !.phys = @ + 1, !.base = <<LineArg(k), st.phys>>, !.name = IF k = "F" THEN "foo.c" ELSE @]
                      ELSE [st EXCEPT !.phys = @ + NPhys(k)],
                    [phys |-> 1, base |-> <<>>, name |-> "main.c", grp |-> <<>>], units)
  IN [id |-> "EOF", line |-> Presumed(r.base, r.phys - 1), file |-> r.name, k |-> "EOF", g |-> r.base # <<>>, phys |-> r.phys - 1]
RunA(units) == Append(WalkA(units, 1, 1, <<>>, "main.c", "m", <<>>, <<>>), EndA(units))

(* ---- file contents as abstract characters -------------------------------- *)
UnitLines(k, tag, u) ==       \* physical lines, without terminators
  CASE k = "X"  -> << <<"x">> >>
    [] k = "P"  -> << <<Id(tag, k, u)>> >>
    [] k = "B"  -> << <<>> >>
    [] k = "C"  -> << <<"/", "c">> >>
    [] k = "CS" -> << <<"/", "c", "\\">>, <<Id(tag, k, u)>> >>
    [] k = "K2" -> << <<"<", "c">>, <<"c", ">">> >>
    [] k = "K3" -> << <<"<", "c">>, <<"c">>, <<"c", ">">> >>
    [] k = "KP" -> << <<"<", "c">>, <<"c", ">", Id(tag, k, u)>> >>
    [] k = "SN" -> << <<"x", "\\">>, <<"x">> >>
    [] k = "SN3"-> << <<"x", "\\">>, <<"x", "\\">>, <<"x">> >>
    [] k = "SP" -> << <<"x", "\\">>, <<"x", Id(tag, k, u)>> >>
    [] k = "D"  -> << <<"#D">> >>
    [] k \in {"U", "W"} -> << <<Id(tag, k, u)>> >>
    [] k \in {"MB", "MC", "MK"} -> << <<"x", Id(tag, k, u) \o "a", "x">>, <<Id(tag, k, u) \o "b", "x">> >>
    [] k = "MT" -> << <<"x", Id(tag, k, u) \o "a", "x">>, <<Id(tag, k, u) \o "b", "x">>, <<Id(tag, k, u) \o "c", "x">> >>
    [] k = "DO" -> << <<"#D">> >>
    [] k = "V"  -> << <<Id(tag, k, u)>>, <<"x">>, <<"x">> >>
    [] IsInc(k) -> << <<"#I" \o k>> >>
    [] k \in {"L", "F", "L50"} -> << <<"#" \o k>> >>
    [] k \in GrpKinds -> << <<"#" \o k>> >>
    [] k = "TV" -> << <<"x">>, <<"x">> >>        \* M( / "id"   and the file ends
    [] k = "TD" -> << <<"#TD">> >>              \* #if 1 +      and the file ends
EolChars(e) == CASE e = "LF" -> <<"\n">> [] e = "CRLF" -> <<"\r", "\n">> [] e = "CR" -> <<"\r">>
Flatten(ss) == FoldLeft(LAMBDA acc, s : acc \o s, <<>>, ss)
PhysLines(units, tag) == Flatten([u \in DOMAIN units |-> UnitLines(units[u], tag, u)])
Chars(units, tag, eol, final) ==
  LET pl == PhysLines(units, tag)
  IN Flatten([j \in DOMAIN pl |-> IF j = Len(pl) /\ ~final THEN pl[j] ELSE pl[j] \o EolChars(eol)])

(* ---- Level I -------------------------------------------------------------- *)
(* read_file: "Make sure that the last line is properly terminated with '\n'" *)
ReadFile(cs) == IF cs = <<>> \/ cs[Len(cs)] # "\n" THEN Append(cs, "\n") ELSE cs
(* canonicalize_newline: \r\n and \r become \n *)
Canon(cs) ==
  FoldLeft(LAMBDA acc, i :
             IF cs[i] = "\n" /\ i > 1 /\ cs[i - 1] = "\r" THEN acc        \* second half of \r\n: already written
             ELSE IF cs[i] = "\r" THEN Append(acc, "\n")
             ELSE Append(acc, cs[i]),
           <<>>, [i \in DOMAIN cs |-> i])
(* remove_backslash_newline: st = [out, n (removed newlines not yet given back), skip] *)
Unsplice(cs) ==
  LET r == FoldLeft(LAMBDA st, i :
                 IF st.skip THEN [st EXCEPT !.skip = FALSE]
                 ELSE IF cs[i] = "\\" /\ i < Len(cs) /\ cs[i + 1] = "\n" THEN [st EXCEPT !.n = @ + 1, !.skip = TRUE]
                 ELSE IF cs[i] = "\n" THEN [out |-> st.out \o <<"\n">> \o [j \in 1..st.n |-> "\n"], n |-> 0, skip |-> FALSE]
                 ELSE [st EXCEPT !.out = Append(@, cs[i])],
               [out |-> <<>>, n |-> 0, skip |-> FALSE], [i \in DOMAIN cs |-> i])
  IN r.out \o [j \in 1..r.n |-> "\n"]
(* tokenize + add_line_numbers: tokens with payload and the number of '\n' before them, + 1 *)
Special == {"x", "c", "<", ">", "/", "\\", "\n", "\r"}
Tokens(buf) ==
  LET r == FoldLeft(LAMBDA st, ch :
                 LET st1 == IF ch = "\n" THEN [st EXCEPT !.n = @ + 1] ELSE st IN
                 IF st.mode = "line" THEN (IF ch = "\n" THEN [st1 EXCEPT !.mode = ""] ELSE st1)
                 ELSE IF st.mode = "block" THEN (IF ch = ">" THEN [st1 EXCEPT !.mode = ""] ELSE st1)
                 ELSE IF ch = "/" THEN [st1 EXCEPT !.mode = "line"]
                 ELSE IF ch = "<" THEN [st1 EXCEPT !.mode = "block"]
                 ELSE IF ch \in Special THEN st1
                 ELSE [st1 EXCEPT !.toks = Append(@, [t |-> ch, line |-> st.n])],
               [toks |-> <<>>, n |-> 1, mode |-> ""], buf)
  IN Append(r.toks, [t |-> "EOF", line |-> IF NumberEof THEN r.n ELSE 0])     \* add_line_numbers' do-while reaches the terminating NUL
TokenizeFile(units, tag, eol, final) == Tokens(Unsplice(Canon(ReadFile(Chars(units, tag, eol, final)))))

(* probe id -> unit kind (ghost, only to tag the emitted records) *)
KindIn(all, x) == IF \E i \in DOMAIN all : all[i].id = x THEN all[CHOOSE i \in DOMAIN all : all[i].id = x].k ELSE "?"

(* preprocess2 over the tokens of one file: st = [delta, dname, out, ci, skip, rej, key]
   key = <<include depth, Len(out) when the file was entered>> identifies the File object among the records
   (two Files can share a key only if the first produced no record).
   A record: line = what __LINE__ gives (line_no + the File's delta at expansion time); pline = what the
   parser and codegen see (line_no + the delta STAMPED on the token when it passed through preprocess2).
   ci = the cond_incl entries (`included` flags) opened in this file; skip = 0, or 1 + the number of conditionals
   opened inside the group being skipped (skip_cond_incl / skip_cond_incl2); rej = the file was rejected *)
IsDir(t) == SubSeq(t, 1, 1) = "#"
Rejected == <<[id |-> "REJECTED", line |-> 0, pline |-> 0, file |-> "", k |-> "?"]>>
(* the end of a File: (control DeltaStamp = "file") every token of this File gets the delta the File holds NOW;
   the EOF token of the main file reaches the parser (include_file drops a header's): it was numbered by
   add_line_numbers and is passed through without a stamp (EofStamp: with the File's delta) *)
EndOfFile(st, eofline) ==
  LET restamped == IF DeltaStamp = "token" THEN st.out
                   ELSE [j \in DOMAIN st.out |-> IF st.out[j].key = st.key THEN [st.out[j] EXCEPT !.pline = st.out[j].raw + st.delta] ELSE st.out[j]]
      l == eofline + (IF EofStamp THEN st.delta ELSE 0)
  IN IF st.key[1] > 0 THEN restamped
     ELSE Append(restamped, [id |-> "EOF", line |-> l, pline |-> l, raw |-> eofline, key |-> st.key, file |-> st.dname, k |-> "EOF"])
RECURSIVE PP(_, _, _, _, _, _)
PP(toks, i, st, eol, final, kindOf) ==
  IF st.rej THEN Rejected
  ELSE IF i > Len(toks) THEN st.out
  ELSE LET t == toks[i].t
           ln == toks[i].line IN
       IF t = "EOF" THEN EndOfFile(st, ln)
       ELSE IF st.skip > 0          \* skip_cond_incl: only the nesting is tracked
       THEN PP(toks, i + 1,
               IF t \in {"#G1", "#G0"} THEN [st EXCEPT !.skip = @ + 1]
               ELSE IF t = "#GX" THEN (IF st.skip = 1 THEN [st EXCEPT !.skip = 0, !.ci = SubSeq(@, 1, Len(@) - 1)] ELSE [st EXCEPT !.skip = @ - 1])
               ELSE IF t = "#GE" /\ st.skip = 1 THEN [st EXCEPT !.skip = IF st.ci[Len(st.ci)] THEN 1 ELSE 0]
               ELSE st, eol, final, kindOf)
       ELSE IF t \in {"#G1", "#G0"}      \* push_cond_incl; if (!val) skip_cond_incl
       THEN PP(toks, i + 1, [st EXCEPT !.ci = Append(@, t = "#G1"), !.skip = IF t = "#G1" THEN 0 ELSE 1], eol, final, kindOf)
       ELSE IF t = "#GE"                  \* if (cond_incl->included) skip_cond_incl
       THEN PP(toks, i + 1, [st EXCEPT !.skip = IF st.ci[Len(st.ci)] THEN 1 ELSE 0], eol, final, kindOf)
       ELSE IF t = "#GX"
       THEN PP(toks, i + 1, [st EXCEPT !.ci = SubSeq(@, 1, Len(@) - 1)], eol, final, kindOf)
       ELSE IF ~IsDir(t)          \* a probe, directly or through M: line_macro/file_macro via origin
       THEN PP(toks, i + 1, [st EXCEPT !.out = Append(@, [id |-> t, line |-> ln + st.delta, pline |-> ln + st.delta, raw |-> ln, key |-> st.key,
                                                       file |-> st.dname, k |-> KindIn(kindOf, t)])], eol, final, kindOf)
       ELSE IF t \in {"#D", "#TD"} THEN PP(toks, i + 1, st, eol, final, kindOf)     \* #TD: its error is raised at a copy of the next token, EOF
       ELSE IF SubSeq(t, 1, 2) = "#I"
       THEN LET k == SubSeq(t, 3, Len(t))
                h == Hdr[k]
                sub == PP(TokenizeFile(HdrUnits(h), h, eol, final), 1, [delta |-> 0, dname |-> h, out |-> st.out, ci |-> <<>>, skip |-> 0, rej |-> FALSE, key |-> <<st.key[1] + 1, Len(st.out)>>,
                                                                            open |-> st.open \/ st.ci # <<>>], eol, final, kindOf)      \* cond_incl is one list for all files
            IN PP(toks, i + 1, [st EXCEPT !.out = sub, !.rej = (sub = Rejected)], eol, final, kindOf)
       ELSE \* read_line_marker: start->file->line_delta = tok->val - start->line_no; before the repair it ran
            \* preprocess() on its operands, whose last act is `if (cond_incl) error_tok(...)`
            LET k == SubSeq(t, 2, Len(t))
                d == LineArg(k) - ln - 1 + LineOff
            IN PP(toks, i + 1, [st EXCEPT !.delta = d, !.dname = IF k = "F" THEN "foo.c" ELSE @,
                                          !.rej = ~LineInGroupFix /\ (st.ci # <<>> \/ st.open)], eol, final, kindOf)

RunI(units, eol, final) ==
  PP(TokenizeFile(units, "m", eol, final), 1, [delta |-> 0, dname |-> "main.c", out |-> <<>>, ci |-> <<>>, skip |-> 0, rej |-> FALSE, open |-> FALSE, key |-> <<0, 0>>], eol, final, RunA(units))

(* ---- scenarios ------------------------------------------------------------ *)
Prologue == <<"X", "D", "IM", "X">> \o [j \in 1..Pad |-> "C"]   \* prototypes; #define M; #include "mac.h"; int main(void) {; padding
Epilogue == <<"X">>                  \* return 0; }
TailOf(trunc) == CASE trunc = "invoc" -> <<"TV">> [] trunc = "dir" -> <<"TD">> [] OTHER -> Epilogue    \* "body": a statement, and no `}`
(* conditional groups are well nested: s = [#else seen] per open group; bad once a #else / #endif has no group to belong to *)
Nest(b) == FoldLeft(LAMBDA st, k :
                      IF st.bad THEN st
                      ELSE IF k \in {"G1", "G0"} THEN [st EXCEPT !.s = Append(@, FALSE)]
                      ELSE IF k = "GE" THEN (IF st.s = <<>> \/ st.s[Len(st.s)] THEN [st EXCEPT !.bad = TRUE] ELSE [st EXCEPT !.s[Len(st.s)] = TRUE])
                      ELSE IF k = "GX" THEN (IF st.s = <<>> THEN [st EXCEPT !.bad = TRUE] ELSE [st EXCEPT !.s = SubSeq(@, 1, Len(@) - 1)])
                      ELSE st,
                    [bad |-> FALSE, s |-> <<>>], b)
Bodies == {b \in UNION {[1..n -> Kinds] : n \in 1..MaxLen} : ~Nest(b).bad}
ScSet == {[body |-> b, eol |-> e, final |-> f, trunc |-> t] : b \in Bodies, e \in Eols, f \in BOOLEAN, t \in Truncs}
ScSeq == SetToSeq(ScSet)
Chosen == {i \in DOMAIN ScSeq : ((i % Stride) * (7919 % Stride) + Seed) % Stride = 0}   \* = (i*7919 + Seed) % Stride, without 32-bit overflow
Closers(b) == [j \in 1..Len(Nest(b).s) |-> "GX"]              \* the groups still open are closed before the epilogue
UnitsOf(s) == Prologue \o s.body \o Closers(s.body) \o TailOf(s.trunc)

VARIABLES sc, resA, resI, done
vars == <<sc, resA, resI, done>>

Init == sc \in {ScSeq[i] : i \in Chosen} /\ resA = <<>> /\ resI = <<>> /\ done = FALSE
Eval == /\ ~done /\ done' = TRUE /\ sc' = sc
        /\ resA' = RunA(UnitsOf(sc))
        /\ resI' = RunI(UnitsOf(sc), sc.eol, sc.final)
        /\ IF Emit THEN CSVWrite("%1$s", <<ToJson([body |-> sc.body, eol |-> sc.eol, final |-> sc.final, trunc |-> sc.trunc,
                                                    exp |-> resA', nphys |-> Len(PhysLines(UnitsOf(sc), "m")), pad |-> Pad])>>, IOEnv.OUT)
           ELSE TRUE
Next == Eval
Spec == Init /\ [][Next]_vars

-----------------------------------------------------------------------------
(* the tree as it is: Level A up to exactly the two recorded deviations *)
DirectKinds == {"P", "KP", "MB", "MC", "MK", "MT"}     \* probes written directly in a file, not on a continuation line
SameButRecorded ==
  done => /\ Len(resI) = Len(resA)
          /\ \A i \in DOMAIN resA :
               /\ resI[i].id = resA[i].id
               /\ resI[i].file = resA[i].file
               /\ \/ resA[i].k \in {"SP", "EOF"}
                  \/ resI[i].line = resA[i].line + (IF resA[i].g THEN RecordedLineDev ELSE 0)
               \* the position the parser and codegen see: a token written directly in the file keeps its position
               /\ \/ resA[i].k \notin DirectKinds
                  \/ resI[i].pline = resA[i].line + (IF resA[i].g THEN RecordedLineDev ELSE 0)
               \* the end of input: the last line or the one after it - up to the recorded deviation
               /\ \/ resA[i].k # "EOF"
                  \/ IF resA[i].g /\ RecordedEofDev
                     THEN resI[i].pline = resA[i].phys + 1
                     ELSE resI[i].pline - (IF resA[i].g THEN RecordedLineDev ELSE 0) \in {resA[i].line, resA[i].line + 1}
(* the same probes are seen, in the same order (comments swallow exactly what they should) *)
SameProbes == done => [i \in DOMAIN resI |-> resI[i].id] = [i \in DOMAIN resA |-> resA[i].id]
(* control: with the continuation-line probes included the levels differ (finding D16) *)
SameAll == done => /\ Len(resI) = Len(resA)
                   /\ \A i \in DOMAIN resA : resI[i].id = resA[i].id /\ resI[i].file = resA[i].file
                                               /\ (resA[i].k = "EOF" \/ resI[i].line = resA[i].line + (IF resA[i].g THEN RecordedLineDev ELSE 0))
=============================================================================
