SPECIFICATION Spec
CONSTANTS MaxLen = 2
 Pad = 0
 Kinds = {"P","B","C","CS","K2","K3","KP","SN","SN3","SP","D","U","V","I0","I2","J1","IL","L","F","W","MB","MK","MT","G1","G0","GE","GX"}
 Eols = {"LF","CRLF","CR"}
 Seed = 0
 Stride = 1
 LineOff = 1
 LineInGroupFix = TRUE
 Truncs = {"none"}
 DeltaStamp = "token"
 NumberEof = TRUE
 EofStamp = FALSE
 RecordedEofDev = TRUE
 RecordedLineDev = 1
 Emit = TRUE
INVARIANTS SameButRecorded SameProbes
CHECK_DEADLOCK FALSE
