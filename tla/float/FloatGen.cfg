SPECIFICATION Spec
CONSTANTS Fams = {"conv","arith","neg","cmp","truth","dec","hex","mixed","opasg","vararg","d2l","d2r","chl","chr","tcv","tar","lim","szof"}
 Seed = 0
 Stride = 1
CHECK_DEADLOCK FALSE
