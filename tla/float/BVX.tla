-------------------------------- MODULE BVX ---------------------------------
(* C02: arbitrary-length naturals for exact floating-point reference arithmetic.

   lib/BV.tla (C01) is a fixed 128-bit two's-complement integer.  That is wide
   enough for C integer arithmetic, but the *exact* intermediate results of
   IEEE arithmetic on the x87 extended format are not: an aligned sum has up
   to 2*64+3 = 131 bits, a dividend 2*64+2 = 130 bits, and a 20-digit decimal
   constant times 10^25 has 150 bits.  BVX therefore extends BV's design (base-256
   limbs, little-endian, every loop an eager FoldLeft, no lazy function
   constructors) to naturals of any length:

     an X value is a sequence of limbs 0..255, least significant first,
     *canonical*: no most-significant zero limb, zero is << >>.  Canonical
     values make = the equality of numbers.

   API (a, b: X values; n, k: TLC integers)
     XZero, XOne, XFromInt(n) (0 <= n < 2^31), XToInt(a) (a < 2^31)
     XAdd(a,b)  XSub(a,b) (a >= b)  XMul(a,b)
     XCmp(a,b) in {-1,0,1}   XLt XLe   XIsZero
     XBitLen(a)              number of significant bits (0 for zero)
     XBit(a,k)               bit k as 0/1
     XShl(a,k)  XShr(a,k)    a * 2^k ; floor(a / 2^k)
     XLowZero(a,k)           a mod 2^k = 0
     XPow2(k)   XPow10(k)
     XDivMod(a,b)            <<floor(a/b), a mod b>>, b # 0 (restoring, XBitLen(a) steps)
     XFromDigits(ds)         from decimal digits, most significant first
     XFromHexDigits(ds)      from hex digits 0..15, most significant first
     XBytes(a,n)             the n low limbs, zero-padded (a JSON list of n bytes)
     XFromBytes(s)           canonical value of a byte list
     XFromBV(a)              a non-negative BV value (lib/BV.tla) as an X value
     XToBV(a)                an X value < 2^127 as a BV value
     With(v, F)              F(v) with v evaluated exactly once (TLC re-evaluates LET-bound
                             values and arguments at every use inside an action)           *)
EXTENDS Integers, Sequences, SequencesExt
BV == INSTANCE BV

Ix(n) == [i \in 1..n |-> i]
With(v, F(_)) == FoldLeft(LAMBDA acc, xx : F(xx), FALSE, <<v>>)
Max2(a, b) == IF a >= b THEN a ELSE b
Min2(a, b) == IF a <= b THEN a ELSE b

L(s, i) == IF i >= 1 /\ i <= Len(s) THEN s[i] ELSE 0
TopNZ(s) == FoldLeft(LAMBDA acc, i : IF s[i] # 0 THEN i ELSE acc, 0, Ix(Len(s)))
Trim(s) == IF Len(s) = 0 \/ s[Len(s)] # 0 THEN s ELSE SubSeq(s, 1, TopNZ(s))

XZero == << >>
XOne == <<1>>
XIsZero(a) == a = << >>
XFromInt(n) == Trim(<<n % 256, (n \div 256) % 256, (n \div 65536) % 256, (n \div 16777216) % 256>>)
XToInt(a) == L(a, 1) + 256 * L(a, 2) + 65536 * L(a, 3) + 16777216 * L(a, 4)

(* acc = <<carry, limbs>> *)
XAdd(a, b) ==
  LET r == FoldLeft(LAMBDA acc, i : LET s == L(a, i) + L(b, i) + acc[1]
                                    IN <<s \div 256, Append(acc[2], s % 256)>>,
                    <<0, << >>>>, Ix(Max2(Len(a), Len(b)) + 1))
  IN Trim(r[2])
XSub(a, b) ==
  LET r == FoldLeft(LAMBDA acc, i : LET d == L(a, i) - L(b, i) - acc[1]
                                    IN IF d < 0 THEN <<1, Append(acc[2], d + 256)>>
                                       ELSE <<0, Append(acc[2], d)>>,
                    <<0, << >>>>, Ix(Len(a)))
  IN Trim(r[2])
(* schoolbook; column sums stay below 2^31 for operands up to 2^15 limbs *)
XCol(a, b, k) == FoldLeft(LAMBDA s, i : s + a[i] * L(b, k + 1 - i), 0, Ix(Min2(k, Len(a))))
XMul(a, b) ==
  IF a = << >> \/ b = << >> THEN << >>
  ELSE LET r == FoldLeft(LAMBDA acc, k : LET s == XCol(a, b, k) + acc[1]
                                         IN <<s \div 256, Append(acc[2], s % 256)>>,
                         <<0, << >>>>, Ix(Len(a) + Len(b)))
       IN Trim(r[2])

(* canonical values: the longer one is the larger *)
XCmp(a, b) ==
  IF Len(a) # Len(b) THEN (IF Len(a) < Len(b) THEN -1 ELSE 1)
  ELSE FoldLeft(LAMBDA acc, j : LET i == Len(a) + 1 - j
                                IN IF acc # 0 THEN acc
                                   ELSE IF a[i] < b[i] THEN -1 ELSE IF a[i] > b[i] THEN 1 ELSE 0,
                0, Ix(Len(a)))
XLt(a, b) == XCmp(a, b) = -1
XLe(a, b) == XCmp(a, b) # 1

BL8(x) == IF x >= 128 THEN 8 ELSE IF x >= 64 THEN 7 ELSE IF x >= 32 THEN 6 ELSE IF x >= 16 THEN 5
          ELSE IF x >= 8 THEN 4 ELSE IF x >= 4 THEN 3 ELSE IF x >= 2 THEN 2 ELSE IF x >= 1 THEN 1 ELSE 0
XBitLen(a) == IF a = << >> THEN 0 ELSE 8 * (Len(a) - 1) + BL8(a[Len(a)])
XBit(a, k) == (L(a, (k \div 8) + 1) \div (2 ^ (k % 8))) % 2

XShl(a, k) ==
  IF a = << >> THEN << >>
  ELSE LET q == k \div 8  r == k % 8
       IN Trim(FoldLeft(LAMBDA acc, i : Append(acc, ((L(a, i - q) * (2 ^ r)) % 256)
                                                     + (L(a, i - q - 1) \div (2 ^ (8 - r)))),
                        << >>, Ix(Len(a) + q + 1)))
XShr(a, k) ==
  LET q == k \div 8  r == k % 8
  IN IF q >= Len(a) THEN << >>
     ELSE Trim(FoldLeft(LAMBDA acc, i : Append(acc, (L(a, i + q) \div (2 ^ r))
                                                     + ((L(a, i + q + 1) * (2 ^ (8 - r))) % 256)),
                        << >>, Ix(Len(a) - q)))
XLowZero(a, k) ==
  LET q == k \div 8  r == k % 8
  IN /\ \A i \in 1..Min2(q, Len(a)) : a[i] = 0
     /\ L(a, q + 1) % (2 ^ r) = 0
XPow2(k) == XShl(XOne, k)
XTen == <<10>>
XPow10(k) == FoldLeft(LAMBDA acc, i : XMul(acc, XTen), XOne, Ix(k))

(* restoring division, one quotient bit per step, most significant first;
   acc = <<remainder, quotient>> *)
XDbl(a, inb) ==      \* 2a + inb
  Trim(FoldLeft(LAMBDA acc, i : Append(acc, ((L(a, i) * 2) % 256) + (IF i = 1 THEN inb ELSE L(a, i - 1) \div 128)),
                << >>, Ix(Len(a) + 1)))
XDivMod(a, b) ==
  LET n == XBitLen(a)
      r == FoldLeft(LAMBDA acc, j : LET r2 == XDbl(acc[1], XBit(a, n - j))
                                    IN IF XCmp(r2, b) >= 0 THEN <<XSub(r2, b), XDbl(acc[2], 1)>>
                                       ELSE <<r2, XDbl(acc[2], 0)>>,
                    <<XZero, XZero>>, Ix(n))
  IN <<r[2], r[1]>>

XFromDigits(ds) == FoldLeft(LAMBDA acc, d : XAdd(XMul(acc, XTen), XFromInt(d)), XZero, ds)
XFromHexDigits(ds) == FoldLeft(LAMBDA acc, d : XAdd(XShl(acc, 4), XFromInt(d)), XZero, ds)
XBytes(a, n) == FoldLeft(LAMBDA acc, i : Append(acc, L(a, i)), << >>, Ix(n))
XFromBytes(s) == Trim(s)
XFromBV(a) == Trim(a)
XToBV(a) == BV!FromLimbs(IF a = << >> THEN <<0>> ELSE a, FALSE)
=============================================================================
