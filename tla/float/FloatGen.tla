------------------------------- MODULE FloatGen ------------------------------
(* C02 test-vector generation at the real formats (SoftFloat over BVX).

   The domain D is closed and enumerated: one initial state per *case*
   (family, operator, operand types), one successor per choice of operand
   values from the tables below.  Every successor on which Level A is DEFINED
   is written to IOEnv.OUT as one JSON line.  Operands and expected results are
   *object bytes* (little-endian; 4/8/10 for float/double/long double, the
   type's size for integers), so neither the injection of an operand nor the
   observation of a result goes through a floating literal or printf("%f").
   rn = TRUE: the result must be a NaN (sign and payload not prescribed).

   Families
     conv    (at)x -> bt : every ordered pair of the 12 arithmetic types, every value of the
             source type's table on which the conversion is defined (6.3.1.2 - 6.3.1.5)
     arith   x op y, op in add sub mul div, both operands of one floating type, ArT x ArT
     neg     -x, ++x, x-- (the object afterwards), the value of x++ and x-- (the old value, 6.5.2.4p2)
     cmp     x op y, six relational/equality operators, CmT x CmT  (int result)
     truth   if (x) / !x / x ? : / (x && y) / (x || y) over CmT    (int result)
     dec     decimal floating constants  digits x 10^e  x suffix
     hex     hexadecimal floating constants
     mixed   x op y with operands of different arithmetic types, at least one floating:
             usual arithmetic conversions, result type and value
             (+ - * / < ==, and c ? x : y whose type is the common type, 6.5.15p5)
     opasg   x op= y with operands of different arithmetic types, at least one floating
             (6.5.16.2: x = (T)(x op y) evaluated in the common type); defined cases only
     vararg  a float / double argument matching "..." (default argument promotion)
     d2l d2r (x op y) op2 z  /  z op2 (x op y): nested operations (temporaries on the stack / the x87
             register stack, operand order at depth 2); op in + - /, op2 in - / *; the case's "b" is op2

     chl chr ((F)(I)x) op rhs  /  rhs op ((F)(I)x): a binary operator or comparison in a floating type F
             one of whose operands is a *conversion chain* applied to a variable or constant x of any
             arithmetic type S, through any arithmetic type I (the case's "b") back to F; rhs is a
             variable y or the sum y + z.  The conversion sequences (2^63 split, cmp_zero for _Bool,
             the x87 bracket) run while the other operand is live in a register or on a stack; chains
             through unsigned long and _Bool are never subsampled.  op in - / < ==, F and the form of
             rhs are enumerated by the second value index.

     tcv     a truth test whose operand is an *rvalue just produced in a register*, not an object that
             is loaded: E = (T)x / (t = x) / g(x) returning T / -(T)x / (k, (T)x) with x of any of the
             12 arithmetic types S and T a floating type, tested by if-while-for / ! / ?: / (_Bool) /
             E && k / E || k / y && E / y || E (y a double: the register E is produced in was just
             used for a value of another format).  Level A: Truth(Conv(S, T, x)).  The case's "b" is
             T, the second value index enumerates the form of E.  (6.3.1.2, 6.5.3.3, 6.5.13-15, 6.8.4.1,
             6.8.5: "compares unequal to 0" is a property of the *value of type T* - whatever else the
             register that holds it contains.)
     tar     the same truth tests with E = x op y, op in + - * /, over values whose results are
             +0, -0 (underflow, cancellation), NaN (inf - inf, 0/0), infinities; the case's "b" is op
     lim     the macros of <float.h> (5.2.4.2.2): every one is a function of the format record
             [p, emin, emax] that the arithmetic families are checked with, of the evaluation
             method (operations are evaluated in the format of their type: 0) and of the rounding
             of Round (to nearest: 1); integer-valued ones also in #if
     szof    the predefined __SIZEOF_<T>__ macros = sizeof(T) (psABI sizes; long double is 16)

   Every vector also says whether one of its operands or its result is a *special* floating
   value (sp: -0, NaN, an infinity or a subnormal).  The replay embeds each vector in several
   program contexts (operands from memory; constants in a run-time expression; static
   initializer; element initializer of an automatic array / nested array / array member of a
   struct / designated element / block-scope compound literal - 6.7.9, 6.5.2.5); special
   vectors are replayed in every context in both tiers, because that is where an
   "optimised" initializer or constant path loses a sign bit or a payload.

   Seed/Stride subsample the large families (arith cmp truth-binary dec hex mixed) for the
   quick tier; conv, neg, the unary truth tests and vararg are always complete.
   The guard is evaluated before any wide arithmetic.                                    *)
EXTENDS SoftFloatX, TLC, Json, CSV, IOUtils

CONSTANTS Fams, Seed, Stride

VARIABLES fam, op, a, b, i, j, ph, hb
vars == <<fam, op, a, b, i, j, ph, hb>>

TSeq == <<"bool", "char", "uchar", "short", "ushort", "int", "uint", "long", "ulong", "float", "double", "ldouble">>
FSeq == <<"float", "double", "ldouble">>
TIdx(t) == CHOOSE n \in 1..Len(TSeq) : TSeq[n] = t
SizeOf(t) == CASE t = "float" -> 4 [] t = "double" -> 8 [] t = "ldouble" -> 16 [] OTHER -> StoreW(t) \div 8

X(n) == XFromInt(n)
P(k) == XPow2(k)
Pp(k, d) == XAdd(XPow2(k), XFromInt(d))
Pm(k, d) == XSub(XPow2(k), XFromInt(d))
PA(k, l) == XAdd(XPow2(k), XPow2(l))
PS(k, l) == XSub(XPow2(k), XPow2(l))

(* ---- integer boundary values ---------------------------------------------- *)
IPos == <<X(0), X(1), X(2), X(3), X(100), X(127), X(128), X(255), X(256), X(32767), X(32768), X(65535), X(65536),
          Pm(24, 1), P(24), Pp(24, 1), Pp(24, 2), Pp(24, 3), Pp(25, 2), Pp(25, 6),
          Pm(31, 1), P(31), Pp(31, 1), X(1234567890) , XFromDigits(<<3,0,0,0,0,0,0,0,0,0>>), Pm(32, 1), P(32), Pp(32, 1),
          Pm(53, 1), P(53), Pp(53, 1), Pp(53, 2), Pp(53, 3), PA(54, 1), Pp(54, 6),
          XFromDigits(<<1,2,3,4,5,6,7,8,9,0,1,2,3,4,5,6,7,8,9>>),
          Pm(63, 1), PS(63, 10), Pm(63, 513), PS(63, 9), PS(63, 39), PS(63, 38),
          P(63), Pp(63, 1), PA(63, 10), Pp(63, 1025), PA(63, 11), XAdd(PA(63, 11), PA(10, 0)), PA(63, 39), XAdd(PA(63, 39), X(1)),
          XAdd(PA(63, 40), PS(39, 0)), Pp(63, 5121), XAdd(XAdd(PA(63, 41), PA(39, 0)), X(0)),
          Pm(64, 1), PS(64, 10), Pm(64, 1025), PS(64, 11), PS(64, 40), XSub(PS(64, 40), X(1)), PS(64, 39)>>
INeg == <<X(1), X(2), X(100), X(128), X(129), X(32768), X(32769), Pp(24, 1), Pp(24, 3), P(31), Pp(31, 1), Pp(32, 1),
          Pp(53, 1), Pp(53, 3), Pm(63, 1), Pm(63, 513), P(63)>>
ICand == FoldLeft(LAMBDA acc, m : Append(acc, IV(FALSE, m)), << >>, IPos)
         \o FoldLeft(LAMBDA acc, m : Append(acc, IV(TRUE, m)), << >>, INeg)
IntTab(t) == SelectSeq(ICand, LAMBDA v : IntInRange(t, v))

(* ---- floating values ---------------------------------------------------------- *)
FI(F, n) == IntToFloat(F, IV(FALSE, X(n)))
Vd(F, s, m, e) == Round(F, s, m, e, FALSE)        \* the canonical record of an exactly representable m * 2^e
MinDen(F) == Fin(0, F.emin - F.p + 1, XOne)
MinNorm(F) == Fin(0, F.emin - F.p + 1, P(F.p - 1))
MaxFin(F) == Fin(0, F.emax - F.p + 1, Pm(F.p, 1))
Third(F) == Div(F, FI(F, 1), FI(F, 3))
Tenth(F) == DecimalToFloat(F, X(1), -1)
OnePlus(F) == Fin(0, 1 - F.p, Pp(F.p - 1, 1))            \* 1 + ulp
OneMinus(F) == Fin(0, -F.p, Pm(F.p, 1))                  \* 1 - ulp/2, the predecessor of 1
Dy(s, m, e) == <<s, m, e>>
(* dyadic boundary values m * 2^e; each format takes those it can represent exactly *)
DC == <<Dy(0, X(1), 0), Dy(1, X(1), 0), Dy(0, X(1), -1), Dy(1, X(1), -1), Dy(0, X(3), -1), Dy(1, X(3), -1), Dy(0, X(5), -1),
        Dy(1, X(3), -2), Dy(0, X(2), 0), Dy(1, X(29), -2),
        Dy(0, X(127), 0), Dy(0, X(255), -1), Dy(0, X(128), 0), Dy(1, X(128), 0), Dy(1, X(257), -1), Dy(1, X(129), 0),
        Dy(0, X(255), 0), Dy(0, X(511), -1), Dy(0, X(256), 0),
        Dy(0, X(32767), 0), Dy(0, X(65535), -1), Dy(0, X(32768), 0), Dy(1, X(32768), 0), Dy(1, X(65537), -1), Dy(1, X(32769), 0),
        Dy(0, X(65535), 0), Dy(0, X(131071), -1), Dy(0, X(65536), 0),
        Dy(0, Pm(24, 1), 0), Dy(0, P(24), 0), Dy(0, Pp(24, 1), 0), Dy(0, Pp(24, 2), 0),
        Dy(0, Pm(31, 1), 0), Dy(0, Pm(32, 1), -1), Dy(0, P(31), 0), Dy(0, Pp(31, 1), 0), Dy(0, PA(31, 8), 0),
        Dy(1, P(31), 0), Dy(1, Pp(32, 1), -1), Dy(1, Pp(31, 1), 0), Dy(1, PA(31, 8), 0),
        Dy(0, X(1234567890), 0), Dy(0, XFromDigits(<<3,0,0,0,0,0,0,0,0,0>>), 0), Dy(0, XFromDigits(<<4,0,0,0,0,0,0,0,0,0>>), 0),
        Dy(0, Pm(32, 1), 0), Dy(0, Pm(33, 1), -1), Dy(0, PS(32, 8), 0), Dy(0, P(32), 0), Dy(0, Pp(32, 1), 0),
        Dy(0, XFromDigits(<<1,0,0,0,0,0,0,0,0,0,0>>), 0),
        Dy(0, Pm(53, 1), 0), Dy(0, P(53), 0), Dy(0, Pp(53, 1), 0), Dy(0, Pp(53, 2), 0),
        Dy(0, Pm(63, 1), 0), Dy(0, PS(63, 10), 0), Dy(0, PS(63, 39), 0), Dy(0, Pm(64, 1), -1), Dy(0, P(63), 0), Dy(0, Pp(63, 1), 0),
        Dy(0, PA(63, 11), 0), Dy(0, PA(63, 40), 0), Dy(1, P(63), 0), Dy(1, Pp(63, 1), 0), Dy(1, PA(63, 11), 0), Dy(1, PA(63, 40), 0),
        Dy(0, Pm(64, 1), 0), Dy(0, PS(64, 11), 0), Dy(0, PS(64, 40), 0), Dy(0, P(64), 0), Dy(0, PA(64, 41), 0),
        Dy(0, XFromDigits(<<1,2,3,4,5,6,7,8,9,0,1,2,3,4,5,6,7,8,9>>), 0),
        (* values that round differently when narrowed *)
        Dy(0, Pp(24, 1), -24), Dy(0, Pp(24, 3), -24), Dy(0, XAdd(PA(52, 28), X(1)), -52), Dy(1, XAdd(PA(52, 28), X(1)), -52),
        Dy(0, Pp(53, 1), -53), Dy(0, Pp(53, 3), -53), Dy(0, XAdd(PA(63, 10), X(1)), -63),
        Dy(0, X(1), -149), Dy(0, X(1), -150), Dy(0, X(3), -151), Dy(0, Pm(25, 1), -151),
        Dy(0, X(1), -1074), Dy(0, X(1), -1075), Dy(1, X(3), -1076), Dy(0, Pm(54, 1), -1076)>>
FromDy(F) == FoldLeft(LAMBDA acc, d : IF Exact(F, d[1], d[2], d[3]) THEN Append(acc, Round(F, d[1], d[2], d[3], FALSE)) ELSE acc,
                      << >>, DC)
ConvTab(F) == <<Zero(0), Zero(1), Inf(0), Inf(1), NaN, MinDen(F), Neg(MinDen(F)), MinNorm(F), MaxFin(F), Neg(MaxFin(F)),
                Third(F), Neg(Third(F)), Tenth(F), OnePlus(F), OneMinus(F)>> \o FromDy(F)
(* the operand set of the arithmetic operators: format, operand order and rounding point distinguishable *)
ArTab(F) == <<Zero(0), Zero(1), FI(F, 1), Neg(FI(F, 1)), FI(F, 2), FI(F, 3), Vd(F, 0, X(1), -1), Vd(F, 0, X(3), -1), FI(F, 10),
              Third(F), Tenth(F), Fin(0, 1, P(F.p - 1)), Fin(0, 0, Pm(F.p, 1)), Fin(0, 0, Pp(F.p - 1, 1)),
              OnePlus(F), OneMinus(F), MinDen(F), MinNorm(F), MaxFin(F), Neg(MaxFin(F)), Inf(0), Inf(1), NaN,
              Vd(F, 1, X(29), -2)>>
(* the class set of the comparisons and truth tests *)
CmTab(F) == <<NaN, Inf(0), Inf(1), Zero(0), Zero(1), FI(F, 1), Neg(FI(F, 1)), MinDen(F), Neg(MinDen(F)), OnePlus(F),
              FI(F, 2), MaxFin(F), Neg(MaxFin(F)), Vd(F, 0, X(1), -1)>>
(* depth 2: finite non-zero values whose sums, differences, products and quotients round *)
D2Tab(F) == <<FI(F, 1), FI(F, 3), Third(F), Tenth(F), Vd(F, 1, X(29), -2), Fin(0, 0, Pm(F.p, 1)), OnePlus(F), FI(F, 10)>>
(* mixed-type arithmetic: few values per type *)
MixTab(t) == IF IsF(t) THEN <<Third(Fmt(t)), FI(Fmt(t), 16777216), Vd(Fmt(t), 1, X(3), -1)>>
             ELSE IF t = "bool" THEN <<IV(FALSE, X(1))>>
             ELSE LET w == IntW(t)  mx == IF IntSg(t) THEN Pm(w - 1, 1) ELSE Pm(w, 1)
                  IN <<IV(FALSE, X(3)), IV(FALSE, IF w > 25 THEN Pp(24, 1) ELSE X(100)), IV(FALSE, mx)>>
                     \o (IF IntSg(t) THEN <<IV(TRUE, IF w > 25 THEN Pp(24, 3) ELSE X(7))>> ELSE << >>)

(* conversion chains: the chain's source values; NaN is defined only through _Bool or a floating I *)
ChTab(t) == IF IsF(t) THEN LET F == Fmt(t) IN
                           <<Third(F), FI(F, 200), FI(F, 16777216), Vd(F, 1, X(3), -1),
                             IntToFloat(F, IV(FALSE, XFromDigits(<<3,0,0,0,0,0,0,0,0,0>>))), Vd(F, 0, PA(63, 40), 0), NaN>>
             ELSE MixTab(t)

(* truth tests of rvalues: the source values of the conversion (x of type S); for a floating S the
   values whose conversion to a narrower format is +0 / -0 (underflow) although the source is not,
   the smallest values that stay non-zero, NaN, -inf *)
TcDy == <<Dy(0, X(1), -127), Dy(0, X(1), -149), Dy(0, X(1), -150), Dy(1, X(3), -151), Dy(1, X(1), -200),
          Dy(0, X(1), -1074), Dy(0, X(1), -1075), Dy(1, X(3), -1076), Dy(0, X(1), -2000)>>
TcTab(t) == IF IsF(t) THEN LET F == Fmt(t) IN
                           <<Zero(0), Zero(1), NaN, Inf(1), MinDen(F), Neg(MinDen(F)), MinNorm(F), Neg(MinNorm(F)),
                             FI(F, 1), Neg(Third(F)), MaxFin(F)>>
                           \o FoldLeft(LAMBDA acc, d : IF Exact(F, d[1], d[2], d[3]) /\ Round(F, d[1], d[2], d[3], FALSE) \notin {MinDen(F), Neg(MinDen(F)), MinNorm(F)}
                                                       THEN Append(acc, Round(F, d[1], d[2], d[3], FALSE)) ELSE acc, << >>, TcDy)
             ELSE IF t = "bool" THEN <<IV(FALSE, X(0)), IV(FALSE, X(1))>>
             ELSE LET w == IntW(t) IN
                  <<IV(FALSE, X(0)), IV(FALSE, X(1)), IV(FALSE, IF IntSg(t) THEN Pm(w - 1, 1) ELSE Pm(w, 1))>>
                  \o (IF IntSg(t) THEN <<IV(TRUE, X(1))>> ELSE << >>)
TCtx == {"if", "not", "cond", "bool", "land", "lor", "rland", "rlor"}
TForm == <<"cast", "asg", "ret", "neg", "comma">>
(* the left operand of y && E / y || E: a double that is true resp. false and whose object representation has
   bits set in the upper half *)
TcY(c) == IF c = "rland" THEN Third(F64) ELSE Zero(1)
CtxVal(c, t) == CASE c = "not" -> ~t
                  [] c = "land" -> t /\ TRUE           \* E && k, k = 1
                  [] c = "lor" -> t \/ FALSE           \* E || k, k = 0
                  [] c = "rland" -> Truth(TcY(c)) /\ t
                  [] c = "rlor" -> Truth(TcY(c)) \/ t
                  [] OTHER -> t                         \* if / while / for, ?:, (_Bool)
TaTab(F) == <<NaN, Zero(0), Zero(1), FI(F, 1), Neg(FI(F, 1)), MinDen(F), Neg(MinDen(F)), MaxFin(F), Inf(0), Third(F)>>

(* ---- <float.h> (5.2.4.2.2) and the __SIZEOF_*__ macros ---------------------------------
   C's model is x = s * b^e * 0.f1 f2 ... fp, so e_min(C) = emin + 1 and e_max(C) = emax + 1 for the
   IEEE exponents of the format record.  floor(log10(m * 2^s)) is computed exactly:
   10^q <= m * 2^s  <=>  5^q <= m * 2^(s-q)  (s >= q in every use).                          *)
Pow5(q) == LET big == FoldLeft(LAMBDA acc, k : XMul(X(1220703125), acc), XOne, [k \in 1..(q \div 13) |-> k])   \* 5^13 < 2^31
           IN FoldLeft(LAMBDA acc, k : XMul(X(5), acc), big, [k \in 1..(q % 13) |-> k])
FloorLog10(m, s) ==
  LET q0 == (((XBitLen(m) + s - 1) * 30103) \div 100000) - 1      \* a lower estimate: the answer is q0 .. q0 + 2
  IN Once(Pow5(q0), LAMBDA p0 :
       LET Le(p, q) == XCmp(p, XShl(m, s - q)) <= 0
           p1 == XMul(X(5), p0)  p2 == XMul(X(5), p1)  p3 == XMul(X(5), p2)
       IN IF ~Le(p0, q0) \/ Le(p3, q0 + 3) THEN -1000000                 \* the estimate is wrong: no vector
          ELSE IF Le(p2, q0 + 2) THEN q0 + 2 ELSE IF Le(p1, q0 + 1) THEN q0 + 1 ELSE q0)
LimPer == {"MANT_DIG", "DIG", "MIN_EXP", "MAX_EXP", "MIN_10_EXP", "MAX_10_EXP", "DECIMAL_DIG", "HAS_SUBNORM",
           "MAX", "MIN", "EPSILON", "TRUE_MIN"}
LimGlobal == {"FLT_RADIX", "FLT_EVAL_METHOD", "FLT_ROUNDS", "DECIMAL_DIG"}
LimIsInt(m) == m \notin {"MAX", "MIN", "EPSILON", "TRUE_MIN"}
LimInt(m, F) ==
  CASE m = "MANT_DIG" -> F.p
    [] m = "MIN_EXP" -> F.emin + 1
    [] m = "MAX_EXP" -> F.emax + 1
    [] m = "DIG" -> FloorLog10(XOne, F.p - 1)                          \* floor((p-1) log10 b), b not a power of 10
    [] m = "DECIMAL_DIG" -> 2 + FloorLog10(XOne, F.p)                  \* ceil(1 + p log10 b)
    [] m = "MIN_10_EXP" -> -FloorLog10(XOne, -F.emin)                  \* ceil(log10 b^(emin(C)-1))
    [] m = "MAX_10_EXP" -> FloorLog10(Pm(F.p, 1), F.emax - F.p + 1)    \* floor(log10((1 - b^-p) b^emax(C)))
    [] m = "HAS_SUBNORM" -> 1                                          \* Round produces subnormals
LimFlt(m, F) ==
  CASE m = "MAX" -> MaxFin(F)
    [] m = "MIN" -> MinNorm(F)
    [] m = "EPSILON" -> Round(F, 0, XOne, 1 - F.p, FALSE)              \* b^(1-p)
    [] m = "TRUE_MIN" -> MinDen(F)
LimGlobalInt(m) ==
  CASE m = "FLT_RADIX" -> 2                                            \* a finite value is m * 2^e
    [] m = "FLT_EVAL_METHOD" -> 0                                      \* Arith(Fmt(t), ...): every operation in the format of its type
    [] m = "FLT_ROUNDS" -> 1                                           \* Round: to nearest
    [] m = "DECIMAL_DIG" -> LimInt("DECIMAL_DIG", F80)                 \* of the widest supported type
LimPfx(t) == CASE t = "float" -> "FLT" [] t = "double" -> "DBL" [] t = "ldouble" -> "LDBL" [] OTHER -> ""
II(n) == IV(n < 0, X(IF n < 0 THEN -n ELSE n))
(* <<macro, operand of sizeof in C, size>> *)
SzTab == <<<<"__SIZEOF_SHORT__", "short", StoreW("short") \div 8>>, <<"__SIZEOF_INT__", "int", StoreW("int") \div 8>>,
           <<"__SIZEOF_LONG__", "long", StoreW("long") \div 8>>, <<"__SIZEOF_LONG_LONG__", "long long", WLong \div 8>>,
           <<"__SIZEOF_FLOAT__", "float", SizeOf("float")>>, <<"__SIZEOF_DOUBLE__", "double", SizeOf("double")>>,
           <<"__SIZEOF_LONG_DOUBLE__", "long double", SizeOf("ldouble")>>,
           <<"__SIZEOF_POINTER__", "void *", WLong \div 8>>, <<"__SIZEOF_PTRDIFF_T__", "(char *)0 - (char *)0", WLong \div 8>>,
           <<"__SIZEOF_SIZE_T__", "sizeof(int)", WLong \div 8>>>>

(* ---- constants --------------------------------------------------------------- *)
DecMan == <<<<1>>, <<2>>, <<3>>, <<5>>, <<7>>, <<9>>, <<1,7>>, <<2,5>>, <<3,3>>, <<1,2,3>>, <<1,0,2,4>>, <<6,5,5,3,6>>,
            <<1,6,7,7,7,2,1,7>>, <<1,2,3,4,5,6,7,8,9>>, <<4,2,9,4,9,6,7,2,9,5>>,
            <<9,0,0,7,1,9,9,2,5,4,7,4,0,9,9,3>>, <<9,0,0,7,1,9,9,2,5,4,7,4,0,9,9,2>>,
            <<1,8,4,4,6,7,4,4,0,7,3,7,0,9,5,5,1,6,1,5>>, <<1,8,4,4,6,7,4,4,0,7,3,7,0,9,5,5,1,6,1,7>>,
            <<9,0,0,7,1,9,9,2,5,4,7,4,0,9,9,3,0,0,0,1>>, <<7,2,0,5,7,5,9,8,3,3,2,8,9,5,2,3,2,0,0,1>>,
            <<7,2,0,5,7,5,9,4,0,3,7,9,2,7,9,4,4,0,0,1>>,
            <<1,2,3,4,5,6,7,8,9,0,1,2,3,4,5,6,7,8,9,1>>, <<9,9,9,9,9,9,9,9,9,9,9,9,9,9,9,9,9,9,9,9>>,
            <<3,3,3,3,3,3,3,3,3,3,3,3,3,3,3,3,3,3,3,3>>, <<3,1,4,1,5,9,2,6,5,3,5,8,9,7,9,3,2,3,8,5>>,
            <<8,0,0,0,0,4,8,6,3,0,6,0,6,0,6,3,8,6>>>>
(* the constants that expose a double rounding through long double (with exponents -4, -3, -3, -17): never subsampled *)
DecAlways == {20, 21, 22, 27}
DecExp == <<-25, -22, -17, -10, -5, -4, -3, -1, 0, 1, 3, 5, 10, 15, 22, 23, 25>>
HexMan == <<<<1>>, <<3>>, <<12,8>>, <<10,11,12,13,14,15>>, <<1,15,15,15,15,15,15>>, <<1,0,0,0,0,0,1>>, <<1,0,0,0,0,0,3>>,
            <<1,15,15,15,15,15,15,15,15,15,15,15,15,15>>, <<3,15,15,15,15,15,15,15,15,15,15,15,15,15>>,
            <<2,0,0,0,0,0,0,0,0,0,0,0,0,1>>, <<2,0,0,0,0,0,0,0,0,0,0,0,0,3>>,
            <<15,15,15,15,15,15,15,15,15,15,15,15,15,15,15,15>>, <<8,0,0,0,0,0,0,0,0,0,0,0,0,0,0,1>>,
            <<1,15,15,15,15,15,15,15,15,15,15,15,15,15,15,15,15>>, <<1,0,0,0,0,0,0,0,0,0,0,0,0,0,0,0,1>>,
            <<1,0,0,0,0,0,0,0,0,0,0,0,0,0,0,0,3>>>>
HexExp == <<-16445, -16400, -1100, -1074, -1022, -1000, -149, -130, -126, -64, -10, -1, 0, 1, 10, 63, 100, 127, 960, 1023, 16000>>
DigitChar == <<"0", "1", "2", "3", "4", "5", "6", "7", "8", "9", "a", "b", "c", "d", "e", "f">>
Str(ds) == FoldLeft(LAMBDA acc, d : acc \o DigitChar[d + 1], "", ds)

(* eager tables, evaluated once into TLC registers (see ExprGen.tla) *)
TabOf(G(_), names) == FoldLeft(LAMBDA f, t : (t :> G(t)) @@ f, << >>, names)
CvT(t) == IF IsF(t) THEN ConvTab(Fmt(t)) ELSE IntTab(t)
ASSUME TLCSet(21, TabOf(CvT, TSeq))
ASSUME TLCSet(22, TabOf(LAMBDA t : ArTab(Fmt(t)), FSeq))
ASSUME TLCSet(23, TabOf(LAMBDA t : CmTab(Fmt(t)), FSeq))
ASSUME TLCSet(24, TabOf(MixTab, TSeq))
ASSUME TLCSet(25, TabOf(LAMBDA t : D2Tab(Fmt(t)), FSeq))
ASSUME TLCSet(26, TabOf(ChTab, TSeq))
ASSUME TLCSet(28, TabOf(TcTab, TSeq))
ASSUME TLCSet(29, TabOf(LAMBDA t : TaTab(Fmt(t)), FSeq))
ASSUME TLCSet(27, TabOf(LAMBDA t : LET F == Fmt(t)  y == Third(F)  z == Vd(F, 1, X(29), -2) IN <<y, z, Add(F, y, z)>>, FSeq))

D2 == fam \in {"d2l", "d2r"}
Ch == fam \in {"chl", "chr"}
D2x == D2 \/ fam = "tar"                       \* both operands of type a, the case's "b" is an operator
NoOp == fam \in {"dec", "hex", "lim", "szof"}  \* no operand values
Unary == fam \in {"conv", "neg", "vararg"} \/ (fam = "truth" /\ op \in {"if", "not", "cond"})
Tab(t) == CASE fam = "conv" -> TLCGet(21)[t]
            [] fam \in {"arith", "neg", "vararg"} -> TLCGet(22)[t]
            [] fam \in {"cmp", "truth"} -> TLCGet(23)[t]
            [] fam \in {"mixed", "opasg"} -> TLCGet(24)[t]
            [] D2 -> TLCGet(25)[t]
            [] Ch -> TLCGet(26)[t]
            [] fam = "tcv" -> TLCGet(28)[t]
            [] fam = "tar" -> TLCGet(29)[t]
NI1 == CASE fam = "dec" -> Len(DecMan) [] fam = "hex" -> Len(HexMan) [] fam \in {"lim", "szof"} -> 1 [] OTHER -> Len(Tab(a))
NJ1 == CASE fam = "dec" -> Len(DecExp) [] fam = "hex" -> Len(HexExp) [] Unary -> 1 [] fam \in {"lim", "szof"} -> 1
         [] D2x -> Len(Tab(a)) [] Ch -> 6 [] fam = "tcv" -> Len(TForm) [] OTHER -> Len(Tab(b))
(* the forms of E other than the plain cast are subsampled in the quick tier *)
Big == fam \in {"arith", "cmp", "dec", "hex", "mixed", "opasg", "d2l", "d2r", "chl", "chr", "tar"} \/ (fam = "truth" /\ op \in {"land", "lor"})
(* conversion chains: the second index enumerates (F, form of the right-hand operand) *)
ChF(jj) == FSeq[((jj - 1) % 3) + 1]
ChSum(jj) == (jj - 1) \div 3 = 1
ChY(jj) == TLCGet(27)[ChF(jj)][1]                        \* 1/3
ChZ(jj) == TLCGet(27)[ChF(jj)][2]                        \* -7.25
ChRhs(jj) == TLCGet(27)[ChF(jj)][IF ChSum(jj) THEN 3 ELSE 1]
ZIdx(ii, jj) == ((ii + jj) % Len(Tab(a))) + 1          \* the third operand of the depth-2 families

N1S == {"-"}
ArOps == {"add", "sub", "mul", "div"}
RelOps == {"lt", "le", "gt", "ge", "eq", "ne"}
Cases ==
  ({"conv"} \X N1S \X ATypes \X ATypes)
  \cup {<<"arith", o, t, t>> : o \in ArOps, t \in FTypes}
  \cup {<<"neg", o, t, "-">> : o \in {"neg", "inc", "dec", "postinc", "postdec"}, t \in FTypes}
  \cup {<<"cmp", o, t, t>> : o \in RelOps, t \in FTypes}
  \cup {<<"truth", o, t, "-">> : o \in {"if", "not", "cond"}, t \in FTypes}
  \cup {<<"truth", o, t, t>> : o \in {"land", "lor"}, t \in FTypes}
  \cup {<<"dec", "-", t, "-">> : t \in FTypes}
  \cup {<<"hex", "-", t, "-">> : t \in FTypes}
  \cup {<<"mixed", o, t, u>> : o \in {"add", "sub", "mul", "div", "lt", "eq", "cond"},
                              t \in ATypes, u \in ATypes}
  \cup {<<"opasg", o, t, u>> : o \in ArOps, t \in ATypes, u \in ATypes}
  \cup {<<"vararg", "-", t, "-">> : t \in {"float", "double"}}
  \cup {<<f, o, t, u>> : f \in {"chl", "chr"}, o \in {"sub", "div", "lt", "eq"}, t \in ATypes, u \in ATypes}
  \cup {<<f, o, t, o2>> : f \in {"d2l", "d2r"}, o \in {"add", "sub", "div"}, t \in FTypes, o2 \in {"sub", "div", "mul"}}
  \cup {<<"tcv", c, t, u>> : c \in TCtx, t \in ATypes, u \in FTypes}
  \cup {<<"tar", c, t, o2>> : c \in TCtx, t \in FTypes, o2 \in ArOps}
  \cup {<<"lim", m, t, "-">> : m \in LimPer, t \in FTypes}
  \cup {<<"lim", m, "-", "-">> : m \in LimGlobal}
  \cup {<<"szof", SzTab[k][1], "-", "-">> : k \in 1..Len(SzTab)}
CaseOK(cs) == cs[1] \in {"mixed", "opasg"} => (cs[3] # cs[4] /\ (IsF(cs[3]) \/ IsF(cs[4])))
OIdx(o) == CASE o = "add" -> 1 [] o = "sub" -> 2 [] o = "mul" -> 3 [] o = "div" -> 4 [] o = "lt" -> 5 [] o = "le" -> 6
             [] o = "gt" -> 7 [] o = "ge" -> 8 [] o = "eq" -> 9 [] o = "ne" -> 10 [] o = "land" -> 11 [] o = "lor" -> 12
             [] o = "cond" -> 13 [] o = "inc" -> 14 [] o = "dec" -> 15 [] o = "postinc" -> 16 [] o = "postdec" -> 17
             [] o = "if" -> 18 [] o = "not" -> 19 [] o = "bool" -> 20 [] o = "rland" -> 21 [] o = "rlor" -> 22
             [] OTHER -> 0
TI(t) == IF t = "-" THEN 0 ELSE TIdx(t)
CaseHash(cs) == OIdx(cs[2]) * 101 + TI(cs[3]) * 7 + (IF cs[1] \in {"d2l", "d2r", "tar"} THEN OIdx(cs[4]) * 17 ELSE TI(cs[4]) * 13)
Pick(ii, jj) == ((Big \/ (fam = "tcv" /\ jj > 1)) /\ ~(fam = "dec" /\ ii \in DecAlways) /\ ~(Ch /\ b \in {"ulong", "bool"})) => (hb + ii * 31 + jj * 37 + Seed) % Stride = 0

(* ---- Level A on the current case ------------------------------------------------ *)
ValBytes(t, v) == IF IsF(t) THEN Encode(Fmt(t), v) ELSE IntBytes(t, v)
ConvDef(t1, t2, v) == IF IsF(t1) THEN (IF IsF(t2) THEN ~(v.k = "fin" /\ FloatToFloat(Fmt(t2), v).k = "inf")
                                       ELSE F2IDefined(t2, v))
                      ELSE TRUE
Conv(t1, t2, v) == IF IsF(t1) THEN (IF IsF(t2) THEN FloatToFloat(Fmt(t2), v) ELSE FloatToInt(t2, v))
                   ELSE (IF IsF(t2) THEN IntToFloat(Fmt(t2), v) ELSE IntToInt(t2, v))
BoolIV(c) == IV(FALSE, IF c THEN X(1) ELSE X(0))
R(ok, t, v) == [ok |-> ok, t |-> t, v |-> v]
Expect(ii, jj) ==
  CASE fam = "conv"  -> LET v == Tab(a)[ii] IN IF ConvDef(a, b, v) THEN R(TRUE, b, Conv(a, b, v)) ELSE R(FALSE, b, 0)
    [] fam = "arith" -> R(TRUE, a, Arith(Fmt(a), op, Tab(a)[ii], Tab(a)[jj]))
    [] fam = "neg"   -> R(TRUE, a, CASE op = "neg" -> Neg(Tab(a)[ii])
                                      [] op = "inc" -> Add(Fmt(a), Tab(a)[ii], FI(Fmt(a), 1))
                                      [] op = "dec" -> Sub(Fmt(a), Tab(a)[ii], FI(Fmt(a), 1))
                                      [] OTHER -> Tab(a)[ii])
    [] fam = "cmp"   -> R(TRUE, "int", BoolIV(Rel(op, Tab(a)[ii], Tab(a)[jj])))
    [] fam = "truth" -> LET x == Tab(a)[ii] IN
                        R(TRUE, "int", BoolIV(CASE op \in {"if", "cond"} -> Truth(x)
                                                [] op = "not" -> ~Truth(x)
                                                [] op = "land" -> Truth(x) /\ Truth(Tab(a)[jj])
                                                [] op = "lor" -> Truth(x) \/ Truth(Tab(a)[jj])))
    [] fam = "dec"   -> LET r == DecimalToFloat(Fmt(a), XFromDigits(DecMan[ii]), DecExp[jj])
                        IN R(r.k = "fin" \/ (r.k = "zero" /\ FALSE), a, r)
    [] fam = "hex"   -> LET r == HexToFloat(Fmt(a), XFromHexDigits(HexMan[ii]), HexExp[jj]) IN R(r.k = "fin", a, r)
    [] fam = "mixed" -> LET ct == CommonType(a, b)
                            x == Conv(a, ct, Tab(a)[ii])
                            y == Conv(b, ct, Tab(b)[jj])
                        IN IF op \in {"lt", "eq"} THEN R(TRUE, "int", BoolIV(Rel(op, x, y)))
                           ELSE IF op = "cond" THEN R(TRUE, ct, x)
                           ELSE R(TRUE, ct, Arith(Fmt(ct), op, x, y))
    [] fam = "opasg" -> LET ct == CommonType(a, b)
                            r  == Arith(Fmt(ct), op, Conv(a, ct, Tab(a)[ii]), Conv(b, ct, Tab(b)[jj]))
                        IN IF ConvDef(ct, a, r) THEN R(TRUE, a, Conv(ct, a, r)) ELSE R(FALSE, a, 0)
    [] D2 -> LET F == Fmt(a)
                 in == Arith(F, op, Tab(a)[ii], Tab(a)[jj])
                 z  == Tab(a)[ZIdx(ii, jj)]
             IN R(TRUE, a, IF fam = "d2l" THEN Arith(F, b, in, z) ELSE Arith(F, b, z, in))
    [] Ch -> LET ft == ChF(jj)  F == Fmt(ft)  x == Tab(a)[ii] IN
             IF ~ConvDef(a, b, x) THEN R(FALSE, ft, 0)
             ELSE LET m == Conv(a, b, x) IN
                  IF ~ConvDef(b, ft, m) THEN R(FALSE, ft, 0)
                  ELSE LET cx  == Conv(b, ft, m)
                           rhs == ChRhs(jj)
                           l   == IF fam = "chl" THEN cx ELSE rhs
                           r   == IF fam = "chl" THEN rhs ELSE cx
                       IN IF op \in {"lt", "eq"} THEN R(TRUE, "int", BoolIV(Rel(op, l, r)))
                          ELSE R(TRUE, ft, Arith(F, op, l, r))
    [] fam = "vararg" -> R(TRUE, ArgPromote(a), FloatToFloat(Fmt(ArgPromote(a)), Tab(a)[ii]))
    [] fam = "tcv" -> LET x == Tab(a)[ii] IN
                      IF ~ConvDef(a, b, x) THEN R(FALSE, "int", 0)
                      ELSE LET v == Conv(a, b, x)
                               e == IF TForm[jj] = "neg" THEN Neg(v) ELSE v      \* the other forms have the value (T)x
                           IN R(TRUE, "int", BoolIV(CtxVal(op, Truth(e))))
    [] fam = "tar" -> R(TRUE, "int", BoolIV(CtxVal(op, Truth(Arith(Fmt(a), b, Tab(a)[ii], Tab(a)[jj])))))
    [] fam = "lim" -> IF a = "-" THEN R(TRUE, "int", II(LimGlobalInt(op)))
                      ELSE IF LimIsInt(op) THEN LET n == LimInt(op, Fmt(a)) IN R(n > -1000000, "int", II(n))
                      ELSE R(TRUE, a, LimFlt(op, Fmt(a)))
    [] fam = "szof" -> R(TRUE, "int", II(SzTab[CHOOSE k \in 1..Len(SzTab) : SzTab[k][1] = op][3]))

(* -0, NaN, infinities and subnormals: the values whose object representation is not determined by
   "the number" alone, or that an implementation is tempted to treat as 0 *)
IsSpecial(t, v) == IsF(t) /\ (v.k \in {"nan", "inf"} \/ (v.k = "zero" /\ v.s = 1)
                              \/ (v.k = "fin" /\ XBitLen(v.m) < Fmt(t).p))
EmitR(r, ii, jj) ==
  IF ~r.ok THEN FALSE
  ELSE CSVWrite("%1$s", <<ToJson([f |-> fam, op |-> op, at |-> a, bt |-> IF D2x THEN a ELSE IF Ch THEN ChF(jj) ELSE b, rt |-> r.t,
                                   sz |-> IF fam = "szof" THEN XToInt(r.v.mag) ELSE SizeOf(r.t),
                                   it |-> CASE Ch -> b [] fam = "tcv" -> TForm[jj]
                                            [] fam = "szof" -> SzTab[CHOOSE k \in 1..Len(SzTab) : SzTab[k][1] = op][2]
                                            [] OTHER -> "",
                                   op2 |-> IF D2x THEN b ELSE "",
                                   zb |-> IF D2 THEN ValBytes(a, Tab(a)[ZIdx(ii, jj)])
                                          ELSE IF Ch /\ ChSum(jj) THEN ValBytes(ChF(jj), ChZ(jj)) ELSE << >>,
                                   xb |-> IF NoOp THEN << >> ELSE ValBytes(a, Tab(a)[ii]),
                                   yb |-> IF Unary \/ NoOp THEN << >>
                                          ELSE IF fam = "tcv" THEN (IF op \in {"rland", "rlor"} THEN ValBytes("double", TcY(op)) ELSE << >>)
                                          ELSE IF D2x THEN ValBytes(a, Tab(a)[jj])
                                          ELSE IF Ch THEN ValBytes(ChF(jj), ChY(jj)) ELSE ValBytes(b, Tab(b)[jj]),
                                   rb |-> ValBytes(r.t, r.v),
                                   rn |-> IsF(r.t) /\ r.v.k = "nan",
                                   sp |-> \/ IsSpecial(r.t, r.v)
                                          \/ (~NoOp /\ IsSpecial(a, Tab(a)[ii]))
                                          \/ (~Unary /\ ~Ch /\ ~NoOp /\ fam # "tcv" /\ IsSpecial(IF D2x THEN a ELSE b, Tab(IF D2x THEN a ELSE b)[jj]))
                                          \/ (D2 /\ IsSpecial(a, Tab(a)[ZIdx(ii, jj)])),
                                   man |-> CASE fam = "dec" -> Str(DecMan[ii]) [] fam = "hex" -> Str(HexMan[ii])
                                             [] fam = "lim" -> (IF a = "-" THEN op ELSE LimPfx(a) \o "_" \o op)
                                             [] fam = "szof" -> op [] OTHER -> "",
                                   ex |-> CASE fam = "dec" -> DecExp[jj] [] fam = "hex" -> HexExp[jj]
                                            [] fam \in {"lim", "szof"} /\ r.t = "int" -> (IF r.v.neg THEN -XToInt(r.v.mag) ELSE XToInt(r.v.mag))
                                            [] OTHER -> 0,
                                   i |-> ii, j |-> jj])>>, IOEnv.OUT)
Emit(ii, jj) == Once(Expect(ii, jj), LAMBDA r : EmitR(r, ii, jj))

Init == /\ ph = 0 /\ i = 0 /\ j = 0
        /\ \E cs \in Cases : /\ cs[1] \in Fams
                             /\ CaseOK(cs)
                             /\ hb = CaseHash(cs)
                             /\ fam = cs[1] /\ op = cs[2] /\ a = cs[3] /\ b = cs[4]
Next == /\ ph = 0 /\ ph' = 1
        /\ UNCHANGED <<fam, op, a, b, hb>>
        /\ \E ii \in 1..NI1, jj \in 1..NJ1 :
             /\ Pick(ii, jj)
             /\ Emit(ii, jj)
             /\ i' = ii /\ j' = jj
Spec == Init /\ [][Next]_vars
=============================================================================
