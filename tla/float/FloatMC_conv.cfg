SPECIFICATION Spec
CONSTANTS
 WChar = 2
 WShort = 3
 WInt = 5
 WLong = 10
 P32 = 4
 NEMIN32 = 3
 EMAX32 = 10
 P64 = 7
 NEMIN64 = 5
 EMAX64 = 11
 P80 = 10
 NEMIN80 = 8
 EMAX80 = 12
 FIXED = TRUE
 MUT = "none"
 Kinds = {"i2f","f2i","f2f","truth","typing"}
 TypesC = {"float"}
INVARIANT ConvInv CmpInv ArithInv TypeInv NearestInv
CHECK_DEADLOCK FALSE
