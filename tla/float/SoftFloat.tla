------------------------------ MODULE SoftFloat ------------------------------
(* C02, Level A: IEEE 754 binary arithmetic as C11 requires it on x86-64 with
   FLT_EVAL_METHOD 0 (float = binary32, double = binary64, long double = the
   x87 80-bit extended format), written once against an abstract algebra of
   natural numbers (the N* CONSTANT operators) and instantiated
     * by SoftFloatN with TLC's native integers, for the scaled-down "Mini"
       formats of the exhaustive checks (FloatMC.tla), and
     * by SoftFloatX with the arbitrary-length limb naturals of BVX.tla, for
       the real formats (FloatGen.tla writes the test vectors).

   A floating value is a record [k, s, e, m]:
     k = "nan" | "inf" | "zero" | "fin";  s = sign (0/1);
     for k = "fin" the value is (-1)^s * m * 2^e with m > 0 an N value and e a
     TLC integer.  A value is *canonical in format F* when it is what Round
     returns: 2^(p-1) <= m < 2^p and e + p - 1 in emin..emax (normal), or
     m < 2^(p-1) and e = emin - p + 1 (subnormal).  Canonical values of one
     format are equal as numbers iff they are equal as records.  NaN carries no
     payload or sign: C11/IEEE do not prescribe them for generated NaNs, and the
     check compares NaN results as "is a NaN".

   A format is a record [p, emin, emax, ebits, explicit, bytes]:
     p precision in bits (incl. the integer bit), emin/emax exponents of the
     smallest/largest normal binade, ebits width of the exponent field,
     explicit = the integer bit is stored (x87), bytes = size of the object
     representation that carries value bits (4 / 8 / 10).

   Everything is computed exactly and rounded once, to nearest, ties to even
   (the only rounding mode a C program without <fenv.h> pragmas can be in). *)
EXTENDS Integers, Sequences, SequencesExt

CONSTANTS NI(_),            \* a TLC integer 0 .. 2^31-1 as an N value
          NToInt(_),        \* a small N value as a TLC integer
          NAdd(_, _), NSub(_, _), NMul(_, _),   \* exact; NSub(a, b) needs a >= b
          NCmp(_, _),       \* -1 / 0 / 1
          NBitLen(_),       \* number of significant bits, 0 for zero (a TLC integer)
          NBit(_, _),       \* bit k as 0 / 1
          NShl(_, _),       \* a * 2^k
          NShr(_, _),       \* floor(a / 2^k)
          NLowZero(_, _),   \* a mod 2^k = 0
          NDivMod(_, _),    \* <<floor(a/b), a mod b>>
          NBytes(_, _),     \* the n low base-256 digits, least significant first
          NFromBytes(_),    \* inverse
          WChar, WShort, WInt, WLong     \* widths of the integer types in bits

N0 == NI(0)
N1 == NI(1)
FMax(a, b) == IF a >= b THEN a ELSE b
FMin(a, b) == IF a <= b THEN a ELSE b
(* F(v) with v evaluated once (TLC re-evaluates LET-bound values and arguments at every use) *)
Once(v, F(_)) == FoldLeft(LAMBDA acc, xx : F(xx), FALSE, <<v>>)

NaN     == [k |-> "nan",  s |-> 0, e |-> 0, m |-> N0]
Inf(s)  == [k |-> "inf",  s |-> s, e |-> 0, m |-> N0]
Zero(s) == [k |-> "zero", s |-> s, e |-> 0, m |-> N0]
Fin(s, e, m) == [k |-> "fin", s |-> s, e |-> e, m |-> m]
IsNaN(x) == x.k = "nan"
XorS(a, b) == IF a = b THEN 0 ELSE 1

(* ---- rounding ------------------------------------------------------------
   Round(F, s, m, e, sticky): the value of F nearest to (-1)^s * (m + d) * 2^e,
   where m > 0 and 0 < d < 1 if sticky, d = 0 otherwise; ties to even;
   overflow to infinity when the rounded value exceeds the largest finite one
   (IEEE 754-2008 4.3.1, 7.4).                                               *)
PackE(F, s, m, q) == IF m = N0 THEN Zero(s)
                     ELSE IF NBitLen(m) = F.p /\ q + F.p - 1 > F.emax THEN Inf(s)
                     ELSE Fin(s, q, m)
Pack(F, s, m, q) == IF NBitLen(m) > F.p THEN PackE(F, s, NShr(m, 1), q + 1) ELSE PackE(F, s, m, q)
RoundV(F, s, m, e, sticky) ==
  LET E  == e + NBitLen(m) - 1                \* exponent of the leading bit
      q  == FMax(E, F.emin) - (F.p - 1)        \* exponent of the last place kept
      sh == q - e                              \* number of low bits of m to drop
  IN IF sh <= 0 THEN PackE(F, s, NShl(m, -sh), q)
     ELSE LET t    == NShr(m, sh)
              half == NBit(m, sh - 1) = 1
              rest == sticky \/ ~NLowZero(m, sh - 1)
              up   == half /\ (rest \/ NBit(t, 0) = 1)
          IN Pack(F, s, IF up THEN NAdd(t, N1) ELSE t, q)
Round(F, s, m, e, sticky) == Once(m, LAMBDA mm : RoundV(F, s, mm, e, sticky))

(* is (-1)^s * m * 2^e a value of F?  (used to build operand tables) *)
Exact(F, s, m, e) ==
  m # N0 /\ LET r == Round(F, s, m, e, FALSE)
            IN r.k = "fin" /\ LET lo == FMin(r.e, e) IN NShl(r.m, r.e - lo) = NShl(m, e - lo)

(* ---- arithmetic (IEEE 754-2008 5.4.1, 6.1-6.3, 7.2) ----------------------- *)
Neg(x) == IF x.k = "nan" THEN x ELSE [x EXCEPT !.s = 1 - x.s]

AddFin(F, x, y) ==
  LET hi  == IF x.e >= y.e THEN x ELSE y
      lo  == IF x.e >= y.e THEN y ELSE x
      d   == hi.e - lo.e
      (* an operand more than p+3 places below the other only decides the direction of
         rounding: any value in (0, 2^(hi.e-2)) in its place gives the same result *)
      far == d > F.p + 3
      e0  == IF far THEN hi.e - (F.p + 3) ELSE lo.e
      mh  == NShl(hi.m, hi.e - e0)
      ml  == IF far THEN N1 ELSE lo.m
  IN IF hi.s = lo.s THEN Round(F, hi.s, NAdd(mh, ml), e0, FALSE)
     ELSE Once(NCmp(mh, ml), LAMBDA c :
            IF c = 0 THEN Zero(0)               \* x + (-x) = +0 under round-to-nearest
            ELSE IF c > 0 THEN Round(F, hi.s, NSub(mh, ml), e0, FALSE)
            ELSE Round(F, lo.s, NSub(ml, mh), e0, FALSE))
Add(F, x, y) ==
  CASE x.k = "nan" \/ y.k = "nan" -> NaN
    [] x.k = "inf" /\ y.k = "inf" -> IF x.s = y.s THEN x ELSE NaN
    [] x.k = "inf" -> x
    [] y.k = "inf" -> y
    [] x.k = "zero" /\ y.k = "zero" -> IF x.s = y.s THEN x ELSE Zero(0)
    [] x.k = "zero" -> y
    [] y.k = "zero" -> x
    [] OTHER -> AddFin(F, x, y)
Sub(F, x, y) == Add(F, x, Neg(y))

Mul(F, x, y) ==
  LET s == XorS(x.s, y.s) IN
  CASE x.k = "nan" \/ y.k = "nan" -> NaN
    [] (x.k = "inf" /\ y.k = "zero") \/ (x.k = "zero" /\ y.k = "inf") -> NaN
    [] x.k = "inf" \/ y.k = "inf" -> Inf(s)
    [] x.k = "zero" \/ y.k = "zero" -> Zero(s)
    [] OTHER -> Round(F, s, NMul(x.m, y.m), x.e + y.e, FALSE)

Div(F, x, y) ==
  LET s == XorS(x.s, y.s) IN
  CASE x.k = "nan" \/ y.k = "nan" -> NaN
    [] (x.k = "inf" /\ y.k = "inf") \/ (x.k = "zero" /\ y.k = "zero") -> NaN
    [] x.k = "inf" -> Inf(s)
    [] y.k = "inf" -> Zero(s)
    [] y.k = "zero" -> Inf(s)                   \* division by zero: a defined IEEE operation (Annex F)
    [] x.k = "zero" -> Zero(s)
    [] OTHER ->
       (* quotient with at least p+2 bits; the remainder is the sticky bit *)
       LET k == F.p + 2 + NBitLen(y.m) - NBitLen(x.m)
       IN Once(NDivMod(NShl(x.m, k), y.m), LAMBDA qr : Round(F, s, qr[1], x.e - y.e - k, qr[2] # N0))

Arith(F, op, x, y) == CASE op = "add" -> Add(F, x, y) [] op = "sub" -> Sub(F, x, y)
                        [] op = "mul" -> Mul(F, x, y) [] op = "div" -> Div(F, x, y)

(* ---- comparison (IEEE 754-2008 5.11; C11 6.5.8, 6.5.9, F.9.3) -------------- *)
RankK(x) == CASE x.k = "zero" -> 0 [] x.k = "fin" -> 1 [] OTHER -> 2
(* canonical operands of one format *)
MagCmp(x, y) == IF RankK(x) # RankK(y) THEN (IF RankK(x) < RankK(y) THEN -1 ELSE 1)
                ELSE IF x.k # "fin" THEN 0
                ELSE IF x.e # y.e THEN (IF x.e < y.e THEN -1 ELSE 1)
                ELSE NCmp(x.m, y.m)
Cmp(x, y) ==
  IF x.k = "nan" \/ y.k = "nan" THEN "un"
  ELSE IF x.k = "zero" /\ y.k = "zero" THEN "eq"          \* -0 = +0
  ELSE IF x.s # y.s THEN (IF x.s = 1 THEN "lt" ELSE "gt")
  ELSE LET c == MagCmp(x, y) IN IF c = 0 THEN "eq" ELSE IF (c < 0) = (x.s = 0) THEN "lt" ELSE "gt"
Rel(op, x, y) ==
  LET c == Cmp(x, y) IN
  CASE op = "lt" -> c = "lt"
    [] op = "le" -> c \in {"lt", "eq"}
    [] op = "gt" -> c = "gt"
    [] op = "ge" -> c \in {"gt", "eq"}
    [] op = "eq" -> c = "eq"
    [] op = "ne" -> c # "eq"                                \* true for unordered operands
(* 6.3.1.2, 6.5.3.3, 6.8.4.1: "compares unequal to 0" - true for NaN and infinities, false for -0 *)
Truth(x) == x.k # "zero"

(* ---- integers ---------------------------------------------------------------
   An integer value is [neg, mag] (sign and magnitude, mag an N value; -0 does
   not occur: neg => mag # 0).                                                  *)
IV(neg, mag) == [neg |-> neg /\ mag # N0, mag |-> mag]
ITypes == {"bool", "char", "uchar", "short", "ushort", "int", "uint", "long", "ulong"}
FTypes == {"float", "double", "ldouble"}
ATypes == ITypes \cup FTypes
IsF(t) == t \in FTypes
IntW(t) == CASE t = "bool" -> 1 [] t \in {"char", "uchar"} -> WChar [] t \in {"short", "ushort"} -> WShort
             [] t \in {"int", "uint"} -> WInt [] OTHER -> WLong
StoreW(t) == IF t = "bool" THEN WChar ELSE IntW(t)
IntSg(t) == t \in {"char", "short", "int", "long"}
IntInRange(t, v) ==
  IF v.neg THEN IntSg(t) /\ NCmp(v.mag, NShl(N1, IntW(t) - 1)) <= 0
  ELSE NCmp(v.mag, NShl(N1, IF IntSg(t) THEN IntW(t) - 1 ELSE IntW(t))) < 0
(* 6.3.1.3 / 6.3.1.2: integer to integer (modular for signed targets, as gcc defines) *)
Mod2(a, k) == NSub(a, NShl(NShr(a, k), k))
IntToInt(t, v) ==
  IF t = "bool" THEN IV(FALSE, IF v.mag = N0 THEN N0 ELSE N1)
  ELSE LET w == IntW(t)
           u == IF v.neg THEN Mod2(NSub(NShl(N1, w), Mod2(v.mag, w)), w) ELSE Mod2(v.mag, w)   \* pattern
       IN IF IntSg(t) /\ NBit(u, w - 1) = 1 THEN IV(TRUE, NSub(NShl(N1, w), u)) ELSE IV(FALSE, u)
(* the w-bit two's-complement pattern of an in-range value *)
IntPattern(w, v) == IF v.neg THEN NSub(NShl(N1, w), v.mag) ELSE v.mag
(* 6.3.1.4p2: integer to floating: exact if representable, else the nearest (x86: current rounding mode) *)
IntToFloat(F, v) == IF v.mag = N0 THEN Zero(0) ELSE Round(F, IF v.neg THEN 1 ELSE 0, v.mag, 0, FALSE)
(* 6.3.1.4p1: floating to integer truncates toward zero; undefined if the integral part
   is not representable.  _Bool: 6.3.1.2 (any value, NaN included, that compares unequal to 0 -> 1) *)
TruncMag(x) == IF x.e >= 0 THEN NShl(x.m, x.e) ELSE NShr(x.m, -x.e)
(* the integral part of x is a value of the w-bit signed (sg) / unsigned integer type *)
F2IDefW(w, sg, x) ==
  \/ x.k = "zero"
  \/ /\ x.k = "fin"
     /\ x.e + NBitLen(x.m) <= w + 1                  \* cheap bound first: exponents go up to 16383
     /\ LET v == IV(x.s = 1, TruncMag(x))
        IN IF v.neg THEN sg /\ NCmp(v.mag, NShl(N1, w - 1)) <= 0
           ELSE NCmp(v.mag, NShl(N1, IF sg THEN w - 1 ELSE w)) < 0
F2IDefined(t, x) == t = "bool" \/ F2IDefW(IntW(t), IntSg(t), x)
(* round to an integral value in the given direction ("rz" toward zero, "rn" to nearest even):
   what fist/fistp and cvtss2si/cvtsd2si do under the x87 control word / MXCSR rounding field *)
RoundInt(rc, x) ==
  IF x.k = "zero" THEN IV(FALSE, N0)
  ELSE IF x.e >= 0 \/ rc = "rz" THEN IV(x.s = 1, TruncMag(x))
  ELSE LET t    == TruncMag(x)
           half == NBit(x.m, (-x.e) - 1) = 1
           rest == ~NLowZero(x.m, (-x.e) - 1)
       IN IV(x.s = 1, IF half /\ (rest \/ NBit(t, 0) = 1) THEN NAdd(t, N1) ELSE t)
FloatToInt(t, x) == IF t = "bool" THEN IV(FALSE, IF Truth(x) THEN N1 ELSE N0)
                    ELSE IF x.k = "zero" THEN IV(FALSE, N0)
                    ELSE IV(x.s = 1, TruncMag(x))
(* 6.3.1.5: floating to floating: exact if representable, else nearest *)
FloatToFloat(F2, x) == IF x.k = "fin" THEN Round(F2, x.s, x.m, x.e, FALSE) ELSE x

(* ---- constants (6.4.4.2) -----------------------------------------------------
   "correctly rounded" = what gcc, glibc strtod and IEEE 754-2008 5.12 do: the
   decimal or hexadecimal constant denotes its exact rational value, which is
   rounded once into the constant's own type.                                    *)
NPow10(k) == FoldLeft(LAMBDA acc, i : NMul(acc, NI(10)), N1, [i \in 1..k |-> i])
DecimalToFloat(F, D, e10) ==
  IF D = N0 THEN Zero(0)
  ELSE IF e10 >= 0 THEN Round(F, 0, NMul(D, NPow10(e10)), 0, FALSE)
  ELSE Once(NPow10(-e10), LAMBDA den :
         LET k == FMax(0, F.p + 2 + NBitLen(den) - NBitLen(D))
         IN Once(NDivMod(NShl(D, k), den), LAMBDA qr : Round(F, 0, qr[1], -k, qr[2] # N0)))
HexToFloat(F, M, e2) == IF M = N0 THEN Zero(0) ELSE Round(F, 0, M, e2, FALSE)
SuffixType(sfx) == CASE sfx \in {"f", "F"} -> "float" [] sfx \in {"l", "L"} -> "ldouble" [] OTHER -> "double"

(* ---- typing (6.3.1.8, 6.3.1.1, 6.5.2.2p6-7) ------------------------------------ *)
IRank(t) == CASE t = "bool" -> 0 [] t \in {"char", "uchar"} -> 1 [] t \in {"short", "ushort"} -> 2
              [] t \in {"int", "uint"} -> 3 [] OTHER -> 4
Promote(t) == IF IsF(t) THEN t ELSE IF IRank(t) < 3 THEN "int" ELSE t
FRank(t) == CASE t = "float" -> 1 [] t = "double" -> 2 [] t = "ldouble" -> 3 [] OTHER -> 0
CommonType(a0, b0) ==
  IF IsF(a0) \/ IsF(b0) THEN (IF FRank(a0) >= FRank(b0) THEN a0 ELSE b0)
  ELSE LET a == Promote(a0)  b == Promote(b0) IN
       IF a = b THEN a
       ELSE IF IntSg(a) = IntSg(b) THEN (IF IRank(a) > IRank(b) THEN a ELSE b)
       ELSE LET u == IF IntSg(a) THEN b ELSE a
                s == IF IntSg(a) THEN a ELSE b
            IN IF IRank(u) >= IRank(s) THEN u ELSE IF IntW(u) < IntW(s) THEN s
               ELSE IF s = "int" THEN "uint" ELSE "ulong"
(* default argument promotions: arguments matching "..." *)
ArgPromote(t) == IF t = "float" THEN "double" ELSE Promote(t)

(* ---- object representation (psABI: little-endian; IEEE 754 interchange formats,
   x87 extended with explicit integer bit) ------------------------------------ *)
FracBits(F) == IF F.explicit THEN F.p ELSE F.p - 1
EInf(F) == F.emax - F.emin + 2             \* exponent field of inf/NaN ( = 2^ebits - 1 for the real formats)
Fields(F, s, be, frac) == NAdd(NAdd(NShl(NI(s), FracBits(F) + F.ebits), NShl(NI(be), FracBits(F))), frac)
EncodeN(F, x) ==
  CASE x.k = "nan"  -> Fields(F, 0, EInf(F), IF F.explicit THEN NAdd(NShl(N1, F.p - 1), NShl(N1, F.p - 2))
                                             ELSE NShl(N1, F.p - 2))          \* a quiet NaN
    [] x.k = "inf"  -> Fields(F, x.s, EInf(F), IF F.explicit THEN NShl(N1, F.p - 1) ELSE N0)
    [] x.k = "zero" -> Fields(F, x.s, 0, N0)
    [] OTHER -> IF NBitLen(x.m) = F.p
                THEN Fields(F, x.s, x.e + F.p - F.emin, IF F.explicit THEN x.m ELSE NSub(x.m, NShl(N1, F.p - 1)))
                ELSE Fields(F, x.s, 0, x.m)
Encode(F, x) == NBytes(EncodeN(F, x), F.bytes)
DecodeN(F, n) ==
  LET fb   == FracBits(F)
      s    == NBit(n, fb + F.ebits)
      be   == NToInt(Mod2(NShr(n, fb), F.ebits))
      frac == Mod2(n, F.p - 1)                      \* without the integer bit
  IN IF be = EInf(F) THEN (IF frac = N0 THEN Inf(s) ELSE NaN)
     ELSE IF be = 0 THEN (IF frac = N0 THEN Zero(s) ELSE Fin(s, F.emin - F.p + 1, frac))
     ELSE Fin(s, be - 1 + F.emin - F.p + 1, NAdd(frac, NShl(N1, F.p - 1)))
Decode(F, bytes) == DecodeN(F, NFromBytes(bytes))
(* two's-complement object bytes of an integer of type t *)
IntBytes(t, v) == NBytes(IntPattern(StoreW(t), v), StoreW(t) \div 8)
=============================================================================
