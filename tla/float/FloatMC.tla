------------------------------- MODULE FloatMC -------------------------------
(* C02, exhaustive design check on scaled-down formats and integer widths.

   One state per (kind, types, operator, operand values [, register garbage]);
   the invariants are evaluated on every one of them - the state graph *is* the
   domain.

     i2f    every integer type x every value (x every garbage pattern in the unused register
            half) -> every floating type:  cast-table algorithm = IntToFloat            (ConvInv)
     f2i    every floating type x every value -> every integer type on which the conversion is
            defined: the result register is the legal register of FloatToInt's value      (ConvInv)
     f2f    every floating type x every value -> every floating type: = FloatToFloat       (ConvInv)
     cmp    six operators x every pair of values incl. NaN, infinities, -0: = IEEE relation  (CmpInv)
     truth  if(x) / !x / (_Bool)x = "compares unequal to 0", the operand as a register: for a float
            x every pattern of the dead bits above it in %xmm0                                (CmpInv)
     arith  + - * / x every pair: the instruction sequence computes x op y (operand order,
            operand format), unary minus, the value of x++ / x--                             (ArithInv)
     typing get_common_type / default argument promotion = 6.3.1.8 / 6.5.2.2p6                (TypeInv)
     round  Level A's own correctness, against an independent characterisation: the result of
            + * / and of integer->floating is THE representable value nearest to the exact
            rational result, ties to the even significand, infinity from maxfinite + ulp/2 on;
            Decode(Encode(x)) = x                                                            (NearestInv)

   Formats and widths come from the configuration:
     FloatMC_conv.cfg  widths 2/3/5/8, float (p 4), double (p 6), long double (p 8 = WLong, explicit
                       integer bit): the order relations of the real widths 8/16/32/64 and
                       precisions 24/53/64 are preserved (W16 < p32 < W32 < p64 < W64 = p80)
     FloatMC_mini.cfg  all three types in the Mini format p = 4, emin = -3, emax = 4           *)
EXTENDS ChibiFloat, TLC

CONSTANTS Kinds, TypesC           \* floating types explored by cmp / arith
VARIABLES kind, a, b, op, x, y, g, ph
vars == <<kind, a, b, op, x, y, g, ph>>

FinVals(F) == {Fin(s, e, m) : s \in {0, 1}, e \in (F.emin - F.p + 1)..(F.emax - F.p + 1), m \in Pw(F.p - 1)..(Pw(F.p) - 1)}
              \cup {Fin(s, F.emin - F.p + 1, m) : s \in {0, 1}, m \in 1..(Pw(F.p - 1) - 1)}
Vals(F) == FinVals(F) \cup {Zero(0), Zero(1), Inf(0), Inf(1), NaN}
IntVals(t) == IF IntSg(t) THEN {IVn(n) : n \in (-Pw(IntW(t) - 1))..(Pw(IntW(t) - 1) - 1)}
              ELSE {IVn(n) : n \in 0..(Pw(IntW(t)) - 1)}
Garbage(t) == IF t # "bool" /\ StoreW(t) <= W32 THEN 0..(Pw(W64 - W32) - 1) ELSE {0}
(* the register that load()/cast() leave for a value v of integer type t, upper half = gg *)
RegOf(t, v, gg) == IF t = "bool" \/ StoreW(t) > W32 THEN PatOf(W64, IntOf(v))
                   ELSE PatOf(W32, IntOf(v)) + gg * Pw(W32)
ArOps == {"add", "sub", "mul", "div"}
RelOps == {"lt", "le", "gt", "ge", "eq", "ne"}
None == "-"

(* Init chooses the case, Next the operand values: TLC computes initial states with one thread,
   successors with all workers.  The invariants speak about the states with ph = 1.          *)
Case(k, aa, bb, oo) == kind = k /\ a = aa /\ b = bb /\ op = oo
Init ==
  /\ ph = 0 /\ x = None /\ y = None /\ g = 0
  /\ \/ "i2f" \in Kinds /\ \E aa \in ITypes, bb \in FTypes : Case("i2f", aa, bb, None)
     \/ "f2i" \in Kinds /\ \E aa \in FTypes, bb \in ITypes : Case("f2i", aa, bb, None)
     \/ "f2f" \in Kinds /\ \E aa \in FTypes, bb \in FTypes : Case("f2f", aa, bb, None)
     \/ "cmp" \in Kinds /\ \E aa \in TypesC, oo \in RelOps : Case("cmp", aa, None, oo)
     \/ "truth" \in Kinds /\ \E aa \in FTypes, oo \in {"if", "not", "bool"} : Case("truth", aa, None, oo)
     \/ "arith" \in Kinds /\ \E aa \in TypesC, oo \in ArOps \cup {"neg", "postinc", "postdec"} : Case("arith", aa, None, oo)
     \/ "typing" \in Kinds /\ \E aa \in ATypes, bb \in ATypes : Case("typing", aa, bb, None)
     \/ "round" \in Kinds /\ \E oo \in {"add", "mul", "div", "i2f", "codec"} : Case("round", "float", None, oo)
Binary == (kind \in {"cmp", "arith", "round"}) /\ op \notin {"neg", "postinc", "postdec", "i2f", "codec"}
XDom == CASE kind = "i2f" -> IntVals(a)
          [] kind = "typing" -> {None}
          [] kind = "round" -> (CASE op = "i2f" -> IntVals("long") \cup IntVals("ulong")
                                  [] op = "codec" -> Vals(F32)
                                  [] OTHER -> FinVals(F32))
          [] OTHER -> Vals(Fmt(a))
YDom == IF ~Binary THEN {None} ELSE IF kind = "round" THEN FinVals(F32) ELSE Vals(Fmt(a))
Next == /\ ph = 0 /\ ph' = 1
        /\ UNCHANGED <<kind, a, b, op>>
        /\ x' \in XDom /\ y' \in YDom
        /\ g' \in (CASE kind = "i2f" -> Garbage(a)
                      [] kind = "truth" \/ (kind = "f2i" /\ b = "bool") -> Dead(a)      \* the dead bits of %xmm0
                      [] OTHER -> {0})
Spec == Init /\ [][Next]_vars

(* ---- Level I = Level A -------------------------------------------------------------- *)
LegalReg(t, r, v) == IF StoreW(t) > W32 THEN r = PatOf(W64, IntOf(v)) ELSE ZX(W32, r) = PatOf(W32, IntOf(v))
ConvInv0 ==
  /\ kind = "i2f" => I2F(a, b, RegOf(a, x, g)) = IntToFloat(Fmt(b), x)
  /\ kind = "f2i" => IF b = "bool" THEN ToBoolR(a, x, g) = IntOf(FloatToInt("bool", x))
                     ELSE F2IDefined(b, x) => LegalReg(b, F2I(a, b, x), FloatToInt(b, x))
  /\ kind = "f2f" => F2F(a, b, x) = FloatToFloat(Fmt(b), x)
CmpInv0 ==
  /\ kind = "cmp" => RelI(a, op, x, y) = Rel(op, x, y)
  /\ kind = "truth" => CASE op = "if" -> TruthR(a, x, g) = Truth(x)          \* for every content of the dead register bits
                         [] op = "not" -> NotR(a, x, g) = ~Truth(x)
                         [] op = "bool" -> ToBoolR(a, x, g) = (IF Truth(x) THEN 1 ELSE 0)
ArithInv0 ==
  kind = "arith" => CASE op = "neg" -> NegI(a, x) = Neg(x)
                      [] op = "postinc" -> PostI(a, 1, x) = x          \* 6.5.2.4p2: the value of the operand
                      [] op = "postdec" -> PostI(a, -1, x) = x
                      [] OTHER -> ArithI(a, op, x, y) = Arith(Fmt(a), op, x, y)
TypeInv0 ==
  kind = "typing" => /\ (IsF(a) \/ IsF(b)) => CommonI(a, b) = CommonType(a, b)
                     /\ ArgPromoteI(a) = ArgPromote(a)
                     /\ CommonType(a, b) = CommonType(b, a)
                     /\ (IsF(a) /\ IsF(b)) => Fmt(CommonType(a, b)).p >= Fmt(a).p

(* ---- Level A against the definition of rounding -------------------------------------------
   Every finite value of F is an integer multiple K of u = 2^(emin-p+1).  The exact result is
   the rational num/den in units of u (num, den > 0 taken from the magnitudes).                 *)
Q(F) == F.emin - F.p + 1
KOf(F, v) == IF v.k = "zero" THEN 0 ELSE v.m * Pw(v.e - Q(F))
KSet(F) == {0} \cup {KOf(F, v) : v \in {w \in FinVals(F) : w.s = 0}}
KMax(F) == (Pw(F.p) - 1) * Pw(F.emax - F.emin)
KOver(F) == KMax(F) + Pw(F.emax - F.emin - 1)                       \* maxfinite + ulp/2
AbsI(n) == IF n < 0 THEN -n ELSE n
IsNearest(F, num, den, r) ==
  IF r.k = "inf" THEN num >= KOver(F) * den
  ELSE /\ r.k \in {"zero", "fin"}
       /\ num < KOver(F) * den
       /\ LET kr == KOf(F, r)
              dr == AbsI(num - kr * den)
          IN \A kz \in KSet(F) : /\ dr <= AbsI(num - kz * den)
                                 /\ (kz # kr /\ dr = AbsI(num - kz * den)) => (IF r.k = "zero" THEN 0 ELSE r.m) % 2 = 0
NearestInv0 ==
  kind = "round" =>
    LET F == F32 IN
    CASE op = "mul" -> LET r == Mul(F, x, y) IN
                       r.s = XorS(x.s, y.s) /\ IsNearest(F, KOf(F, x) * KOf(F, y), Pw(-Q(F)), r)
      [] op = "div" -> LET r == Div(F, x, y) IN
                       r.s = XorS(x.s, y.s) /\ IsNearest(F, KOf(F, x) * Pw(-Q(F)), KOf(F, y), r)
      [] op = "add" -> LET sx == IF x.s = 1 THEN -KOf(F, x) ELSE KOf(F, x)
                           sy == IF y.s = 1 THEN -KOf(F, y) ELSE KOf(F, y)
                           r  == Add(F, x, y)
                       IN IF sx + sy = 0 THEN r = Zero(0)
                          ELSE r.s = (IF sx + sy < 0 THEN 1 ELSE 0) /\ IsNearest(F, AbsI(sx + sy), 1, r)
      [] op = "i2f" -> LET r == IntToFloat(F, x) IN
                       IF x.mag = 0 THEN r = Zero(0)
                       ELSE r.s = (IF x.neg THEN 1 ELSE 0) /\ IsNearest(F, x.mag * Pw(-Q(F)), 1, r)
      [] op = "codec" -> Decode(F, Encode(F, x)) = x
ConvInv == ph = 1 => ConvInv0
CmpInv == ph = 1 => CmpInv0
ArithInv == ph = 1 => ArithInv0
TypeInv == ph = 1 => TypeInv0
NearestInv == ph = 1 => NearestInv0
=============================================================================
