----------------------------- MODULE SoftFloatX -----------------------------
(* SoftFloat instantiated with the arbitrary-length limb naturals of BVX.tla at
   the real x86-64 widths and formats.  N values are canonical limb sequences. *)
EXTENDS Integers, Sequences, BVX

WChar == 8
WShort == 16
WInt == 32
WLong == 64

INSTANCE SoftFloat WITH NI <- XFromInt, NToInt <- XToInt, NAdd <- XAdd, NSub <- XSub, NMul <- XMul,
                        NCmp <- XCmp, NBitLen <- XBitLen, NBit <- XBit, NShl <- XShl, NShr <- XShr,
                        NLowZero <- XLowZero, NDivMod <- XDivMod, NBytes <- XBytes, NFromBytes <- XFromBytes

F32 == [p |-> 24, emin |-> -126,   emax |-> 127,   ebits |-> 8,  explicit |-> FALSE, bytes |-> 4]
F64 == [p |-> 53, emin |-> -1022,  emax |-> 1023,  ebits |-> 11, explicit |-> FALSE, bytes |-> 8]
F80 == [p |-> 64, emin |-> -16382, emax |-> 16383, ebits |-> 15, explicit |-> TRUE,  bytes |-> 10]
Fmt(t) == CASE t = "float" -> F32 [] t = "double" -> F64 [] t = "ldouble" -> F80
=============================================================================
