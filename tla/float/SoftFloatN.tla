----------------------------- MODULE SoftFloatN -----------------------------
(* SoftFloat instantiated with TLC's native integers, for the scaled-down "Mini"
   formats and integer widths of the exhaustive checks (FloatMC.tla).  All
   intermediate values stay far below 2^31 for p <= 8 and widths <= 8 (TLC
   reports an overflow as an error, it never wraps silently).               *)
EXTENDS Integers, Sequences
CONSTANTS WChar, WShort, WInt, WLong

NId(n) == n
NAddN(a, b) == a + b
NSubN(a, b) == a - b
NMulN(a, b) == a * b
NCmpN(a, b) == IF a < b THEN -1 ELSE IF a > b THEN 1 ELSE 0
BLn(a) == IF a < 1 THEN 0 ELSE IF a < 2 THEN 1 ELSE IF a < 4 THEN 2 ELSE IF a < 8 THEN 3 ELSE IF a < 16 THEN 4 ELSE IF a < 32 THEN 5 ELSE IF a < 64 THEN 6 ELSE IF a < 128 THEN 7 ELSE IF a < 256 THEN 8 ELSE IF a < 512 THEN 9 ELSE IF a < 1024 THEN 10 ELSE IF a < 2048 THEN 11 ELSE IF a < 4096 THEN 12 ELSE IF a < 8192 THEN 13 ELSE IF a < 16384 THEN 14 ELSE IF a < 32768 THEN 15 ELSE IF a < 65536 THEN 16 ELSE IF a < 131072 THEN 17 ELSE IF a < 262144 THEN 18 ELSE IF a < 524288 THEN 19 ELSE IF a < 1048576 THEN 20 ELSE IF a < 2097152 THEN 21 ELSE IF a < 4194304 THEN 22 ELSE IF a < 8388608 THEN 23 ELSE IF a < 16777216 THEN 24 ELSE IF a < 33554432 THEN 25 ELSE IF a < 67108864 THEN 26 ELSE IF a < 134217728 THEN 27 ELSE IF a < 268435456 THEN 28 ELSE IF a < 536870912 THEN 29 ELSE IF a < 1073741824 THEN 30 ELSE 31
NBitN(a, k) == IF k >= 31 THEN 0 ELSE (a \div (2 ^ k)) % 2
NShlN(a, k) == a * (2 ^ k)
NShrN(a, k) == IF k >= 31 THEN 0 ELSE a \div (2 ^ k)
NLowZeroN(a, k) == IF k >= 31 THEN a = 0 ELSE a % (2 ^ k) = 0
NDivModN(a, b) == <<a \div b, a % b>>
NBytesN(a, n) == [i \in 1..n |-> (a \div (256 ^ (i - 1))) % 256]
NFromBytesN(s) == IF Len(s) = 0 THEN 0 ELSE IF Len(s) = 1 THEN s[1] ELSE s[1] + 256 * s[2]

INSTANCE SoftFloat WITH NI <- NId, NToInt <- NId, NAdd <- NAddN, NSub <- NSubN, NMul <- NMulN, NCmp <- NCmpN,
                        NBitLen <- BLn, NBit <- NBitN, NShl <- NShlN, NShr <- NShrN, NLowZero <- NLowZeroN,
                        NDivMod <- NDivModN, NBytes <- NBytesN, NFromBytes <- NFromBytesN
=============================================================================
