SPECIFICATION Spec
CONSTANTS
 WChar = 2
 WShort = 4
 WInt = 6
 WLong = 8
 P32 = 4
 NEMIN32 = 3
 EMAX32 = 4
 P64 = 4
 NEMIN64 = 3
 EMAX64 = 4
 P80 = 4
 NEMIN80 = 3
 EMAX80 = 4
 FIXED = TRUE
 MUT = "none"
 Kinds = {"cmp","arith","round","truth"}
 TypesC = {"float","double","ldouble"}
INVARIANT ConvInv CmpInv ArithInv TypeInv NearestInv
CHECK_DEADLOCK FALSE
