------------------------------ MODULE ChibiFloat ------------------------------
(* C02, Level I: the floating-point *algorithms* of chibicc's code generator,
   transcribed instruction by instruction from codegen.c, over scaled-down
   integer widths (WChar < WShort < WInt < WLong) and scaled-down formats, so
   that TLC can run every one of them on every value (FloatMC.tla).

   The x86 instructions are modelled by what the Intel SDM says they compute
   (each is an IEEE operation or an integer move; "l" = WInt-bit, "q" =
   WLong-bit operand; the 16-bit fistps = WShort):
     cvtsi2ss/sd r   -> IntToFloat of the *signed* value of the w-bit operand
     cvttss/sd2si    -> truncation; the "integer indefinite" 100..0 when the
                        result does not fit the signed w-bit destination
     cvtss2sd, cvtsd2ss, flds/fldl/fldt, fstps/fstpl -> FloatToFloat
     fild            -> IntToFloat(F80, signed w-bit memory operand) (exact)
     fistp           -> round per the control word's RC field, indefinite when
                        out of range;  FROM_F80_1 sets RC = 11 (toward zero)
     ucomis / fucomi(p) / fcomip a, b -> ZF PF CF = 000 a>b, 001 a<b, 100 a=b,
                        111 unordered
     add/sub/mul/div ss|sd, faddp fsubrp fmulp fdivrp -> one IEEE operation in
                        the operand format (x87 precision control = extended)
   A general register holds WLong bits.  Values of the types narrower than int
   are kept extended to WInt bits, and the upper half of the register is
   arbitrary for every type of at most WInt bits (the register model of C01's
   ChibiInt.tla: load(), cast()).

   FIXED = TRUE  : the tree with proposed/C02/fix-*.diff applied
   FIXED = FALSE : the pinned tree (D05 rows, signed u64 paths, NaN-blind
                   cmp_zero and long double == / !=, x++ as (x+1)-1) - the
                   sensitivity control
   NEMINxx       : -emin (a .cfg file cannot spell a negative number)
   MUT           : "none", or one deliberately wrong variant (see Mut* below)  *)
EXTENDS SoftFloatN

CONSTANTS P32, NEMIN32, EMAX32, P64, NEMIN64, EMAX64, P80, NEMIN80, EMAX80,
          FIXED, MUT

F32 == [p |-> P32, emin |-> -NEMIN32, emax |-> EMAX32, ebits |-> 5, explicit |-> FALSE, bytes |-> 2]
F64 == [p |-> P64, emin |-> -NEMIN64, emax |-> EMAX64, ebits |-> 5, explicit |-> FALSE, bytes |-> 2]
F80 == [p |-> P80, emin |-> -NEMIN80, emax |-> EMAX80, ebits |-> 5, explicit |-> TRUE,  bytes |-> 2]
Fmt(t) == CASE t = "float" -> F32 [] t = "double" -> F64 [] t = "ldouble" -> F80

W8 == WChar
W16 == WShort
W32 == WInt
W64 == WLong
Pw(k) == 2 ^ k

(* ---- integer helpers on register patterns (naturals below 2^W64) --------------- *)
ZX(w, r) == r % Pw(w)                                        \* the low w bits
SV(w, r) == LET u == r % Pw(w) IN IF u >= Pw(w - 1) THEN u - Pw(w) ELSE u     \* ... read as signed
PatOf(w, n) == (n + Pw(w)) % Pw(w)                           \* w-bit pattern of an integer -2^(w-1) .. 2^w-1
IVn(n) == IV(n < 0, IF n < 0 THEN -n ELSE n)
IntOf(v) == IF v.neg THEN -v.mag ELSE v.mag
(* movsXl / movzXl: extend the low w bits to W32; writing a 32-bit register clears the upper half *)
MovS(w, r) == PatOf(W32, SV(w, r))
MovZ(w, r) == ZX(w, r)
Indef(w) == Pw(w - 1)

(* ---- instruction semantics ------------------------------------------------------- *)
CvtSI2F(F, w, r) == IntToFloat(F, IVn(SV(w, r)))
(* rc = "rz" for cvtt* and for fistp inside the control-word bracket; "rn" otherwise *)
F2SI(w, rc, x) ==
  IF x.k \in {"nan", "inf"} THEN Indef(w)
  ELSE IF x.k = "fin" /\ x.e + BLn(x.m) > w + 1 THEN Indef(w)
  ELSE LET n == IntOf(RoundInt(rc, x)) IN IF -Pw(w - 1) <= n /\ n < Pw(w - 1) THEN PatOf(w, n) ELSE Indef(w)
CvtT(w, x) == F2SI(w, IF MUT = "cvt-rounds" THEN "rn" ELSE "rz", x)
Fild(w, r) == IntToFloat(F80, IVn(SV(w, r)))
Fistp(w, x) == F2SI(w, IF MUT = "no-cw-bracket" THEN "rn" ELSE "rz", x)       \* FROM_F80_1 fistp FROM_F80_2
Flags(a, b) == LET c == Cmp(a, b) IN [zf |-> c \in {"eq", "un"}, pf |-> c = "un", cf |-> c \in {"lt", "un"}]
TwoPow(F, k) == Round(F, 0, 1, k, FALSE)

(* ---- getTypeId ------------------------------------------------------------------- *)
TId(t) == CASE t = "char" -> "i8" [] t = "short" -> "i16" [] t = "int" -> "i32" [] t = "long" -> "i64"
            [] t = "uchar" -> "u8" [] t = "ushort" -> "u16" [] t = "uint" -> "u32" [] t = "ulong" -> "u64"
            [] t = "float" -> "f32" [] t = "double" -> "f64" [] t = "ldouble" -> "f80"
            [] OTHER -> "u64"                                  \* _Bool (value 0/1 in the whole register)

(* ---- cast table: integer -> floating ------------------------------------------------
   i32f32 "cvtsi2ssl %eax"; u32f32 "mov %eax,%eax; cvtsi2ssq %rax"; i64f32 "cvtsi2ssq %rax";
   u64f64 the halve-with-sticky/double trick; u64f80 fildq + 2^64 fix-up; iXXf80 fild.        *)
HalveSticky(r) == LET h == r \div 2 IN IF h % 2 = 1 THEN h ELSE h + (r % 2)       \* (r >> 1) | (r & 1)
U64ToSSE(F, r) == IF r < Pw(W64 - 1) THEN CvtSI2F(F, W64, r)                       \* test; js
                  ELSE LET x == CvtSI2F(F, W64, HalveSticky(r)) IN Add(F, x, x)   \* addss/addsd %xmm0,%xmm0
U64ToF80(r) == LET x == Fild(W64, r) IN
               IF r < Pw(W64 - 1) THEN x                                           \* test; jns
               ELSE Add(F80, x, FloatToFloat(F80, TwoPow(F32, W64)))               \* fadds (float)2^64
I2F(from, to, r) ==
  LET id == IF MUT = "row-u32-as-i32" /\ TId(from) = "u32" THEN "i32" ELSE TId(from)
      F  == Fmt(to)
  IN CASE id \in {"i8", "i16", "i32", "u8", "u16"} -> IF to = "ldouble" THEN Fild(W32, r) ELSE CvtSI2F(F, W32, r)
       [] id = "u32" -> IF to = "ldouble" THEN Fild(W64, ZX(W32, r)) ELSE CvtSI2F(F, W64, ZX(W32, r))
       [] id = "i64" -> IF to = "ldouble" THEN Fild(W64, r) ELSE CvtSI2F(F, W64, r)
       [] id = "u64" -> CASE to = "ldouble" -> IF MUT = "u64f80-no-fixup" THEN Fild(W64, r) ELSE U64ToF80(r)
                          [] to = "double" -> IF MUT = "u64-no-sticky"
                                              THEN (IF r < Pw(W64 - 1) THEN CvtSI2F(F, W64, r)
                                                    ELSE LET x == CvtSI2F(F, W64, r \div 2) IN Add(F, x, x))
                                              ELSE U64ToSSE(F, r)
                          [] to = "float" -> IF FIXED THEN U64ToSSE(F, r) ELSE CvtSI2F(F, W64, r)

(* ---- cast table: floating -> integer -------------------------------------------------
   SSE: cvttss2sil/q (+ movs/movz for the narrow targets); x87: control-word bracket + fistps/l/q.
   u64 (FIXED): compare with 2^63; below: the signed conversion; else subtract 2^63, convert,
   flip bit 63 (btc).                                                                          *)
Btc(r) == IF r >= Pw(W64 - 1) THEN r - Pw(W64 - 1) ELSE r + Pw(W64 - 1)
F2U64sse(F, x) == LET t == TwoPow(F, W64 - 1) IN
                  IF ~Flags(x, t).cf THEN Btc(CvtT(W64, Sub(F, x, t)))            \* ucomis; jae 1f
                  ELSE CvtT(W64, x)
F2U64x87(x) == LET t == FloatToFloat(F80, TwoPow(F32, W64 - 1))                    \* flds (float)2^63
                   fl == Flags(t, x)                                               \* fucomi %st(1), %st
               IN IF fl.cf \/ fl.zf THEN Btc(Fistp(W64, Sub(F80, x, t)))           \* jbe 1f; fsubrp
                  ELSE Fistp(W64, x)
F2I(from, to, x) ==
  LET id == TId(to) IN
  IF from \in {"float", "double"} THEN
    CASE id = "i8"  -> MovS(W8, CvtT(W32, x))
      [] id = "u8"  -> MovZ(W8, CvtT(W32, x))
      [] id = "i16" -> MovS(W16, CvtT(W32, x))
      [] id = "u16" -> MovZ(W16, CvtT(W32, x))
      [] id = "i32" -> CvtT(W32, x)
      [] id = "u32" -> CvtT(IF MUT = "f2u32-narrow" THEN W32 ELSE W64, x)
      [] id = "i64" -> CvtT(W64, x)
      [] id = "u64" -> IF FIXED THEN F2U64sse(Fmt(from), x) ELSE CvtT(W64, x)
  ELSE
    CASE id = "i8"  -> MovS(W8, Fistp(W16, x))
      [] id = "u8"  -> MovZ(W8, Fistp(W16, x))
      [] id = "i16" -> IF FIXED THEN MovS(W16, Fistp(W16, x)) ELSE MovZ(W8, Fistp(W16, x))
      [] id = "u16" -> IF FIXED THEN MovZ(W16, Fistp(W32, x)) ELSE MovS(W16, Fistp(W32, x))
      [] id = "i32" -> Fistp(W32, x)
      [] id = "u32" -> IF FIXED THEN ZX(W32, Fistp(W64, x)) ELSE Fistp(W32, x)
      [] id = "i64" -> Fistp(W64, x)
      [] id = "u64" -> IF FIXED THEN F2U64x87(x) ELSE Fistp(W64, x)

(* cast table: floating -> floating *)
F2F(from, to, x) ==
  LET to2 == IF MUT = "row-f80f32-as-f64" /\ from = "ldouble" /\ to = "float" THEN "double" ELSE to
  IN IF from = to THEN x ELSE FloatToFloat(Fmt(to2), x)

(* ---- cmp_zero and its users --------------------------------------------------------
   xorps; ucomis %xmm1(0), %xmm0 / fldz; fucomip: flags of x ? 0 (0 ? x on the x87: only ZF and PF
   matter and they are symmetric).  FIXED: setp %al; setne %dl; or %dl,%al leaves ZF = "x is zero".  *)
ZeroFlag(x) == LET fl == Flags(x, Zero(0)) IN IF FIXED THEN ~(fl.pf \/ ~fl.zf) ELSE fl.zf
ToBool(x) == IF ~ZeroFlag(x) THEN 1 ELSE 0              \* cast(): cmp_zero; setne
TruthI(x) == ~ZeroFlag(x)                               \* if/while/for/?:/&&/||: cmp_zero; je .L.else
NotI(x) == ZeroFlag(x)                                  \* !x: cmp_zero; sete

(* The operand of cmp_zero as a *register*.  A float or double lives in the low quadword of %xmm0: the low
   FW(F) bits are the value's encoding; for a float the bits above them are DEAD - movss from memory clears
   them, but cvtsd2ss, cvtsi2ss and the scalar arithmetic instructions leave there whatever the register held
   before (Intel SDM: "bits 127:32 of the destination are unchanged"), e.g. the upper half of the double that
   was just converted.  Dead(t) = the patterns the dead bits can hold (DeadW bits stand for the 32 real ones).
   ucomiss/ucomisd read exactly the operand's format, so cmp_zero is independent of them; an "optimised" test
   of the whole quadword (movq %xmm0,%rax; btr $sign,%rax; test %rax,%rax - MUT truth-bit-test) is not.
   A long double is tested on the x87 stack (fldz; fucomip): no dead bits.                                    *)
DeadW == 2
FW(F) == 1 + F.ebits + FracBits(F)
Dead(t) == IF t = "float" THEN 0..(Pw(DeadW) - 1) ELSE {0}
XmmOf(t, x, gg) == EncodeN(Fmt(t), x) + gg * Pw(FW(Fmt(t)))
ZeroFlagR(t, x, gg) ==
  IF t = "ldouble" THEN ZeroFlag(x)
  ELSE LET F == Fmt(t)  r == XmmOf(t, x, gg)  sign == Pw(FW(F) - 1) IN
       IF MUT = "truth-bit-test" THEN (IF (r \div sign) % 2 = 1 THEN r - sign ELSE r) = 0
       ELSE ZeroFlag(DecodeN(F, r % Pw(FW(F))))
ToBoolR(t, x, gg) == IF ~ZeroFlagR(t, x, gg) THEN 1 ELSE 0
TruthR(t, x, gg) == ~ZeroFlagR(t, x, gg)
NotR(t, x, gg) == ZeroFlagR(t, x, gg)

(* ---- comparisons ---------------------------------------------------------------------
   parse.c relational(): a > b is ND_LT(b, a), a >= b is ND_LE(b, a).
   SSE: xmm0 = lhs, xmm1 = rhs, "ucomis %xmm0, %xmm1" = flags of rhs ? lhs.
   x87: st1 = lhs, st0 = rhs, "fcomip" = flags of st0 ? st1 = rhs ? lhs.                      *)
RelI(t, op, x, y) ==
  LET sw  == op \in {"gt", "ge"} /\ MUT # "no-operand-swap"
      l   == IF sw THEN y ELSE x
      r   == IF sw THEN x ELSE y
      k   == CASE op \in {"lt", "gt"} -> "lt" [] op \in {"le", "ge"} -> "le" [] OTHER -> op
      fl  == IF MUT = "ucomis-operands" THEN Flags(l, r) ELSE Flags(r, l)
      par == (t # "ldouble" \/ FIXED) /\ ~(MUT = "drop-setnp" /\ t # "ldouble")
  IN CASE k = "eq" -> IF par THEN fl.zf /\ ~fl.pf ELSE fl.zf          \* sete; setnp; and
       [] k = "ne" -> IF par THEN ~fl.zf \/ fl.pf ELSE ~fl.zf         \* setne; setp; or
       [] k = "lt" -> ~fl.cf /\ ~fl.zf                                 \* seta
       [] k = "le" -> ~fl.cf                                           \* setae

(* ---- arithmetic --------------------------------------------------------------------------
   SSE: gen rhs, pushf, gen lhs, popf(1): xmm0 = lhs, xmm1 = rhs; "subss %xmm1, %xmm0" = xmm0 - xmm1.
   x87: gen lhs, gen rhs: st1 = lhs, st0 = rhs; GNU as assembles the AT&T mnemonics "fsubrp" / "fdivrp"
   (no operands) to DE E9 / DE F9 = st1 := st1 - st0 / st1 := st1 / st0 (the well-known AT&T swap). *)
ArithI(t, op, x, y) ==
  LET F == IF MUT = "ss-sd-selection" /\ t = "double" THEN F32 ELSE Fmt(t)
      rev == (MUT = "fsubp-fdivp" /\ t = "ldouble") \/ (MUT = "sse-operand-order" /\ t # "ldouble")
  IN IF rev /\ op \in {"sub", "div"} THEN Arith(F, op, y, x) ELSE Arith(F, op, x, y)
NegI(t, x) == Neg(x)                                       \* xorps sign mask / fchs
(* parse.c new_inc_dec: the value of x++ / x--.  Pinned: (x += addend) - addend, which is the old value only
   when both operations are exact; fixed: the old value saved in a temporary before the object is updated. *)
PostI(t, addend, x) ==
  LET F == Fmt(t)  one == IntToFloat(F, IVn(1)) IN
  IF FIXED THEN x
  ELSE IF addend = 1 THEN Sub(F, Add(F, x, one), one) ELSE Add(F, Sub(F, x, one), one)

(* ---- typing: get_common_type's floating part, funcall's promotion ------------------------ *)
CommonI(t1, t2) ==
  IF MUT = "rank-float-double" /\ {t1, t2} = {"float", "double"} THEN "float"
  ELSE IF t1 = "ldouble" \/ t2 = "ldouble" THEN "ldouble"
  ELSE IF t1 = "double" \/ t2 = "double" THEN "double"
  ELSE IF t1 = "float" \/ t2 = "float" THEN "float"
  ELSE CommonType(t1, t2)                                    \* integer part: C01
ArgPromoteI(t) == IF t = "float" /\ MUT # "no-vararg-promotion" THEN "double" ELSE Promote(t)
=============================================================================
