---- MODULE T1 ----
EXTENDS SoftFloatX, TLC
MinDen(F) == Fin(0, F.emin - F.p + 1, XOne)
ASSUME PrintT(<<"cmp", Cmp(MinDen(F64), MinDen(F64)), MagCmp(MinDen(F64), MinDen(F64)), XCmp(XOne, XOne), Rel("eq", MinDen(F64), MinDen(F64))>>)
====
