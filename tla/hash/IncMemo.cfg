SPECIFICATION Spec
CONSTANTS NDir = 2
 NN = 3
 MaxLen = 2
 Emit = "no"
 AllWorlds = TRUE
 KeyByRef = FALSE
INVARIANT SameText
INVARIANT MemoSound
CHECK_DEADLOCK FALSE
