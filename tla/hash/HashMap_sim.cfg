SPECIFICATION SimSpec
CONSTANTS NK = 3
 NV = 2
 InitCap = 4
 HMod = 4
 MaxCap = 16
 FIXED = TRUE
 Look = FALSE
 Emit = TRUE
VIEW View
INVARIANTS Refines NoFail NoDup UsedExact HasEmpty CapBound TypeOK
CHECK_DEADLOCK FALSE
