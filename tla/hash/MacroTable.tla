----------------------------- MODULE MacroTable -----------------------------
(* C17, macro level.  Histories of #define / #undef / #include of a guarded
   header over a few macro names.  Level A: a name is defined iff its most
   recent operation was a definition (then with that definition's body); an
   #include of the header H(k) = "#ifndef k / #define k g / text / #endif" is
   plain textual inclusion: it emits its text and defines k iff k is undefined
   at that point.  Level I: chibicc's re-inclusion shortcut — the include-guard
   memo (header -> guard name, filled at the first inclusion) consulted
   together with the macro table: a header is skipped iff its memoised guard is
   currently defined.  Invariant: the shortcut never changes the emitted text
   or the macro table.  Every transition (and its one-step extensions) is
   written out and replayed through `chibicc -E`.                            *)
EXTENDS Integers, Sequences, TLC, Json, CSV, IOUtils, SequencesExt

CONSTANTS NK, Emit, StaleGuard   \* StaleGuard: an #undef'd guard still counts as defined in the shortcut (control)

Keys == 1..NK
G == 3                              \* value a header gives to its guard
(* values: 1, 2 object-like bodies; 3 = G; 4, 5, 6 function-like definitions that differ only in the NAMES /
   ORDER of their parameters or in the body: 4 = K(a,b) a - b, 5 = K(b,a) a - b, 6 = K(a,b) b - a *)
Ops == { <<"def", k, v>> : k \in Keys, v \in {1, 2, 4, 5, 6} } \cup { <<"undef", k, 0>> : k \in Keys }
         \cup { <<"inc", k, 0>> : k \in Keys }

OpsSeq == SetToSeq(Ops)

VARIABLES def,     \* Level A = Level I macro table: key -> 0 (undefined) | value
          memo,    \* Level I: headers whose guard has been detected
          ever,    \* Level I ghost: keys that were defined at some time (what a stale table would still hold)
          outA, outI, hist
vars == <<def, memo, ever, outA, outI, hist>>
View == <<def, memo, ever, outA = outI>>

Init == /\ def = [k \in Keys |-> 0] /\ memo = {} /\ ever = {}
        /\ outA = <<>> /\ outI = <<>> /\ hist = <<>>

ApplyA(d, op) ==
  CASE op[1] = "def"   -> [d EXCEPT ![op[2]] = op[3]]
    [] op[1] = "undef" -> [d EXCEPT ![op[2]] = 0]
    [] op[1] = "inc"   -> IF d[op[2]] = 0 THEN [d EXCEPT ![op[2]] = G] ELSE d
EmitA(d, op) == IF op[1] = "inc" /\ d[op[2]] = 0 THEN <<op[2]>> ELSE <<>>

Step(op) ==
  LET k  == op[2]
      skipI == op[1] = "inc" /\ k \in memo /\ (def[k] # 0 \/ (StaleGuard /\ k \in ever))
  IN /\ Len(hist) < 6
     /\ hist' = Append(hist, op)
     /\ def' = ApplyA(def, op)
     /\ outA' = outA \o EmitA(def, op)
     /\ outI' = outI \o (IF op[1] = "inc" /\ ~skipI /\ def[k] = 0 THEN <<k>> ELSE <<>>)
     /\ memo' = IF op[1] = "inc" /\ ~skipI THEN memo \cup {k} ELSE memo
     /\ ever' = IF def'[k] # 0 THEN ever \cup {k} ELSE ever
     /\ (Emit => CSVWrite("%1$s", <<ToJson([hist |-> hist', out |-> outA',
                              fin |-> [i \in Keys |-> def'[i]],
                              nx |-> [j \in DOMAIN OpsSeq |-> [op |-> OpsSeq[j], out |-> outA' \o EmitA(def', OpsSeq[j]),
                                                      fin |-> [i \in Keys |-> ApplyA(def', OpsSeq[j])[i]]]]])>>, IOEnv.OUT))

Next == \E op \in Ops : Step(op)
Spec == Init /\ [][Next]_vars

(* the re-inclusion shortcut never changes the token stream *)
SameText == outA = outI
=============================================================================
