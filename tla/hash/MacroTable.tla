----------------------------- MODULE MacroTable -----------------------------
(* C17, macro level.  Histories of #define / #undef / #include of a guarded
   header / uses over a few macro names.

   The table does not start empty: besides the user's names (initially
   undefined) there are PREDEFINED names, of two kinds - static ones whose
   replacement list was installed by init_macros (value PRE), and DYNAMIC ones
   (__LINE__, __FILE__, __COUNTER__, __TIMESTAMP__, __BASE_FILE__: value DYN)
   whose expansion is computed by a handler at every use; the n-th dynamic use
   of a name carries its serial number n (observable for __COUNTER__).

   Level A: a name is defined iff its most recent operation was a definition
   (then with that definition's replacement list, whatever the table held for
   it before - user definition, predefined list or handler); a name no
   operation touched still has its initial meaning; an #include of the header
   H(k) = "#ifndef k / #define k g / text / #endif" is plain textual
   inclusion: it emits its text and defines k iff k is undefined at that point;
   a use of k emits what k means at that point.

   Level I: chibicc's table of Macro objects - an entry is (body, handler);
   expand_macro looks at the handler first; add_macro allocates a fresh entry
   (handler = NULL), add_builtin sets the handler afterwards; plus the
   re-inclusion shortcut - the include-guard memo (header -> guard name,
   filled at the first inclusion) consulted together with the macro table: a
   header is skipped iff its memoised guard is currently defined.

   Invariants: Level I emits the same text (SameText) and every name means the
   same in both (SameTable).  Every transition (and its one-step extensions)
   is written out and replayed through `chibicc -E`.

   Controls TLC must reject: StaleGuard (an #undef'd guard still counts as
   defined in the shortcut), KeepHandler (a redefinition updates the existing
   entry in place and leaves its handler alone).                             *)
EXTENDS Integers, Sequences, TLC, Json, CSV, IOUtils, SequencesExt

CONSTANTS NK,            \* user names 1..NK (initially undefined; each is the guard of a header)
          NP,            \* predefined static names NK+1..NK+NP
          ND,            \* predefined dynamic names NK+NP+1..NK+NP+ND
          Emit, StaleGuard, KeepHandler

User == 1..NK
Pre  == (NK + 1)..(NK + NP)
Dyn  == (NK + NP + 1)..(NK + NP + ND)
Keys == 1..(NK + NP + ND)
G   == 3                            \* value a header gives to its guard
PRE == 7                            \* the replacement list init_macros installed
DYN == 8                            \* computed by the handler at each use
(* values: 1, 2 object-like bodies; 3 = G; 4, 5, 6 function-like definitions that differ only in the NAMES /
   ORDER of their parameters or in the body: 4 = K(a,b) a - b, 5 = K(b,a) a - b, 6 = K(a,b) b - a.
   Predefined names are redefined with one object-like and one function-like definition.                      *)
DefVals(k) == IF k \in User THEN {1, 2, 4, 5, 6} ELSE {1, 4}
Ops == UNION { { <<"def", k, v>> : v \in DefVals(k) } : k \in Keys } \cup { <<"undef", k, 0>> : k \in Keys }
         \cup { <<"inc", k, 0>> : k \in User } \cup { <<"use", k, 0>> : k \in Keys }

OpsSeq == SetToSeq(Ops)

VARIABLES def,     \* Level A macro table: key -> 0 (undefined) | value
          cnt,     \* Level A: key -> number of dynamic uses so far
          ent,     \* Level I macro table: key -> [p |-> present, b |-> body value, h |-> has a handler]
          cntI,    \* Level I: dynamic uses so far
          memo,    \* Level I: headers whose guard has been detected
          ever,    \* Level I ghost: keys that were defined at some time (what a stale table would still hold)
          outA, outI, hist
vars == <<def, cnt, ent, cntI, memo, ever, outA, outI, hist>>
View == <<def, ent, memo, ever, outA = outI>>

Init0(k) == IF k \in User THEN 0 ELSE IF k \in Pre THEN PRE ELSE DYN
Absent == [p |-> FALSE, b |-> 0, h |-> FALSE]
Init == /\ def = [k \in Keys |-> Init0(k)] /\ cnt = [k \in Keys |-> 0]
        /\ ent = [k \in Keys |-> IF k \in User THEN Absent                               \* init_macros:
                                 ELSE IF k \in Pre THEN [p |-> TRUE, b |-> PRE, h |-> FALSE]  \*   define_macro
                                 ELSE [p |-> TRUE, b |-> 0, h |-> TRUE]]                      \*   add_builtin
        /\ cntI = [k \in Keys |-> 0]
        /\ memo = {} /\ ever = {}
        /\ outA = <<>> /\ outI = <<>> /\ hist = <<>>

Ev(t, k, v, n) == [t |-> t, k |-> k, v |-> v, n |-> n]

(* ---- Level A ---- *)
ApplyA(d, op) ==
  CASE op[1] = "def"   -> [d EXCEPT ![op[2]] = op[3]]
    [] op[1] = "undef" -> [d EXCEPT ![op[2]] = 0]
    [] op[1] = "inc"   -> IF d[op[2]] = 0 THEN [d EXCEPT ![op[2]] = G] ELSE d
    [] OTHER           -> d
CountA(d, c, op) == IF op[1] = "use" /\ d[op[2]] = DYN THEN [c EXCEPT ![op[2]] = @ + 1] ELSE c
EmitA(d, c, op) ==
  CASE op[1] = "inc" /\ d[op[2]] = 0 -> << Ev("G", op[2], 0, 0) >>
    [] op[1] = "use"                 -> << Ev("U", op[2], d[op[2]], c[op[2]]) >>
    [] OTHER                         -> <<>>
Fin(d, c) == [i \in Keys |-> [v |-> d[i], n |-> c[i]]]      \* what a probe of every name shows at the end

(* ---- Level I ---- *)
Means(e) == IF ~e.p THEN 0 ELSE IF e.h THEN DYN ELSE e.b     \* find_macro + expand_macro (handler first)
AddMacro(e, v) == [p |-> TRUE, b |-> v, h |-> IF KeepHandler /\ e.p THEN e.h ELSE FALSE]

Step(op) ==
  LET k  == op[2]
      defdI == Means(ent[k]) # 0
      skipI == op[1] = "inc" /\ k \in memo /\ (defdI \/ (StaleGuard /\ k \in ever))
      readI == op[1] = "inc" /\ ~skipI
  IN /\ Len(hist) < 6
     /\ hist' = Append(hist, op)
     /\ def' = ApplyA(def, op)
     /\ cnt' = CountA(def, cnt, op)
     /\ outA' = outA \o EmitA(def, cnt, op)
     /\ ent' = CASE op[1] = "def"     -> [ent EXCEPT ![k] = AddMacro(@, op[3])]
                 [] op[1] = "undef"   -> [ent EXCEPT ![k] = Absent]
                 [] readI /\ ~defdI   -> [ent EXCEPT ![k] = AddMacro(@, G)]
                 [] OTHER             -> ent
     /\ cntI' = IF op[1] = "use" /\ Means(ent[k]) = DYN THEN [cntI EXCEPT ![k] = @ + 1] ELSE cntI
     /\ outI' = outI \o (CASE readI /\ ~defdI  -> << Ev("G", k, 0, 0) >>
                           [] op[1] = "use"    -> << Ev("U", k, Means(ent[k]), cntI[k]) >>
                           [] OTHER            -> <<>>)
     /\ memo' = IF readI THEN memo \cup {k} ELSE memo
     /\ ever' = IF def'[k] # 0 THEN ever \cup {k} ELSE ever
     /\ (Emit => CSVWrite("%1$s", <<ToJson([hist |-> hist', out |-> outA', fin |-> Fin(def', cnt'),
                              nx |-> [j \in DOMAIN OpsSeq |->
                                        [op |-> OpsSeq[j], out |-> outA' \o EmitA(def', cnt', OpsSeq[j]),
                                         fin |-> Fin(ApplyA(def', OpsSeq[j]), CountA(def', cnt', OpsSeq[j]))]]])>>,
                          IOEnv.OUT))

Next == \E op \in Ops : Step(op)
Spec == Init /\ [][Next]_vars

(* the re-inclusion shortcut and the table of Macro objects never change the token stream *)
SameText == outA = outI
(* every name means in chibicc's table what its most recent operation (or, untouched, its initial state) says *)
SameTable == \A k \in Keys : Means(ent[k]) = def[k]
=============================================================================
