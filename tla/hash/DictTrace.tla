----------------------------- MODULE DictTrace -----------------------------
(* C17 trace validation.  Every hashmap_get2/put2/delete2 call the real
   compiler performed (hook H1: map, key, result) must be a step of the
   dictionary: a lookup returns what the last put for that (map, key) stored,
   and NULL after a delete or before any put.  `used < cap` at every call is
   the probe-termination invariant (an empty slot always exists).
   Executions of several processes are concatenated with "reset" events.   *)
EXTENDS Integers, Sequences, TLC, Json, IOUtils

Tr == ndJsonDeserialize(IOEnv.TRACE)
NIL == "(nil)"

VARIABLES l,      \* next event
          d       \* dictionary: "map|key" -> value tag
vars == <<l, d>>

Lookup(x) == IF x \in DOMAIN d THEN d[x] ELSE NIL
K(e) == e.m \o "|" \o e.k

Init == l = 1 /\ d = [x \in {} |-> NIL]

Ev(op) == l <= Len(Tr) /\ Tr[l].e = "hm" /\ Tr[l].op = op /\ l' = l + 1
Sane(e) == e.cap = 0 \/ e.used < e.cap

Get == /\ Ev("get")
       /\ Tr[l].r = Lookup(K(Tr[l]))
       /\ Sane(Tr[l])
       /\ d' = d
Put == /\ Ev("put")
       /\ Sane(Tr[l])
       /\ LET x == K(Tr[l]) IN d' = [y \in DOMAIN d \cup {x} |-> IF y = x THEN Tr[l].r ELSE d[y]]
Del == /\ Ev("del")
       /\ Sane(Tr[l])
       /\ LET x == K(Tr[l]) IN d' = [y \in DOMAIN d \ {x} |-> d[y]]
Reset == /\ l <= Len(Tr) /\ Tr[l].e = "reset" /\ l' = l + 1
         /\ d' = [x \in {} |-> NIL]

Next == Get \/ Put \/ Del \/ Reset
Spec == Init /\ [][Next]_vars
=============================================================================
