SPECIFICATION Spec
CONSTANTS NK = 3
 NV = 2
 InitCap = 4
 HMod = 8
 MaxCap = 16
 FIXED = FALSE
 Look = FALSE
 Emit = FALSE
VIEW View
INVARIANTS Refines NoFail NoDup UsedExact HasEmpty CapBound TypeOK
CHECK_DEADLOCK FALSE
