SPECIFICATION Spec
CONSTANTS NK = 2
 NP = 0
 ND = 0
 Emit = FALSE
 StaleGuard = FALSE
 KeepHandler = FALSE
VIEW View
INVARIANT SameText
INVARIANT SameTable
CHECK_DEADLOCK FALSE
