SPECIFICATION Spec
CONSTANTS NK = 2
 Emit = FALSE
 StaleGuard = FALSE
VIEW View
INVARIANT SameText
CHECK_DEADLOCK FALSE
