------------------------------ MODULE IncMemo ------------------------------
(* C17, another client of the name tables: the memo table of
   search_include_paths (preprocess.c), "file name as written in the #include
   -> index of the search directory in which it was found".

   World: search directories 1..NDir (the -I options, in order), header names
   1..NN; name n is present in the directories pres[n] (never empty).  A
   directive is (n, s, f): the name n WRITTEN in the spelling s, in the form
   f = "A" (<...>) or "Q" ("...", the including file's directory holds no
   header, so the search list decides as well).  The spellings
        p  n        d  ./n        dd  ././n        u  s/../n
   all denote the same file in every directory (path-name resolution: "." is
   the directory itself, every directory has a subdirectory s), but they are
   different strings, i.e. different keys of the memo table.  (Repeated
   slashes are left out: "//" inside a header name is undefined, 6.4.7p3.)  The real names
   are chosen so that their hashes collide (same home slot at every capacity,
   same length): the probe sequences of all keys overlap.

   Level A: every directive is resolved on its own - the first directory of
     the list that holds the name; the text of that copy is emitted.
   Level I: the memo is a dictionary keyed by the CONTENT of the written name
     at the time it was stored: a hit returns the stored directory without
     looking at the file system, a miss searches and stores.
   Invariant: the memo never changes what is included (SameText) and holds
     only true facts (MemoSound).

   Control TLC must reject, KeyByRef: the table keeps the caller's key
   POINTER (hashmap_put does not copy keys) and the caller hands in a scratch
   buffer that it overwrites at the next rewritten spelling; spellings other
   than p are normalised to n in that buffer first.  An entry stored through
   the buffer then compares equal to whatever the buffer holds now.          *)
EXTENDS Integers, Sequences, SequencesExt, FiniteSets, TLC, Json, CSV, IOUtils

CONSTANTS NDir, NN, MaxLen,
          Emit,          \* "no" | "all" (every transition) | "last" (histories of length MaxLen only)
          AllWorlds,     \* TRUE: every file system; FALSE: a few rotated ones (simulation of long histories)
          KeyByRef

Dirs   == 1..NDir
Names  == 1..NN
Spell  == {"p", "d", "dd", "u"}
Forms  == {"A", "Q"}
Ops    == { <<n, s, f>> : n \in Names, s \in Spell, f \in Forms }

VARIABLES pres,    \* the file system: name -> directories that hold it
          memo,    \* Level I: sequence (probe order = insertion order, all keys collide) of entries
                   \*          [n, s : the key as stored, ref : stored through the scratch buffer, dir]
          buf,     \* Level I (KeyByRef only): the name the scratch buffer holds now, 0 = nothing yet
          outA, outI, hist
vars == <<pres, memo, buf, outA, outI, hist>>

Least(S) == CHOOSE x \in S : \A y \in S : x <= y
ResolveA(n) == Least(pres[n])

NonEmpty == SetToSeq((SUBSET Dirs) \ {{}})
Rotated(k) == [n \in Names |-> NonEmpty[((n * 3 + k) % Len(NonEmpty)) + 1]]
Worlds == IF AllWorlds THEN [Names -> (SUBSET Dirs) \ {{}}] ELSE { Rotated(k) : k \in 1..Len(NonEmpty) }

Init == /\ pres \in Worlds
        /\ memo = <<>> /\ buf = 0 /\ outA = <<>> /\ outI = <<>> /\ hist = <<>>

(* does entry e answer a lookup of (n, s) when the scratch buffer holds b *)
Matches(e, n, s, b) ==
  IF KeyByRef
  THEN (IF e.ref THEN b ELSE e.n) = n          \* keys are normalised names; a buffer entry reads the buffer
  ELSE e.n = n /\ e.s = s                      \* keys are the written strings, compared by content
Hits(n, s, b) == { i \in DOMAIN memo : Matches(memo[i], n, s, b) }

Step(op) ==
  LET n == op[1]
      s == op[2]
      b == IF KeyByRef /\ s # "p" THEN n ELSE buf
      h == Hits(n, s, b)
      d == IF h # {} THEN memo[Least(h)].dir ELSE ResolveA(n)      \* a miss searches the list
  IN /\ Len(hist) < MaxLen
     /\ hist' = Append(hist, op)
     /\ buf' = b
     /\ outA' = Append(outA, <<n, ResolveA(n)>>)
     /\ outI' = Append(outI, <<n, d>>)
     /\ memo' = IF h # {} THEN memo ELSE Append(memo, [n |-> n, s |-> s, ref |-> (KeyByRef /\ s # "p"), dir |-> d])
     /\ pres' = pres
     /\ ((Emit = "all" \/ (Emit = "last" /\ Len(hist') = MaxLen)) =>
           CSVWrite("%1$s", <<ToJson([pres |-> [i \in Names |-> [j \in Dirs |-> IF j \in pres[i] THEN 1 ELSE 0]],
                                      hist |-> hist', out |-> outA'])>>, IOEnv.OUT))

Next == \E op \in Ops : Step(op)
Spec == Init /\ [][Next]_vars

SameText  == outA = outI
MemoSound == \A i \in DOMAIN memo : memo[i].dir = ResolveA(memo[i].n)
=============================================================================
