------------------------------ MODULE HashMap ------------------------------
(* C17.  Level I: chibicc's open-addressing hash table (hashmap.c) — buckets,
   tombstones, the 70 % rehash trigger, rehash sizing to < 50 %, the probe
   loops and their unreachable()/assert() failure exits — next to Level A: a
   dictionary.  The hash is not modelled: `h` assigns every key an arbitrary
   home value in 0..HMod-1 (chosen in Init), so TLC explores every collision
   pattern, at every capacity the table grows to (slot = h[k] % capacity).

   One action per public call (hashmap_put2 / hashmap_delete2); hashmap_get2
   is the state function Get.  With `Emit` the spec is also a test generator:
   the history variable `hist` (hidden from the fingerprint by VIEW) is the
   shortest operation sequence reaching the state, and every transition of
   the state graph is written out as one replayable behaviour.             *)
EXTENDS Integers, Sequences, FiniteSets, TLC, Json, CSV, IOUtils, Randomization

CONSTANTS NK,        \* keys are 1..NK
          NV,        \* values are 1..NV   (0 = NULL = absent)
          InitCap,   \* INIT_SIZE
          HMod,      \* home values range over 0..HMod-1
          MaxCap,    \* capacity bound asserted by CapBound (finite-state argument)
          FIXED,     \* TRUE: algorithm of the repaired tree; FALSE: pinned tree (D15)
          Emit,      \* TRUE: write every transition to IOEnv.OUT
          Look       \* TRUE: also write, for every transition, each one-operation extension

Keys == 1..NK
Vals == 1..NV

Empty == [t |-> "E"]
Tomb  == [t |-> "T"]
Ent(k, v) == [t |-> "K", k |-> k, v |-> v]

VARIABLES h, buckets, cap, used,   \* Level I
          dict,                    \* Level A
          fail,                    \* "none" | "assert" | "unreachable" | "nested-rehash"
          hist                     \* history (generation only)
vars == <<h, buckets, cap, used, dict, fail, hist>>
View == <<h, buckets, cap, used, dict, fail>>

Slot(c, k, i) == ((h[k] + i) % c) + 1

(* get_entry: slot of the live entry for k, 0 if absent, -1 = unreachable() *)
RECURSIVE Probe(_, _, _, _)
Probe(b, c, k, i) ==
  IF i >= c THEN -1
  ELSE LET s == Slot(c, k, i) IN
       IF b[s].t = "K" /\ b[s].k = k THEN s
       ELSE IF b[s].t = "E" THEN 0
       ELSE Probe(b, c, k, i + 1)
GetEntry(b, c, k) == IF c = 0 THEN 0 ELSE Probe(b, c, k, 0)

(* the probe loop of get_or_insert_entry: <<buckets', used', slot>>, slot -1 = unreachable() *)
RECURSIVE Ins(_, _, _, _, _, _)
Ins(b, c, u, k, i, tomb) ==
  IF i >= c
  THEN IF FIXED /\ tomb # 0 THEN <<[b EXCEPT ![tomb] = Ent(k, 0)], u, tomb>> ELSE <<b, u, -1>>
  ELSE LET s == Slot(c, k, i) IN
       IF b[s].t = "K" /\ b[s].k = k THEN <<b, u, s>>
       ELSE IF b[s].t = "T"
            THEN IF FIXED THEN Ins(b, c, u, k, i + 1, IF tomb = 0 THEN s ELSE tomb)
                 ELSE <<[b EXCEPT ![s] = Ent(k, 0)], u, s>>        \* pinned tree: D15
       ELSE IF b[s].t = "E"
            THEN IF tomb # 0 THEN <<[b EXCEPT ![tomb] = Ent(k, 0)], u, tomb>>
                 ELSE <<[b EXCEPT ![s] = Ent(k, 0)], u + 1, s>>
       ELSE Ins(b, c, u, k, i + 1, tomb)

NKeys(b) == Cardinality({i \in DOMAIN b : b[i].t = "K"})

RECURSIVE Grow(_, _)
Grow(n, c) == IF (n * 100) \div c >= 50 THEN Grow(n, c * 2) ELSE c

(* rehash(): copy live entries into a fresh table via hashmap_put2;
   result <<buckets, cap, used, ok>>, ok = "none" or the failure reached *)
RECURSIVE Reins(_, _, _, _, _)
Reins(old, i, nb, nc, nu) ==
  IF i > Len(old) THEN <<nb, nu, "none">>
  ELSE IF old[i].t # "K" THEN Reins(old, i + 1, nb, nc, nu)
  ELSE IF nu > 0 /\ (nu * 100) \div nc >= 70 THEN <<nb, nu, "nested-rehash">>
  ELSE LET r == Ins(nb, nc, nu, old[i].k, 0, 0) IN
       IF r[3] = -1 THEN <<nb, nu, "unreachable">>
       ELSE Reins(old, i + 1, [r[1] EXCEPT ![r[3]].v = old[i].v], nc, r[2])
Rehash(b, c) ==
  LET n  == NKeys(b)
      nc == Grow(n, c)
      r  == Reins(b, 1, [i \in 1..nc |-> Empty], nc, 0)
  IN <<r[1], nc, r[2], IF r[3] # "none" THEN r[3] ELSE IF r[2] = n THEN "none" ELSE "assert">>

GetOfB(b, c, k) == LET s == GetEntry(b, c, k) IN IF s > 0 THEN b[s].v ELSE IF s = 0 THEN 0 ELSE -1
Get(k) == GetOfB(buckets, cap, k)

DictGet(d, k) == IF k \in DOMAIN d THEN d[k] ELSE 0

(* every operation, in a fixed order *)
OpsSeq == [i \in 1..(NK * (NV + 1)) |->
             LET k == ((i - 1) \div (NV + 1)) + 1
                 v == (i - 1) % (NV + 1)
             IN IF v = 0 THEN <<"del", k, 0>> ELSE <<"put", k, v>>]
ApplyD(d, op) == IF op[1] = "put" THEN [x \in DOMAIN d \cup {op[2]} |-> IF x = op[2] THEN op[3] ELSE d[x]]
                 ELSE [x \in DOMAIN d \ {op[2]} |-> d[x]]

(* One behaviour per transition: the shortest history to the source state,
   the operation, the dictionary afterwards.  BFS never extends a transition
   that leads to an already known state (in particular a no-op such as
   re-putting a present key), yet the implementation's hidden state may
   differ there; with Look each transition is therefore also extended by
   every single further operation (Level A only: the dictionary).          *)
EmitT(op, b2, c2, d2, f2) ==
  IF Emit
  THEN CSVWrite("%1$s", <<ToJson([h |-> [k \in Keys |-> h[k]], hist |-> hist, op |-> op,
                                   exp |-> [k \in Keys |-> DictGet(d2, k)],
                                   cap |-> c2, fail |-> f2,
                                   nx |-> IF Look
                                          THEN [i \in DOMAIN OpsSeq |->
                                                 [op |-> OpsSeq[i],
                                                  exp |-> [k \in Keys |-> DictGet(ApplyD(d2, OpsSeq[i]), k)]]]
                                          ELSE <<>>])>>, IOEnv.OUT)
  ELSE TRUE

Put(k, v) ==
  LET pre == IF cap = 0 THEN <<[i \in 1..InitCap |-> Empty], InitCap, 0, "none">>
             ELSE IF (used * 100) \div cap >= 70 THEN Rehash(buckets, cap)
             ELSE <<buckets, cap, used, "none">>
      r   == Ins(pre[1], pre[2], pre[3], k, 0, 0)
      d2  == [x \in DOMAIN dict \cup {k} |-> IF x = k THEN v ELSE dict[x]]
      op  == <<"put", k, v>>
  IN /\ fail = "none"
     /\ hist' = Append(hist, op)
     /\ IF pre[4] # "none"
        THEN fail' = pre[4] /\ dict' = d2 /\ UNCHANGED <<h, buckets, cap, used>> /\ EmitT(op, buckets, cap, d2, pre[4])
        ELSE IF r[3] = -1
        THEN fail' = "unreachable" /\ dict' = d2 /\ UNCHANGED <<h, buckets, cap, used>> /\ EmitT(op, buckets, cap, d2, "unreachable")
        ELSE /\ buckets' = [r[1] EXCEPT ![r[3]].v = v]
             /\ cap' = pre[2] /\ used' = r[2] /\ dict' = d2
             /\ UNCHANGED <<h, fail>>
             /\ EmitT(op, buckets', pre[2], d2, "none")

Del(k) ==
  LET s  == GetEntry(buckets, cap, k)
      d2 == [x \in DOMAIN dict \ {k} |-> dict[x]]
      op == <<"del", k, 0>>
  IN /\ fail = "none"
     /\ hist' = Append(hist, op)
     /\ dict' = d2
     /\ IF s = -1
        THEN fail' = "unreachable" /\ UNCHANGED <<h, buckets, cap, used>> /\ EmitT(op, buckets, cap, d2, "unreachable")
        ELSE /\ buckets' = IF s > 0 THEN [buckets EXCEPT ![s] = Tomb] ELSE buckets
             /\ UNCHANGED <<h, cap, used, fail>>
             /\ EmitT(op, buckets', cap, d2, "none")

Init == /\ h \in [Keys -> 0..(HMod - 1)]
        /\ buckets = <<>> /\ cap = 0 /\ used = 0
        /\ dict = [k \in {} |-> 0]
        /\ fail = "none" /\ hist = <<>>

(* simulation of long histories: one random collision pattern per behaviour *)
SimInit == /\ h = [k \in Keys |-> RandomElement(0..(HMod - 1))]
           /\ buckets = <<>> /\ cap = 0 /\ used = 0
           /\ dict = [k \in {} |-> 0]
           /\ fail = "none" /\ hist = <<>>

Next == \E k \in Keys : Del(k) \/ \E v \in Vals : Put(k, v)
Spec == Init /\ [][Next]_vars
SimSpec == SimInit /\ [][Next]_vars

----------------------------------------------------------------------------
(* Refinement: hashmap_get2 answers as the dictionary does, for every key *)
Refines == fail = "none" => \A k \in Keys : Get(k) = DictGet(dict, k)
(* table maintenance never aborts the compiler *)
NoFail == fail = "none"
(* at most one live entry per key *)
NoDup == \A i, j \in DOMAIN buckets :
           (i # j /\ buckets[i].t = "K" /\ buckets[j].t = "K") => buckets[i].k # buckets[j].k
(* `used` counts the non-empty slots (live + tombstones) *)
UsedExact == used = Cardinality({i \in DOMAIN buckets : buckets[i].t # "E"})
(* an empty slot always exists, so both probe loops terminate *)
HasEmpty == cap > 0 => \E i \in DOMAIN buckets : buckets[i].t = "E"
(* the table cannot grow without bound for a bounded key set *)
CapBound == cap <= MaxCap
TypeOK == /\ cap \in {0} \cup {InitCap * x : x \in {1, 2, 4, 8, 16, 32}}
          /\ Len(buckets) = cap
=============================================================================
