"""C11 - the string literal as an initializer (tla/lex/LitInit.tla).

family "ovr":   one character array subobject receives a sequence of <= 3 initializers (string literal bare or
                braced, braced list of character constants, designated element).  Each behaviour TLC wrote is
                rendered in a container - an element of T[2][n] (the other element is a sentinel), the member
                `name` of struct { T name[n]; int k; }, the second element of an array of two such structs
                filled by `[0 ... 1] = { first, 7 }` - as a static and as an automatic object, and the object is
                dumped.  Judged per element: what the surviving initializers provide explicitly (characters,
                TERMINATOR, listed constants, designated elements) must be there; an element they do not provide
                must be zero - or, the open finding D35 of property C05 (a later string / brace does not clear
                the subtree), exactly a value that the specification says was discarded at that element; such
                elements are counted, not reported (C05 owns them).  Neighbours (sentinel, k, the copy made by
                the range) must be untouched.
family "elide": struct { int m1; SHAPE m2; int m3; } with a flat list; every leaf is printed (character arrays
                as bytes, pointers as the k+1 elements they point to, ints as values).
"strdiag":      a literal of another element width than the array's must draw a diagnostic.
gcc -std=gnu11 is the tie-break, as everywhere in C11.
"""
import json, os, sys
import vt
from vt import Infra
import c11

ESIZE = {"": 1, "u8": 1, "u": 2, "U": 4, "L": 4}
CPFX = {"": b"", "u8": b"", "u": b"u", "U": b"U", "L": b"L"}          # prefix of a character constant of the element type
SPFX = {"": b"", "u8": b"u8", "u": b"u", "U": b"U", "L": b"L"}
CONTS = ("elem", "member", "range")
SENT = 122                                                             # 'z'


def pname(p):
    return p or "plain"


def lit(c, j, k):
    """the string literal of k characters of initializer j"""
    return SPFX[c["pfx"]] + b'"' + "".join(chr(u) for u in c["units"][j][:k]).encode() + b'"'


def chrc(c, v):
    return CPFX[c["pfx"]] + b"'" + chr(v).encode() + b"'"


def ebytes(c, vals):
    return b"".join(int(v).to_bytes(ESIZE[c["pfx"]], "little") for v in vals)


# ------------------------------------------------------------------ family ovr
def ovr_item(c, j, s, desig):
    """initializer j for the subobject designated by `desig` (b"" = positional)"""
    eq = (desig + b" = ") if desig else b""
    if s["a"] == "S":
        x = lit(c, j, s["k"])
        return eq + ((b"{" + x + b"}") if s["br"] else x)
    if s["a"] == "B":
        return eq + b"{" + b", ".join(chrc(c, c["units"][j][i]) for i in range(s["k"])) + b"}"
    return desig + b"[%d] = " % (s["k"] - 1) + chrc(c, c["units"][j][0])           # E: slot k (1-based)


def ovr_render(i, c):
    et, n, st, cont = c11.ELEM[c["pfx"]], c["n"], c["steps"], c["cont"]
    N = b"%d" % i
    if cont == "elem":
        items = [ovr_item(c, 0, st[0], b"[0]"), b"[1] = {" + b", ".join([chrc(c, SENT)] * n) + b"}"]
        items += [ovr_item(c, j, s, b"[0]") for j, s in enumerate(st) if j]
        decl = et + b" %s[2][%d] = { " % (b"%s", n) + b", ".join(items) + b" };"
        pr = lambda x: b"dump(" + x + b", sizeof " + x + b");"
        pre = b""
    else:
        pre = b"struct SI" + N + b" { " + et + b" name[%d]; int k; };\n" % n
        first_pos = st[0]["a"] != "E"
        if cont == "member":
            items = [ovr_item(c, 0, st[0], b"" if first_pos else b".name"), b"7" if first_pos else b".k = 7"]
            items += [ovr_item(c, j, s, b".name") for j, s in enumerate(st) if j]
            decl = b"struct SI" + N + b" %s = { " + b", ".join(items) + b" };"
            pr = lambda x: b"dump(" + x + b".name, sizeof " + x + b".name); printf(\":%d\", " + x + b".k);"
        else:
            inner = [ovr_item(c, 0, st[0], b"" if first_pos else b".name"), b"7" if first_pos else b".k = 7"]
            items = [b"[0 ... 1] = { " + b", ".join(inner) + b" }"] + [ovr_item(c, j, s, b"[1].name") for j, s in enumerate(st) if j]
            decl = b"struct SI" + N + b" %s[2] = { " + b", ".join(items) + b" };"
            pr = lambda x: (b"dump(X[0].name, sizeof X[0].name); printf(\":%d/\", X[0].k); "
                            b"dump(X[1].name, sizeof X[1].name); printf(\":%d\", X[1].k);").replace(b"X", x)
    return (pre + b"static " + decl % (b"g" + N) + b"\n"
            b"static void f" + N + b"(void) { " + decl % b"l" + b" printf(\"R " + N + b" \"); " + pr(b"g" + N) +
            b" printf(\" \"); " + pr(b"l") + b" printf(\"\\n\"); }\n")


def ovr_fields(c, line):
    """-> {storage: dict(obj=[...], first=[...] or None, nb=neighbour text)} or None if the line is malformed"""
    f = line.split()
    if len(f) != 4 or f[0] != "R":
        return None
    n, es, out = c["n"], ESIZE[c["pfx"]], {}
    for sto, t in (("static", f[2]), ("auto", f[3])):
        try:
            if c["cont"] == "elem":
                b = bytes.fromhex(t)
                obj, nb = b[:n * es], b[n * es:].hex()
                first = None
            elif c["cont"] == "member":
                h, k = t.split(":")
                obj, nb, first = bytes.fromhex(h), k, None
            else:
                a, b = t.split("/")
                h0, k0 = a.split(":")
                h1, k1 = b.split(":")
                obj, first, nb = bytes.fromhex(h1), bytes.fromhex(h0), k0 + "/" + k1
        except ValueError:
            return None
        if len(obj) != n * es or (first is not None and len(first) != n * es):
            return None
        u = lambda bs: [int.from_bytes(bs[x:x + es], "little") for x in range(0, len(bs), es)]
        out[sto] = dict(obj=u(obj), first=u(first) if first is not None else None, nb=nb)
    return out


def ovr_nb(c):
    return {"elem": ebytes(c, [SENT] * c["n"]).hex(), "member": "7", "range": "7/7"}[c["cont"]]


def ovr_expect(i, c):
    """the line Level A demands exactly (what gcc must print)"""
    h = ebytes(c, c["obj"]).hex()
    if c["cont"] == "elem":
        t = h + ovr_nb(c)
    elif c["cont"] == "member":
        t = h + ":7"
    else:
        t = ebytes(c, c["first"]).hex() + ":7/" + h + ":7"
    return "R %d %s %s" % (i, t, t)


def ovr_roles(c):
    """which initializer provides each element (for the classification only)"""
    r = ["unmentioned"] * c["n"]
    for s in c["steps"]:
        if s["a"] == "E":
            r[s["k"] - 1] = "designated-element"
            continue
        r = ["unmentioned"] * c["n"]
        cov = min(c["n"], s["k"] + 1) if s["a"] == "S" else s["k"]
        for x in range(cov):
            r[x] = "listed-element" if s["a"] == "B" else ("terminator" if x == s["k"] else "character")
    return r


def ovr_judge(i, c, line):
    """-> (sig or None, number of elements that hold a discarded value (D35))"""
    base = "strinit:ovr:%s:%s:" % (pname(c["pfx"]), c["cont"])
    fl = ovr_fields(c, line) if line else None
    if fl is None:
        return base + "malformed-output", 0
    roles, bad, d35 = ovr_roles(c), {}, 0
    for sto in ("static", "auto"):
        g = fl[sto]
        for x in range(c["n"]):
            if g["obj"][x] == c["obj"][x]:
                continue
            if not c["expl"][x] and c["obj"][x] == 0 and g["obj"][x] in c["old"][x]:
                d35 += 1                                      # C05's open finding D35: not judged here
                continue
            bad.setdefault(roles[x] if c["expl"][x] else "unmentioned-element", set()).add(sto)
        if g["nb"] != ovr_nb(c):
            bad.setdefault("neighbour", set()).add(sto)
        if g["first"] is not None and g["first"] != c["first"]:
            bad.setdefault("range-first-copy", set()).add(sto)
    if not bad:
        return None, d35
    for role in ("terminator", "character", "listed-element", "designated-element", "unmentioned-element", "neighbour", "range-first-copy"):
        if role in bad:
            return base + role + ":" + ("both" if len(bad[role]) == 2 else sorted(bad[role])[0]), d35


# ------------------------------------------------------------------ family elide
def shape_name(t):
    if t["k"] == "arr":
        return "arr%d(%s)" % (t["c"], shape_name(t["e"]))
    if t["k"] == "st":
        return "st(%s)" % ",".join(shape_name(m) for m in t["ms"])
    return t["k"]


def elide_decl(c, t, inner, tag, defs):
    """C declaration of `inner` with type t; struct definitions are appended to defs"""
    et = c11.ELEM[c["pfx"]]
    if t["k"] == "chars":
        return et + b" " + inner + b"[%d]" % c["n"]
    if t["k"] == "ptr":
        return et + b" *" + inner
    if t["k"] == "int":
        return b"int " + inner
    if t["k"] == "arr":
        return elide_decl(c, t["e"], inner + b"[%d]" % t["c"], tag, defs)
    name = tag + b"_%d" % len(defs)
    defs.append(None)
    k = len(defs) - 1
    body = b" ".join(elide_decl(c, m, b"m%d" % (j + 1), tag, defs) + b";" for j, m in enumerate(t["ms"]))
    defs[k] = b"struct " + name + b" { " + body + b" };\n"
    return b"struct " + name + b" " + inner


def elide_render(i, c):
    N = b"%d" % i
    defs = []
    outer = dict(k="st", ms=[dict(k="int"), c["shape"], dict(k="int")])
    ty = elide_decl(c, outer, b"%s", b"SE" + N, defs)
    # inner structs must be defined before the ones that use them: definitions were reserved outer-first
    text = b"".join(reversed(defs))
    items = [lit(c, j, s["k"]) if s["a"] == "S" else b"%d" % s["k"] for j, s in enumerate(c["steps"])]
    init = b" = { " + b", ".join(items) + b" };"

    def pr(x):
        out = []
        for lf in c["leaves"]:
            acc = x + lf["p"].encode()
            s = c["steps"][lf["tok"] - 1]
            if lf["t"] == "chars":
                out.append(b"dump(" + acc + b", sizeof " + acc + b");")
            elif lf["t"] == "ptr":
                out.append(b"dump(" + acc + b", %d);" % ((s["k"] + 1) * ESIZE[c["pfx"]]))
            else:
                out.append(b"printf(\"%d\", " + acc + b");")
        return b" printf(\":\"); ".join(out)
    return (text + b"static " + ty % (b"g" + N) + init + b"\n"
            b"static void f" + N + b"(void) { " + ty % b"l" + init + b" printf(\"R " + N + b" \"); " + pr(b"g" + N) +
            b" printf(\" \"); " + pr(b"l") + b" printf(\"\\n\"); }\n")


def elide_expect(i, c):
    out = []
    for lf in c["leaves"]:
        j = lf["tok"] - 1
        s = c["steps"][j]
        if lf["t"] == "chars":
            out.append(ebytes(c, (c["units"][j][:s["k"]] + [0] * c["n"])[:c["n"]]).hex())
        elif lf["t"] == "ptr":
            out.append(ebytes(c, c["units"][j][:s["k"]] + [0]).hex())
        else:
            out.append(str(s["k"]))
    t = ":".join(out)
    return "R %d %s %s" % (i, t, t)


def elide_judge(i, c, line):
    base = "strinit:elide:%s:%s:" % (pname(c["pfx"]), shape_name(c["shape"]))
    exp = elide_expect(i, c)
    if line == exp:
        return None, 0
    f, e = (line or "").split(), exp.split()
    if len(f) != 4:
        return base + "malformed-output", 0
    for sto, a, b in (("static", f[2], e[2]), ("auto", f[3], e[3])):
        for lf, x, y in zip(c["leaves"], a.split(":") + [""] * 9, b.split(":")):
            if x != y:
                return base + "leaf-%s-differs:%s" % (lf["t"], "both" if f[2] == f[3] else sto), 0
    return base + "malformed-output", 0


# ------------------------------------------------------------------ glue used by c11.render / c11.expect
def render(i, c):
    return ovr_render(i, c) if c["fam"] == "ovr" else elide_render(i, c)


def expect(i, c):
    return ovr_expect(i, c) if c["fam"] == "ovr" else elide_expect(i, c)


def judge(i, c, line):
    return ovr_judge(i, c, line) if c["fam"] == "ovr" else elide_judge(i, c, line)


def describe(c):
    if c["fam"] == "ovr":
        txt = ovr_render(0, c).decode("utf-8", "replace").split("\n")
        return "%s" % [l for l in txt if l.startswith("static ") and "void" not in l][0][:200]
    return "%s %s = { %s }" % (shape_name(c["shape"]), pname(c["pfx"]),
                               ", ".join(("S%d" % s["k"]) if s["a"] == "S" else str(s["k"]) for s in c["steps"]))


def source_of(i, c):
    return (c11.PRELUDE + render(i, c) + b"int main(void) { f%d(); return 0; }\n" % i).decode("utf-8", "replace")


def key(c):
    return json.dumps([c["fam"], c["pfx"], c["n"], c.get("cont", ""), c.get("shape", 0), c["steps"]], sort_keys=True)


def read_cases(path):
    rows = vt.read_ndjson(path)
    ovr = sorted((r for r in rows if r.get("kind") == "strinit" and r["fam"] == "ovr"), key=key)
    eli = sorted((r for r in rows if r.get("kind") == "strinit" and r["fam"] == "elide"), key=key)
    diag = sorted((r for r in rows if r.get("kind") == "strdiag"), key=lambda r: (r["cls"], r["apfx"], r["lpfx"], r["n"]))
    return ovr, eli, diag


def tlc_jobs(ctx, out):
    return [
        lambda: c11.tlc_gen(ctx, "LitInit", "LitInit.cfg", out,
                            "string literal as an initializer: string_initializer / initializer2 (Level I) differ from 6.7.9p14-15, p19-21 (Level A)",
                            workers=3, Emit=True),
        lambda: c11.control(ctx, "LitInit", "LitInit.cfg", "no-terminator", Fams='{"ovr"}', MaxN=2),
        lambda: c11.control(ctx, "LitInit", "LitInit.cfg", "str-any-array", Fams='{"elide"}'),
    ]


def with_conts(ctx, ovr):
    """the container is a replay dimension: thorough = every applicable one, quick = one, rotating with index and seed"""
    out = []
    for j, c in enumerate(ovr):
        ok = [k for k in CONTS if k != "range" or len(c["steps"]) >= 2]
        for k in (ok if not ctx.quick else [ok[(j + ctx.seed) % len(ok)]]):
            out.append(dict(c, cont=k))
    return out


def execute(ctx, tree, idx, tag, per):
    """compile + run idx = [(index, case)] through the tree's chibicc (thread-safe: no reporting here).
    -> ({index: line}, [((index, case), stage, rc, text, gcc confirms Level A)])"""
    res, failed = c11.run_batches(ctx, "chibicc", tree, idx, tag, per=per)
    rejected = []
    if failed:
        r2, bad = c11.bisect_failed(ctx, "chibicc", tree, failed, tag, limit=2)
        res.update(r2)
        for (i, c), st, rc, out in bad:
            g, gf = c11.run_batches(ctx, "gcc", tree, [(i, c)], tag + "-g%d" % i, per=1)
            rejected.append(((i, c), st, rc, out, (not gf) and g.get(i) == expect(i, c)))
    return res, rejected


def settle(ctx, tree, idx, res, rejected, tag, per):
    """judge per element; gcc must confirm Level A exactly before anything is reported.  -> elements showing D35"""
    for (i, c), st, rc, out, confirmed in rejected:
        if not confirmed:
            ctx.oracle_disagreements += 1
            continue
        base = "strinit:%s:%s:%s:" % (c["fam"], pname(c["pfx"]), c["cont"] if c["fam"] == "ovr" else shape_name(c["shape"]))
        ctx.report(base + ("rejected" if st == "compile" and rc > 0 else "crashed"),
                   "chibicc %s rc=%s on %s: %s" % (st, rc, describe(c), str(out)[-300:]),
                   case=dict(kind="strinit", case=c, index=i, source=source_of(i, c)))
    bad, d35 = [], 0
    for i, c in idx:
        ctx.note_case("strinit:" + key(c))
        if i not in res:
            continue
        sig, k = judge(i, c, res[i])
        d35 += k
        if sig:
            bad.append((i, c, sig))
    if bad:
        gres, gf = c11.run_batches(ctx, "gcc", tree, [(i, c) for i, c, _ in bad], tag + "-gcc", per=per)
        if gf:
            g2, _ = c11.bisect_failed(ctx, "gcc", tree, gf, tag + "-gcc", limit=50)
            gres.update(g2)
        for i, c, sig in bad:
            if gres.get(i) != expect(i, c):
                ctx.oracle_disagreements += 1
                if os.environ.get("VERIF_VERBOSE"):
                    print("oracle disagreement: %s\n  spec %s\n  gcc  %s\n  got  %s" % (describe(c), expect(i, c), gres.get(i), res[i]), file=sys.stderr)
                continue
            ctx.report(sig, "%s: spec (=gcc) %s, chibicc %s" % (describe(c), expect(i, c)[:200], res[i][:200]),
                       case=dict(kind="strinit", case=c, index=i, expected=expect(i, c), got=res[i], source=source_of(i, c)))
    with c11._lock:
        ctx.cov["traces_validated_against_impl"] += len(res)
    return d35


def replay_cases(ctx, tree, cases, tag, first, per):
    idx = [(first + k, c) for k, c in enumerate(cases)]
    res, rejected = execute(ctx, tree, idx, tag, per)
    return settle(ctx, tree, idx, res, rejected, tag, per)


def diag_source(r):
    body = "".join(chr(96 + x) for x in range(1, r["k"] + 1)).encode()
    return b"static " + c11.ELEM[r["apfx"]] + b" x[" + (b"%d" % r["n"] if r["n"] else b"") + b"] = " + SPFX[r["lpfx"]] + b'"' + body + b'";\n'


def run_strdiag(ctx, tree, rows):
    """constraint violations of 6.7.9 that concern the literal: the translator owes a diagnostic (a message or a
    non-zero status); gcc must agree"""
    d = ctx.tmp("strdiag")

    def one(t):
        i, r = t
        f = "%s/d%d.c" % (d, i)
        open(f, "wb").write(diag_source(r))
        p = vt.run_limited([tree + "/chibicc", "-S", "-o", "/dev/null", f], timeout=30, mem_gb=2, errors="replace")
        g = None
        if p.returncode == 0 and not p.stderr.strip():
            g = vt.sh(["gcc", "-std=gnu11", "-S", "-o", "/dev/null", f], timeout=30, errors="replace")
            g = g.returncode != 0 or bool(g.stderr.strip())
        return r, p.returncode, p.stderr, g
    for r, rc, err, g in vt.pmap(one, list(enumerate(rows)), workers=4):
        src = diag_source(r).decode().strip()
        ctx.note_case("strdiag:" + src)
        if rc < 0:
            ctx.report("diag:crash:" + r["cls"], "chibicc died (%s) on %s" % (rc, src), case=dict(kind="strdiag", row=r))
        elif rc == 0 and not err.strip():
            if not g:
                ctx.oracle_disagreements += 1
                continue
            ctx.report("diag:undiagnosed:" + r["cls"], "constraint violation accepted without a diagnostic: %s" % src,
                       case=dict(kind="strdiag", row=r))
    ctx.cov["traces_validated_against_impl"] += len(rows)


def run_init(ctx, tree, path):
    ovr, eli, diag = read_cases(path)
    if len(ovr) < 8000 or len(eli) < 500 or len(diag) != 26:
        raise Infra("LitInit wrote only %d override / %d elision / %d diagnostic cases" % (len(ovr), len(eli), len(diag)))
    sel = with_conts(ctx, vt.subsample(ovr, ctx.seed, 3 if ctx.quick else 1))
    ex = next((c for c in sel if len(c["steps"]) == 2 and c["steps"][1]["a"] == "S" and c["n"] == 3 and c["cont"] == "member"), sel[0])
    ctx.sample(dict(kind="strinit", object=describe(ex), expected=ovr_expect(0, ex)))
    d35 = replay_cases(ctx, tree, sel, "sinit", 600000, 250)
    # one batch per (shape, prefix): a rejected list costs one batch, not the family
    groups = {}
    for c in eli:
        groups.setdefault((shape_name(c["shape"]), c["pfx"]), []).append(c)
    work = []
    for gi, g in enumerate(sorted(groups)):
        cs = groups[g] if not ctx.quick else (vt.subsample(groups[g], ctx.seed, 2) or groups[g][:1])
        work.append(("selide%d" % gi, [(700000 + gi * 1000 + k, c) for k, c in enumerate(cs)]))
    done = vt.pmap(lambda t: execute(ctx, tree, t[1], t[0], 1000), work, workers=4)
    for (tag, idx), (res, rejected) in zip(work, done):
        d35 += settle(ctx, tree, idx, res, rejected, tag, 1000)
    ex = eli[len(eli) // 2]
    ctx.sample(dict(kind="strinit", object=describe(ex), expected=elide_expect(0, ex)))
    run_strdiag(ctx, tree, diag)
    ctx.cov["strinit_override_cases"] = len(sel)
    ctx.cov["strinit_elision_cases"] = sum(len(w[1]) for w in work)
    ctx.cov["strinit_elements_holding_a_discarded_value_D35"] = d35


def replay(ctx, tree, c):
    if c.get("kind") == "strdiag":
        run_strdiag(ctx, tree, [c["row"]])
    else:
        replay_cases(ctx, tree, [c.get("case") or c], "sinit-replay", c.get("index", 0), 1)
