"""C18 — source positions survive preprocessing.

1. TLC, exhaustive: tla/lines/Lines.tla — chibicc's newline canonicalisation, splice removal
   with deferred newlines, line counting and #line deltas (Level I) give every probe the
   position Level A (physical line of the token in its own file, shifted only by #line) gives
   it, for every file of <= MaxLen units over 27 unit kinds (code, comments, splices, macros,
   includes, #line, and #if 1 / #if 0 / #else / #endif groups around them) x {LF, CRLF, CR} x
   {terminated, unterminated last line} -- up to exactly the two recorded deviations of the tree as it is
   (finding D16-line: a probe governed by a #line of its own file is one too high; finding
   D16-splice: probes on continuation lines).  Controls TLC must reject: a #line delta off by
   two, the tree's delta under the strict invariant, continuation-line probes included, a
   read_line_marker that rejects #line inside an open conditional; the repaired design (Lines_repaired.cfg) must satisfy the strict invariant.
2. Generate -> replay: every (sampled) scenario becomes a real main.c + headers; four
   observables of the tree under test are compared with Level A for every probe:
   __LINE__/__FILE__ in `chibicc -E`, the same printed by the compiled program, the
   `file:line:` prefix of a diagnostic provoked at a probe, and the .loc record preceding the
   probe's asm marker in `chibicc -S` (the last two also before, between and after #line directives and in
   headers: a directive governs only what follows it).
3. The end of input as a position: files that are CUT OFF (unclosed function body / unterminated macro
   invocation / incomplete directive on the last line) behind every body of <= 2 units; the diagnostic
   the compiler must give names the presumed number of the last physical line or that number + 1.
"""
import json, os, re, shutil, subprocess
import vt
from vt import Infra

HDR = {"I0": "h0.h", "I2": "h2.h", "J1": "g1.h", "IL": "hl.h", "IM": "mac.h"}
HDR_UNITS = {"h0.h": ["P"], "h2.h": ["B", "C", "P"], "g1.h": ["SN", "I0", "P"], "hl.h": ["P", "L50", "P", "K2", "P"],
             "mac.h": ["B", "DO"]}
MKINDS = ("MB", "MC", "MK", "MT")      # one statement over several lines, a probe (call with a magic argument) on each
EOL = {"LF": "\n", "CRLF": "\r\n", "CR": "\r"}
GROUP = {"G1": "#if 1", "G0": "#if 0", "GE": "#else", "GX": "#endif"}      # conditional groups around the other units
PROLOGUE = ["X", "D", "IM", "X"]
EPILOGUE = ["X"]
TAIL = {"none": EPILOGUE, "body": ["X"], "invoc": ["TV"], "dir": ["TD"]}      # TailOf in Lines.tla: how the main file ends
DEFINE = '#define M(t) printf("%s %d %s\\n", t, __LINE__, __FILE__)'
FIRST = "int printf(const char *, ...); static int qf(int x) { return x; } static int qg(int x, int y) { return x + y; }"


def magic(u, j):
    return 77000000 + u * 10 + j


def probe(pid, broken=False):
    fn = "undefined_fn" if broken else "printf"
    return '%s("%%s %%d %%s\\n", "%s", __LINE__, __FILE__); asm("# %s");' % (fn, pid, pid)


def unit_lines(k, tag, u, pos, broken=None, trunc="none"):
    """physical lines of a unit (mirror of UnitLines in Lines.tla); pos = 'first'/'mid'/'last' for X"""
    pid = "%s%s%d" % (tag, k, u)
    v = "v_%s_%d" % (re.sub(r"\W", "_", tag), u)
    b = broken == pid
    if k in GROUP:
        return [GROUP[k]]
    if k == "X":
        if pos == "last" and trunc == "body":
            return ["r += 1;"]          # and no `}`: the function body is never closed
        return [{"first": FIRST, "mid": "int main(void) { int r = 0;", "last": "return r & 0; }"}[pos]]
    q = ["qf(%d)" % magic(u, j) for j in range(3)]
    return {
        "P": [probe(pid, b)], "B": [""], "C": ["// c"], "CS": ["// c \\", probe(pid)],
        "K2": ["/* c", "c */"], "K3": ["/* c", "c", "c */"], "KP": ["/* c", "c */ " + probe(pid, b)],
        "SN": ["{ int %s \\" % v, "= 0; }"], "SN3": ["{ int %s \\" % v, "= \\", "0; }"],
        "SP": ["{ int %s = \\" % v, "0; } " + probe(pid)],
        "D": [DEFINE], "U": ['M("%s");' % pid], "V": ["M(", '"%s"' % pid, ");"],
        "L": ["#line 100"], "F": ['#line 200 "foo.c"'], "L50": ["#line 50"],
        "DO": ["#define OUT(t) M(t)"], "W": ['OUT("%s");' % pid],
        "TV": ["M(", '"%s"' % pid], "TD": ["#if 1 +"],       # the file ends inside an invocation / a directive's operand
        "MB": ["r += %s +" % q[0], "%s;" % q[1]], "MC": ["r += qg(%s," % q[0], "%s);" % q[1]],
        "MK": ["r += (%s," % q[0], "%s);" % q[1]], "MT": ["r += %s ?" % q[0], "%s :" % q[1], "%s;" % q[2]],
    }.get(k) or ['#include "%s"' % HDR[k]]


def pad_targets(npad, variant):
    """byte offsets at which the line terminators of the padding lines start: on and around the 4096-byte
    boundaries of read_file's chunks (..94 ..95 | ..96 ..97), near ones or 36 KB apart (files > 64 KB)"""
    spacing = 9 if variant >= 4 else 1
    delta = [-2, -1, 0, 1]
    return [4096 * spacing * (j + 1) + delta[(j + variant) % 4] for j in range(npad)]


def render(units, tag, eol, final, main=False, broken=None, pad=0, variant=0, trunc="none"):
    lines = []
    e = EOL[eol]
    off = 0
    targets = pad_targets(pad, variant)
    for i, k in enumerate(units):
        pos = "first" if i == 0 else ("last" if i == len(units) - 1 else "mid")
        ul = unit_lines(k, tag, i + 1, pos if main else None, broken, trunc)
        if main and pad and len(PROLOGUE) <= i < len(PROLOGUE) + pad:
            ul = ["//" + "c" * (targets[i - len(PROLOGUE)] - off - 2)]      # its terminator starts exactly at the target
        lines += ul
        off += sum(len(x) + len(e) for x in ul)
    return e.join(lines) + (e if final else ""), len(lines)


def closers(body):
    """#endif for every group the body leaves open (Closers in Lines.tla)"""
    depth = 0
    for k in body:
        depth += 1 if k in ("G1", "G0") else -1 if k == "GX" else 0
    return ["GX"] * depth


def all_units(b):
    return PROLOGUE + ["C"] * b.get("pad", 0) + b["body"] + closers(b["body"]) + TAIL[b.get("trunc", "none")]


def materialise(b, d, broken=None):
    pad = b.get("pad", 0)
    units = all_units(b)
    txt, n = render(units, "m", b["eol"], b["final"], main=True, broken=broken, pad=pad, variant=b.get("variant", 0),
                    trunc=b.get("trunc", "none"))
    if n != b["nphys"]:
        raise Infra("renderer and Lines.tla disagree on the number of physical lines (%d vs %d) for %s" % (n, b["nphys"], b["body"]))
    os.makedirs(d, exist_ok=True)
    open(d + "/main.c", "w", newline="").write(txt)
    for h, hu in HDR_UNITS.items():
        open(d + "/" + h, "w", newline="").write(render(hu, h, b["eol"], b["final"], broken=broken)[0])


def rl(cmd, d, timeout=60, cpu_s=20):
    """the compiler under test (or gcc as oracle) and programs they produce: vt.run_limited; a wall timeout is
    retried once with a long limit and is then infrastructure trouble; a CPU/memory kill is a failed run"""
    for tmo in (timeout, 6 * timeout):
        p = vt.run_limited(cmd, timeout=tmo, mem_gb=4, cpu_s=cpu_s, cwd=d, errors="replace")
        if p.returncode != -999:
            return p
    raise Infra("%s did not finish within %ds" % (" ".join(cmd)[-200:], 6 * timeout))


PROBE_RE = re.compile(r'"([A-Za-z0-9_.]+)"\s*,\s*(\d+)\s*,\s*"([^"]*)"')


def norm(f):
    return os.path.normpath(f)


def obs_E(cmd, d):
    p = rl(cmd + ["-E", "main.c"], d)
    if p.returncode:
        return None, p.stderr[-300:]
    return [(m.group(1), int(m.group(2)), norm(m.group(3))) for m in PROBE_RE.finditer(p.stdout)], ""


def obs_run(cmd, d):
    p = rl(cmd + ["-o", "prog", "main.c"], d)
    if p.returncode:
        return None, p.stderr[-300:]
    r = rl([d + "/prog"], d, cpu_s=5)
    out = []
    for l in r.stdout.splitlines():
        f = l.split(" ")
        if len(f) == 3 and f[1].isdigit():
            out.append((f[0], int(f[1]), norm(f[2])))
    return out, ""


def magic_ids(b):
    units = all_units(b)
    return {str(magic(u + 1, j)): "m%s%d%s" % (k, u + 1, "abc"[j]) for u, k in enumerate(units) if k in MKINDS for j in range(3)}


def obs_loc(cmd, d, mg=None):
    p = rl(cmd + ["-S", "-o", "-", "main.c"], d)
    if p.returncode:
        return None, p.stderr[-300:]
    files, cur, out = {}, None, []
    for l in p.stdout.splitlines():
        s = l.strip()
        m = re.match(r'\.file\s+(\d+)\s+.*"([^"]*)"\s*(?:md5.*)?$', s)
        if m:
            files[int(m.group(1))] = m.group(2)
            continue
        m = re.match(r"\.loc\s+(\d+)\s+(\d+)", s)
        if m:
            cur = (int(m.group(1)), int(m.group(2)))
            continue
        m = re.match(r"#\s+([A-Za-z0-9_.]+)$", s)
        if m and cur and re.search(r"(P|KP|SP)\d+$", m.group(1)):
            out.append((m.group(1), cur[1], norm(files.get(cur[0], "?"))))
        m = re.search(r"\$(77\d{6})\b", s)          # the magic argument of a probe call inside a multi-line statement
        if m and cur and mg and m.group(1) in mg:
            out.append((mg[m.group(1)], cur[1], norm(files.get(cur[0], "?"))))
    return out, ""


def obs_diag(cmd, d, gcc=False):
    if gcc:
        cmd = [x for x in cmd if x != "-w"] + ["-fsyntax-only", "-Werror=implicit-function-declaration"]
    else:
        cmd = cmd + ["-c", "-o", "/dev/null"]
    p = rl(cmd + ["main.c"], d)
    for l in p.stderr.splitlines():
        m = re.match(r"([^:\s]+):(\d+):(?:\d+:)? (?:error: )?", l)
        if m and (not gcc or "error" in l):
            return (norm(m.group(1)), int(m.group(2))), ""
    return None, p.stderr[-300:]


def real_file(pid):
    return "main.c" if pid.startswith("m") else pid.split(".h")[0] + ".h"


def reject_class(b):
    """root-cause tag of a rejected file: a #line directive (of the main file or of hl.h) inside an open conditional group"""
    depth = 0
    for k in b["body"]:
        if k in ("G1", "G0"):
            depth += 1
        elif k == "GX":
            depth -= 1
        elif k in ("L", "F", "IL") and depth > 0:
            return ":line-directive-in-group"
    return ""


def same_file(obs, e, name):
    """__FILE__ is the presumed name (6.10.4); a diagnostic or a debug record denotes the file of the token, by its
    presumed name (gcc) or by the name it was opened under (chibicc: error_tok and .file print File.name)"""
    return name == e[2] or (obs in ("loc", "diag") and name == real_file(e[0]))


def classify(b, exp, got, obs="E"):
    """compare probe lists; returns list of (sig suffix, detail)"""
    out = []
    if got is None:
        return [("rejected" + reject_class(b), "")]
    if [e[0] for e in exp] != [g[0] for g in got]:
        return [("probe-set", "expected probes %s got %s" % ([e[0] for e in exp], [g[0] for g in got]))]
    for e, g in zip(exp, got):
        if e[1] == g[1] and same_file(obs, e, g[2]):
            continue
        named = same_file(obs, e, g[2])
        k, governed = e[3], e[4]       # governed: position fixed by a preceding #line in the probe's own file (Level A's g)
        dev = g[1] - e[1]
        if k == "SP":
            cls = "splice-continuation" if dev == -1 and named else "splice-other"
        elif governed:
            cls = "line-directive-offbyone" if dev == 1 and named else "line-directive-other"
        else:
            cls = "line-shift" if named else "file-name"
        out.append((cls, "%s expected %s:%d got %s:%d" % (e[0], e[2], e[1], g[2], g[1])))
    return out


def expected(b, obs):
    exp = [(e["id"], e["line"], e["file"], e["k"], e["g"]) for e in b["exp"] if e["k"] != "EOF"]
    if obs == "loc":        # also before, between and after #line directives: a directive governs what follows it
        exp = [e for e in exp if e[3] in ("P", "KP", "SP") + MKINDS]
    else:
        exp = [e for e in exp if e[3] not in MKINDS]
    return exp


def classify_eof(b, got):
    """a diagnostic attached to the end of input: the presumed number E of the last physical line, or E + 1"""
    e = [x for x in b["exp"] if x["k"] == "EOF"][0]
    if got is None:
        return "no-diagnostic", e
    name, line = got
    if name not in (e["file"], "main.c"):
        return "file-name", e
    if line in (e["line"], e["line"] + 1):
        return None, e
    if not e["g"]:
        return "end-position", e
    if line == e["phys"] + 1:
        return "line-directive-ignored", e          # finding C18-eof-ignores-line: the physical L + 1 although a #line is in force
    if line == e["line"] + 2:
        return "line-directive-offbyone", e         # finding D16-line on top of "the line after the last"
    return "line-directive-other", e


def check_eof(tree, root, i, b, oracle=False):
    """cut-off file: the only observable is the diagnostic the compiler must give at the end of input"""
    d = "%s/t%d" % (root, i)
    materialise(b, d)
    cc = [tree + "/chibicc", "-I" + tree + "/include"] if not oracle else ["cc", "-w"]
    got, err = obs_diag(cc, d, gcc=oracle)
    cls, e = classify_eof(b, got)
    res = []
    if cls:
        tie = None
        if not oracle and b["eol"] != "CR":         # gcc does not take a lone CR as a line end: no oracle there
            gg, _ = obs_diag(["cc", "-w"], d, gcc=True)
            tie = classify_eof(b, gg)[0] is None
        res.append(("eof", cls, "file cut off (%s) after physical line %d: the end-of-input diagnostic must name %s:%d or :%d, got %s %s" % (
            b["trunc"], e["phys"], e["file"], e["line"], e["line"] + 1, got, err.strip()[-200:]), tie))
    shutil.rmtree(d, ignore_errors=True)
    return res


def check_one(tree, root, i, b, full, seed, oracle=False):
    """returns list of (obs, cls, detail, tie) ; tie = True if gcc agrees with the spec"""
    if b.get("trunc", "none") != "none":
        return check_eof(tree, root, i, b, oracle)
    d = "%s/s%d" % (root, i)
    materialise(b, d)
    cc = [tree + "/chibicc", "-I" + tree + "/include"] if not oracle else ["cc", "-w"]
    gcc = ["cc", "-w"]
    res = []
    todo = [("E", obs_E)] + ([("run", obs_run), ("loc", obs_loc)] if full else [])
    for name, fn in todo:
        if oracle and name == "loc":
            cc2 = cc + ["-g"]
        else:
            cc2 = cc
        got, err = fn(cc2, d, magic_ids(b)) if name == "loc" else fn(cc2, d)
        exp = expected(b, name)
        if name == "loc":       # the order in which operands are evaluated (hence emitted) is unspecified: compare per probe
            exp = sorted(exp, key=lambda e: e[0])
        if got is not None and name == "loc":
            got = sorted((g for g in got if g[0] in {e[0] for e in exp}), key=lambda g: g[0])
        for cls, det in classify(b, exp, got, name):
            tie = None
            if not oracle and b["eol"] != "CR":         # gcc does not take a lone CR as a line end: no oracle there
                gg, _ = fn(gcc + ["-g"], d, magic_ids(b)) if name == "loc" else fn(gcc, d)
                if gg is not None and name == "loc":
                    gg = sorted((g for g in gg if g[0] in {e[0] for e in exp}), key=lambda g: g[0])
                tie = not classify(b, exp, gg, name)
            res.append((name, cls, det + " " + err, tie))
    if full:        # a probe of the main file or of a header, before, between or after #line directives
        cands = [e for e in expected(b, "E") if e[3] in ("P", "KP")]
        if cands:
            e = cands[(seed + i) % len(cands)]
            materialise(b, d, broken=e[0])

            def judge(g):
                if g is None:
                    return [("no-diagnostic", "")]
                return classify(b, [e], [(e[0], g[1], g[0])], "diag")
            got, err = obs_diag(cc, d, gcc=oracle)
            for cls, det in judge(got):
                tie = None
                if not oracle and b["eol"] != "CR":
                    gg, _ = obs_diag(gcc, d, gcc=True)
                    tie = not judge(gg)
                res.append(("diag", cls, "diagnostic at %s expected %s:%d got %s %s %s" % (e[0], e[2], e[1], got, det, err), tie))
    shutil.rmtree(d, ignore_errors=True)
    return res


def replay_lines(ctx, tree, behs, full_every=1):
    root = ctx.tmp("lines")

    def one(t):
        i, b = t
        return i, check_one(tree, root, i, b, i % full_every == 0, ctx.seed)

    for i, res in vt.pmap(one, list(enumerate(behs))):
        b = behs[i]
        ctx.note_case("lines:%s:%s:%s:%s:%s:%s" % (",".join(b["body"]), b["eol"], b["final"], b.get("pad", 0), b.get("variant", 0), b.get("trunc", "none")),
                      nontrivial=len(b["exp"]) > 0)
        for obs, cls, det, tie in res:
            if tie is False:
                ctx.oracle_disagreements += 1
                continue
            ctx.report("lines:%s:%s" % (obs, cls), "file of units %s%s, line ending %s%s: %s" % (
                all_units(b)[len(PROLOGUE) + b.get("pad", 0):] if obs == "eof" else b["body"], " behind %d padding lines (variant %d)" % (b["pad"], b.get("variant", 0)) if b.get("pad") else "",
                b["eol"], "" if b["final"] else ", last line unterminated", det),
                case=dict(kind="lines", beh=b, obs=obs, full=True))
    ctx.cov["traces_validated_against_impl"] += len(behs)


def run(ctx):
    import concurrent.futures
    q = ctx.quick
    tree = ctx.build()
    ctx.phase("build done")
    out = os.path.join(ctx.scratch, "lines.ndjson")
    out2 = os.path.join(ctx.scratch, "long.ndjson")
    out3 = os.path.join(ctx.scratch, "cut.ndjson")
    what = "splice/line-count/#line design departs from Level A beyond the two recorded deviations"
    with concurrent.futures.ThreadPoolExecutor(5) as pool:
        if q:
            mcs = [pool.submit(ctx.tlc_expect_ok, "lines", "Lines", ctx.cfg("lines", "Lines_mc.cfg", MaxLen=3), what, workers=4, timeout=1500)]
        else:       # 24^4 x 6 scenarios exceed TLC's 10^6 limit for an enumerated set: one run per line ending
            mcs = [pool.submit(ctx.tlc_expect_ok, "lines", "Lines", ctx.cfg("lines", "Lines_mc.cfg", MaxLen=4, Eols='{"%s"}' % e), what,
                               workers=5, timeout=3000, heap="6g") for e in ("LF", "CRLF", "CR")]
        c1 = pool.submit(ctx.tlc, "lines", "Lines", ctx.cfg("lines", "Lines_mc.cfg", MaxLen=2, LineOff=2), workers=1, count=False)
        c3 = pool.submit(ctx.tlc, "lines", "Lines", ctx.cfg("lines", "Lines_mc.cfg", MaxLen=2, RecordedLineDev=0), workers=1, count=False)
        c4 = pool.submit(ctx.tlc, "lines", "Lines", ctx.cfg("lines", "Lines_mc.cfg", MaxLen=2, LineInGroupFix=False), workers=1, count=False)
        rep = pool.submit(ctx.tlc_expect_ok, "lines", "Lines", ctx.cfg("lines", "Lines_repaired.cfg", MaxLen=2),
                          "the repaired design (#line delta = n - line - 1) does not give Level A positions", workers=1)
        c5 = pool.submit(ctx.tlc, "lines", "Lines", ctx.cfg("lines", "Lines_mc.cfg", MaxLen=1, DeltaStamp='"file"'), workers=1, count=False)
        c6 = pool.submit(ctx.tlc, "lines", "Lines", ctx.cfg("lines", "Lines_mc.cfg", MaxLen=1, NumberEof=False), workers=1, count=False)
        c7 = pool.submit(ctx.tlc, "lines", "Lines", ctx.cfg("lines", "Lines_mc.cfg", MaxLen=1, RecordedEofDev=False), workers=1, count=False)
        c2cfg = ctx.cfg("lines", "Lines_mc.cfg", MaxLen=2)
        c2txt = open(c2cfg).read().replace("INVARIANTS SameButRecorded SameProbes", "INVARIANTS SameAll")
        open(c2cfg, "w").write(c2txt)
        c2 = pool.submit(ctx.tlc, "lines", "Lines", c2cfg, workers=1, count=False)
        gen = pool.submit(ctx.tlc, "lines", "Lines", ctx.cfg("lines", "Lines_gen.cfg", MaxLen=3, Seed=ctx.seed, Stride=73 if q else 5),
                          env=dict(OUT=out), workers=3 if q else 6, timeout=1500)
        # long files: the same units behind 8 padding lines whose ends fall on and around the 4096-byte read boundaries
        gen2 = pool.submit(ctx.tlc, "lines", "Lines", ctx.cfg("lines", "Lines_gen.cfg", MaxLen=2, Pad=8, Seed=ctx.seed, Stride=19 if q else 2),
                           env=dict(OUT=out2), workers=2, timeout=1500)
        # files that are cut off (the end of input as a position): the whole family is model-checked and emitted, the seed picks the replayed ones
        gen3 = pool.submit(ctx.tlc, "lines", "Lines", ctx.cfg("lines", "Lines_gen.cfg", MaxLen=2, Truncs='{"body","invoc","dir"}'),
                           env=dict(OUT=out3), workers=2, timeout=1500)
        g = gen.result()
        if not g.ok:
            ctx.report("tlc:Lines:gen:%s" % g.violated, "Lines.tla generation run violated %s" % g.violated,
                       case=dict(kind="tlcout", out=g.trace_text()[:3000]))
        behs = vt.read_ndjson(out)
        if len(behs) < 300:
            raise Infra("Lines generator wrote only %d scenarios" % len(behs))
        behs.sort(key=lambda b: json.dumps(b, sort_keys=True))
        ctx.phase("gen done")
        b = behs[len(behs) // 2]
        ctx.sample(dict(kind="file", units=all_units(b), line_ending=b["eol"], last_line_terminated=b["final"],
                        expected_probes=b["exp"]))
        replay_lines(ctx, tree, behs, full_every=3 if q else 2)
        ctx.phase("replay done")
        g2 = gen2.result()
        if not g2.ok:
            ctx.report("tlc:Lines:gen-long:%s" % g2.violated, "Lines.tla (Pad = 8) violated %s" % g2.violated,
                       case=dict(kind="tlcout", out=g2.trace_text()[:3000]))
        longs = vt.read_ndjson(out2)
        if len(longs) < 100:
            raise Infra("Lines generator wrote only %d long-file scenarios" % len(longs))
        longs.sort(key=lambda b: json.dumps(b, sort_keys=True))
        for i, b in enumerate(longs):
            b["variant"] = (i + ctx.seed) % 8        # which boundary each padding line hits; 4..7: lines 36 KB apart (file > 64 KB)
        replay_lines(ctx, tree, longs, full_every=4 if q else 2)
        ctx.sample(dict(kind="long file", body=longs[0]["body"], line_ending=longs[0]["eol"],
                        padding_line_ends_at=pad_targets(8, longs[0]["variant"])))
        ctx.phase("long files done")
        g3 = gen3.result()
        if not g3.ok:
            ctx.report("tlc:Lines:cut-off:%s" % g3.violated, "Lines.tla (files that are cut off) violated %s" % g3.violated,
                       case=dict(kind="tlcout", out=g3.trace_text()[:3000]))
        cuts = vt.read_ndjson(out3)
        if len(cuts) < 9000:
            raise Infra("Lines generator wrote only %d cut-off files" % len(cuts))
        cuts.sort(key=lambda b: (b["trunc"], json.dumps(b, sort_keys=True)))       # stratified: every kind of end is sampled evenly
        stride = 7 if q else 2
        cuts = [b for i, b in enumerate(cuts) if (i + ctx.seed) % stride == 0]
        replay_lines(ctx, tree, cuts)
        ctx.sample(dict(kind="cut-off file", units=all_units(cuts[0]), ends=cuts[0]["trunc"], line_ending=cuts[0]["eol"],
                        last_line_terminated=cuts[0]["final"], end_of_input=[e for e in cuts[0]["exp"] if e["k"] == "EOF"][0]))
        ctx.phase("cut-off files done")
        for mc in mcs:
            mc.result()
        rep.result()
        if c1.result().ok:
            raise Infra("sensitivity control failed: TLC accepts a #line delta that is off by two")
        if c3.result().ok:
            raise Infra("sensitivity control failed: TLC accepts the tree's #line delta under the strict invariant")
        if c2.result().ok:
            raise Infra("sensitivity control failed: TLC accepts continuation-line probes (SameAll)")
        if c5.result().ok:
            raise Infra("sensitivity control failed: TLC accepts a #line delta taken from the File when preprocessing is over (not stamped per token)")
        if c6.result().ok:
            raise Infra("sensitivity control failed: TLC accepts an add_line_numbers that leaves the EOF token unnumbered")
        if c7.result().ok:
            raise Infra("sensitivity control failed: TLC accepts the tree's unstamped EOF token under the strict invariant")
        if c4.result().ok:
            raise Infra("sensitivity control failed: TLC accepts a read_line_marker that rejects #line inside an open conditional")
    ctx.assumptions += ["Level I (Lines.tla) is a hand transcription of tokenize.c/preprocess.c at the granularity of abstract characters",
                        "a lone CR is a line terminator (chibicc's documented choice; gcc differs, so CR files have no tie-break oracle)",
                        "after `#line n \"f\"` a diagnostic or .loc record may name the file by its presumed name or by the name it was opened under; the line must be the presumed one",
                        "the end of input is judged only in files whose last physical line holds a token (gcc names the last line that has one, chibicc the line after the last)"]
    return ctx.finish(
        rule="case = one file (prologue + <=3 units over 27 kinds (conditional groups included; groups left open are closed) + epilogue, or <=2 units behind 8 padding lines ending at the 4096-byte read boundaries, or <=2 units and the file cut off in one of three ways) x line ending x terminated/unterminated, with its five headers; every probe in it is compared on up to four observables (-E, compiled program, diagnostic prefix, .loc - the last two also around #line directives and in headers); a cut-off file is judged by the line of its end-of-input diagnostic; non-trivial = at least one probe; distinct = distinct (unit sequence, line ending, termination)",
        exhaustive=not q, extra=dict(scenarios_replayed=len(behs), long_file_scenarios_replayed=len(longs), cut_off_files_replayed=len(cuts)))


def replay(ctx, path):
    c = json.load(open(os.path.join(path, "case.json")))
    c = c.get("case") or c
    tree = ctx.build()
    if c.get("kind") == "lines":
        replay_lines(ctx, tree, [c["beh"]])
    elif c.get("kind") == "tlc":
        ctx.tlc_expect_ok(c["area"], c["module"], c["cfg"], "replayed model check", env=c.get("env"))
    return ctx.finish(rule="replay of one recorded case")
