"""C04, VLA / alloca blocks (Level A: AllocaI.tla's BlocksIntact / TempsIntact / Disjoint / Aligned, judged on
the real binary): blocks are created in a call-nesting context, filled, other blocks / locals / temporaries are
written and calls are made, then every block, local and pending temporary must still hold what was written;
addresses are compared only modulo alignment and as pairwise disjointness of [addr, addr+size)."""
import json
import vt
import c04

PRELUDE = r'''
int printf(const char *, ...);
void *alloca(unsigned long);
static char *gp[8]; static int gn;
static long use(char *p, int n, int tag) { for (int j = 0; j < n; j++) p[j] = (char)(tag + 3 * j); gp[tag % 8] = p; gn++; return n; }
static int chk(char *p, int n, int tag) { for (int j = 0; j < n; j++) if (p[j] != (char)(tag + 3 * j)) return 0; return 1; }
static long id(long x) { volatile char junk[64]; for (int j = 0; j < 64; j++) junk[j] = 0x5a; return x; }
static long sum9(long a, long b, long c, long d, long e, long f, long g, long h, long i) {
  volatile char junk[96]; for (int j = 0; j < 96; j++) junk[j] = 0x33;
  return a + 2 * b + 3 * c + 5 * d + 7 * e + 11 * f + 13 * g + 17 * h + 19 * i; }
static int disj(void *a, unsigned long na, void *b, unsigned long nb) {
  unsigned long x = (unsigned long)a, y = (unsigned long)b; return x + na <= y || y + nb <= x; }
#define AL(p, a) ((unsigned long)(p) % (a) == 0)
/* an object initialised with { v }: first byte v, all other value bytes zero */
static int ci(char *p, int n, int v) { if (p[0] != (char)v) return 0; for (int j = 1; j < n; j++) if (p[j]) return 0; return 1; }
typedef struct __attribute__((aligned(16))) { int a; } S16;
typedef struct { unsigned char r, g, b; } S3;
/* up to three initialised objects received together: each holds { 65 + position }, they are pairwise disjoint and
   aligned; n = 1000 * alignment + 100 * size + number of value bytes (0 = no object).  Afterwards the objects are
   scribbled on, so that the next initialisation has to clear them again */
static int ci3(char *a, int na, char *b, int nb, char *c, int nc) {
  char *p[3] = {a, b, c}; int n[3] = {na, nb, nc}, r = 1;
  for (int j = 0; j < 3; j++) if (n[j]) {
    r = r && ci(p[j], n[j] % 100, 65 + j) && AL(p[j], n[j] / 10000);
    for (int k = 0; k < j; k++) if (n[k]) r = r && disj(p[j], n[j] / 100 % 100, p[k], n[k] / 100 % 100);
  }
  for (int j = 0; j < 3; j++) if (n[j]) for (int k = 0; k < n[j] / 100 % 100; k++) p[j][k] = 0xee;
  return r;
}
'''
VLA_SIZES = [1, 2, 7, 8, 9, 16, 17]
ALLOCA_SIZES = [1, 8, 15, 16, 17, 33, 48]
CONTEXTS = ["plain", "arg", "loop", "two", "push1", "push2", "push3", "vla2d", "vla_sub", "vla_ptrdiff", "sizeof_once", "struct_elem",
            "td_if", "td_switch", "td_goto", "td_loop", "td_elem", "typeof_if", "td_once", "typeof_once"]


def cases():
    out = []
    for kind, sizes in (("alloca", ALLOCA_SIZES), ("vla", VLA_SIZES)):
        for c in CONTEXTS:
            if kind == "vla" and c in ("arg", "push1", "push2", "push3"):
                continue                      # a VLA is a declaration, it cannot sit inside an expression
            if kind == "alloca" and (c in ("vla2d", "vla_sub", "vla_ptrdiff", "sizeof_once", "struct_elem") or c.startswith(("td_", "typeof_"))):
                continue
            for n in (sizes if c != "vla_ptrdiff" else [7]):
                for m in ((1, 17) if c in ("two", "vla2d") else (1, 3, 17) if c in ("vla_sub", "vla_ptrdiff") else (0,)):
                    out.append(dict(kind=kind, ctx=c, n=n, m=m))
    return out


def render_blk(i, c):
    n, m, k, cx = c["n"], c["m"], c["kind"], c["ctx"]
    f = ["static void f%d(void) {" % i, " int ok = 1, al = 1, dj = 1; long r = 0, e = 0; volatile int n = %d, m = %d;" % (n, m),
         " char loc[24]; volatile long l1 = 0x1111; gn = 0; use(loc, 24, 5); gn = 0;"]
    new = (lambda v, sz: "char *%s = alloca(%s);" % (v, sz)) if k == "alloca" else (lambda v, sz: "char %s[%s];" % (v, sz))
    if cx == "plain":
        f += [" %s use(p, n, 7); l1 = 0x2222; r = sum9(1, 2, 3, 4, 5, 6, 7, 8, id(9)); e = %d;" % (new("p", "n"), 1 + 4 + 9 + 20 + 35 + 66 + 91 + 136 + 171),
              " ok = chk(p, n, 7) && chk(loc, 24, 5) && l1 == 0x2222; al = AL(p, %d); dj = disj(p, n, loc, 24);" % (16 if k == "alloca" else 1)]
    elif cx == "arg":
        f += [" r = sum9(id(1), id(2), use(alloca(n), n, 7), id(4), 5, id(6), use(alloca(n + 1), n + 1, 9), 8, id(9)); e = %d;"
              % (1 + 4 + 3 * n + 20 + 35 + 66 + 13 * (n + 1) + 136 + 171),
              " ok = gn == 2 && chk(gp[7], n, 7) && chk(gp[1], n + 1, 9) && chk(loc, 24, 5); al = AL(gp[7], 16) && AL(gp[1], 16);",
              " dj = disj(gp[7], n, gp[1], n + 1) && disj(gp[7], n, loc, 24) && disj(gp[1], n + 1, loc, 24);"]
    elif cx in ("push1", "push2", "push3"):
        d = int(cx[-1])
        ex = "use(alloca(n), n, 7)"
        vals = [7, 11, 13][:d]
        for v in vals:
            ex = "(%s + id(%d))" % (ex, v)
        f += [" r = %s; e = %d;" % (ex, n + sum(vals)),
              " ok = gn == 1 && chk(gp[7], n, 7) && chk(loc, 24, 5); al = AL(gp[7], 16); dj = disj(gp[7], n, loc, 24);"]
    elif cx == "loop":
        f += [" char *pp[3];", " for (int it = 0; it < 3; it++) { %s use(p, n, 20 + it); pp[it] = p; l1 += id(it); ok = ok && chk(p, n, 20 + it);%s }"
              % (new("p", "n"), " al = al && AL(p, 16);" if k == "alloca" else ""),
              " ok = ok && chk(loc, 24, 5) && l1 == 0x1111 + 3;"]
        if k == "alloca":
            f += [" for (int it = 0; it < 3; it++) { ok = ok && chk(pp[it], n, 20 + it); dj = dj && disj(pp[it], n, loc, 24) && disj(pp[it], n, pp[(it + 1) % 3], n); }"]
    elif cx == "two":
        f += [" %s use(p, n, 7); %s use(q, m, 40); l1 = id(0x3333); use(p, n, 8);" % (new("p", "n"), new("q", "m")),
              " ok = chk(q, m, 40) && chk(p, n, 8) && chk(loc, 24, 5) && l1 == 0x3333; use(q, m, 41); ok = ok && chk(p, n, 8) && chk(q, m, 41);",
              " al = AL(p, %d) && AL(q, %d); dj = disj(p, n, q, m) && disj(p, n, loc, 24) && disj(q, m, loc, 24);" % ((16, 16) if k == "alloca" else (1, 1))]
    elif cx == "vla2d":
        f += [" char *b = alloca(16); use(b, 16, 50); int a[n][m]; r = sizeof a; e = %d;" % (n * m * 4),
              " for (int x = 0; x < n; x++) for (int y = 0; y < m; y++) a[x][y] = 1000 * x + y;",
              " ok = chk(b, 16, 50) && chk(loc, 24, 5) && (char *)&a[n - 1][m - 1] - (char *)&a[0][0] == %d && sizeof a[0] == %d;" % ((n * m - 1) * 4, m * 4),
              " for (int x = 0; x < n; x++) for (int y = 0; y < m; y++) ok = ok && a[x][y] == 1000 * x + y && *(*(a + x) + y) == 1000 * x + y;",
              " al = AL(a, 4); dj = disj(a, sizeof a, b, 16) && disj(a, sizeof a, loc, 24);"]
    elif cx == "vla_sub":
        # rows of a 2-D VLA reached by SUBTRACTION from a pointer to a row: Level A's address of row x is
        # a + x * (m * sizeof(int)) whatever the spelling: *(end - k), a + n - 1, &a[i] - k, p -= k, --p, end - a
        rs = m * 4
        f += [" char *b = alloca(16); use(b, 16, 50); int a[n][m]; int (*end)[m] = a + n; int (*p)[m];",
              " for (int x = 0; x < n; x++) for (int y = 0; y < m; y++) a[x][y] = -1;",
              " for (int k = 1; k <= n; k++) for (int y = 0; y < m; y++) (*(end - k))[y] = 1000 * (n - k) + y;",
              " for (int x = 0; x < n; x++) for (int y = 0; y < m; y++) ok = ok && a[x][y] == 1000 * x + y;",
              " ok = ok && (char *)(end - 1) == (char *)a + %d && (char *)(&a[n - 1] - (n - 1)) == (char *)a;" % ((n - 1) * rs),
              " p = a + n - 1; ok = ok && (char *)p == (char *)a + %d; p -= n - 1; ok = ok && (char *)p == (char *)a;" % ((n - 1) * rs),
              " p = end; --p; (*p)[m - 1] = 77; ok = ok && a[n - 1][m - 1] == 77; p = end; p--; ok = ok && (char *)p == (char *)a + %d;" % ((n - 1) * rs),
              " (&a[n - 1] - (n - 1))[0][m - 1] = 88; ok = ok && a[0][m - 1] == 88; (end - n)[n - 1][0] = 99; ok = ok && a[n - 1][0] == 99;",
              " ok = ok && chk(b, 16, 50) && chk(loc, 24, 5);",
              " al = AL(a, 4); dj = disj(a, sizeof a, b, 16) && disj(a, sizeof a, loc, 24);"]
    elif cx.startswith(("td_", "typeof_")):
        # a variably modified type named by a typedef (or typeof) and used by several declarations of which the
        # textually first is NOT executed: every array still has its own n elements (size fixed where the typedef
        # / the original declaration is reached, C11 6.7.8p3), sizeof agrees, it overlaps nothing, contents survive
        S = 4 * n

        def epi(v, tag, sz=S):
            return ("r += sizeof %s; use((char *)%s, %d, %d); l1 += id(0); ok = ok && chk((char *)%s, %d, %d) && chk(b, 16, 50) && chk(loc, 24, 5)"
                    " && l1 == 0x1111; dj = dj && disj(%s, %d, b, 16) && disj(%s, %d, loc, 24) && disj(%s, %d, (void *)&n, 4)"
                    " && disj(%s, %d, (void *)&l1, 8) && disj(%s, %d, (void *)&z, 4); al = al && AL(%s, 4);"
                    % (v, v, sz, tag, v, sz, tag, v, sz, v, sz, v, sz, v, sz, v, sz, v))
        f += [" char *b = alloca(16); use(b, 16, 50); volatile int z = 0;"]
        if cx == "td_if":
            f += [" typedef int T[n]; if (z) { T a; %s } else { T c; %s } e = %d;" % (epi("a", 7), epi("c", 9), S)]
        elif cx == "typeof_if":
            f += [" int base[n]; %s if (z) { __typeof__(base) a; %s } else { __typeof__(base) c; %s } ok = ok && chk((char *)base, %d, 3); e = %d;"
                  % (epi("base", 3), epi("a", 7), epi("c", 9), S, 2 * S)]
        elif cx == "td_switch":
            f += [" typedef int T[n]; switch (z + 1) { case 0: { T a; %s } break; case 1: { T c; %s } break; default: { T d; %s } } e = %d;"
                  % (epi("a", 7), epi("c", 9), epi("d", 11), S)]
        elif cx == "td_goto":
            f += [" typedef int T[n]; if (!z) goto skip%d; { T a; %s } skip%d:; { T c; %s } e = %d;" % (i, epi("a", 7), i, epi("c", 9), S)]
        elif cx == "td_loop":
            f += [" typedef int T[n]; for (int it = 0; it < 3; it++) { if (it == 5) { T a; %s } else if (it != 1) { T c; %s } else { T d; %s } } e = %d;"
                  % (epi("a", 7), epi("c", 9), epi("d", 11), 3 * S)]
        elif cx == "td_elem":
            f += [" typedef int Row[n]; if (z) { Row r0; %s } volatile int rows = 3; Row x[rows]; %s"
                  " ok = ok && (char *)&x[1] - (char *)&x[0] == %d && sizeof x[0] == %d && (char *)&x[2][n - 1] - (char *)x == %d; e = %d;"
                  % (epi("r0", 7), epi("x", 9, 3 * S), S, S, 3 * S - 4, 3 * S)]
        elif cx == "td_once":
            # the size expression is evaluated when the typedef is reached, not at each use
            f += [" int k = n; typedef int T[k]; k = 99; T a; %s e = %d;" % (epi("a", 7), S)]
        elif cx == "typeof_once":
            f += [" int k = n; int base[k]; k = 99; __typeof__(base) a; %s e = %d;" % (epi("a", 7), S)]
    elif cx == "vla_ptrdiff":
        # the difference of two pointers to rows counts rows (6.5.6p9)
        f += [" int a[n][m]; int (*end)[m] = a + n; a[0][0] = 1;",
              " r = (long)(end - a) * 10000 + (long)(&a[n - 1] - &a[0]) * 100 + (long)(&a[1] - end) + 50; e = %d;" % (n * 10000 + (n - 1) * 100 + (1 - n) + 50),
              " ok = chk(loc, 24, 5);"]
    elif cx == "sizeof_once":
        f += [" int k = n; char *b = alloca(16); use(b, 16, 50); long a[k]; k = 99; r = sizeof a; e = %d;" % (8 * n),
              " for (int x = 0; x < n; x++) a[x] = -x - 1; ok = chk(b, 16, 50) && chk(loc, 24, 5);",
              " for (int x = 0; x < n; x++) ok = ok && a[x] == -x - 1 && x[a] == -x - 1; al = AL(a, 8); dj = disj(a, sizeof a, b, 16);"]
    elif cx == "struct_elem":
        f += [" struct S { char c; int i; char t[3]; }; char *b = alloca(16); use(b, 16, 50); struct S a[n]; r = sizeof a; e = %d;" % (12 * n),
              " for (int x = 0; x < n; x++) { a[x].c = x; a[x].i = -x; (a + x)->t[2] = x + 1; }",
              " ok = chk(b, 16, 50) && chk(loc, 24, 5); for (int x = 0; x < n; x++) ok = ok && a[x].c == x && (*(a + x)).i == -x && a[x].t[2] == x + 1;",
              " al = AL(a, 4); dj = disj(a, sizeof a, b, 16);"]
    f += [' printf("B %d %%d %%d %%d %%d\\n", ok, al, dj, r == e);' % i, "}"]
    return "\n".join(f) + "\n"


# ---- frames: FrameI.tla's alphabet on the real binary: <= 3 locals, each aligned, disjoint, contents survive
LOCALS = [("char %s", 1, 1), ("char %s[3]", 3, 1), ("long %s", 8, 8), ("char %s[17]", 17, 16), ("_Alignas(16) char %s", 1, 16),
          ("_Alignas(8) char %s[3]", 3, 8), ("struct __attribute__((aligned(16))) { int a; } %s", 16, 16), ("_Alignas(4) short %s[5]", 10, 4)]


def frame_cases():
    import itertools
    out = []
    for n in (1, 2, 3):
        for seq in itertools.product(range(len(LOCALS)), repeat=n):
            out.append(dict(kind="frame", ctx="locals", n=n, m=0, seq=list(seq)))
    return out


# ---- initialisation in a live frame (FrameI.tla Reinit): the initialisation of one object is executed while the
# objects declared after it (and before it) hold values.  Forms = how execution order departs from declaration order:
#   goto   the declaration `T v = { c }` is reached again through a backward goto (later declarations are jumped over)
#   args   compound literals as sibling arguments of one call (evaluated in the implementation's order), executed twice
#   desig  compound literals as values of a designated initializer list naming the members out of order, executed twice
# (kind text, size, value bytes, alignment, address of the literal)
LITS = [("char", 1, 1, 1, "&"), ("char[3]", 3, 3, 1, ""), ("char[7]", 7, 7, 1, ""), ("long", 8, 8, 8, "&"), ("short[5]", 10, 10, 2, ""),
        ("char[17]", 17, 17, 1, ""), ("S16", 16, 4, 16, "&"), ("S3", 3, 3, 1, "&")]
VALBYTES = {6: 4}          # LOCALS[6] = the 16-byte aligned struct { int a; }: 4 value bytes, the rest is padding


def init_cases():
    import itertools
    out = []
    for n in (1, 2, 3):
        for seq in itertools.product(range(len(LOCALS)), repeat=n):
            for j in range(n):
                out.append(dict(kind="frame", ctx="init_goto", n=n, m=j, seq=list(seq)))
    for n in (2, 3):
        for seq in itertools.product(range(len(LITS)), repeat=n):
            out.append(dict(kind="frame", ctx="init_args", n=n, m=0, seq=list(seq)))
            for m in ((1,) if n == 2 else (1, 2)):           # 1 = members named in reverse order, 2 = rotated by one
                out.append(dict(kind="frame", ctx="init_desig", n=n, m=m, seq=list(seq)))
    return out


def render_init(i, c):
    seq, cx = c["seq"], c["ctx"]
    f = ["static void f%d(void) {" % i, " int ok = 1, al = 1, dj = 1;"]
    if cx == "init_goto":
        j = c["m"]
        f.append(" volatile int pass = 0;")

        def fill(x):
            k = seq[x]
            return " " + LOCALS[k][0] % ("v%d" % x) + "; use((char *)&v%d, %d, %d); al = al && AL(&v%d, %d);" % (x, LOCALS[k][1], 10 + 20 * x, x, LOCALS[k][2])
        f += [fill(x) for x in range(j)]
        k = seq[j]
        f += ["again:;", " " + LOCALS[k][0] % ("v%d" % j) + " = { %d };" % (65 + j), " if (pass) goto done;",
              " al = al && AL(&v%d, %d); use((char *)&v%d, %d, 99);" % (j, LOCALS[k][2], j, LOCALS[k][1])]
        f += [fill(x) for x in range(j + 1, len(seq))]
        f += [" pass = 1; id(1); goto again;", "done:", " id(2);"]
        for x, k in enumerate(seq):
            if x == j:
                f.append(" ok = ok && ci((char *)&v%d, %d, %d);" % (x, VALBYTES.get(k, LOCALS[k][1]), 65 + j))
            else:
                f.append(" ok = ok && chk((char *)&v%d, %d, %d);" % (x, LOCALS[k][1], 10 + 20 * x))
            for x2 in range(x):
                f.append(" dj = dj && disj(&v%d, %d, &v%d, %d);" % (x, LOCALS[k][1], x2, LOCALS[seq[x2]][1]))
    else:
        lit = ["(char *)%s(%s){ %d }" % (LITS[k][4], LITS[k][0], 65 + x) for x, k in enumerate(seq)]
        code = [str(LITS[k][3] * 10000 + LITS[k][1] * 100 + LITS[k][2]) for k in seq]
        n = len(seq)
        if cx == "init_args":
            args = ", ".join("%s, %s" % (lit[x], code[x]) for x in range(n)) + ", (char *)0, 0" * (3 - n)
            f.append(" for (int it = 0; it < 2; it++) { ok = ok && ci3(%s); id(it); }" % args)
        else:
            order = list(reversed(range(n))) if c["m"] == 1 else [(x + 1) % n for x in range(n)]
            ini = ", ".join(".p%d = %s" % (x, lit[x]) for x in order)
            args = ", ".join("r.p%d, %s" % (x, code[x]) for x in range(n)) + ", (char *)0, 0" * (3 - n)
            f.append(" for (int it = 0; it < 2; it++) { struct { char *p0, *p1, *p2; } r = { %s }; ok = ok && ci3(%s); id(it); }" % (ini, args))
    f += [' printf("B %d %%d %%d %%d 1\\n", ok, al, dj);' % i, "}"]
    return "\n".join(f) + "\n"


def render_frame(i, c):
    if c["ctx"].startswith("init_"):
        return render_init(i, c)
    f = ["static void f%d(void) {" % i, " int ok = 1, al = 1, dj = 1;"]
    for j, k in enumerate(c["seq"]):
        f.append(" " + LOCALS[k][0] % ("v%d" % j) + ";")
    for j, k in enumerate(c["seq"]):
        f.append(" use((char *)&v%d, %d, %d); al = al && AL(&v%d, %d);" % (j, LOCALS[k][1], 10 + 20 * j, j, LOCALS[k][2]))
    f.append(" id(1);")
    for j, k in enumerate(c["seq"]):
        f.append(" ok = ok && chk((char *)&v%d, %d, %d);" % (j, LOCALS[k][1], 10 + 20 * j))
        for j2 in range(j):
            f.append(" dj = dj && disj(&v%d, %d, &v%d, %d);" % (j, LOCALS[k][1], j2, LOCALS[c["seq"][j2]][1]))
    f += [' printf("B %d %%d %%d %%d 1\\n", ok, al, dj);' % i, "}"]
    return "\n".join(f) + "\n"


def judge(i, lines):
    if i in lines.get(("skipped",), ()):
        return None
    got = lines.get(("B", i))
    if got is None:
        return "no-output"
    names = ["contents", "alignment", "overlap", "value"]
    bad = [nm for nm, g in zip(names, got) if g != "1"]
    return "+".join(bad) if bad else None


def render_any(i, c):
    return render_frame(i, c) if c["kind"] == "frame" else render_blk(i, c)


def check(ctx, tree, cs, first=0):
    render = render_any
    items = [(first + k, c) for k, c in enumerate(cs)]
    lines, bad = c04.run_all(ctx, "chibicc", tree, items, render, "blocks", per=40, prelude=PRELUDE)
    failing = [(i, c, "%s:%s" % (info[0], "crash" if info[1] not in (0, 1) else "rejected")) for i, c, info in bad]
    badidx = set(i for i, _, _ in bad)
    for i, c in items:
        ctx.note_case("blocks:%s" % json.dumps(c, sort_keys=True), nontrivial=True)
        if i not in badidx:
            v = judge(i, lines)
            if v:
                failing.append((i, c, v))
    if failing:
        glines, gbad = c04.run_all(ctx, "gcc", tree, [(i, c) for i, c, _ in failing], render, "blocks-gcc", per=40, prelude=PRELUDE)
        gb = set(i for i, _, _ in gbad)
        for i, c, v in failing:
            if i in gb or judge(i, glines):
                ctx.oracle_disagreements += 1
                continue
            ctx.report("blocks:%s:%s:%s" % (c["kind"], c["ctx"], v), "%s of %d bytes (second %d) in context %s %s: %s" % (c["kind"], c["n"], c["m"], c["ctx"], c.get("seq", ""), v),
                       case=dict(kind="blocks", case=c, index=i, source=PRELUDE + render(i, c)))
    ctx.cov["traces_validated_against_impl"] += len(items) - len(bad)


def run_blocks(ctx, tree, q):
    cs = cases()
    ctx.sample(dict(kind="blocks", case=cs[3], c_source=render_blk(0, cs[3])))
    fr = frame_cases()
    cs = cs + (vt.subsample(fr, ctx.seed, 2) if q else fr)
    ini = init_cases()
    ctx.sample(dict(kind="blocks", case=ini[100], c_source=render_init(0, ini[100])))
    cs = cs + (vt.subsample(ini, ctx.seed, 4) if q else ini)
    check(ctx, tree, cs)
    ctx.cov["block_cases"] = len(cs)


def replay_one(ctx, tree, c):
    check(ctx, tree, [c["case"]], first=c.get("index", 0))
