"""C19 — preprocessed output is a faithful program.

1. TLC, exhaustive (tla/pp/PrinterMC.tla over Lexer.tla/Printer.tla): for every
   ordered pair of the 63-spelling alphabet and every triple of the 16-spelling
   fusion alphabet, print_tokens as modelled (has_space rule + paste-avoidance
   test) prints text that lexes back to the same tokens; the character-class
   test is implied by the lexical criterion NeedsSeparation.  Sensitivity
   control: the pinned rule (has_space only) must be rejected.
2. The harness tokenizer is validated against Lexer.tla's Lex on the whole
   pair/triple domain under six separators (TLC emits text -> tokens).
3. TLC, Macro.tla families P / PT: every pair in every adjacency context
   (adjacent in source; a + object-like macro starting with b; b substituted
   next to a; a E b with E empty (two spacings); end of one expansion / start of
   the next; expansion followed by source token; a and b consecutive tokens of one
   macro argument with a newline between, directly and handed on through another
   macro), triples through ID(), through empty macros and inside one argument over
   three lines; invariant PrintedFaithful on the flags produced by the
   expand_macro/subst transcription.  Control: PFix = FALSE must be rejected.
4. Replay of those inputs through `chibicc -E`: (i) tokens = expected,
   (ii) E(E(x)) = E(x) token for token.  Over test/*.c and the compiler's own
   sources: (ii) and (iii) -S of E(x) = -S of x after deleting .loc/.file lines.
5. Sequences: family PS (two adjacencies in one file, one process per case) and 100
   generated two-statement programs, so that printer state carried from one separation
   decision to the next is observed.
6. Streams (fifth round, tla/pp/PrinterSeq.tla): print_tokens as a loop with its own state (line, prev) over
   three-token streams in which (at_bol, has_space) of EVERY token, the first included, takes all four values;
   TLC proves PrintedFaithful on all 21,952 streams (control: a line counter that counts output lines must be
   rejected) and writes for each stream the source texts that make the preprocessor produce these flags
   (seven lead-ins that expand to nothing, tokens written directly or through ID()); each text is run in a
   compiler process of its own and must print the stream's tokens.
"""
import glob, json, os, re, subprocess
import vt, ppcase, pptok, c09
from vt import Infra


def validate_tokenizer(ctx, workers):
    out = os.path.join(ctx.scratch, "lex.ndjson")
    res = c09.tlc_full(ctx, "PrinterMC", "Printer_lex.cfg", env=dict(OUT=out), workers=workers, timeout=600, heap="4g")
    if not res.ok:
        raise Infra("Printer_lex.cfg failed: " + res.trace_text()[:500])
    rows = ppcase.xch(vt.read_ndjson(out))      # extended characters: stand-ins -> the real characters
    if len(rows) < 40000:
        raise Infra("Lexer.tla emitted only %d texts" % len(rows))
    bad = [r for r in rows if pptok.lex(r["text"]) != r["toks"]]
    if bad:
        raise Infra("harness tokenizer disagrees with Lexer.tla on %d of %d texts, e.g. %r: Lex %s, pptok %s" % (
            len(bad), len(rows), bad[0]["text"], bad[0]["toks"], pptok.lex(bad[0]["text"])))
    ctx.cov["tokenizer_texts_validated"] = len(rows)
    ctx.sample(dict(kind="lexer text", text=rows[len(rows) // 3]["text"], tokens=rows[len(rows) // 3]["toks"]))


def printer_model(ctx, workers):
    c09.expect_ok(ctx, "PrinterMC", "Printer_mc.cfg",
                  "print_tokens (with the paste-avoidance test) is not faithful on some pair/triple", workers=workers, heap="4g")
    cfg = ctx.cfg("pp", "Printer_mc.cfg", PFix=False)
    ctl = c09.tlc_full(ctx, "PrinterMC", cfg, workers=2, count=False, heap="4g")
    if ctl.ok:
        raise Infra("sensitivity control failed: TLC accepts print_tokens without any separation test")


def idempotence(ctx, chib, cases, batch=60):
    """(ii) on generated inputs: -E of the -E output prints the same tokens"""
    ok = [c for c in cases if c["class"] == "ok"]
    chunks = [ok[i:i + batch] for i in range(0, len(ok), batch)]

    def one(t):
        ci, chunk = t
        text = "".join(ppcase.render_case(c)[0] for c in chunk)
        rc, out, err, f = chib.run_text(text, "i%s_%d" % (chunk[0]["fam"], ci))
        if rc != 0:
            return None                    # rejected batches are judged by replay (i)
        rc2, out2, err2, f2 = chib.run_text(out, "i%s_%d_2" % (chunk[0]["fam"], ci))
        t1 = pptok.lex(out)
        t2 = pptok.lex(out2) if rc2 == 0 else None
        for x in (f, f2):
            if os.path.exists(x):
                os.unlink(x)
        return (chunk, t1, t2, err2)
    n = 0
    for r in vt.pmap(one, list(enumerate(chunks))):
        if r is None:
            continue
        chunk, t1, t2, err2 = r
        n += len(chunk)
        if t1 != t2:
            # locate the case
            res1, _ = ppcase.split_output(" ".join(t1))
            bad = chunk[0]
            if t2 is not None:
                res2, _ = ppcase.split_output(" ".join(t2))
                if res1 and res2:
                    for c in chunk:
                        if res1.get(c["id"]) != res2.get(c["id"]):
                            bad = c
                            break
            ctx.report("idempotence:%s:%s" % ("+".join(ppcase.features(bad)), bad["fam"]),
                       "E(E(x)) != E(x) for case %s:%d (%s)" % (bad["fam"], bad["id"], ppcase.errmsg(err2) if t2 is None else "tokens differ"),
                       case=dict(kind="idem", case=bad))
    ctx.cov["traces_validated_against_impl"] += n
    ctx.cov["idempotence_cases"] = ctx.cov.get("idempotence_cases", 0) + n


def _strip(s):
    return [l for l in s.splitlines() if not re.match(r"\s*\.(loc|file)\b", l)]


def corpus(ctx, tree, files):
    cc = tree + "/chibicc"
    inc = ["-I" + tree + "/include", "-I" + tree + "/test", "-I" + tree]
    d = ctx.tmp("corpus")

    class R:
        def __init__(self, t):
            self.returncode, self.stdout, self.stderr = t

    def sh(cmd):
        t = ppcase.run_limited(cmd, 60)
        return None if t[0] == "timeout" else R(t)

    def one(src):
        b = os.path.basename(src)
        # __TIME__/__DATE__ make the translation depend on the clock: s0 is compared with the
        # compilation of e1's output, so both must see the same second.  Bracket s0 between two
        # -E runs and repeat until they agree (the clock did not tick in between).
        for attempt in range(6):
            e1 = sh([cc] + inc + ["-E", src])
            s0 = sh([cc] + inc + ["-S", "-o", "-", src])
            e1b = sh([cc] + inc + ["-E", src])
            if e1 is None or s0 is None or e1b is None:
                return (b, "timeout", "")
            if e1.returncode or e1b.returncode or e1.stdout == e1b.stdout:
                break
        else:
            return (b, "unstable", "")
        if e1.returncode or s0.returncode:
            return (b, "skip", "")            # not a valid program for this tree: nothing to compare
        f1 = os.path.join(d, b[:-2] + ".i.c")
        open(f1, "w").write(e1.stdout)
        e2 = sh([cc] + inc + ["-E", f1])
        s1 = sh([cc] + inc + ["-S", "-o", "-", f1])
        if e2 is None or s1 is None:
            return (b, "timeout", "")
        t1 = pptok.lex(e1.stdout)
        if e2.returncode or pptok.lex(e2.stdout) != t1:
            t2 = pptok.lex(e2.stdout) if not e2.returncode else []
            k = next((i for i, (x, y) in enumerate(zip(t1, t2)) if x != y), min(len(t1), len(t2)))
            return (b, "idempotence", "E(E(x)) differs at token %d: %s vs %s %s" % (k, t1[k - 2:k + 3], t2[k - 2:k + 3], e2.stderr[-120:]))
        if s1.returncode:
            return (b, "not-a-program", "the -E output does not compile: " + ppcase.errmsg(s1.stderr))
        a, c = _strip(s0.stdout), _strip(s1.stdout)
        if a != c:
            k = next((i for i, (x, y) in enumerate(zip(a, c)) if x != y), min(len(a), len(c)))
            return (b, "asm", "-S differs at line %d: %r vs %r" % (k, a[k:k + 1], c[k:k + 1]))
        return (b, "ok", len(t1))
    n = 0
    for b, st, info in vt.pmap(one, files, workers=8):
        ctx.note_case("corpus:" + b, nontrivial=st == "ok" and info > 0)
        if st == "timeout":
            raise Infra("corpus file %s: timeout" % b)
        if st == "unstable":
            raise Infra("corpus file %s: -E output changes from run to run (clock-dependent macro) six times in a row" % b)
        if st in ("idempotence", "not-a-program", "asm"):
            ctx.report("corpus:%s:%s" % (st, b), "%s: %s" % (b, info), case=dict(kind="corpus", file=b))
        if st == "ok":
            n += 1
    ctx.cov["traces_validated_against_impl"] += n
    ctx.cov["corpus_files_ok"] = n
    if n == 0 and not ctx.violations:        # with violations reported the run has a verdict already
        raise Infra("no corpus file could be compiled")


SEQ_TERMS = [("e", "+1"), ("0xe", "+1"), ("E", "-1"), ("0xE", "-1"), ("x", "+1"), ("1", "+1"), ("1.", "+x"),
             ("0xe", "-x"), ("x", "-1"), ("e", "-x")]


def sequence_programs(ctx):
    """(ii)/(iii) on SEQUENCES of adjacency cases: one small program per ordered pair of terms `ID(a)b`
    (a an identifier or a pp-number ending in e/E/., b a signed operand), so that state carried by the
    printer from the first decision to the second changes the program or makes it uncompilable."""
    d = ctx.tmp("seqprog")
    out = []
    for i, (a1, b1) in enumerate(SEQ_TERMS):
        for j, (a2, b2) in enumerate(SEQ_TERMS):
            f = os.path.join(d, "seq_%d_%d.c" % (i, j))
            open(f, "w").write("#define ID(v) v\ndouble f(int e, int E, int x) {\n  double r = 0;\n"
                               "  r += ID(%s)%s;\n  r += ID(%s)%s;\n  return r;\n}\n" % (a1, b1, a2, b2))
            out.append(f)
    return out


# ---- fifth round: print_tokens as a loop with state over free flags (tla/pp/PrinterSeq.tla) ----------------
STREAM_STRIDE = 101          # quick: every 101st text of the domain (~2,900 of ~294,000); thorough: all
_MARK = re.compile(r";(\d+);\n")


def stream_generate(ctx, workers):
    """complete model check of PrinterSeq (PrintedFaithful on every stream, every flag combination of every
    token) + the sensitivity control; returns the emitted source texts"""
    stride = STREAM_STRIDE if ctx.quick else 1
    out = os.path.join(ctx.scratch, "seq.ndjson")
    cfg = ctx.cfg("pp", "PrinterSeq_gen.cfg", Stride=stride, Seed=ctx.seed % stride)
    res = c09.tlc_full(ctx, "PrinterSeq", cfg, env=dict(OUT=out), workers=workers, timeout=1500, heap="4g")
    if not res.ok:
        p = ctx.replay_dir("tlc-PrinterSeq")
        open(p + "/counterexample.txt", "w").write(res.trace_text())
        json.dump(dict(kind="tlc", area="pp", module="PrinterSeq", cfg=open(cfg).read()), open(p + "/case.json", "w"))
        ctx.report("tlc:PrinterSeq:%s" % res.violated, "print_tokens (the loop with its state) is not faithful on some token stream", p)
    ctl = ctx.cfg("pp", "PrinterSeq_gen.cfg", LineRule='"lines"', Emit=False, Stride=1, Seed=0)
    r2 = c09.tlc_full(ctx, "PrinterSeq", ctl, workers=2, count=False, heap="4g")
    if r2.ok or r2.violated != "PrintedFaithful":
        raise Infra("sensitivity control failed: PrinterSeq accepts a line counter that counts output lines (%s)" % (r2.violated,))
    rows = vt.read_ndjson(out)
    if not rows:
        raise Infra("PrinterSeq wrote no source texts")
    return sorted(rows, key=lambda r: r["id"])


def stream_run(runner, rows, tag, batch=40):
    """{id: (rc, tokens or None, err)}: one compiler process per text.  The driver is given `batch` files at a
    time (it runs one cc1 per file, each with a fresh print_tokens); a line `;<id>;` closes every file so that
    the concatenated output can be cut without knowing how it is laid out."""
    d = os.path.join(runner.dir, "seq-" + tag)
    os.makedirs(d, exist_ok=True)
    open(os.path.join(d, "c19_empty.h"), "w").write("")

    def path(r):
        f = os.path.join(d, "s%d.c" % r["id"])
        if not os.path.exists(f):
            open(f, "w").write(r["text"] + ";%d;\n" % r["id"])
        return f

    def single(r):
        for tmo in (4 * runner.timeout, 24 * runner.timeout):       # a timeout must repeat (loaded machine)
            rc, out, err = ppcase.run_limited(runner.cmd + [path(r)], tmo)
            if rc != "timeout":
                break
        m = _MARK.search(out) if rc == 0 else None
        return r["id"], (rc, pptok.lex(out[:m.start()]) if m and int(m.group(1)) == r["id"] else None, err)

    def chunk(rs):
        rc, out, err = ppcase.run_limited(runner.cmd + [path(r) for r in rs], runner.timeout + len(rs))
        if rc == 0:
            parts, pos = {}, 0
            for m in _MARK.finditer(out):
                parts[int(m.group(1))] = out[pos:m.start()]
                pos = m.end()
            if list(parts) == [r["id"] for r in rs] and pos == len(out):
                return [(r["id"], (0, pptok.lex(parts[r["id"]]), "")) for r in rs]
        return [single(r) for r in rs]
    res = {}
    for lst in vt.pmap(chunk, [rows[i:i + batch] for i in range(0, len(rows), batch)], workers=8):
        res.update(lst)
    return res


def stream_judge(ctx, chib, gcc, rows, res):
    bad = [r for r in rows if res[r["id"]][0] != 0 or res[r["id"]][1] != r["toks"]]
    gres = stream_run(gcc, bad, "tiebreak") if bad else {}
    for r in rows:
        ctx.note_case("SEQ:%d" % r["id"], nontrivial=r["flags"] != ["B-", "B-", "B-"])
    for r in bad:
        rc, toks, err = res[r["id"]]
        if gres[r["id"]][0] != 0 or gres[r["id"]][1] != r["toks"]:
            ctx.oracle_disagreements += 1
            continue
        first = "first-at-bol" if r["flags"][0][0] == "B" else "first-not-at-bol"
        if rc == "timeout":
            kind, what = "timeout", "chibicc -E did not terminate"
        elif rc != 0:
            kind, what = "rejected", "well-defined input rejected (%s)" % ppcase.errmsg(err)
        elif toks is None:
            kind, what = "garbled", "the output lost its end marker"
        else:
            kind = "fused" if "".join(toks) == "".join(r["toks"]) else "tokens"      # same characters, other token boundaries
            what = "expected `%s` got `%s`" % (" ".join(r["toks"]), " ".join(toks))
        ctx.report("stream:%s:%s" % (kind, first),
                   "SEQ:%d flags %s lead-in %d mode %s: %s   input: %s" % (r["id"], " ".join(r["flags"]), r["lead"], r["mode"], what,
                                                                         r["text"].replace("\n", " \\n ")),
                   case=dict(kind="stream", row=r, got=toks, rc=rc, err=(err or "")[-300:]))
    ctx.cov["traces_validated_against_impl"] += len(rows)
    ctx.cov.setdefault("families", {})["SEQ"] = dict(cases=len(rows), first_not_at_bol=sum(1 for r in rows if r["flags"][0][0] != "B"))
    if rows:
        r = rows[len(rows) // 2]
        ctx.sample(dict(family="SEQ", id=r["id"], flags=r["flags"], input=r["text"], expected=" ".join(r["toks"])))


def run(ctx):
    q = ctx.quick
    tree = ctx.build()
    chib, gcc = c09.tools(ctx, tree)
    ctx.phase("build done")
    jobs = []
    for fam, stride in (("P", 11 if q else 1), ("PT", 13 if q else 1), ("PS", 1)):
        cfg = ctx.cfg("pp", "Macro_gen.cfg", Family='"%s"' % fam, Stride=stride, Seed=ctx.seed % stride)
        cfg2 = cfg[:-4] + "-inv.cfg"
        open(cfg2, "w").write(open(cfg).read().replace("StandardExamples", "PrintedFaithful"))
        jobs.append((fam, cfg2, cfg2[:-4] + ".ndjson"))

    cap = int(os.environ.get("VERIF_TLC_CAP", "0"))       # development aid on a shared machine

    def gen(j):
        return c09.run_gen(ctx, j[0], j[1], j[2], workers=min(cap or 99, 3 if q else 6))

    def streams(_):
        return stream_generate(ctx, min(cap or 99, 3))

    def models(_):
        printer_model(ctx, 3)
        validate_tokenizer(ctx, 4)
        # control: the pinned print_tokens is not faithful on the expansion contexts either
        cfg = ctx.cfg("pp", "Macro_mc.cfg", Family='"P"', Stride=97, Seed=0, PFix=False, ArgOrder='"ltr"')
        cfg2 = cfg[:-4] + "-inv.cfg"
        open(cfg2, "w").write(open(cfg).read().replace("FinalAgree StandardExamples", "PrintedFaithful"))
        ctl = c09.tlc_full(ctx, "Macro", cfg2, workers=2, count=False, heap="4g")
        if ctl.ok:
            raise Infra("sensitivity control failed: Macro.tla family P accepts the pinned print_tokens")
        return None
    results = vt.pmap(lambda t: t[0](t[1]), [(gen, j) for j in jobs] + [(streams, None), (models, None)], workers=2 if cap else 4)
    seq = results[len(jobs)]
    ctx.phase("tlc done")
    total = 0
    for (fam, cfg, out), cases in zip(jobs, results[:len(jobs)]):
        ncls = {}
        for c in cases:
            ncls[c["class"]] = ncls.get(c["class"], 0) + 1
        ctx.cov.setdefault("families", {})[fam] = dict(cases=len(cases), **ncls)
        total += c09.replay_cases(ctx, chib, gcc, cases, "C19")
        idempotence(ctx, chib, cases)
        oks = [c for c in cases if c["class"] == "ok"]
        c = oks[len(oks) // 2]
        ctx.sample(dict(family=fam, id=c["id"], input=ppcase.render_case(c)[0], expected=" ".join(c["outs"][0])))
        ctx.phase("replayed " + fam)
    stream_judge(ctx, chib, gcc, seq, stream_run(chib, seq, "chibicc"))
    total += len(seq)
    ctx.phase("replayed SEQ")
    files = sorted(glob.glob(tree + "/test/*.c")) + sorted(glob.glob(tree + "/*.c"))
    if q:
        files = vt.subsample(files, ctx.seed, 3)
    corpus(ctx, tree, files + sequence_programs(ctx))
    ctx.phase("corpus done")
    ctx.assumptions += [
        "Level I flags: in Printer.tla/Macro.tla `sp` stands for has_space or at_bol (both print white space); PrinterSeq.tla keeps the two apart and lets them range freely for every token of a three-token stream, the first included",
        "the alphabet has no digraphs, no `$`/UCN identifiers and no `_` directly after a pp-number (tokenize.c differs from 6.4.8 there)",
        "corpus files that the tree under test cannot compile are skipped, not judged"]
    return ctx.finish(
        rule="case = one (pair or triple of spellings, adjacency context) input of families P/PT of MacroFamilies.tla replayed through chibicc -E (tokens, and -E twice), or one source text of PrinterSeq.tla (a three-token stream with given at_bol/has_space flags, realised by a vanishing lead-in and white space, run in a process of its own: tokens), or one corpus file (E∘E and -S equality); non-trivial = the machine took at least 2 steps / the file has tokens; distinct = distinct (family, index) or file",
        exhaustive=not q, extra=dict(replayed=total))


def replay(ctx, path):
    c = json.load(open(os.path.join(path, "case.json")))
    c = c.get("case") or c
    if c.get("kind") == "tlc":
        return c09.replay(ctx, path)
    tree = ctx.build()
    chib, gcc = c09.tools(ctx, tree)
    if c.get("kind") == "case":
        r = chib.run_one(c["case"])
        ctx.note_case("replay")
        c09.judge(ctx, chib, gcc, c["case"], r, "C19")
    elif c.get("kind") == "idem":
        idempotence(ctx, chib, [c["case"]])
    elif c.get("kind") == "stream":
        ctx.note_case("replay")
        stream_judge(ctx, chib, gcc, [c["row"]], stream_run(chib, [c["row"]], "replay"))
    elif c.get("kind") == "corpus":
        fs = [f for f in glob.glob(tree + "/test/*.c") + glob.glob(tree + "/*.c") if os.path.basename(f) == c["file"]]
        corpus(ctx, tree, fs)
    return ctx.finish(rule="replay of one recorded case")
