"""C07 — translation-time constant evaluation equals run-time evaluation.

1. TLC, exhaustive at scaled widths (tla/expr/ExprMC.tla, invariant ConstInv): ConstEval
   (transcription of parse.c eval2 / is_const_expr, host word = long) agrees with C11
   (CInt.tla) in value and type on every depth-1 constant expression over all values and
   on depth-2 expressions over boundary values; sensitivity control.
2. Generate -> replay (ExprGen.tla at real widths): each constant expression E is used
   in every constant context that can hold its value - static initializer (long and one
   rotating narrower type), enumerator, array bound, bit-field width, _Alignas, array
   designator, case label, #if - and is also computed at run time from non-constant
   copies of its leaves; every printed value must equal Level A's.  Contexts that demand an
   integer constant expression are used only for expressions that are one (CInt.IsICE);
   a static-storage bit-field member (rotating type and width) is one more consumer;
   family fconv: conversions between integer and floating types at the precision
   boundaries (folded vs run time, and the bytes of a static floating object);
   family vla: array bounds containing calls / comma operators / floating conditions -
   the size and the number of calls made must be those of run-time evaluation.
3. Division / remainder by a constant zero in each constant context must be diagnosed
   (cc1 exits 1 with a file:line message), not crash."""
import concurrent.futures, json, os, re, subprocess
import vt, cexpr
from vt import Infra
from cexpr import CT, lit, leaves, render, const_text, fconst

FAMS = ["bin", "un", "cast", "cond", "d2l", "d2r", "cc", "case", "enum", "wrap0", "fcmp", "fconv", "vla"]
STRIDE = 96
ROT = ["bool", "char", "uchar", "short", "ushort", "int", "uint", "long", "ulong", "enum"]
WID = {"bool": 1, "char": 8, "uchar": 8, "short": 16, "ushort": 16, "int": 32, "uint": 32, "long": 64, "ulong": 64, "enum": 32}
SGN = {"char", "short", "int", "long", "enum"}
# static-storage bit-field members `T f : w` (consumer B rotates over them by case number)
BF = [("bool", 1), ("int", 1), ("int", 3), ("int", 31), ("int", 32), ("uint", 1), ("uint", 7), ("uint", 32),
      ("long", 33), ("long", 63), ("long", 64), ("ulong", 5), ("ulong", 63), ("ulong", 64), ("uchar", 8), ("ushort", 11)]
# c07's own helpers: ci() counts its calls; rd() reads the low n bytes of an object
PRELUDE7 = """static int cnt;
static int ci(int v) { cnt++; return v; }
static unsigned long rd(const void *p, int n) { const unsigned char *c = p; unsigned long r = 0; while (n > 0) r = r << 8 | c[--n]; return r; }
"""


def bfconv(v, t, w):
    """CInt.BitFieldInit for an integer value: converted to t, then held in w bits"""
    if t == "bool":
        return 1 if v else 0
    m = conv(v, t) % (1 << w)
    return m - (1 << w) if t in SGN and m >= 1 << (w - 1) else m


FPREC = {"float": (24, 8, 127, 4), "double": (53, 11, 1023, 8), "ldouble": (64, 15, 16383, 10)}


def fbits(m, tf):
    """object representation [low 8 bytes, remaining bytes] of the integer m held exactly in floating type tf"""
    p, ebits, bias, size = FPREC[tf]
    sign, a = (1, -m) if m < 0 else (0, m)
    if a == 0:
        return ["0", "0"]
    n = a.bit_length()
    sig = a << (p - n) if n <= p else a >> (n - p)
    if n > p and sig << (n - p) != a:
        raise Infra("Level A emitted a value that the floating type cannot hold: %d as %s" % (m, tf))
    e = n - 1 + bias
    if tf == "ldouble":                         # x87 extended: explicit integer bit
        return [str(sig), str(sign << 15 | e)]
    bits = sign << (ebits + p - 1) | e << (p - 1) | (sig & ((1 << (p - 1)) - 1))
    return [str(bits), "0"]



def conv(v, t):
    """C11 6.3.1.2/6.3.1.3 conversion of the mathematical value v to type t (as CInt.Convert)"""
    if t == "bool":
        return 1 if v else 0
    w = WID[t]
    m = v % (1 << w)
    return m - (1 << w) if t in SGN and m >= 1 << (w - 1) else m


def u64(v):
    return str(v % (1 << 64))


def pp_ok(e):
    """usable in #if with C semantics = preprocessor semantics: leaves long/unsigned long, no casts"""
    if e["k"] == "leaf":
        return e["t"] in ("long", "ulong")
    if e["k"] == "cast":
        return False
    return all(pp_ok(e[f]) for f in ("c", "a", "b") if f in e)


def consumers(v):
    """-> {tag: expected fields} for the constant contexts that can hold the value"""
    val, t = int(v["s"]), v["t"]
    ex = {"s": [v["u"]], "v": [v["u"], str(v["sz"]), "1" if v["sg"] else "0"]}
    if not v.get("ice", True):
        # not an integer constant expression (6.6p6): only the contexts that take any arithmetic constant
        # expression (static initializers) and a block-scope array, which may be a VLA
        if 1 <= val <= 2000:
            ex["A"] = [str(val)]
        return ex
    if -(1 << 31) <= val < (1 << 31):
        ex["e"] = [u64(val)]
        ex["c"] = ["1"]
    elif t in ("long", "ulong"):
        ex["c"] = ["1"]            # labels outside int range (D06, fixed in 2d0d4b7)
    if 1 <= val <= 2000:
        ex["a"] = [str(val)]
        ex["m"] = [str(val + 1)]
    if 1 <= val <= 32:
        ex["b"] = [str((1 << val) - 1)]
    if val in (1, 2, 4, 8, 16, 32, 64):
        ex["l"] = [str(2 * val)]
    if 0 <= val <= 500:
        ex["d"] = [str(4 * (val + 1))]
    if v["f"] in ("cc", "wrap0"):     # (T)(U)x, (T)(x op y): also `static T g = (U)x;` (implicit outer conversion)
        ex["i"] = [v["u"]]
    if pp_ok(v["e"]):
        ex["p"] = ["1" if val else "0"]
        ex["q"] = ["1"]
    return ex


def promoted(t, v):
    return conv(v, "int") if WID[t] < 32 or t == "enum" else v


def switch_code(n, v):
    """family case: switch (x : tc) { case L0: [nested switch on another type] ...; case LABEL: ...; default: }"""
    tc, tn, x, cv = v["tc"], v["tn"], int(v["x"]), int(v["conv"])
    l0 = next(k for k in (0, 1, 2, 3) if k != cv and k != promoted(tc, x))
    label = lit(v["tl"], int(v["lv"]))
    if n % 3 == 2:
        label = "%s ... %s" % (label, label)                  # [GNU] case range with equal bounds
    top = ["static %s x%d = %s;" % (CT[tc], n, lit(tc, x))]
    nested = ""
    if tn != "-":
        top.append("static %s y%d = 1;" % (CT[tn], n))
        nested = "switch (y%d) { case 1: r = 8; break; default: r = 9; break; } " % n
    body = ("int r = 7; switch (x%d) { case %d: %sr += 10; break; case %s: r = 1; break; default: r = 0; break; } "
            'printf("%d c %%d\\n", r);' % (n, l0, nested, label, n))
    top.append("static void c%d(void) { %s }" % (n, body))
    return "\n".join(top), "c%d();" % n, {"c": [str(v["sel"])]}


def enum_code(n, v):
    """family enum: an enumerator defined from an outer enumerator of the same name, or from its predecessor"""
    ex = "(N%d %s %s)" % (n, cexpr.OPS[v["op"]], lit(v["tc"], int(v["c"])))
    pr = 'printf("%d e %%lu\\n", (unsigned long)(long)N%d); printf("%d f %%lu\\n", (unsigned long)(long)M%d);' % (n, n, n, n)
    v0 = cexpr.ilit(int(v["v0"]))
    if v["form"] == "shadow":
        top = ["enum { N%d = %s };" % (n, v0),
               "static void c%d(void) { enum { N%d = %s, M%d }; %s }" % (n, n, ex, n, pr)]
    elif v["form"] == "blockshadow":
        top = ["static void c%d(void) { enum { N%d = %s }; { enum { N%d = %s, M%d }; %s } }" % (n, n, v0, n, ex, n, pr)]
    else:
        pr = pr.replace("N%d)" % n, "B%d)" % n)
        top = ["enum { N%d = %s, B%d = %s, M%d };" % (n, v0, n, ex, n), "static void c%d(void) { %s }" % (n, pr)]
    return "\n".join(top), "c%d();" % n, {"e": [u64(int(v["n"]))], "f": [u64(int(v["m"]))]}


FTY = {"float": "float", "double": "double", "ldouble": "long double"}


def fexpr(v, x, y):
    op = v["op"]
    if op == "toint":
        return "((%s)%s)" % (CT[v["td"]], x)
    if op == "cond":
        return "(%s ? 1 : 2)" % x
    if op == "lnot":
        return "(!%s)" % x
    return "(%s %s %s)" % (x, cexpr.OPS[op], y)


def fcmp_tree(v):
    """family fcmp as an expression tree over named floating constants ("fv" leaves)"""
    x = {"k": "fv", "t": v["tf"], "n": v["x"]}
    y = {"k": "fv", "t": v["tf"], "n": v["y"]}
    op = v["op"]
    if op == "toint":
        return {"k": "cast", "t": v["td"], "a": x}
    if op == "cond":
        return {"k": "cond", "c": x, "a": {"k": "leaf", "t": "int", "v": "1"}, "b": {"k": "leaf", "t": "int", "v": "2"}}
    if op == "lnot":
        return {"k": "un", "op": "lnot", "a": x}
    return {"k": "bin", "op": op, "a": x, "b": y}


def finit_code(n, v):
    """family fconv, op finit: `static F2 s = (F)x;` - the bytes of the object, and of the same conversion at run time"""
    e = v["e"]
    tf = v["t"]
    size = FPREC[tf][3]
    lo, hi = min(size, 8), size - min(size, 8)
    lv = leaves(e)
    top = ["static %s s%d = %s;" % (FTY[tf], n, const_text(e))]
    top += ["static %s g%d_%d = %s;" % (CT[l["t"]], n, i, lit(l["t"], int(l["v"]))) for i, l in enumerate(lv)]
    body = ['printf("%d s %%lu %%lu\\n", rd(&s%d, %d), rd((char *)&s%d + %d, %d));' % (n, n, lo, n, lo, hi),
            "{ %s r = %s; " % (FTY[tf], render(e, lambda i, l: "g%d_%d" % (n, i)))
            + 'printf("%d v %%lu %%lu\\n", rd(&r, %d), rd((char *)&r + %d, %d)); }' % (n, lo, lo, hi)]
    top.append("static void c%d(void) { %s }" % (n, "\n ".join(body)))
    bits = fbits(int(v["s"]), tf)
    return "\n".join(top), "c%d();" % n, {"s": bits, "v": bits}


def vla_code(n, v, only=None):
    """family vla: a block-scope array whose bound contains a call / comma operator / floating condition: its size
    and the number of calls made while the declaration is executed; an integer constant expression is also
    used at file scope and as a member"""
    E = const_text(v["e"])
    val = int(v["s"])
    ex = {"w": [str(val), str(v["calls"])]}
    if v["ice"]:
        ex["a"] = [str(val)]
        ex["m"] = [str(val + 1)]
    if only:
        ex = {k: x for k, x in ex.items() if k == only}
    top, body = [], []
    if "w" in ex:
        body.append('cnt = 0; { char w[%s]; printf("%d w %%lu %%d\\n", (unsigned long)sizeof(w), cnt); }' % (E, n))
    if "a" in ex:
        top.append("static char a%d[%s];" % (n, E))
        body.append('printf("%d a %%lu\\n", (unsigned long)sizeof(a%d));' % (n, n))
    if "m" in ex:
        top.append("struct M%d { char c[%s]; char d; };" % (n, E))
        body.append('printf("%d m %%lu\\n", (unsigned long)sizeof(struct M%d));' % (n, n))
    top.append("static void c%d(void) { %s }" % (n, "\n ".join(body)))
    return "\n".join(top), "c%d();" % n, ex


def desc(v):
    if v["f"] == "fcmp":
        return "%s %s" % (v["tf"], fexpr(v, v["x"], v["y"]))
    if v["f"] == "vla":
        return "char w[%s]" % const_text(v["e"])
    if v["f"] == "case":
        return "switch(%s=%s){%scase (%s)%s}" % (v["tc"], v["x"], "" if v["tn"] == "-" else "nested switch(%s); " % v["tn"], v["tl"], v["lv"])
    if v["f"] == "enum":
        return "enum %s: N=%s; N = N %s (%s)%s" % (v["form"], v["v0"], cexpr.OPS[v["op"]], v["tc"], v["c"])
    return const_text(v["e"])


def case_code(n, v, only=None):
    if v["f"] == "case":
        return switch_code(n, v)
    if v["f"] == "enum":
        return enum_code(n, v)
    if v["f"] == "vla":
        return vla_code(n, v, only)
    if v["f"] == "fconv" and v["op"] == "finit":
        return finit_code(n, v)
    e, val, t = v["e"], int(v["s"]), v["t"]
    E = const_text(e)
    ex = consumers(v)
    rk = ROT[n % len(ROT)]
    ex["t"] = [u64(conv(val, rk))]
    bt, bw = BF[n % len(BF)]
    if n % 3 == 0:                                  # every third case (3 and len(BF) are coprime: every member type is met)
        ex["B"] = [u64(bfconv(val, bt, bw))]
    if v["f"] == "fcmp" and v["op"] == "toint":     # a floating constant converted implicitly to a bit-field of type td
        ex["F"] = [u64(val)]
    if only:
        ex = {k: x for k, x in ex.items() if k == only}
    top, body = [], []
    if "s" in ex:
        top.append("static %s s%d = %s;" % ("long" if v["sg"] else "unsigned long", n, E))
        body.append('printf("%d s %%lu\\n", (unsigned long)s%d);' % (n, n))
    if "t" in ex:
        top.append("static %s t%d = %s;" % (CT[rk], n, E))
        body.append('printf("%d t %%lu\\n", (unsigned long)t%d);' % (n, n))
    if "i" in ex:
        top.append("static %s i%d = %s;" % (CT[e["t"]], n, const_text(e["a"])))
        body.append('printf("%d i %%lu\\n", (unsigned long)i%d);' % (n, n))
    if "B" in ex:
        top.append("static struct { %s f : %d; } B%d = { %s };" % (CT[bt], bw, n, E))
        body.append('printf("%d B %%lu\\n", (unsigned long)B%d.f);' % (n, n))
    if "F" in ex:
        top.append("static struct { %s f : %d; } F%d = { %s };" % (CT[v["td"]], 1 if v["td"] == "bool" else WID[v["td"]], n, const_text(e["a"])))
        body.append('printf("%d F %%lu\\n", (unsigned long)F%d.f);' % (n, n))
    if "e" in ex:
        top.append("enum { e%d = %s };" % (n, E))
        body.append('printf("%d e %%lu\\n", (unsigned long)(long)e%d);' % (n, n))
    if "a" in ex:
        top.append("static char a%d[%s];" % (n, E))
        body.append('printf("%d a %%lu\\n", (unsigned long)sizeof(a%d));' % (n, n))
    if "A" in ex:
        body.append('{ char w[%s]; printf("%d A %%lu\\n", (unsigned long)sizeof(w)); }' % (E, n))
    if "m" in ex:
        top.append("struct M%d { char c[%s]; char d; };" % (n, E))
        body.append('printf("%d m %%lu\\n", (unsigned long)sizeof(struct M%d));' % (n, n))
    if "b" in ex:
        top.append("static struct { unsigned int f : %s; } b%d;" % (E, n))
        body.append('b%d.f = ~0u; printf("%d b %%lu\\n", (unsigned long)b%d.f);' % (n, n, n))
    if "l" in ex:
        top.append("struct L%d { char c; _Alignas(%s) char d; };" % (n, E))
        body.append('printf("%d l %%lu\\n", (unsigned long)sizeof(struct L%d));' % (n, n))
    if "d" in ex:
        top.append("static int d%d[] = { [%s] = 7 };" % (n, E))
        body.append('printf("%d d %%lu\\n", (unsigned long)sizeof(d%d));' % (n, n))
    if "c" in ex:
        ct = t if t in ("long", "ulong", "uint") else "int"
        top.append("static %s x%d = %s;" % (CT[ct], n, lit(ct, conv(val, ct))))
        body.append('{ int r; switch (x%d) { case %s: r = 1; break; default: r = 0; } printf("%d c %%d\\n", r); }' % (n, E, n))
    if "p" in ex:
        top.append("#if %s\n#define Q%d 1\n#else\n#define Q%d 0\n#endif" % (E, n, n))
        body.append('printf("%d p %%d\\n", Q%d);' % (n, n))
    if "q" in ex:
        rl = lit("ulong" if t == "ulong" else "long", val)
        top.append("#if (%s) == %s\n#define R%d 1\n#else\n#define R%d 0\n#endif" % (E, rl, n, n))
        body.append('printf("%d q %%d\\n", R%d);' % (n, n))
    if "v" in ex:
        lv = leaves(e)
        top += ["static %s g%d_%d = %s;" % (CT[l["t"]], n, i, fconst(l["t"], l["n"]) if l["k"] == "fv" else lit(l["t"], int(l["v"])))
                for i, l in enumerate(lv)]
        body.append("P(%d, %s);" % (n, render(e, lambda i, l: "g%d_%d" % (n, i))))
    top.append("static void c%d(void) { %s }" % (n, "\n ".join(body)))
    return "\n".join(top), "c%d();" % n, ex


def mkprog(cases):
    tops, calls = [], []
    for n, cs in cases:
        t, c, _ = case_code(n, cs[0], cs[1])
        tops.append(t)
        calls.append(c)
    return cexpr.PRELUDE + PRELUDE7 + "\n".join(tops) + "\nint main(void) {\n" + "\n".join(calls) + "\nreturn 0; }\n"


NAMES = dict(A="block-array-bound", m="member-array-bound", w="array-vla", B="static-bitfield", F="static-bitfield-implicit",
             f="next-enumerator", i="static-init-implicit", s="static-init-long", t="static-init", e="enumerator", a="array-bound", b="bitfield-width", l="alignas",
             d="designator", c="case-label", p="pp-if", q="pp-if-eq", v="runtime")


def cls(v, tag, n, what):
    if v["f"] == "case":
        return "const:switch-label:%s:nested-%s:%s:%s" % (v["tc"], v["tn"], v["tl"], what)
    if v["f"] == "enum":
        return "const:enumerator-%s:%s:%s:%s" % (v["form"], v["op"], v["tc"], what)
    extra = ""
    if tag == "t":
        extra = "-" + ROT[n % len(ROT)]
    if tag == "B":
        extra = "-%s-w%d" % BF[n % len(BF)]
    if tag == "F":
        extra = "-%s-w%d" % (v["td"], 1 if v["td"] == "bool" else WID[v["td"]])
    if tag == "c" and not -(1 << 31) <= int(v["s"]) < (1 << 31):
        extra = "-wide"
    if v["f"] == "fcmp":
        return "const:%s%s:float-%s:%s(%s,%s):%s" % (NAMES.get(tag, tag), extra if tag in "BF" else "", v["tf"], v["op"], v["x"], v["y"], what)
    if v["f"] == "vla" and tag == "w":
        return "const:array-vla:%s:%s:%s:%s:%s" % (v["op"], v["nk"], v["op2"], v["cnd"], what)
    if v["f"] == "fconv" and v["op"] == "finit" and tag == "s":
        extra = "-" + v["t"]
    return "const:%s%s:%s:%s" % (NAMES[tag], extra, cexpr.shape(v["e"]), what)


def what_of(k, exp, got):
    if isinstance(got, tuple):
        return "crash-or-rejected"
    if k == "w" and got and got[:1] == exp[:1]:
        return "calls"                           # the size is right, the number of calls made is not
    return "value"


def diffs(exp, got):
    return [k for k in exp if got.get(k) != exp[k]]


def judge(ctx, tree, vecs, tag):
    items = [(n, (v, None)) for n, v in enumerate(vecs)]
    res = cexpr.run_batches(ctx, tree, items, mkprog, tag, per=150)
    bad = []                                     # (n, v, consumer tag, expected, got)
    retry = []
    for n, (v, _) in items:
        exp, got = case_code(n, v)[2], res.get(n)
        for k in exp:
            ctx.note_case("%s|%s|%s" % (k, ROT[n % len(ROT)] if k == "t" else "%s:%d" % BF[n % len(BF)] if k == "B" else "", desc(v)), nontrivial=k != "v")
        if isinstance(got, tuple):
            retry += [(n * 32 + j, (v, k)) for j, k in enumerate(sorted(exp))]
        else:
            bad += [(n, v, k, exp[k], got.get(k)) for k in diffs(exp, got)]
    if retry:                                    # a case the compiler rejected: find the consumer
        wd = ctx.tmp(tag + "-retry")

        def again(it):
            m, (v, k) = it
            return it, cexpr.run_cases(cexpr.chibicc_cmd(tree), [(m // 32, (v, k))], mkprog, wd, "r%d" % m)[m // 32]
        for (m, (v, k)), r in vt.pmap(again, retry):
            exp = case_code(m // 32, v, k)[2]
            if isinstance(r, tuple) or r.get(k) != exp[k]:
                bad.append((m // 32, v, k, exp[k], r if isinstance(r, tuple) else r.get(k)))
    if bad:
        # the rotating destination type depends on the case number: keep it
        wd = ctx.tmp(tag + "-gcc")
        gres = vt.pmap(lambda b: cexpr.run_cases(cexpr.GCC, [(b[0], (b[1], b[2]))], mkprog, wd, "g%d%s" % (b[0], b[2]))[b[0]], bad)
        for (n, v, k, exp, got), g in zip(bad, gres):
            if isinstance(g, tuple) or g.get(k) != exp:
                ctx.oracle_disagreements += 1
                continue
            ctx.report(cls(v, k, n, what_of(k, exp, got)),
                       "%s as %s: spec (and gcc) %s, chibicc %s" % (desc(v), NAMES.get(k, k), exp, got if not isinstance(got, tuple) else got[1][-200:]),
                       case=dict(kind="const", vec=v, n=n, consumer=k, expected=exp, got=got, program=mkprog([(n, (v, k))])))
    ctx.cov["traces_validated_against_impl"] += len(items)
    return len(bad)


# ---------------------------------------------------- division by constant zero
DZ = ["static int z = %s;\n", "char a[%s];\n", "enum { e = %s };\n", "int f(int x) { switch (x) { case %s: return 1; } return 0; }\n",
      "#if %s\n#endif\n", "struct { int f : %s; } s;\n", "_Alignas(%s) char c;\n", "int d[] = { [%s] = 1 };\n"]
DZN = ["static-init", "array-bound", "enumerator", "case-label", "pp-if", "bitfield-width", "alignas", "designator"]


def judge_divzero(ctx, tree, vecs, tag):
    wd = ctx.tmp(tag)

    def one(t):
        n, v = t
        k = n % len(DZ)
        if k == 4 and not all(l["t"] in ("int", "uint", "long", "ulong") for l in leaves(v["e"])):
            k = 0
        f = "%s/z%d.c" % (wd, n)
        open(f, "w").write("\n\n" + DZ[k] % const_text(v["e"]))
        p = subprocess.run([tree + "/chibicc", "-cc1", "-cc1-input", f, "-cc1-output", f + ".s", f],
                           capture_output=True, text=True, timeout=120)      # a timeout is infrastructure (exit 2)
        rc, err = p.returncode, p.stderr
        return n, v, k, rc, err, f
    for n, v, k, rc, err, f in vt.pmap(one, vecs):
        ctx.note_case("divzero|%s|%s" % (DZN[k], const_text(v["e"])))
        located = re.search(re.escape(f) + r":3:", err) is not None
        if rc == 1 and located:
            continue
        what = "signal" if isinstance(rc, int) and rc < 0 else "accepted" if rc == 0 else "unlocated"
        ctx.report("const:divzero:%s:%s" % (DZN[k], what),
                   "%s in %s: expected a located diagnostic, cc1 status %s, stderr %r" % (const_text(v["e"]), DZN[k], rc, err[-200:]),
                   case=dict(kind="divzero", vec=v, n=n, text=open(f).read(), status=rc, stderr=err[-500:]))
    ctx.cov["traces_validated_against_impl"] += len(vecs)


def run(ctx):
    q = ctx.quick
    tree = ctx.build()
    ctx.phase("build done")
    # sensitivity controls: the pinned folder (cast arm typed uint32_t, no re-wrapping) and the wrong variants of the
    # floating conversions, of is_const_expr and of the static bit-field store must each be rejected
    def control_cfg(name, consts, inv):
        c2 = ctx.cfg("expr", "ExprMC_quick.cfg", name="sens-" + name, **consts)
        t2 = re.sub(r"(?m)^INVARIANTS .*$", "INVARIANTS " + inv, open(c2).read())
        open(c2, "w").write(t2)
        return name, c2
    controls = [("pinned-cast-arm", dict(FIX_D10=False, Shapes='{"un","cast"}'), "ConstInv"),
                ("castnoround", dict(MUT='"castnoround"', Shapes='{"fcc"}'), "ConstInv"),
                ("nonint", dict(MUT='"nonint"', Shapes='{"vla"}'), "VlaInv"),
                ("commaconst", dict(MUT='"commaconst"', Shapes='{"vla"}'), "VlaInv"),
                ("condtrunc", dict(MUT='"condtrunc"', Shapes='{"vla"}'), "VlaInv"),
                ("bfnoconv", dict(MUT='"bfnoconv"', Shapes='{"bfinit"}'), "BfInv"),
                ("bfmask", dict(MUT='"bfmask"', Shapes='{"bfinit"}'), "BfInv")]
    if q:       # quick: the pinned folder and two of the six others, rotating with the seed; thorough: all
        controls = controls[:1] + [controls[1 + (2 * ctx.seed + d) % 6] for d in (0, 1)]
    pool = concurrent.futures.ThreadPoolExecutor(4)     # the controls are small; they run beside the main model check
    pending = []
    if not os.environ.get("VERIF_DEV_SKIP_MC"):
        pending = [(name, pool.submit(ctx.tlc, "expr", "ExprMC", c2, workers=1, timeout=600, count=False, heap="1g"))
                   for name, c2 in [control_cfg(*c) for c in controls]]
    cexpr.model_check(ctx, "ExprMC_quick.cfg" if q else "ExprMC.cfg",
                      "eval2/eval_double/is_const_expr/write_gvar_data (ConstEval) do not compute the C11 value or type of a constant expression, or the array / VLA decision loses a side effect",
                      ["ConstInv", "CaseInv", "EnumInv", "FltInv", "VlaInv", "BfInv"], workers=12 if q else 16, sensitivity=False,
                      Shapes='{"bin","un","cast","cond","cc","case","enum","fcmp","d2l","d2r","d2u","fcc","fbin","fun","fcond","vla","bfinit","bfinitf"}')
    for name, fut in pending:
        if fut.result().ok:
            raise Infra("sensitivity control failed: TLC accepts the wrong variant %s" % name)
    pool.shutdown()
    ctx.phase("mc done")
    vec = cexpr.generate(ctx, FAMS, STRIDE if q else 1, 6 if q else 1, workers=12 if q else 16, minimum=1000, base=2, d2base=4)
    ctx.phase("gen done (%d vectors)" % len(vec))
    dz = [v for v in vec if v["dz"]]
    vec = [v for v in vec if not v["dz"]]
    for v in vec:
        if v["f"] == "fcmp":
            v["e"] = fcmp_tree(v)
    for v in vec[:: max(1, len(vec) // 3)][:3]:
        if v["f"] in ("case", "enum", "fcmp", "vla") or "t" not in v or v["t"] in FTY:
            ctx.sample(dict(kind=v["f"], what=desc(v)))
        else:
            ctx.sample(dict(kind="constant expression", expr=const_text(v["e"]), type=v["t"], value=v["s"],
                            contexts=sorted(NAMES[k] for k in consumers(v))))
    nbad = judge(ctx, tree, vec, "c07")
    ctx.phase("replay done (%d disagreements before triage)" % nbad)
    # thorough: all zero-divisor vectors; quick: those the stride selected
    if not dz:
        raise Infra("no division-by-zero vectors generated")
    ctx.sample(dict(kind="diagnostic behaviour", expr=const_text(dz[0]["e"]), expected="cc1 exits 1 with file:line message"))
    judge_divzero(ctx, tree, list(enumerate(dz)), "c07dz")
    ctx.phase("divzero done (%d)" % len(dz))
    ctx.assumptions += [
        "ConstEval (ChibiInt.tla part 2) is a hand transcription of parse.c eval2/is_const_expr; the replayed programs judge the real compiler",
        "#if is exercised only with long / unsigned long leaves and no casts (there C semantics = preprocessor semantics); int-typed literals in #if belong to C10",
        "floating constant expressions (eval_double) are covered where every value is an integer (conversions of integers at the precision boundaries, + -, unary -, ?:, comparisons); products, quotients and fractional values belong to C02",
        "contexts that demand an integer constant expression (array bound at file scope / in a member, enumerator, case label, bit-field width, _Alignas, designator) are used only for expressions that are one by C11 6.6p6 (CInt.IsICE); other arithmetic constant expressions are used as static initializers and block-scope array bounds",
        "family vla counts the calls made while a block-scope array declaration is executed; the run-time evaluation of a VLA bound itself is C03/C04's",
        "a context is used only when the value fits it (array bound 1..2000, bit-field width 1..32, _Alignas power of two <= 64, designator 0..500, enumerator in int range)"]
    return ctx.finish(
        rule="case = (constant expression of ExprGen.tla's closed domain, constant context that can hold its value) + the same expression computed at run time from non-constant copies; plus zero-divisor expressions in each context as diagnostic behaviours; family vla: a block-scope array bound with a call / comma operator / floating condition - (size, calls made); non-trivial = every constant context (the run-time evaluation is the C01 side); distinct = distinct (context, destination type, expression text)",
        exhaustive=not q,
        extra=dict(vectors=len(vec), divzero=len(dz), stride=STRIDE if q else 1))


def replay(ctx, path):
    c = json.load(open(os.path.join(path, "case.json")))
    c = c.get("case") or c
    if c.get("kind") == "tlc":
        ctx.tlc_expect_ok(c["area"], c["module"], c["cfg"], "replayed model check", env=c.get("env"))
        return ctx.finish(rule="replay of one recorded case")
    tree = ctx.build()
    if c.get("kind") == "divzero":
        judge_divzero(ctx, tree, [(c["n"], c["vec"])], "replay")
    else:
        # keep the case number: the rotating destination type depends on it
        wd = ctx.tmp("replay")
        n, v, k = c["n"], c["vec"], c["consumer"]
        r = cexpr.run_cases(cexpr.chibicc_cmd(tree), [(n, (v, k))], mkprog, wd, "rp")[n]
        exp = case_code(n, v, k)[2]
        if isinstance(r, tuple) or r.get(k) != exp[k]:
            ctx.report(cls(v, k, n, what_of(k, exp[k], r if isinstance(r, tuple) else r.get(k))),
                       "%s as %s: spec %s, chibicc %s" % (desc(v), NAMES.get(k, k), exp[k], r), case=c)
    return ctx.finish(rule="replay of one recorded case")
