"""C15 — linkage, storage duration and symbol emission are correct in every configuration.

1. TLC, exhaustive: tla/link/Linkage.tla — chibicc's global_variable / function /
   current_fn booking / mark_live / scan_globals / emit gating (Level I) equals the C11
   linkage + ELF rules (Level A) for every declaration sequence up to the bound on an
   object name, on a function name, and for every reference digraph x root assignment on
   N static inline functions.  Sensitivity control: Level I of the pinned tree
   (Fixed = FALSE) must be rejected in each of the three modes.
2. Generate -> replay: every judged state of those graphs is one translation unit; it is
   rendered as C, compiled by the tree's `chibicc -c` (default / -fno-common / -fPIC) and
   the symbol table (readelf) is compared with Level A: name, binding, type, section
   kind, size, alignment.  gcc -std=c11 is the tie-break.
3. tla/link/Link2.tla composes two units; the predicted link result and program output
   are compared with what the tree's driver links in {default, -fno-common, -fPIC,
   -fPIC -shared + main, -static}.
4. tla/link/LinkLine.tla: units delivered as libraries (archive / shared object) and named with
   -L/-l; the driver's ld line (parse_args / run_linker, Level I) must be the command line in order
   and link exactly when left-to-right archive resolution (Level A) says so; every line is one
   driver call, judged on the ld line printed by -###, link success and program output.
"""
import json, math, os, re, shutil
import vt
from vt import Infra

IGNORE = {"_GLOBAL_OFFSET_TABLE_", "__tls_get_addr"}
CTYPE = {"int": ("int", ""), "long": ("long", ""), "char3": ("char", "[3]"), "char20": ("char", "[20]"), "int5": ("int", "[5]")}
CINIT = {"int": "41", "long": "41", "char3": "{41, 1, 2}", "char20": "{41, 1, 2}", "int5": "{41, 1, 2}"}
# initializers that complete an array of unknown bound (`T x[] = ...`, C11 6.7.9p22) to exactly the size of the type
CINIT_UB = {"char20": '")bcdefghijklmnopqrs"', "int5": "{41, 1, 2, 3, 4}"}
SIZE = {"int": 4, "long": 8, "char3": 3, "char20": 20, "int5": 20}


# ------------------------------------------------------------------ rendering
def kconst(name):
    return sum(ord(c) * (i + 3) for i, c in enumerate(name)) % 89 + 2


def render_unit(c):
    """C text of one unit (a state of Linkage.tla) + the helper symbols it defines."""
    base, arr0 = CTYPE[c["ty"]]
    tl = "_Thread_local " if c["tls"] else ""
    al = "_Alignas(%d) " % c["aln"] if c.get("aln") else ""     # on every defining declaration (6.7.5)
    out, helpers = [], {}
    for i, e in enumerate(c["es"], 1):
        if e["k"] == "obj":
            ev = e["ev"]
            ub = bool(e.get("ub"))                                # the declarator omits the array bound
            arr = "[]" if ub else arr0
            decl = "%s%s%s x%s" % (tl, "" if ev in ("E", "BE") else al, base, arr)
            init = " = " + (CINIT_UB if ub else CINIT)[c["ty"]]
            if ev == "F":
                # a function whose body nests blocks; level j declares x as blk[j]; x is referred to at level `at`
                blk, at = e["blk"], e["at"]
                plain = "%s x%s" % (base, arr0)

                def dcl(b):
                    # (a block-scope static is also referred to in its own block: an unreferenced one leaves no trace)
                    return {"A": "%s = %s;" % (plain, CINIT[c["ty"]]), "P": "", "BS": "static %s%s; k ^= (unsigned long)&x;" % (tl, plain),
                            "BSD": "static %s%s = %s; k ^= (unsigned long)&x;" % (tl, plain, CINIT[c["ty"]]),
                            "BE": "extern %s%s;" % (tl, plain)}[b]
                ref = "r = (unsigned long)&x;"
                out.append("unsigned long n%d(%s) { unsigned long r = 0, k = 0; %s { %s %s } %s return r + (k & 1); }" % (
                    i, plain if blk[0] == "P" else "void", dcl(blk[0]), dcl(blk[1]), ref if at == 2 else "", ref if at == 1 else ""))
                helpers["n%d" % i] = "fn"
            elif ev == "T":
                out.append(decl + ";")
            elif ev == "D":
                out.append(decl + init + ";")
            elif ev == "E":
                out.append("extern " + decl + ";")
            elif ev == "ST":
                out.append("static " + decl + ";")
            elif ev == "SD":
                out.append("static " + decl + init + ";")
            elif ev == "BE":
                out.append("void *b%d(void) { extern %s; return &x; }" % (i, decl))
                helpers["b%d" % i] = "fn"
            elif ev in ("BS", "BSD"):
                out.append("void *s%d(void) { static %s%s; return &x; }" % (i, decl, init if ev == "BSD" else ""))
                helpers["s%d" % i] = "fn"
            elif ev == "R":
                out.append("void *r%d(void) { return &x; }" % i)
                helpers["r%d" % i] = "fn"
        elif e["k"] == "fn":
            spec = ("" if e["sc"] == "none" else e["sc"] + " ") + ("inline " if e["inl"] else "")
            head = "%sint %s(int d)" % (spec, e["name"])
            if not e["def"]:
                out.append(head + ";")
            else:
                k = kconst(e["name"])
                st = []
                for j, r in enumerate(sorted(e["refs"])):           # potentially evaluated references, written as e["ev"] says
                    kind = e.get("ev", "call")
                    if kind == "vlatype":
                        st.append("v += (int)sizeof(char[%s(d - 1) + 1]) - 1;" % r)
                    elif kind == "vlatype2":
                        st.append("v += (int)(sizeof(char[d + 2][%s(d - 1) + 1]) / (d + 2)) - 1;" % r)
                    elif kind == "vlabound":
                        st.append("{ char a[%s(d - 1) + 1]; v += (int)sizeof a - 1; }" % r)
                    elif kind == "blkcall":      # through a block-scope declaration of the callee
                        st.append("{ int %s(int); v += %s(d - 1); }" % (r, r))
                    elif kind == "hidcall":      # ... behind an automatic object of the same name
                        st.append("{ int %s = d; { int %s(int); v += %s(d - 1); } v += %s - d; }" % (r, r, r, r))
                    else:
                        st.append("v += %s(d - 1);" % r if j % 2 == 0 else "v += (*&%s)(d - 1);" % r)
                for j, r in enumerate(sorted(e.get("urefs", []))):  # operands that are not evaluated (6.9p3: not a use)
                    st.append("v += (int)sizeof(%s(d - 1)) - 4;" % r if j % 2 == 0 else
                              "v += (int)_Alignof(char[sizeof(%s(d - 1))]) - 1;" % r)
                out.append("%s { if (d <= 0) return %d; int v = %d; %s return v; }" % (head, k, k, " ".join(st)))
        elif e["k"] == "init":
            out.append("int (*p%d)(int) = %s;" % (i, e["name"]))
            helpers["p%d" % i] = "ptr"
    return "\n".join(out) + "\n", helpers


# ------------------------------------------------------------------ readelf
def sect_kind(s):
    if s == "COM":
        return "common"
    if s == "UND":
        return "UND"
    for p, k in ((".text", "text"), (".tdata", "tdata"), (".tbss", "tbss"), (".data", "data"), (".bss", "bss"),
                 (".rodata", "rodata")):
        if s.startswith(p):
            return k
    return s


def parse_readelf(txt):
    """{file: {name: [rows]}} from `readelf -SW -sW f1.o f2.o ...`; row = (bind, type, kind, size, value, sh_addralign
    of the symbol's section or 0)."""
    files, cur, secs, secal, syms = {}, None, {}, {}, None
    for l in txt.splitlines():
        m = re.match(r"^File: (.*)$", l)
        if m:
            cur = m.group(1).strip()
            secs, secal, syms = {}, {}, {}
            files[cur] = syms
            continue
        m = re.match(r"^\s*\[\s*(\d+)\]\s+(\S+)\s+(\S+)", l)
        if m and syms is not None:
            secs[m.group(1)] = m.group(2)
            last = l.split()[-1]
            secal[m.group(1)] = int(last) if last.isdigit() else 0
            continue
        f = l.split()
        if syms is not None and len(f) >= 8 and f[0].endswith(":") and f[0][:-1].isdigit() and f[3] not in ("SECTION", "FILE"):
            try:
                size = int(f[2], 0)
            except ValueError:
                continue
            syms.setdefault(f[7], []).append((f[4], f[3], sect_kind(secs.get(f[6], f[6])), size, int(f[1], 16), secal.get(f[6], 0)))
    return files


def run_tool(cmd, **kw):
    """run_limited, but a timeout is infrastructure trouble, never a verdict"""
    p = vt.run_limited(cmd, **kw)
    if p.returncode == -999:
        raise Infra("timeout running " + " ".join(cmd[:4]))
    return p


def cflags(cfgname):
    return dict(default=[], nocommon=["-fno-common"], pic=["-fPIC"])[cfgname]


def compile_units(ctx, tree, compiler, units, tag):
    """units: [(id, text, cfgname)].  Returns {id: symtab or ("fail", msg)}."""
    d = ctx.tmp("u-%s-%s" % (tag, compiler))
    groups = {}
    for u in units:
        groups.setdefault(u[2], []).append(u)
    jobs = []
    for cfgname, us in groups.items():
        for k in range(0, len(us), 24):
            jobs.append((cfgname, us[k:k + 24], "%s/%s-%d" % (d, cfgname, k)))

    def cc(cfgname, srcs, cwd):
        if compiler == "gcc":
            fl = ["-fcommon"] if cfgname != "nocommon" else []
            return run_tool(["gcc", "-std=c11", "-O0", "-w", "-c"] + fl + cflags(cfgname) + srcs, timeout=120, cwd=cwd)
        return run_tool([tree + "/chibicc", "-c"] + cflags(cfgname) + srcs, timeout=120, cwd=cwd)

    def one(job):
        cfgname, us, wd = job
        os.makedirs(wd, exist_ok=True)
        for uid, text, _ in us:
            open("%s/u%d.c" % (wd, uid), "w").write(text)
        p = cc(cfgname, ["u%d.c" % uid for uid, _, _ in us], wd)
        res = {}
        missing = [u for u in us if not os.path.exists("%s/u%d.o" % (wd, u[0]))]
        if missing and len(us) > 1:            # the driver stops at the first failing input: redo the rest one by one
            for uid, text, _ in missing:
                p1 = cc(cfgname, ["u%d.c" % uid], wd)
                if not os.path.exists("%s/u%d.o" % (wd, uid)):
                    res[uid] = ("fail", "rc=%s %s" % (p1.returncode, (p1.stderr or "")[-400:]))
        elif missing:
            res[missing[0][0]] = ("fail", "rc=%s %s" % (p.returncode, (p.stderr or "")[-400:]))
        objs = ["u%d.o" % uid for uid, _, _ in us if uid not in res]
        if objs:
            r = run_tool(["readelf", "-SW", "-sW"] + objs, timeout=120, cwd=wd)
            if r.returncode != 0:
                raise Infra("readelf failed: " + r.stderr[-500:])
            tabs = parse_readelf(("File: %s\n" % objs[0] if len(objs) == 1 else "") + r.stdout)
            for o in objs:
                if o not in tabs:
                    raise Infra("readelf gave no table for " + o)
                res[int(o[1:-2])] = tabs[o]
        shutil.rmtree(wd, ignore_errors=True)
        return res

    out = {}
    for r in vt.pmap(one, jobs, workers=8):
        out.update(r)
    return out


# ------------------------------------------------------------------ comparison
def is_anon(name):
    return "." in name          # compiler-generated (chibicc .L..N, gcc x.0 / f.localalias): not a C identifier


def galign(r):
    """The alignment an object file guarantees for a defined symbol: its section is placed at a multiple of
    sh_addralign, the symbol st_value bytes into it (for a common symbol st_value IS the alignment)."""
    return r[4] if r[2] == "common" else math.gcd(r[4], r[5]) if r[5] else r[4]


def check_row(name, exp, rows):
    """exp: Level A row; rows: readelf rows of that name.  Returns None or (class, text)."""
    st = exp["st"]
    defs = [r for r in rows if r[2] != "UND"]
    if len(rows) > 1:
        return "dup", "symbol listed %d times" % len(rows)
    r = rows[0] if rows else None
    if st == "none":
        return None if r is None else ("unexpected-" + ("def" if defs else "und"), "expected no symbol, found %s" % (r,))
    if st == "und":
        if r is None or defs or r[0] != "GLOBAL":
            return ("missing-und" if r is None else "und-is-defined"), "expected an undefined GLOBAL reference, found %s" % (r,)
        return None
    if st == "optund":       # named in unevaluated operands only: a reference is allowed, a definition is not
        return None if not defs else ("defined-although-only-declared", "expected no definition, found %s" % (r,))
    if st in ("nonglobal", "optlocal"):
        if r is None or (not defs and st == "nonglobal") or (defs and r[0] == "LOCAL" and r[2] == "text"):
            return None
        return "inline-definition-global" if st == "nonglobal" else "optlocal", "expected no GLOBAL definition, found %s" % (r,)
    # st == def
    if r is None or not defs:
        return "not-emitted", "expected a %s definition in %s, found %s" % (exp["bind"], exp["sect"], r)
    if r[0] != exp["bind"]:
        return "binding", "expected %s, found %s" % (exp["bind"], r)
    if r[2] != exp["sect"]:
        return "section:%s-for-%s" % (r[2], exp["sect"]), "expected section kind %s, found %s" % (exp["sect"], r)
    if r[1] != exp["type"]:
        return "type:%s-for-%s-in-%s" % (r[1], exp["type"], exp["sect"]), "expected type %s, found %s" % (exp["type"], r)
    if exp["type"] != "FUNC":
        if r[3] != exp["size"]:
            return "size-in-%s" % exp["sect"], "expected size %d, found %s" % (exp["size"], r)
        if (exp["sect"] == "common" and r[4] != exp["align"]) or (exp["sect"] != "common" and galign(r) % exp["align"]):
            return "alignment", "expected alignment %d, found %s (guaranteed: %d)" % (exp["align"], r, galign(r))
    return None


def judge_unit(c, helpers, tab, cfgname):
    """All discrepancies between a symbol table and Level A: [(class, text)]."""
    bad = []
    if isinstance(tab, tuple):
        if "not a function" in tab[1] and any(e.get("ev") == "hidcall" for e in c["es"]):
            return [("rejected:block-scope-function-declaration-behind-object", tab[1])]
        return [("rejected", tab[1])]
    exp = {}
    if c["mode"] == "obj":
        exp["x"] = c["objrow"]
    known, blkdecl = set(), set()
    for fr in c["fnrows"]:
        exp[fr["name"]] = fr["row"]
        if fr["known"]:
            known.add(fr["name"])
        if fr.get("blk"):
            blkdecl.add(fr["name"])
    for h, kind in helpers.items():
        if h not in exp:
            exp[h] = dict(st="def", bind="GLOBAL", type="FUNC", sect="text", size=0, align=1) if kind == "fn" else \
                dict(st="def", bind="GLOBAL", type="OBJECT", sect="data", size=8, align=8)
    for name, e in exp.items():
        rows = tab.get(name, [])
        b = check_row(name, e, rows)
        if b:
            kind = "object" if name == "x" else "helper" if name in helpers else "function"
            if name == "x" and c.get("objcls"):       # Linkage.tla KnownUnboundTentative
                kind = "object:" + c["objcls"]
            if name in known:       # D33: Linkage.tla KnownInlineExt
                kind = "function:inline-definition-made-external-by-another-declaration"
            elif name in blkdecl:   # Linkage.tla BlockDeclared
                kind = "function:declared-in-block-scope"
            bad.append(("%s:%s" % (kind, b[0]), "%s: %s" % (name, b[1])))
    anon = []
    for name, rows in tab.items():
        if name in exp or name in IGNORE:
            continue
        if is_anon(name):
            anon += [r for r in rows if r[2] != "UND"]
            continue
        for r in rows:
            if r[2] == "UND":
                bad.append(("extra:undefined-reference", "%s: unexpected undefined symbol %s" % (name, r)))
            else:
                bad.append(("extra:%s-definition" % r[0].lower(), "%s: unexpected symbol %s" % (name, r)))
    for r in anon:
        if r[0] != "LOCAL":
            bad.append(("anon:binding", "anonymous object is not LOCAL: %s" % (r,)))
    if cfgname == "pic" and c["mode"] == "obj":
        # under -fPIC the anonymous objects of static locals are addressed through the GOT and so
        # stay in the symbol table: their section kinds and sizes are observable
        got = sorted((r[2], r[3]) for r in anon if r[2] in ("data", "bss", "tdata", "tbss") and r[1] in ("OBJECT", "TLS", "NOTYPE"))
        want = sorted((a["sect"], a["size"]) for a in c["anon"])
        gotk = sorted(k for k, _ in got)
        if gotk != sorted(k for k, _ in want):
            bad.append(("anon:section", "static locals: expected %s, found %s" % (want, got)))
        elif got != want:
            bad.append(("anon:size", "static locals: expected %s, found %s" % (want, got)))
        else:               # all static locals of a unit have the unit's type: one demanded alignment
            for r in anon:
                if r[2] in ("data", "bss", "tdata", "tbss") and r[1] in ("OBJECT", "TLS", "NOTYPE") and galign(r) % c["anon"][0].get("align", 1):
                    bad.append(("anon:alignas:alignment" if c.get("aln") else "anon:alignment", "static local: expected alignment %d, found %s (guaranteed: %d)" % (
                        c["anon"][0]["align"], r, galign(r))))
    return bad


def unit_key(c):
    return json.dumps([c["mode"], c["fcommon"], c["ty"], c["tls"], c.get("aln", 0), c["es"]], sort_keys=True)


def replay_units(ctx, tree, cases, tag, pic_every=3, force_cfg=None):
    """Compile every case with the tree's chibicc and compare with Level A; gcc is the tie-break."""
    units = []
    for i, c in enumerate(cases):
        text, helpers = render_unit(c)
        c["_text"], c["_helpers"] = text, helpers
        if force_cfg:
            cfgs = [force_cfg]
        elif c["mode"] == "obj":
            cfgs = ["default" if c["fcommon"] else "nocommon"]
            if c["fcommon"] and i % pic_every == 0:
                cfgs.append("pic")
        else:
            cfgs = ["default", "pic"] if pic_every == 1 else [("default", "pic")[i % 2]]
        for cf in cfgs:
            units.append((len(units), text, cf, i))
    tabs = compile_units(ctx, tree, "chibicc", [(u[0], u[1], u[2]) for u in units], tag)
    bad = []
    for uid, text, cf, i in units:
        c = cases[i]
        nontriv = len(c["es"]) >= 2
        ctx.note_case("%s:%s:%s" % (tag, cf, unit_key(c)), nontrivial=nontriv)
        b = judge_unit(c, c["_helpers"], tabs.get(uid, ("fail", "no result")), cf)
        if b:
            bad.append((uid, text, cf, i, b))
    ctx.cov["traces_validated_against_impl"] += len(units)
    if bad:
        gt = compile_units(ctx, tree, "gcc", [(u[0], u[1], u[2]) for u in bad], tag + "-tb")
        for uid, text, cf, i, b in bad:
            c = cases[i]
            gb = judge_unit(c, c["_helpers"], gt.get(uid, ("fail", "no result")), cf)
            gcls = set(x[0] for x in gb)
            for cls, msg in b:
                if cls in gcls or any(x[0].startswith("rejected") for x in gb):
                    ctx.oracle_disagreements += 1       # the reference compiler disagrees with the spec too
                    continue
                ctx.report("unit:%s" % cls,
                           "%s [%s] %s | unit: %s" % (msg, cf, "tls " if c["tls"] else "", text.replace("\n", " ")[:300]),
                           case=dict(kind="unit", case={k: v for k, v in c.items() if not k.startswith("_")}, cfg=cf,
                                     source=text, discrepancies=b))
    return len(units)


# ------------------------------------------------------------------ multi-unit layer (Link2.tla)
GV = {1: 11, 2: 22}
WV = {1: 40, 2: 50}
MAIN_PRELUDE = """int printf(const char *, ...);
int pthread_create(unsigned long *, void *, void *(*)(void *), void *);
int pthread_join(unsigned long, void **);
struct targ { int (*tinc)(void); int *(*taddr)(void); int val; int *addr; };
static void *thr(void *p) { struct targ *a = p; a->val = a->tinc(); a->addr = a->taddr(); return 0; }
"""


def render_link_unit(ci, u, k, hval):
    P = "c%d_" % ci
    g, t, h = P + "g", P + "t", P + "h"
    o = []
    o.append({"T": "int %s;" % g, "TT": "int %s; int %s;" % (g, g), "D": "int %s = %d;" % (g, GV[u]),
              "E": "extern int %s;" % g, "ST": "static int %s;" % g, "SD": "static int %s = %d;" % (g, GV[u])}[k["g"]])
    o.append({"T": "_Thread_local int %s;" % t, "D": "_Thread_local int %s = %d;" % (t, WV[u]),
              "E": "extern _Thread_local int %s;" % t, "SD": "static _Thread_local int %s = %d;" % (t, WV[u])}[k["t"]])
    body = "(void) { return %d; }" % hval
    o.append({"def": "int %s%s" % (h, body), "decl": "int %s(void);" % h, "sdef": "static int %s%s" % (h, body),
              "si": "static inline int %s%s" % (h, body), "eidef": "extern inline int %s%s" % (h, body),
              "idef": "inline int %s%s" % (h, body)}[k["h"]])
    A = "%su%d_" % (P, u)
    # the scope through which the accessors name g (Link2.tla, field ga): the file-scope declaration, a block-scope
    # extern, or a block-scope extern behind an automatic / block-scope static object of the same name
    pre, post = {"file": ("", ""), "be": ("extern int %s; " % g, ""),
                 "hid": ("int %s = 5; { extern int %s; " % (g, g), " }"),
                 "hids": ("static int %s = 5; { extern int %s; " % (g, g), " }")}[k.get("ga", "file")]
    o += ["int %sgval(void) { %sreturn %s;%s }" % (A, pre, g, post), "int *%sgaddr(void) { %sreturn &%s;%s }" % (A, pre, g, post),
          "void %sgset(int v) { %s%s = v;%s }" % (A, pre, g, post), "int %stinc(void) { return ++%s; }" % (A, t),
          "int *%staddr(void) { return &%s; }" % (A, t), "int %sh(void) { return %s(); }" % (A, h),
          "int (*%shp)(void) = %s;" % (A, h),
          "int %scnt(void) { static int n%s; return ++n; }" % (A, " = 5" if u == 2 else ""),
          "char *%sstr(void) { return \"c%dunit%d\"; }" % (A, ci, u)]
    return "\n".join(o) + "\n"


def render_link_main(cis):
    o = [MAIN_PRELUDE]
    for ci in cis:
        P = "c%d_" % ci
        for u in (1, 2):
            A = "%su%d_" % (P, u)
            o.append("int %sgval(void); int *%sgaddr(void); void %sgset(int); int %stinc(void); int *%staddr(void); "
                     "int %sh(void); extern int (*%shp)(void); int %scnt(void); char *%sstr(void);" % ((A,) * 9))
        a, b = P + "u1_", P + "u2_"
        o.append("""static void run_c%d(void) {
  int v1 = %sgval(), v2 = %sgval(), same = %sgaddr() == %sgaddr(); %sgset(77);
  printf("G %d %%d %%d %%d %%d\\n", v1, v2, same, %sgval());
  int x = %stinc(), y = %stinc(), z = %stinc(), ts = %staddr() == %staddr();
  struct targ ta = {%stinc, %staddr, 0, 0}; unsigned long th;
  if (pthread_create(&th, 0, thr, &ta)) printf("pthread_create failed\\n");
  pthread_join(th, 0);
  printf("T %d %%d %%d %%d %%d %%d %%d\\n", x, y, z, ts, ta.val, ta.addr != %staddr());
  printf("H %d %%d %%d %%d %%d\\n", %sh(), %sh(), %shp(), %shp());
  int n1 = %scnt(), n2 = %scnt(), n3 = %scnt(), m1 = %scnt();
  printf("S %d %%d %%d %%d %%d %%s %%s\\n", n1, n2, n3, m1, %sstr(), %sstr());
}""" % (ci, a, b, a, b, a, ci, b, a, a, b, a, b, a, a, ci, a, ci, a, b, a, b, a, a, a, b, ci, a, b))
    o.append("int main(void) {\n" + "".join("  run_c%d();\n" % ci for ci in cis) + "  return 0;\n}")
    return "\n".join(o) + "\n"


def expected_lines(ci, pred):
    return ["G %d %s" % (ci, " ".join(map(str, pred["gl"]))), "T %d %s" % (ci, " ".join(map(str, pred["tl"]))),
            "H %d %s" % (ci, " ".join(map(str, pred["hl"]))), "S %d 1 2 3 6 c%dunit1 c%dunit2" % (ci, ci, ci)]


def link_batch(tree, compiler, cfg, batch, wd):
    """Compile u1.c u2.c main.c for the cases of `batch` [(ci, case)], link them in configuration cfg with
    the driver of `compiler`, run.  Returns (stage, detail): stage in compile/link/run/ok."""
    os.makedirs(wd, exist_ok=True)
    for u in (1, 2):
        with open("%s/u%d.c" % (wd, u), "w") as f:
            for ci, c in batch:
                hv = 7 if "idef" in (c["u1"]["h"], c["u2"]["h"]) else 100 + u
                f.write(render_link_unit(ci, u, c["u%d" % u], hv))
    open(wd + "/main.c", "w").write(render_link_main([ci for ci, _ in batch]))
    cc = ["gcc", "-std=c11", "-O0", "-w"] if compiler == "gcc" else [tree + "/chibicc"]
    fl = {"default": [], "nocommon": ["-fno-common"], "pic": ["-fPIC"], "shared": ["-fPIC"], "static": []}[cfg]
    if compiler == "gcc" and cfg != "nocommon":
        fl = fl + ["-fcommon"]
    if compiler == "gcc" and cfg in ("default", "nocommon", "static"):
        fl = fl + ["-fno-pie"]
    for src in ("u1", "u2", "main"):
        p = run_tool(cc + fl + ["-c", "-o", src + ".o", src + ".c"], timeout=120, cwd=wd)
        if p.returncode != 0:
            return "compile", "%s.c rc=%s %s" % (src, p.returncode, (p.stderr or "")[-600:])
    nopie = ["-no-pie"] if compiler == "gcc" and cfg in ("default", "nocommon", "static") else []
    if cfg == "shared":
        p = run_tool(cc + ["-shared", "-o", "libu2.so", "u2.o"], timeout=120, cwd=wd)
        if p.returncode != 0:
            return "link", "libu2.so rc=%s %s" % (p.returncode, (p.stderr or "")[-600:])
        cmd = cc + ["-o", "exe", "u1.o", "main.o", "libu2.so", "-lpthread"]
    else:
        cmd = cc + nopie + (["-static"] if cfg == "static" else []) + ["-o", "exe", "u1.o", "u2.o", "main.o", "-lpthread"]
    p = run_tool(cmd, timeout=180, cwd=wd)
    if p.returncode != 0 or not os.path.exists(wd + "/exe"):
        return "link", "rc=%s %s" % (p.returncode, " | ".join(l for l in (p.stderr or "").splitlines() if "GNU-stack" not in l and "NOTE:" not in l)[-600:])
    r = run_tool(["./exe"], timeout=60, mem_gb=2, cwd=wd, env=dict(os.environ, LD_LIBRARY_PATH=wd))
    if r.returncode != 0:
        return "run", "rc=%s %s" % (r.returncode, (r.stdout or "")[-300:])
    return "ok", r.stdout.splitlines()


def link_sig(c, what):
    k1, k2 = c["u1"], c["u2"]
    scoped = k1.get("ga", "file") != "file" or k2.get("ga", "file") != "file"
    fam = "g" if (k1["g"], k2["g"]) != ("D", "E") or scoped else "t" if (k1["t"], k2["t"]) != ("E", "D") else "h"
    if scoped:
        return "link:%s:g:%s@%s+%s@%s:%s" % (c["cfg"], k1["g"], k1.get("ga", "file"), k2["g"], k2.get("ga", "file"), what)
    return "link:%s:%s:%s+%s:%s" % (c["cfg"], fam, k1[fam], k2[fam], what)


def judge_link(c, ci, stage, detail):
    """None or (what, text) for one case given the outcome of its batch (of which it may be one of many)."""
    pred = c["pred"]
    if pred["link"] == "fail":
        if stage == "link":
            return None
        return "links-although-%s" % "+".join(sorted(pred["errs"])), "expected the link to fail (%s), got stage=%s %s" % (pred["errs"], stage, str(detail)[:200])
    if stage != "ok":
        return "%s-fails" % stage, "expected a running program, %s failed: %s" % (stage, str(detail)[:400])
    got = [l for l in detail if len(l.split()) > 1 and l.split()[1] == str(ci)]
    exp = expected_lines(ci, pred)
    for e, g in zip(exp, got + [""] * 4):
        if e != g:
            return "output-%s" % e[0], "expected `%s`, program printed `%s`" % (e, g)
    return None


def replay_links(ctx, tree, cases, compiler="chibicc", report=True):
    """cases: Link2 records.  Successful links of one configuration are batched into one program."""
    d = ctx.tmp("link-" + compiler)
    jobs, nj = [], 0
    for cfg in sorted(set(c["cfg"] for c in cases)):
        ok = [(i, c) for i, c in enumerate(cases) if c["cfg"] == cfg and c["pred"]["link"] == "ok"]
        for k in range(0, len(ok), 40):
            jobs.append((cfg, ok[k:k + 40]))
        jobs += [(cfg, [(i, c)]) for i, c in enumerate(cases) if c["cfg"] == cfg and c["pred"]["link"] == "fail"]
    results = {}

    def one(job):
        cfg, batch = job
        wd = "%s/j%d" % (d, id(batch) % 10 ** 9)
        out = []

        def rec(b, depth):
            st, det = link_batch(tree, compiler, cfg, b, "%s-%d-%d" % (wd, depth, b[0][0]))
            shutil.rmtree("%s-%d-%d" % (wd, depth, b[0][0]), ignore_errors=True)
            if st == "ok" or len(b) == 1:
                out.extend((ci, c, st, det) for ci, c in b)
                return
            h = len(b) // 2                   # a batch that does not build: halve to isolate the culprits
            rec(b[:h], depth + 1)
            rec(b[h:], depth + 1)
        rec(batch, 0)
        return out

    bad = []
    for out in vt.pmap(one, jobs, workers=6):
        for ci, c, st, det in out:
            b = judge_link(c, ci, st, det)
            results[ci] = b
            if b:
                bad.append((ci, c, b))
    if not report:
        return results
    for ci, c in enumerate(cases):
        ctx.note_case("link:%s:%s:%s" % (c["cfg"], json.dumps(c["u1"], sort_keys=True), json.dumps(c["u2"], sort_keys=True)),
                      nontrivial=True)
    ctx.cov["traces_validated_against_impl"] += len(cases)
    if bad:
        gres = replay_links(ctx, tree, [c for _, c, _ in bad], compiler="gcc", report=False)
        for j, (ci, c, b) in enumerate(bad):
            if gres.get(j):
                ctx.oracle_disagreements += 1            # gcc's objects do not behave as predicted either
                continue
            src = {"u1.c": render_link_unit(0, 1, c["u1"], 7 if "idef" in (c["u1"]["h"], c["u2"]["h"]) else 101),
                   "u2.c": render_link_unit(0, 2, c["u2"], 7 if "idef" in (c["u1"]["h"], c["u2"]["h"]) else 102)}
            ctx.report(link_sig(c, b[0]), "%s | u1: %s | u2: %s" % (b[1], json.dumps(c["u1"]), json.dumps(c["u2"])),
                       case=dict(kind="link", case=c, sources=src, expected=expected_lines(0, c["pred"])))
    return results


# ------------------------------------------------------------------ library layer (LinkLine.tla)
LIB_SRC = {"a1": "int fb(int);\nint fa(int x) { return fb(x) + 100; }\n",
           "b1": "int fb(int x) { return x * 7 + 1; }\n",
           "b2": "int fc(int x) { return x + 1000; }\n",
           "main1": "int printf(const char *, ...);\nint fa(int);\nint main(void) { printf(\"R %d\\n\", fa(3)); return 0; }\n",
           "main2": "int printf(const char *, ...);\nint fa(int);\nint fc(int);\n"
                    "int main(void) { printf(\"R %d %d\\n\", fa(3), fc(3)); return 0; }\n"}
LIB_EXPECT = {1: "R 122", 2: "R 122 1003"}
LIB_FLAGS = {"default": [], "nocommon": ["-fno-common"], "pic": ["-fPIC"], "static": []}


def lib_cc(tree, compiler, cfg):
    if compiler == "gcc":
        return ["gcc", "-std=c11", "-O0", "-w"] + ([] if cfg == "pic" else ["-fno-pie"])
    return [tree + "/chibicc"]


def build_libs(ctx, tree, compiler):
    """liba / libb as archive and as shared object for every flag set, installed in one directory per
    (flag set, delivery of liba, delivery of libb).  Returns the root directory."""
    root = ctx.tmp("libs-" + compiler)
    for n, t in LIB_SRC.items():
        open("%s/%s.c" % (root, n), "w").write(t)

    def must(cmd, cwd):
        p = run_tool(cmd, timeout=120, cwd=cwd)
        if p.returncode != 0:
            raise Infra("building the libraries of the library layer failed (%s): %s" % (" ".join(cmd[-3:]), (p.stderr or "")[-400:]))
    for fs in ("default", "nocommon", "pic"):
        d = "%s/%s" % (root, fs)
        os.makedirs(d, exist_ok=True)
        cc = lib_cc(tree, compiler, fs) + LIB_FLAGS[fs]
        for n in ("a1", "b1", "b2"):
            must(cc + ["-c", "-o", "%s/%s.o" % (d, n), "%s/%s.c" % (root, n)], d)
            must(cc + ["-fPIC", "-c", "-o", "%s/%s.pic.o" % (d, n), "%s/%s.c" % (root, n)], d)
        must(["ar", "rcs", "liba.a", "a1.o"], d)
        must(["ar", "rcs", "libb.a", "b1.o", "b2.o"], d)
        must(lib_cc(tree, compiler, fs) + ["-shared", "-o", "liba.so", "a1.pic.o"], d)
        must(lib_cc(tree, compiler, fs) + ["-shared", "-o", "libb.so", "b1.pic.o", "b2.pic.o"], d)
        for da in ("a", "so", "both"):
            for db in ("a", "so", "both"):
                i = "%s/%s-%s-%s" % (root, fs, da, db)
                os.makedirs(i, exist_ok=True)
                for lib, dl in (("liba", da), ("libb", db)):
                    for ext in ((".a",) if dl == "a" else (".so",) if dl == "so" else (".a", ".so")):
                        shutil.copy(d + "/" + lib + ext, i + "/" + lib + ext)
    return root


def run_libline(tree, compiler, root, c, wd):
    """One driver invocation `cc [flags] -o exe -L<dir> <words in command-line order>`; returns
    (link ok?, ld words as passed by the driver or None, stderr, program output or None)."""
    os.makedirs(wd, exist_ok=True)
    fs = "default" if c["cfg"] == "static" else c["cfg"]
    inst = "%s/%s-%s-%s" % (root, fs, c["da"], c["db"])
    words = ["%s/main%d.c" % (root, c["mrefs"]) if w == "M" else w for w in c["line"]]
    cmd = lib_cc(tree, compiler, c["cfg"]) + (["-###"] if compiler != "gcc" else []) + LIB_FLAGS[c["cfg"]] + \
        (["-static"] if c["cfg"] == "static" else []) + (["-no-pie"] if compiler == "gcc" and c["cfg"] != "pic" else []) + \
        (["-Wl,--no-as-needed"] if compiler == "gcc" else []) + ["-o", wd + "/exe", "-L" + inst] + words
    # (Debian's gcc links with --as-needed, which makes shared objects position dependent as well; chibicc's
    # driver does not, so the reference compiler is put on the same footing)
    p = run_tool(cmd, timeout=120, cwd=wd)
    ldw = None
    for l in (p.stderr or "").splitlines():
        t = l.split()
        if t and t[0] == "ld":
            ldw = ["M" if x.startswith("/tmp/chibicc-") else x for x in t[1:]
                   if x.startswith("/tmp/chibicc-") or x in ("-la", "-lb", "-Bstatic", "-Bdynamic")]
    ok = p.returncode == 0 and os.path.exists(wd + "/exe")
    out = None
    if ok:
        r = run_tool([wd + "/exe"], timeout=30, mem_gb=2, cwd=wd, env=dict(os.environ, LD_LIBRARY_PATH=inst))
        out = "rc=%d %s" % (r.returncode, r.stdout.strip())
    shutil.rmtree(wd, ignore_errors=True)
    return ok, ldw, (p.stderr or ""), out


def judge_libline(c, compiler, ok, ldw, err, out):
    b = judge_libline_outcome(c, ok, err, out)
    if b is None and compiler != "gcc" and ldw is not None and ldw != c["ld"]:
        # the program happens to link and run as predicted, but the driver did not keep the words in place
        return "ld-line-order", "the driver hands ld %s for the command line %s" % (ldw, c["line"])
    return b


def judge_libline_outcome(c, ok, err, out):
    errtxt = " | ".join(l for l in err.splitlines() if ("undefined reference" in l or "cannot find" in l))[-300:]
    if c["pred"] == "ok":
        if not ok:
            return "link-fails", "expected a running program, the link failed: %s" % (errtxt or err[-300:])
        if out != "rc=0 " + LIB_EXPECT[c["mrefs"]]:
            return "output", "expected `%s`, program gave `%s`" % (LIB_EXPECT[c["mrefs"]], out)
        return None
    if ok:
        return "links-although-" + c["pred"], "expected the link to fail (%s), it produced a program printing %s" % (c["pred"], out)
    want = "undefined reference" if c["pred"] == "undef" else "cannot find"
    if want not in err:
        return "fails-differently", "expected `%s`, got: %s" % (want, err[-300:])
    return None


def replay_liblines(ctx, tree, cases, compiler="chibicc", report=True):
    root = build_libs(ctx, tree, compiler)
    d = ctx.tmp("libline-" + compiler)

    def one(t):
        i, c = t
        return i, judge_libline(c, compiler, *run_libline(tree, compiler, root, c, "%s/k%d" % (d, i)))
    res = dict(vt.pmap(one, list(enumerate(cases)), workers=8))
    if not report:
        return res
    bad = [(i, cases[i], b) for i, b in sorted(res.items()) if b]
    for c in cases:
        ctx.note_case("libline:%s:%s:%s:%d:%s" % (c["cfg"], c["da"], c["db"], c["mrefs"], " ".join(c["line"])), nontrivial=True)
    ctx.cov["traces_validated_against_impl"] += len(cases)
    if bad:
        gres = replay_liblines(ctx, tree, [c for _, c, _ in bad], compiler="gcc", report=False)
        for j, (i, c, b) in enumerate(bad):
            if b[0] != "ld-line-order" and gres.get(j):
                ctx.oracle_disagreements += 1
                continue
            def kind(dl):
                return "missing" if c["cfg"] == "static" and dl == "so" else "archive" if c["cfg"] == "static" or dl == "a" else dl
            kinds = "%s+%s" % (kind(c["da"]), kind(c["db"]))
            ctx.report("libline:%s:%s:%s" % (c["cfg"], kinds, b[0]),
                       "%s | chibicc %s -L<liba:%s libb:%s> %s" % (b[1], " ".join(LIB_FLAGS[c["cfg"]] + (["-static"] if c["cfg"] == "static" else [])),
                                                                  c["da"], c["db"], " ".join(c["line"]).replace("M", "main.c")),
                       case=dict(kind="libline", case=c, sources=LIB_SRC, expected=LIB_EXPECT[c["mrefs"]]))
    return res


def validate_oracle(ctx, tree, cases, tag):
    """Development aid (VERIF_C15_ORACLE=1): Level A against gcc over the whole generated domain."""
    units, n = [], 0
    for i, c in enumerate(cases):
        text, helpers = render_unit(c)
        c["_helpers"] = helpers
        for cf in (["default", "pic"] if c["fcommon"] else ["nocommon"]):
            units.append((len(units), text, cf, i))
    tabs = compile_units(ctx, tree, "gcc", [(u[0], u[1], u[2]) for u in units], tag + "-oracle")
    for uid, text, cf, i in units:
        b = judge_unit(cases[i], cases[i]["_helpers"], tabs.get(uid, ("fail", "no result")), cf)
        if b:
            n += 1
            if n <= 15:
                print("ORACLE-DISAGREEMENT [%s %s] %s :: %s" % (tag, cf, text.replace("\n", " "), b))
    print("oracle validation %s: %d units, %d disagreements" % (tag, len(units), n))


class TlcPool:
    """All TLC runs of the check are independent of each other: start them together (JVM start-up and the
    small models dominate the quick tier) and collect each result where it is needed.  Counting into the
    evidence happens on the caller's thread."""

    def __init__(self, ctx, width):
        import concurrent.futures
        self.ctx, self.ex, self.f = ctx, concurrent.futures.ThreadPoolExecutor(width), {}

    def submit(self, key, module, cfg, count=True, **kw):
        self.f[key] = (self.ex.submit(self.ctx.tlc, "link", module, cfg, count=False, **kw), count)

    def get(self, key):
        fut, count = self.f[key]
        res = fut.result()
        if count:
            self.ctx.cov["states"] += res.distinct
            self.ctx.cov["transitions"] += res.generated
        return res


def gen(ctx, out, workers=4, timeout=1500, simulate=None, depth=None, extra=(), pool=None, key=None, **consts):
    cfg = ctx.cfg("link", "Linkage_mc.cfg", **consts)
    if os.path.exists(out):
        os.unlink(out)
    kw = dict(env=dict(OUT=out), workers=workers, timeout=timeout, heap="6g", simulate=simulate, depth=depth, extra=list(extra))
    if pool:
        pool.submit(key, "Linkage", cfg, count=not simulate, **kw)
        return None
    return ctx.tlc("link", "Linkage", cfg, count=not simulate, **kw)


def q(s):
    return '"%s"' % s


def run(ctx):
    quick = ctx.quick
    tree = ctx.build()
    ctx.phase("build")
    allcases = []
    plan = [("obj", dict(Mode=q("obj"), MaxLen=3 if quick else 4, N=0), None),
            # how the type of x gets complete: declarators without the array bound (composite type, completion by the
            # initializer, one-element rule), _Alignas on the defining declarations
            ("objty", dict(Mode=q("obj"), MaxLen=3, N=0, Unb=True), None),
            # scopes: a function with nested blocks that declare x without linkage / as a block-scope extern
            ("scope", dict(Mode=q("scope"), N=0), None),
            ("fn", dict(Mode=q("fn"), MaxLen=3 if quick else 4, N=0), None),
            ("graph2", dict(Mode=q("graph"), N=2, SelfLoops=True), None),
            # 2 functions, every way of writing the references (call/address, sizeof of a VLA type name, VLA bound)
            # x references in unevaluated operands
            ("graph2k", dict(Mode=q("graph"), N=2, SelfLoops=False, InitAfterOwn=False, FreeKinds=True), None),
            ("graph3", dict(Mode=q("graph"), N=3, SelfLoops=not quick), None),
            # 4 functions: random walks inside the closed domain (every walk ends in a complete unit) for the
            # replay; the thorough tier also model-checks the whole N = 4 graph below
            ("graph4", dict(Mode=q("graph"), N=4, SelfLoops=True), 30 if quick else 200)]
    pool = TlcPool(ctx, 6 if quick else 3)
    for tag, consts, sim in plan:
        out = os.path.join(ctx.scratch, "units-%s.ndjson" % tag)
        if sim:
            # fixed TLC seed and one worker: the same walks in every run, so that what the unchanged tree does on
            # them is known; VERIF_SEED only selects among them (vt.subsample below)
            gen(ctx, out, Emit=True, simulate=sim, depth=20, extra=["-seed", "15"], workers=1, pool=pool, key=tag, **consts)
        else:
            gen(ctx, out, Emit=True, workers=2 if quick else 4, pool=pool, key=tag, **consts)
    controls = (("obj", dict(Mode=q("obj"), N=0, Fixed=False)), ("fn", dict(Mode=q("fn"), N=0, Fixed=False)),
                ("graph2", dict(Mode=q("graph"), N=2, Fixed=False)),
                ("graph2-D23-alone", dict(Mode=q("graph"), N=2, ResetCurFn=False)),
                ("fn-sizeof-operands-not-booked", dict(Mode=q("fn"), N=0, SkipSizeof=True)),
                # HEAD before the fifth-round repairs (no composite array type, _Alignas ignored on block-scope statics)
                ("objty-before-fifth-round-repairs", dict(Mode=q("obj"), N=0, Unb=True, Fixed5=False)),
                # ... a block-scope declaration `int f(int);` turns an inline definition into an external one
                ("fn-before-fifth-round-repairs", dict(Mode=q("fn"), N=0, Fixed5=False)),
                # seeded C15-9: the psABI array rule applied when the Obj is created (before the initializer completes the type)
                ("objty-array-rule-at-creation", dict(Mode=q("obj"), N=0, Unb=True, AlignAtCreation=True)),
                # seeded C15-8: a block-scope extern binds to whatever declaration of the name is visible
                ("scope-extern-reuses-visible", dict(Mode=q("scope"), N=0, ReuseVisible=True)))
    for tag, consts in controls:
        pool.submit("ctl-" + tag, "Linkage", ctx.cfg("link", "Linkage_mc.cfg", **consts), count=False, workers=1)
    pool.submit("Link2", "Link2", ctx.cfg("link", "Link2.cfg", Emit=True), env=dict(OUT=os.path.join(ctx.scratch, "links.ndjson")), workers=2)
    pool.submit("LinkLine", "LinkLine", ctx.cfg("link", "LinkLine.cfg", Emit=True),
                env=dict(OUT=os.path.join(ctx.scratch, "liblines.ndjson")), workers=2)
    pool.submit("ctl-LinkLine", "LinkLine", ctx.cfg("link", "LinkLine.cfg", LFirst=True), count=False, workers=1)
    if not quick:
        c4 = dict(Mode=q("graph"), N=4, SelfLoops=False, InitAfterOwn=False)
        pool.submit("graph4-full", "Linkage", ctx.cfg("link", "Linkage_mc.cfg", **c4), workers=8, timeout=2400, heap="8g")
    total = {}
    for tag, consts, sim in plan:          # replay each family as soon as its graph is there; the other runs go on meanwhile
        out = os.path.join(ctx.scratch, "units-%s.ndjson" % tag)
        g = pool.get(tag)
        if not g.ok:
            p = ctx.replay_dir("tlc-Linkage-" + tag)
            open(p + "/counterexample.txt", "w").write(g.trace_text())
            json.dump(dict(kind="tlc", consts=consts), open(p + "/case.json", "w"))
            ctx.report("tlc:Linkage:%s:%s" % (tag, g.violated), "chibicc's linkage algorithm (Level I) differs from C11/ELF rules (Level A)", p)
        seen, cases = set(), []
        for c in vt.read_ndjson(out):
            k = unit_key(c)
            if k not in seen:
                seen.add(k)
                cases.append(c)
        if len(cases) < 100:
            raise Infra("Linkage generator (%s) wrote only %d units" % (tag, len(cases)))
        ctx.phase("tlc " + tag)
        if quick:
            stride = dict(obj=3, objty=16, scope=8, fn=2, graph2=2, graph2k=6, graph3=16, graph4=4).get(tag, 1)
        else:            # thorough: TLC still checks every state; the largest families are replayed in part
            stride = dict(obj=2, objty=3, fn=2, graph3=6).get(tag, 1)
        if os.environ.get("VERIF_C15_ORACLE") == "units":
            validate_oracle(ctx, tree, cases, tag)
        if os.environ.get("VERIF_C15_ALL"):      # development aid: replay the whole generated domain of this tier
            stride = 1
        sel = vt.subsample(cases, ctx.seed, stride)
        total[tag] = (len(cases), len(sel))
        mid = sel[len(sel) // 2]
        ctx.sample(dict(kind="unit", mode=mid["mode"], events=mid["es"], c_source=render_unit(mid)[0],
                        expected_rows=dict(x=mid["objrow"], fns=mid["fnrows"])))
        replay_units(ctx, tree, sel, tag, pic_every=3 if quick else 1)
        ctx.phase("replay " + tag)
    if not quick:
        g4 = pool.get("graph4-full")
        if not g4.ok:
            p = ctx.replay_dir("tlc-Linkage-graph4-full")
            open(p + "/counterexample.txt", "w").write(g4.trace_text())
            json.dump(dict(kind="tlc", consts=c4), open(p + "/case.json", "w"))
            ctx.report("tlc:Linkage:graph4:%s" % g4.violated, "Level I differs from Level A on a 4-function reference graph", p)
        ctx.phase("tlc graph4 exhaustive")
    # sensitivity controls: the pinned algorithm must be rejected in every mode
    for tag, consts in controls:
        ctl = pool.get("ctl-" + tag)
        if ctl.ok:
            raise Infra("sensitivity control failed: TLC accepts the pinned linkage algorithm (%s)" % tag)
    ctx.phase("controls")
    # multi-unit layer
    out = os.path.join(ctx.scratch, "links.ndjson")
    g = pool.get("Link2")
    if not g.ok:
        p = ctx.replay_dir("tlc-Link2")
        open(p + "/counterexample.txt", "w").write(g.trace_text())
        ctx.report("tlc:Link2:%s" % g.violated, "the link-level reference semantics is not configuration independent", p)
    links = vt.read_ndjson(out)
    if len(links) < 500:
        raise Infra("Link2 generator wrote only %d cases" % len(links))
    ctx.phase("tlc link2")
    if os.environ.get("VERIF_C15_ORACLE") == "links":
        r = replay_links(ctx, tree, links, compiler="gcc", report=False)
        n = 0
        for i, b in sorted(r.items()):
            if b:
                n += 1
                if n <= 40:
                    print("ORACLE-DISAGREEMENT link %s u1=%s u2=%s: %s" % (links[i]["cfg"], links[i]["u1"], links[i]["u2"], b))
        print("oracle validation link: %d cases, %d disagreements" % (len(links), n))
    okc = [c for c in links if c["pred"]["link"] == "ok"]
    failc = [c for c in links if c["pred"]["link"] == "fail"]
    lsel = vt.subsample(okc, ctx.seed, 2 if quick else 1) + vt.subsample(failc, ctx.seed, 10 if quick else 2)
    if os.environ.get("VERIF_C15_ALL"):
        lsel = links
    mid = lsel[len(lsel) // 3]
    ctx.sample(dict(kind="link", cfg=mid["cfg"], u1=render_link_unit(0, 1, mid["u1"], 101), u2=render_link_unit(0, 2, mid["u2"], 102),
                    predicted=mid["pred"]))
    replay_links(ctx, tree, lsel)
    total["link"] = (len(links), len(lsel))
    ctx.phase("replay links")
    # library layer: units delivered as archives / shared objects and named with -L/-l
    out = os.path.join(ctx.scratch, "liblines.ndjson")
    g = pool.get("LinkLine")
    if not g.ok:
        p = ctx.replay_dir("tlc-LinkLine")
        open(p + "/counterexample.txt", "w").write(g.trace_text())
        ctx.report("tlc:LinkLine:%s" % g.violated, "the driver's ld line (Level I) is not the command line in order (Level A)", p)
    ctl = pool.get("ctl-LinkLine")
    if ctl.ok:
        raise Infra("sensitivity control failed: TLC accepts a driver that moves -l/-Wl, in front of the inputs")
    lines = vt.read_ndjson(out)
    if len(lines) < 500:
        raise Infra("LinkLine generator wrote only %d cases" % len(lines))
    ctx.phase("tlc linkline")
    if os.environ.get("VERIF_C15_ORACLE") == "liblines":
        r = replay_liblines(ctx, tree, lines, compiler="gcc", report=False)
        n = 0
        for i, b in sorted(r.items()):
            if b:
                n += 1
                if n <= 60:
                    print("ORACLE-DISAGREEMENT libline %s: %s" % ({k: lines[i][k] for k in ("cfg", "da", "db", "mrefs", "line", "pred")}, b))
        print("oracle validation liblines: %d cases, %d disagreements" % (len(lines), n))
    llsel = lines if os.environ.get("VERIF_C15_ALL") else vt.subsample(lines, ctx.seed, 6 if quick else 1)
    ctx.sample(dict(kind="libline", case=llsel[len(llsel) // 2]), cap=7)
    replay_liblines(ctx, tree, llsel)
    total["libline"] = (len(lines), len(llsel))
    ctx.phase("replay liblines")
    ctx.assumptions += [
        "Level A was validated against gcc 12 -std=c11 -O0 over the whole generated domain at development time; at check time gcc only discards vectors on which it disagrees with the spec",
        "not judged (both allowed): whether an inline definition (6.7.4p7) is emitted as a local copy or called externally; whether an unreferenced internal function not declared inline everywhere is emitted",
        "symbol order, local label names, section indices, function sizes and instruction choices are not compared"]
    return ctx.finish(
        rule="case = one translation unit (a judged state of Linkage.tla) compiled by the tree's chibicc in one configuration, symbol table compared with Level A; non-trivial = at least two declaration events; distinct = distinct (mode, configuration, parameters, event sequence)",
        exhaustive=not quick, extra=dict(units=total))


def replay(ctx, path):
    c = json.load(open(os.path.join(path, "case.json")))
    c = c.get("case") or c
    tree = ctx.build()
    if c.get("kind") == "unit":
        replay_units(ctx, tree, [c["case"]], "replay", force_cfg=c["cfg"])
    elif c.get("kind") == "link":
        replay_links(ctx, tree, [c["case"]])
    elif c.get("kind") == "libline":
        replay_liblines(ctx, tree, [c["case"]])
    elif c.get("kind") == "tlc":
        g = gen(ctx, os.path.join(ctx.scratch, "r.ndjson"), Emit=False, **c["consts"])
        if not g.ok:
            ctx.report("tlc:Linkage:replay:%s" % g.violated, "Level I differs from Level A")
    return ctx.finish(rule="replay of one recorded case")
