"""C15 — linkage, storage duration and symbol emission are correct in every configuration.

1. TLC, exhaustive: tla/link/Linkage.tla — chibicc's global_variable / function /
   current_fn booking / mark_live / scan_globals / emit gating (Level I) equals the C11
   linkage + ELF rules (Level A) for every declaration sequence up to the bound on an
   object name, on a function name, and for every reference digraph x root assignment on
   N static inline functions.  Sensitivity control: Level I of the pinned tree
   (Fixed = FALSE) must be rejected in each of the three modes.
2. Generate -> replay: every judged state of those graphs is one translation unit; it is
   rendered as C, compiled by the tree's `chibicc -c` (default / -fno-common / -fPIC) and
   the symbol table (readelf) is compared with Level A: name, binding, type, section
   kind, size, alignment.  gcc -std=c11 is the tie-break.
3. tla/link/Link2.tla composes two units; the predicted link result and program output
   are compared with what the tree's driver links in {default, -fno-common, -fPIC,
   -fPIC -shared + main, -static}.
"""
import json, os, re, shutil
import vt
from vt import Infra

IGNORE = {"_GLOBAL_OFFSET_TABLE_", "__tls_get_addr"}
CTYPE = {"int": ("int", ""), "long": ("long", ""), "char3": ("char", "[3]"), "char20": ("char", "[20]")}
CINIT = {"int": "41", "long": "41", "char3": "{41, 1, 2}", "char20": "{41, 1, 2}"}
SIZE = {"int": 4, "long": 8, "char3": 3, "char20": 20}


# ------------------------------------------------------------------ rendering
def kconst(name):
    return sum(ord(c) * (i + 3) for i, c in enumerate(name)) % 89 + 2


def render_unit(c):
    """C text of one unit (a state of Linkage.tla) + the helper symbols it defines."""
    base, arr = CTYPE[c["ty"]]
    tl = "_Thread_local " if c["tls"] else ""
    out, helpers = [], {}
    for i, e in enumerate(c["es"], 1):
        if e["k"] == "obj":
            ev = e["ev"]
            decl = "%s%s x%s" % (tl, base, arr)
            init = " = " + CINIT[c["ty"]]
            if ev == "T":
                out.append(decl + ";")
            elif ev == "D":
                out.append(decl + init + ";")
            elif ev == "E":
                out.append("extern " + decl + ";")
            elif ev == "ST":
                out.append("static " + decl + ";")
            elif ev == "SD":
                out.append("static " + decl + init + ";")
            elif ev == "BE":
                out.append("void *b%d(void) { extern %s; return &x; }" % (i, decl))
                helpers["b%d" % i] = "fn"
            elif ev in ("BS", "BSD"):
                out.append("void *s%d(void) { static %s%s; return &x; }" % (i, decl, init if ev == "BSD" else ""))
                helpers["s%d" % i] = "fn"
            elif ev == "R":
                out.append("void *r%d(void) { return &x; }" % i)
                helpers["r%d" % i] = "fn"
        elif e["k"] == "fn":
            spec = ("" if e["sc"] == "none" else e["sc"] + " ") + ("inline " if e["inl"] else "")
            head = "%sint %s(int d)" % (spec, e["name"])
            if not e["def"]:
                out.append(head + ";")
            else:
                k = kconst(e["name"])
                terms = ["%d" % k]
                for j, r in enumerate(sorted(e["refs"])):
                    terms.append("%s(d - 1)" % r if j % 2 == 0 else "(*&%s)(d - 1)" % r)   # call / address-taking
                out.append("%s { return d <= 0 ? %d : %s; }" % (head, k, " + ".join(terms)))
        elif e["k"] == "init":
            out.append("int (*p%d)(int) = %s;" % (i, e["name"]))
            helpers["p%d" % i] = "ptr"
    return "\n".join(out) + "\n", helpers


# ------------------------------------------------------------------ readelf
def sect_kind(s):
    if s == "COM":
        return "common"
    if s == "UND":
        return "UND"
    for p, k in ((".text", "text"), (".tdata", "tdata"), (".tbss", "tbss"), (".data", "data"), (".bss", "bss"),
                 (".rodata", "rodata")):
        if s.startswith(p):
            return k
    return s


def parse_readelf(txt):
    """{file: {name: [rows]}} from `readelf -SW -sW f1.o f2.o ...`; row = (bind, type, kind, size, value)."""
    files, cur, secs, syms = {}, None, {}, None
    for l in txt.splitlines():
        m = re.match(r"^File: (.*)$", l)
        if m:
            cur = m.group(1).strip()
            secs, syms = {}, {}
            files[cur] = syms
            continue
        m = re.match(r"^\s*\[\s*(\d+)\]\s+(\S+)\s+(\S+)", l)
        if m and syms is not None:
            secs[m.group(1)] = m.group(2)
            continue
        f = l.split()
        if syms is not None and len(f) >= 8 and f[0].endswith(":") and f[0][:-1].isdigit() and f[3] not in ("SECTION", "FILE"):
            try:
                size = int(f[2], 0)
            except ValueError:
                continue
            syms.setdefault(f[7], []).append((f[4], f[3], sect_kind(secs.get(f[6], f[6])), size, int(f[1], 16)))
    return files


def cflags(cfgname):
    return dict(default=[], nocommon=["-fno-common"], pic=["-fPIC"])[cfgname]


def compile_units(ctx, tree, compiler, units, tag):
    """units: [(id, text, cfgname)].  Returns {id: symtab or ("fail", msg)}."""
    d = ctx.tmp("u-%s-%s" % (tag, compiler))
    groups = {}
    for u in units:
        groups.setdefault(u[2], []).append(u)
    jobs = []
    for cfgname, us in groups.items():
        for k in range(0, len(us), 24):
            jobs.append((cfgname, us[k:k + 24], "%s/%s-%d" % (d, cfgname, k)))

    def cc(cfgname, srcs, cwd):
        if compiler == "gcc":
            fl = ["-fcommon"] if cfgname != "nocommon" else []
            return vt.run_limited(["gcc", "-std=c11", "-O0", "-w", "-c"] + fl + cflags(cfgname) + srcs, timeout=120, cwd=cwd)
        return vt.run_limited([tree + "/chibicc", "-c"] + cflags(cfgname) + srcs, timeout=120, cwd=cwd)

    def one(job):
        cfgname, us, wd = job
        os.makedirs(wd, exist_ok=True)
        for uid, text, _ in us:
            open("%s/u%d.c" % (wd, uid), "w").write(text)
        p = cc(cfgname, ["u%d.c" % uid for uid, _, _ in us], wd)
        res = {}
        missing = [u for u in us if not os.path.exists("%s/u%d.o" % (wd, u[0]))]
        if missing and len(us) > 1:            # the driver stops at the first failing input: redo the rest one by one
            for uid, text, _ in missing:
                p1 = cc(cfgname, ["u%d.c" % uid], wd)
                if not os.path.exists("%s/u%d.o" % (wd, uid)):
                    res[uid] = ("fail", "rc=%s %s" % (p1.returncode, (p1.stderr or "")[-400:]))
        elif missing:
            res[missing[0][0]] = ("fail", "rc=%s %s" % (p.returncode, (p.stderr or "")[-400:]))
        objs = ["u%d.o" % uid for uid, _, _ in us if uid not in res]
        if objs:
            r = vt.run_limited(["readelf", "-SW", "-sW"] + objs, timeout=120, cwd=wd)
            if r.returncode != 0:
                raise Infra("readelf failed: " + r.stderr[-500:])
            tabs = parse_readelf(("File: %s\n" % objs[0] if len(objs) == 1 else "") + r.stdout)
            for o in objs:
                if o not in tabs:
                    raise Infra("readelf gave no table for " + o)
                res[int(o[1:-2])] = tabs[o]
        shutil.rmtree(wd, ignore_errors=True)
        return res

    out = {}
    for r in vt.pmap(one, jobs, workers=8):
        out.update(r)
    return out


# ------------------------------------------------------------------ comparison
def is_anon(name):
    return name.startswith(".L") or re.fullmatch(r"x\.\d+", name) is not None


def check_row(name, exp, rows):
    """exp: Level A row; rows: readelf rows of that name.  Returns None or (class, text)."""
    st = exp["st"]
    defs = [r for r in rows if r[2] != "UND"]
    if len(rows) > 1:
        return "dup", "symbol listed %d times" % len(rows)
    r = rows[0] if rows else None
    if st == "none":
        return None if r is None else ("unexpected-" + ("def" if defs else "und"), "expected no symbol, found %s" % (r,))
    if st == "und":
        if r is None or defs or r[0] != "GLOBAL":
            return ("missing-und" if r is None else "und-is-defined"), "expected an undefined GLOBAL reference, found %s" % (r,)
        return None
    if st in ("nonglobal", "optlocal"):
        if r is None or (not defs and st == "nonglobal") or (defs and r[0] == "LOCAL" and r[2] == "text"):
            return None
        return "inline-definition-global" if st == "nonglobal" else "optlocal", "expected no GLOBAL definition, found %s" % (r,)
    # st == def
    if r is None or not defs:
        return "not-emitted", "expected a %s definition in %s, found %s" % (exp["bind"], exp["sect"], r)
    if r[0] != exp["bind"]:
        return "binding", "expected %s, found %s" % (exp["bind"], r)
    if r[2] != exp["sect"]:
        return "section:%s-for-%s" % (r[2], exp["sect"]), "expected section kind %s, found %s" % (exp["sect"], r)
    if r[1] != exp["type"]:
        return "type:%s-for-%s-in-%s" % (r[1], exp["type"], exp["sect"]), "expected type %s, found %s" % (exp["type"], r)
    if exp["type"] != "FUNC":
        if r[3] != exp["size"]:
            return "size-in-%s" % exp["sect"], "expected size %d, found %s" % (exp["size"], r)
        if (exp["sect"] == "common" and r[4] != exp["align"]) or (exp["sect"] != "common" and r[4] % exp["align"]):
            return "alignment", "expected alignment %d, found %s" % (exp["align"], r)
    return None


def judge_unit(c, helpers, tab, cfgname):
    """All discrepancies between a symbol table and Level A: [(class, text)]."""
    bad = []
    if isinstance(tab, tuple):
        return [("rejected", tab[1])]
    exp = {}
    if c["mode"] == "obj":
        exp["x"] = c["objrow"]
    known = set()
    for fr in c["fnrows"]:
        exp[fr["name"]] = fr["row"]
        if fr["known"]:
            known.add(fr["name"])
    for h, kind in helpers.items():
        if h not in exp:
            exp[h] = dict(st="def", bind="GLOBAL", type="FUNC", sect="text", size=0, align=1) if kind == "fn" else \
                dict(st="def", bind="GLOBAL", type="OBJECT", sect="data", size=8, align=8)
    for name, e in exp.items():
        rows = tab.get(name, [])
        b = check_row(name, e, rows)
        if b:
            kind = "object" if name == "x" else "helper" if name in helpers else "function"
            if name in known:       # D33: Linkage.tla KnownInlineExt
                kind = "function:inline-definition-made-external-by-another-declaration"
            bad.append(("%s:%s" % (kind, b[0]), "%s: %s" % (name, b[1])))
    anon = []
    for name, rows in tab.items():
        if name in exp or name in IGNORE:
            continue
        if is_anon(name):
            anon += [r for r in rows if r[2] != "UND"]
            continue
        for r in rows:
            if r[2] == "UND":
                bad.append(("extra:undefined-reference", "%s: unexpected undefined symbol %s" % (name, r)))
            else:
                bad.append(("extra:%s-definition" % r[0].lower(), "%s: unexpected symbol %s" % (name, r)))
    for r in anon:
        if r[0] != "LOCAL":
            bad.append(("anon:binding", "anonymous object is not LOCAL: %s" % (r,)))
    if cfgname == "pic" and c["mode"] == "obj":
        # under -fPIC the anonymous objects of static locals are addressed through the GOT and so
        # stay in the symbol table: their section kinds and sizes are observable
        got = sorted((r[2], r[3]) for r in anon if r[2] in ("data", "bss", "tdata", "tbss") and r[1] in ("OBJECT", "TLS", "NOTYPE"))
        want = sorted((a["sect"], a["size"]) for a in c["anon"])
        gotk = sorted(k for k, _ in got)
        if gotk != sorted(k for k, _ in want):
            bad.append(("anon:section", "static locals: expected %s, found %s" % (want, got)))
        elif got != want:
            bad.append(("anon:size", "static locals: expected %s, found %s" % (want, got)))
    return bad


def unit_key(c):
    return json.dumps([c["mode"], c["fcommon"], c["ty"], c["tls"], c["es"]], sort_keys=True)


def replay_units(ctx, tree, cases, tag, pic_every=3, force_cfg=None):
    """Compile every case with the tree's chibicc and compare with Level A; gcc is the tie-break."""
    units = []
    for i, c in enumerate(cases):
        text, helpers = render_unit(c)
        c["_text"], c["_helpers"] = text, helpers
        if force_cfg:
            cfgs = [force_cfg]
        elif c["mode"] == "obj":
            cfgs = ["default" if c["fcommon"] else "nocommon"]
            if c["fcommon"] and i % pic_every == 0:
                cfgs.append("pic")
        else:
            cfgs = ["default", "pic"] if pic_every == 1 else [("default", "pic")[i % 2]]
        for cf in cfgs:
            units.append((len(units), text, cf, i))
    tabs = compile_units(ctx, tree, "chibicc", [(u[0], u[1], u[2]) for u in units], tag)
    bad = []
    for uid, text, cf, i in units:
        c = cases[i]
        nontriv = len(c["es"]) >= 2
        ctx.note_case("%s:%s:%s" % (tag, cf, unit_key(c)), nontrivial=nontriv)
        b = judge_unit(c, c["_helpers"], tabs.get(uid, ("fail", "no result")), cf)
        if b:
            bad.append((uid, text, cf, i, b))
    ctx.cov["traces_validated_against_impl"] += len(units)
    if bad:
        gt = compile_units(ctx, tree, "gcc", [(u[0], u[1], u[2]) for u in bad], tag + "-tb")
        for uid, text, cf, i, b in bad:
            c = cases[i]
            gb = judge_unit(c, c["_helpers"], gt.get(uid, ("fail", "no result")), cf)
            gcls = set(x[0] for x in gb)
            for cls, msg in b:
                if cls in gcls or any(x[0] == "rejected" for x in gb):
                    ctx.oracle_disagreements += 1       # the reference compiler disagrees with the spec too
                    continue
                ctx.report("unit:%s" % cls,
                           "%s [%s] %s | unit: %s" % (msg, cf, "tls " if c["tls"] else "", text.replace("\n", " ")[:300]),
                           case=dict(kind="unit", case={k: v for k, v in c.items() if not k.startswith("_")}, cfg=cf,
                                     source=text, discrepancies=b))
    return len(units)


def validate_oracle(ctx, tree, cases, tag):
    """Development aid (VERIF_C15_ORACLE=1): Level A against gcc over the whole generated domain."""
    units, n = [], 0
    for i, c in enumerate(cases):
        text, helpers = render_unit(c)
        c["_helpers"] = helpers
        for cf in (["default", "pic"] if c["fcommon"] else ["nocommon"]):
            units.append((len(units), text, cf, i))
    tabs = compile_units(ctx, tree, "gcc", [(u[0], u[1], u[2]) for u in units], tag + "-oracle")
    for uid, text, cf, i in units:
        b = judge_unit(cases[i], cases[i]["_helpers"], tabs.get(uid, ("fail", "no result")), cf)
        if b:
            n += 1
            if n <= 15:
                print("ORACLE-DISAGREEMENT [%s %s] %s :: %s" % (tag, cf, text.replace("\n", " "), b))
    print("oracle validation %s: %d units, %d disagreements" % (tag, len(units), n))


def gen(ctx, out, workers=4, timeout=900, **consts):
    cfg = ctx.cfg("link", "Linkage_mc.cfg", **consts)
    if os.path.exists(out):
        os.unlink(out)
    return ctx.tlc("link", "Linkage", cfg, env=dict(OUT=out), workers=workers, timeout=timeout, heap="6g")


def q(s):
    return '"%s"' % s


def run(ctx):
    quick = ctx.quick
    tree = ctx.build()
    ctx.phase("build")
    allcases = []
    plan = [("obj", dict(Mode=q("obj"), MaxLen=3 if quick else 4, N=0)),
            ("fn", dict(Mode=q("fn"), MaxLen=3 if quick else 4, N=0)),
            ("graph", dict(Mode=q("graph"), N=2, SelfLoops=True)),
            ("graph3", dict(Mode=q("graph"), N=3, SelfLoops=not quick))]
    for tag, consts in plan:
        out = os.path.join(ctx.scratch, "units-%s.ndjson" % tag)
        g = gen(ctx, out, Emit=True, **consts)
        if not g.ok:
            p = ctx.replay_dir("tlc-Linkage-" + tag)
            open(p + "/counterexample.txt", "w").write(g.trace_text())
            json.dump(dict(kind="tlc", consts=consts), open(p + "/case.json", "w"))
            ctx.report("tlc:Linkage:%s:%s" % (tag, g.violated), "chibicc's linkage algorithm (Level I) differs from C11/ELF rules (Level A)", p)
        cases = vt.read_ndjson(out)
        if len(cases) < 100:
            raise Infra("Linkage generator (%s) wrote only %d units" % (tag, len(cases)))
        allcases.append((tag, cases))
        ctx.phase("tlc " + tag)
    # sensitivity controls: the pinned algorithm must be rejected in every mode
    for tag, consts in (("obj", dict(Mode=q("obj"), N=0)), ("fn", dict(Mode=q("fn"), N=0)),
                        ("graph", dict(Mode=q("graph"), N=2))):
        ctl = ctx.tlc("link", "Linkage", ctx.cfg("link", "Linkage_mc.cfg", Fixed=False, **consts), workers=2, count=False)
        if ctl.ok:
            raise Infra("sensitivity control failed: TLC accepts the pinned linkage algorithm in mode " + tag)
    ctx.phase("controls")
    total = {}
    for tag, cases in allcases:
        stride = 1
        if quick:
            stride = dict(obj=3, fn=1, graph=1, graph3=8).get(tag, 1)
        if os.environ.get("VERIF_C15_ORACLE"):
            validate_oracle(ctx, tree, cases, tag)
        sel = vt.subsample(cases, ctx.seed, stride)
        total[tag] = (len(cases), len(sel))
        mid = sel[len(sel) // 2]
        ctx.sample(dict(kind="unit", mode=mid["mode"], events=mid["es"], c_source=render_unit(mid)[0],
                        expected_rows=dict(x=mid["objrow"], fns=mid["fnrows"])))
        replay_units(ctx, tree, sel, tag, pic_every=3 if quick else 1)
        ctx.phase("replay " + tag)
    ctx.assumptions += [
        "Level A was validated against gcc 12 -std=c11 -O0 over the whole generated domain at development time; at check time gcc only discards vectors on which it disagrees with the spec",
        "not judged (both allowed): whether an inline definition (6.7.4p7) is emitted as a local copy or called externally; whether an unreferenced internal function not declared inline everywhere is emitted",
        "symbol order, local label names, section indices, function sizes and instruction choices are not compared"]
    return ctx.finish(
        rule="case = one translation unit (a judged state of Linkage.tla) compiled by the tree's chibicc in one configuration, symbol table compared with Level A; non-trivial = at least two declaration events; distinct = distinct (mode, configuration, parameters, event sequence)",
        exhaustive=not quick, extra=dict(units=total))


def replay(ctx, path):
    c = json.load(open(os.path.join(path, "case.json")))
    c = c.get("case") or c
    tree = ctx.build()
    if c.get("kind") == "unit":
        replay_units(ctx, tree, [c["case"]], "replay", force_cfg=c["cfg"])
    elif c.get("kind") == "tlc":
        g = gen(ctx, os.path.join(ctx.scratch, "r.ndjson"), Emit=False, **c["consts"])
        if not g.ok:
            ctx.report("tlc:Linkage:replay:%s" % g.violated, "Level I differs from Level A")
    return ctx.finish(rule="replay of one recorded case")
