"""C11, second half: code points (table written by LitUtf.tla -> unicode.c linked, literals of every
prefix, identifiers) and translation phases 1-2 (re-encodings of the generated programs)."""
import json, os
import vt
from vt import Infra
import c11

AREA = "lex"


# ------------------------------------------------------------------ TLC
def tlc_jobs(ctx, out):
    """LitUtf (table generation) and LitPhase model checks + their sensitivity controls, as independent jobs"""
    q = ctx.quick
    return [
        lambda: c11.tlc_gen(ctx, "LitUtf", "LitUtf.cfg", out, "UTF-8/UTF-16 codec or Annex D tables: Level I (unicode.c) differs from Level A",
                            workers=2 if q else 4, Mode='"edges"' if q else '"all"', Seed=ctx.seed % 100003, NSample=400, Emit=True),
        lambda: c11.control(ctx, "LitUtf", "LitUtf.cfg", "enc-7ff", NSample=1),
        lambda: c11.control(ctx, "LitUtf", "LitUtf.cfg", "ident-hole", NSample=1),
        lambda: ctx.tlc_expect_ok(AREA, "LitPhase", ctx.cfg(AREA, "LitPhase.cfg", MaxLen=5 if q else 7),
                                  "phases 1-2: tokenize_file's passes (Level I) differ from 5.1.1.2 (Level A)", workers=2, heap="2g"),
        lambda: c11.control(ctx, "LitPhase", "LitPhase.cfg", "crlf-double", MaxLen=4),
        lambda: c11.control(ctx, "LitPhase", "LitPhase.cfg", "no-bom", MaxLen=2),
        lambda: c11.control(ctx, "LitPhase", "LitPhase.cfg", "chunk3", MaxLen=4),
    ]


# ------------------------------------------------------------------ table
def read_table(path):
    rows, ill, seen = [], [], set()
    if not os.path.exists(path):
        raise Infra("LitUtf wrote no table")
    for l in open(path):
        f = l.split()
        if not f:
            continue
        if f[0] == "X":
            n = int(f[1])
            ill.append([int(x) for x in f[2:2 + n]])
            continue
        v = [int(x) for x in f]
        if len(v) != 11 or v[0] in seen:
            continue
        seen.add(v[0])
        rows.append(dict(c=v[0], u8=v[2:2 + v[1]], u16=v[7:7 + v[6]], ids=v[9], idc=v[10]))
    rows.sort(key=lambda r: r["c"])
    return rows, ill


def ill_class(b):
    if b[0] >= 0xF8:
        return "lead-f8"
    if b[0] in (0xC0, 0xC1) or (b[0] == 0xE0 and len(b) > 1 and b[1] < 0xA0) or (b[0] == 0xF0 and len(b) > 1 and b[1] < 0x90):
        return "overlong"
    if b[0] == 0xED and len(b) > 1 and b[1] >= 0xA0:
        return "surrogate"
    if b[0] >= 0xF4:
        return "beyond-10ffff"
    if 0x80 <= b[0] < 0xC0:
        return "stray-continuation"
    return "truncated"


def cp_class(c):
    return "utf8len%d" % (1 if c < 0x80 else 2 if c < 0x800 else 3 if c < 0x10000 else 4)


def build_uc(ctx, tree):
    exe = os.path.join(ctx.scratch, "uc_harness")
    r = vt.sh(["cc", "-O1", "-w", "-I", tree, "-o", exe, os.path.join(vt.VERIF, "harness/c/uc_harness.c"), tree + "/unicode.c"])
    if r.returncode:
        raise Infra("uc_harness build failed: " + r.stderr[-2000:])
    return exe


def run_uc(ctx, tree, table_text, nrows):
    """unicode.c of the tree against the table: every row is one case"""
    exe = build_uc(ctx, tree)
    p = vt.run_limited([exe], timeout=600, mem_gb=2, input=table_text, errors="replace")
    done = [l for l in p.stdout.splitlines() if l.startswith("DONE ")]
    if p.returncode != 0 or not done:
        ctx.report("uc:harness-aborted", "unicode.c harness rc=%s: %s" % (p.returncode, (p.stdout[-300:] + p.stderr[-300:])),
                   case=dict(kind="uc", table=table_text[:2000]))
        return
    if int(done[0].split()[1]) != nrows:
        raise Infra("uc_harness consumed %s of %d rows" % (done[0].split()[1], nrows))
    for l in p.stdout.splitlines():
        f = l.split()
        if not f or f[0] != "M":
            continue
        if f[1] == "ill":
            b = [int(x) for x in f[3:3 + int(f[2])]]
            ctx.report("uc:decode:ill-formed-accepted:" + ill_class(b),
                       "decode_utf8 accepts the ill-formed sequence %s as U+%04X (%s bytes)" % (bytes(b).hex(), int(f[-2]), f[-1]),
                       case=dict(kind="ucbad", row="X %d %s" % (len(b), " ".join(str(x) for x in b + [-1] * (5 - len(b))))))
        else:
            c = int(f[2])
            what = dict(enc="encode_utf8", dec="decode_utf8", id1="is_ident1", id2="is_ident2")[f[1]]
            ctx.report("uc:%s:%s" % (what, cp_class(c)), "%s(U+%04X): unicode.c gives %s, the table row is in case.json" % (what, c, " ".join(f[4:])),
                       case=dict(kind="uc", c=c, got=l, row=next((r for r in table_text.splitlines() if r.split()[:1] == [str(c)]), None)))
    ctx.cov["traces_validated_against_impl"] += nrows


def replay_uc(ctx, tree, c):
    run_uc(ctx, tree, c["row"] + "\n", 1)


# ------------------------------------------------------------------ literals and identifiers per code point
def ucn(c, long_form=False):
    return (b"\\U%08X" % c) if (c > 0xFFFF or long_form) else (b"\\u%04x" % c)


def raw_ok(c, quote):
    return c >= 32 and c != 127 and c not in (92, quote, 63)


def ucn_ok(c):
    return c >= 160 or c in (36, 64, 96)


def le(v, n):
    return list(int(v).to_bytes(n, "little"))


def elem_bytes(r, pfx):
    if pfx in ("", "u8"):
        return list(r["u8"])
    if pfx == "u":
        return [b for u in r["u16"] for b in le(u, 2)]
    return le(r["c"], 4)


def cp_cases(rows, run):
    """string literals of `run` consecutive table rows (same UTF-8 length) per prefix and spelling,
    character constants as array initializers, identifiers"""
    cases = []
    groups = {}
    for r in rows:
        groups.setdefault(cp_class(r["c"]), []).append(r)
    for cls, rs in sorted(groups.items()):
        for k in range(0, len(rs), run):
            chunk = rs[k:k + run]
            for pfx in ("", "u8", "u", "U", "L"):
                w = {"": 1, "u8": 1, "u": 2}.get(pfx, 4)
                for spell in ("raw", "ucn"):
                    sel = [r for r in chunk if (raw_ok(r["c"], 34) if spell == "raw" else ucn_ok(r["c"]))]
                    if not sel:
                        continue
                    body = b"".join(bytes(r["u8"]) if spell == "raw" else ucn(r["c"], j % 2 == 1) for j, r in enumerate(sel))
                    cases.append(dict(kind="cpstr", pfx=pfx, spell=spell, cls=cls, first=sel[0]["c"], last=sel[-1]["c"],
                                      src=pfx.encode() + b'"' + body + b'"',
                                      bytes=bytes([b for r in sel for b in elem_bytes(r, pfx)] + [0] * w)))
                if pfx == "u8":
                    continue
                for spell in ("raw", "ucn"):
                    sel = [r for r in chunk if (raw_ok(r["c"], 39) if spell == "raw" else ucn_ok(r["c"]))
                           and len(elem_bytes(r, pfx)) == w]          # one element only (no multi-unit constants)
                    if not sel:
                        continue
                    body = b",".join(pfx.encode() + b"'" + (bytes(r["u8"]) if spell == "raw" else ucn(r["c"], j % 2 == 0)) + b"'"
                                     for j, r in enumerate(sel))
                    cases.append(dict(kind="cpchr", pfx=pfx, spell=spell, cls=cls, first=sel[0]["c"], last=sel[-1]["c"],
                                      src=body, bytes=bytes([b for r in sel for b in elem_bytes(r, pfx)])))
            # identifiers: declared with the character itself, used through its UCN (same identifier, 6.4.2.1p3)
            ids = [r for r in chunk if r["idc"] and r["c"] >= 160]
            for k2 in range(0, len(ids), 64):
                part = ids[k2:k2 + 64]
                decl, use, total = [], [], 0
                for j, r in enumerate(part):
                    w8 = bytes(r["u8"])
                    decl.append(b"a" + w8 + b" = %d" % (j + 1))
                    use.append(b"a" + ucn(r["c"], j % 2 == 1) + b" * %d" % (j + 1))
                    total += (j + 1) ** 2
                    if r["ids"]:
                        decl.append(ucn(r["c"]) + b"z = %d" % (j + 3))
                        use.append(w8 + b"z * %d" % (j + 2))
                        total += (j + 3) * (j + 2)
                if decl:
                    cases.append(dict(kind="ident", spell="raw+ucn", cls=cls, first=part[0]["c"], last=part[-1]["c"], sum=total,
                                      src=b"long s = 0; int " + b", ".join(decl) + b"; s = " + b" + ".join(use) + b";"))
    return cases


def neg_ident_cases(rows):
    """characters that cannot be (the first character of) an identifier: the declaration must be rejected"""
    byc = {r["c"]: r for r in rows}
    out = []
    for r in rows:
        c = r["c"]
        if c < 160:
            continue
        near = any((byc.get(c + d) or r)["idc"] != r["idc"] or (byc.get(c + d) or r)["ids"] != r["ids"] for d in (-2, -1, 1, 2))
        if not near:
            continue
        if not r["idc"]:
            out.append(dict(kind="neg-ident", c=c, pos="cont", spell="raw", src=list(b"int a" + bytes(r["u8"]) + b" = 1;\n")))
            out.append(dict(kind="neg-ident", c=c, pos="cont", spell="ucn", src=list(b"int a" + ucn(c) + b" = 1;\n")))
        elif not r["ids"]:
            out.append(dict(kind="neg-ident", c=c, pos="start", spell="raw", src=list(b"int " + bytes(r["u8"]) + b"a = 1;\n")))
            out.append(dict(kind="neg-ident", c=c, pos="start", spell="ucn", src=list(b"int " + ucn(c) + b"a = 1;\n")))
    return out


def run_neg(ctx, tree, cases):
    d = ctx.tmp("neg")

    def one(t):
        i, c = t
        f = "%s/n%d.c" % (d, i)
        open(f, "wb").write(bytes(c["src"]))
        p = vt.run_limited([tree + "/chibicc", "-S", "-o", "/dev/null", f], timeout=30, mem_gb=2, errors="replace")
        g = None
        if p.returncode == 0:
            g = vt.sh(["gcc", "-std=gnu11", "-finput-charset=UTF-8", "-S", "-o", "/dev/null", f], timeout=30, errors="replace").returncode
        return c, p.returncode, g
    for c, rc, g in vt.pmap(one, list(enumerate(cases)), workers=8):
        ctx.note_case("neg-ident:%s:%s:%d" % (c["pos"], c["spell"], c["c"]))
        if rc == 0:
            if g == 0:
                ctx.oracle_disagreements += 1
                continue
            ctx.report("ident:not-rejected:%s:%s" % (c["pos"], c["spell"]),
                       "U+%04X is not allowed %s an identifier (Annex D) but `%s` is accepted" % (c["c"], "in" if c["pos"] == "cont" else "at the start of", bytes(c["src"]).decode("utf-8", "replace").strip()),
                       case=c)
        elif rc == -999 or rc < 0:
            ctx.report("ident:crash:%s" % c["spell"], "chibicc died (%s) on `%s`" % (rc, bytes(c["src"]).decode("utf-8", "replace").strip()), case=c)
    ctx.cov["traces_validated_against_impl"] += len(cases)


def replay_neg(ctx, tree, c):
    run_neg(ctx, tree, [c])


def run_cp(ctx, tree, out):
    q = ctx.quick
    rows, ill = read_table(out)
    if len(rows) < (500 if q else 1112064) or not ill:
        raise Infra("LitUtf table has only %d rows" % len(rows))
    text = open(out).read()
    run_uc(ctx, tree, text, len([l for l in text.splitlines() if l.strip()]))
    for r in rows:
        ctx.note_case("uc:%d" % r["c"], nontrivial=r["c"] >= 128)
    ctx.phase("unicode.c done")
    cases = cp_cases(rows, 16 if q else 256)
    ctx.sample(dict(kind="code points", first="U+%04X" % cases[len(cases) // 2]["first"], literal=bytes(cases[len(cases) // 2]["src"]).decode("utf-8", "replace")[:120],
                    expected=c11.expect(0, cases[len(cases) // 2])[:160]))
    c11.compare(ctx, tree, cases, "cp", first=200000, per=60 if q else 120)
    neg = neg_ident_cases(rows)
    if not q:
        neg = vt.subsample(neg, ctx.seed, 4)
    run_neg(ctx, tree, neg)
    ctx.cov["code_points"] = len(rows)
    ctx.cov["code_point_literals"] = len(cases)
    ctx.cov["identifier_rejections"] = len(neg)


# ------------------------------------------------------------------ phases 1-2
def to_crlf(t):
    return t.replace(b"\n", b"\r\n")


def to_cr(t):
    return t.replace(b"\n", b"\r")


BOM = b"\xef\xbb\xbf"
SPLICE_PERIOD = 5


def splice_xform(k, period=SPLICE_PERIOD, times=1):
    """backslash-newline (`times` of them in a row) after every character whose index is k mod period (never
    inside a UTF-8 sequence)"""
    def f(t):
        out, i, n = bytearray(), 0, 0
        L = len(t)
        while i < L:
            j = i + 1
            while j < L and (t[j] & 0xC0) == 0x80:
                j += 1
            out += t[i:j]
            if n % period == k and j < L:
                out += b"\\\n" * times
            n += 1
            i = j
        return bytes(out)
    return f


XFORMS = {"crlf": to_crlf, "cr": to_cr, "bom": lambda t: BOM + t, "bom+crlf": lambda t: BOM + to_crlf(t),
          "splice0+crlf": lambda t: to_crlf(splice_xform(0)(t)), "splice2+cr": lambda t: to_cr(splice_xform(2)(t)),
          "splice3x2": splice_xform(3, times=2), "bom+splice0": lambda t: BOM + splice_xform(0, period=3)(t)}


# ---- long files: every end-of-line indicator in turn across a block edge of the reader (Literals.tla StraddlePads)
EDGES = (4096, 8192)
ENCODE = {"crlf": to_crlf, "cr": to_cr, "lf": lambda t: t}


def eol_offsets(t):
    """0-based offsets of the first byte of every end-of-line indicator (= Literals.tla EolOffsets)"""
    return [i for i in range(len(t)) if t[i] == 13 or (t[i] == 10 and (i == 0 or t[i - 1] != 13))]


def long_file(body, enc, pad):
    """a one-line comment of the given total pad length in front of the body, then the line-end encoding"""
    return ENCODE[enc](b"/* " + b"x" * pad + b" */\n" + body)


def run_long_files(ctx, tree, good):
    """the same small program, LF form, against its CRLF / CR forms padded so that each line end (plain ones and
    the ones of backslash-newline splices inside literals, identifiers and numbers) straddles offset 4096 / 8192;
    the output, including a final __LINE__, must not depend on it"""
    q = ctx.quick
    pick, seen = [], set()
    for c in good:                                   # one short case per kind and prefix
        k = (c["kind"], c.get("pfx"), c.get("base"))
        if k not in seen and len(c["src"]) < 40:
            seen.add(k)
            pick.append(c)
    pick = pick[:9]
    head = c11.PRELUDE + b"".join(c11.render(i, c) for i, c in enumerate(pick)) + b"int main(void) {\n" + \
        b"".join(b" f%d();\n" % i for i in range(len(pick)))
    tail = b" printf(\"L %d\\n\", __LINE__);\n return 0; }\n"
    texts = {"plain": head, "splice": splice_xform(ctx.seed % 7, period=7)(head)}
    if not q:
        for k in (1, 3, 5):                          # three more splice phases (every other line end of each)
            texts["splice+%d" % k] = splice_xform((ctx.seed + k) % 7, period=7)(head)
    work = []
    for tname, h in sorted(texts.items()):
        body = h + tail
        line = 2 + h.count(b"\n")                  # the pad comment is line 1
        exp = "\n".join(c11.expect(i, c) for i, c in enumerate(pick)) + "\nL %d" % line
        for enc in ("crlf", "cr", "lf"):
            pre = len(ENCODE[enc](b"/*  */\n"))
            offs = eol_offsets(ENCODE[enc](body))
            stride = 1 if (tname == "plain" and enc == "crlf") else (6 if enc == "crlf" else 29)
            if not q and enc == "crlf":
                stride = 2 if "+" in tname else 1
            offs = vt.subsample(offs, ctx.seed, stride)
            for edge in EDGES:
                for o in offs:
                    for d in ((0,) if (q or tname != "plain") else (-1, 0, 1)):
                        pad = edge - 1 - o - pre + d
                        if pad >= 0:
                            work.append((tname, enc, edge, pad, body, exp))
    d = ctx.tmp("longfile")

    def one(t):
        j, (tname, enc, edge, pad, body, exp) = t
        f = "%s/l%d.c" % (d, j)
        open(f, "wb").write(long_file(body, enc, pad))
        exe = f[:-2] + ".exe"
        p = vt.run_limited([tree + "/chibicc", "-I" + tree + "/include", "-o", exe, f], timeout=60, mem_gb=2, errors="replace")
        if p.returncode != 0:
            got, err = None, p.stderr[-300:]
        else:
            r = vt.run_limited([exe], timeout=20, mem_gb=1, errors="replace")
            got, err = r.stdout.strip(), "rc=%s" % r.returncode
        if got != exp:                               # tie-break: what does gcc print for this very file?
            g = vt.sh(["gcc", "-w", "-std=gnu11", "-o", exe, f], timeout=60)
            gout = vt.run_limited([exe], timeout=20, mem_gb=1, errors="replace").stdout.strip() if g.returncode == 0 else None
        else:
            gout = exp
        for x in (f, exe):
            try:
                os.unlink(x)
            except OSError:
                pass
        return tname, enc, edge, pad, exp, got, err, gout
    for tname, enc, edge, pad, exp, got, err, gout in vt.pmap(one, list(enumerate(work)), workers=8):
        ctx.note_case("longfile:%s:%s:%d:%d" % (tname, enc, edge, pad))
        if got == exp:
            continue
        if gout != exp:
            ctx.oracle_disagreements += 1
            continue
        what = "rejected" if got is None else "line-number" if got.splitlines()[:-1] == exp.splitlines()[:-1] else "value"
        ctx.report("phase:longfile:%s:%s" % (enc, what),
                   "%s text, %s line ends, pad %d (a line end straddles offset %d): expected %s, got %s %s" % (
                       tname, enc, pad, edge, exp.splitlines()[-1], (got or "").splitlines()[-1:] , err),
                   case=dict(kind="longfile", text=tname, enc=enc, edge=edge, pad=pad, body=list(texts[tname] + tail), expected=exp))
    ctx.cov["traces_validated_against_impl"] += len(work)
    ctx.cov["long_file_variants"] = len(work)


def replay_long(ctx, tree, c):
    d = ctx.tmp("longfile")
    f = d + "/l.c"
    open(f, "wb").write(long_file(bytes(c["body"]), c["enc"], c["pad"]))
    p = vt.run_limited([tree + "/chibicc", "-I" + tree + "/include", "-o", d + "/l.exe", f], timeout=60, mem_gb=2, errors="replace")
    got = vt.run_limited([d + "/l.exe"], timeout=20, errors="replace").stdout.strip() if p.returncode == 0 else None
    ctx.note_case("longfile-replay")
    if got != c["expected"]:
        ctx.report("phase:longfile:%s:%s" % (c["enc"], "rejected" if got is None else "differs"),
                   "expected %s got %s %s" % (c["expected"][-40:], (got or "")[-40:], p.stderr[-200:]), case=c)


def run_phases(ctx, tree, sel_i, sel_s):
    q = ctx.quick
    # a seed-selected set of the literal programs, re-encoded; only programs that the tree gets right in canonical form
    base = vt.subsample(sel_i, ctx.seed + 1, 12 if q else 6) + vt.subsample(sel_s, ctx.seed + 1, 8 if q else 4)
    res = c11.compare(ctx, tree, base, "phase-base", first=300000)
    good = [c for k, c in enumerate(base) if res.get(300000 + k) == c11.expect(300000 + k, c)]
    if len(good) < 100:
        raise Infra("only %d programs available for the phase 1-2 replay" % len(good))
    xf = dict(XFORMS)
    for k in range(SPLICE_PERIOD):
        xf["splice%d" % k] = splice_xform(k)
    ctx.sample(dict(kind="phases 1-2", transformation="splice1", text=splice_xform(1)(c11.render(0, good[0])).decode("utf-8", "replace")[:200]))

    def one(name):
        c11.compare(ctx, tree, good, "phase-" + name, first=300000, xform=xf[name], xname="phase:" + name)
    vt.pmap(one, sorted(xf), workers=4)
    run_long_files(ctx, tree, good)
    ctx.cov["phase_programs"] = len(good)
    ctx.cov["phase_transformations"] = sorted(xf)
