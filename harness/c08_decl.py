"""C08, second half: type specifiers (DeclSpec.tla) and declarators (Declarator.tla)."""
import json, os
import vt
from vt import Infra
import c08

QUALS = ["", "const ", "volatile "]


def render_declspec(i, c):
    kws = list(c["kw"])
    # an ignorable qualifier at a case-dependent position (recognised but ignored by declspec)
    pos = i % (len(kws) + 1)
    q = QUALS[i % 3].strip()
    if q:
        kws.insert(pos, q)
    T = " ".join(kws)
    if c["k"] == "void":
        return ("static void f%d(void) { %s *p; printf(\"C %d %%d\\n\", (int)sizeof(p)); }\n" % (i, T, i))
    return ("static void f%d(void) { %s x; typedef %s T%d; "
            "printf(\"C %d %%d %%d %%d %%d\\n\", (int)sizeof(x), (int)_Alignof(T%d), (T%d)-1 < (T%d)0, (T%d)0.5 != (T%d)0); }\n"
            % (i, T, T, i, i, i, i, i, i, i))


def expect_declspec(i, c):
    if c["k"] == "void":
        return "C %d 8" % i
    frac = 1 if c["k"] in ("float", "bool") else 0
    return "C %d %d %d %d %d" % (i, c["sz"], c["sz"], 1 if c["sg"] else 0, frac)


def render_declarator(i, c):
    named = " ".join(c["named"]).replace("x", "x%d" % i)
    abstract = " ".join(c["abstract"])
    n = len(c["sizes"])
    out = ["extern int %s;" % named if c["d"][0] == "F" else "static int %s;" % named,
           "static void f%d(void) { printf(\"C %d\");" % (i, i)]
    for j in range(n):
        out.append(' printf(" %%d", (int)sizeof(%sx%d));' % ("*" * j, i))
    if n:
        out.append(' printf(" t%%d", (int)sizeof(int %s));' % abstract)
    out.append(' printf("\\n"); }')
    return "\n".join(out) + "\n"


def expect_declarator(i, c):
    s = "C %d" % i + "".join(" %d" % x for x in c["sizes"])
    if c["sizes"]:
        s += " t%d" % c["sizes"][0]
    return s


def render_std(i, c):
    s = c["std"]
    n = s["name"]
    if s["arith"]:
        return ("static void f%d(void) { printf(\"C %d %%d %%d %%d\\n\", (int)sizeof(%s), (int)_Alignof(%s), (%s)-1 < (%s)0); }\n"
                % (i, i, n, n, n, n))
    return ("static void f%d(void) { printf(\"C %d %%d %%d\\n\", (int)sizeof(%s), (int)_Alignof(%s)); }\n" % (i, i, n, n))


def expect_std(i, c):
    s = c["std"]
    if s["arith"]:
        return "C %d %d %d %d" % (i, s["sz"], s["al"], 1 if s["sg"] else 0)
    return "C %d %d %d" % (i, s["sz"], s["al"])


def run_decl(ctx, tree):
    q = ctx.quick
    # ---- specifiers
    out = os.path.join(ctx.scratch, "declspec.ndjson")
    g = c08.gen(ctx, "layout", "DeclSpec", "DeclSpec_mc.cfg", out, MaxLen=4 if q else 5, Emit=True)
    if not g.ok:
        p = ctx.replay_dir("tlc-DeclSpec")
        open(p + "/counterexample.txt", "w").write(g.trace_text())
        ctx.report("tlc:DeclSpec:%s" % g.violated, "declspec()'s counter disagrees with the 6.7.2p2 table", p)
    ctl = ctx.tlc("layout", "DeclSpec", ctx.cfg("layout", "DeclSpec_mc.cfg", Broken=True, MaxLen=4), workers=2, count=False)
    if ctl.ok:
        raise Infra("sensitivity control failed: TLC accepts a wrong declspec switch arm")
    allrows = vt.read_ndjson(out)
    std = [r for r in allrows if "std" in r]
    specs = [r for r in allrows if "std" not in r]
    if len(std) != 4:
        raise Infra("stddef table not emitted")
    c08.compare(ctx, tree, std, render_std, expect_std, "stddef", lambda c_, e, g_: "stddef:%s" % c_["std"]["name"],
                prelude_extra="#include <stddef.h>\n")
    if len(specs) < 50:
        raise Infra("declspec generator wrote only %d cases" % len(specs))
    ctx.sample(dict(kind="declspec", case=specs[len(specs) // 3], c_source=render_declspec(7, specs[len(specs) // 3])))
    c08.compare(ctx, tree, specs, render_declspec, expect_declspec, "declspec",
                lambda c, e, g_: "declspec:%s" % "-".join(sorted(c["kw"])))
    ctx.phase("declspec")
    # ---- declarators
    out = os.path.join(ctx.scratch, "declarator.ndjson")
    g = c08.gen(ctx, "layout", "Declarator", "Declarator_mc.cfg", out, MaxLen=5 if q else 6, Emit=True)
    if not g.ok:
        p = ctx.replay_dir("tlc-Declarator")
        open(p + "/counterexample.txt", "w").write(g.trace_text())
        ctx.report("tlc:Declarator:%s" % g.violated, "declarator() does not parse back the type it was rendered from", p)
    ctl = ctx.tlc("layout", "Declarator", ctx.cfg("layout", "Declarator_mc.cfg", Broken=True, MaxLen=3), workers=2, count=False)
    if ctl.ok:
        raise Infra("sensitivity control failed: TLC accepts a wrong declarator parser")
    decls = vt.read_ndjson(out)
    if len(decls) < 100:
        raise Infra("declarator generator wrote only %d cases" % len(decls))
    ctx.sample(dict(kind="declarator", case=decls[len(decls) // 2], c_source=render_declarator(3, decls[len(decls) // 2])))
    c08.compare(ctx, tree, decls, render_declarator, expect_declarator, "declarator",
                lambda c, e, g_: "declarator:%s" % "".join(c["d"]))
    ctx.phase("declarator")
    ctx.cov["declspec_cases"] = len(specs)
    ctx.cov["declarator_cases"] = len(decls)


def replay_one(ctx, tree, c):
    if c["kind"] == "declspec":
        c08.compare(ctx, tree, [c["case"]], render_declspec, expect_declspec, "declspec",
                    lambda c_, e, g_: "declspec:%s" % "-".join(sorted(c_["kw"])), first=c.get("index", 0))
    else:
        c08.compare(ctx, tree, [c["case"]], render_declarator, expect_declarator, "declarator",
                    lambda c_, e, g_: "declarator:%s" % "".join(c_["d"]), first=c.get("index", 0))
