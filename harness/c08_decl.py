"""C08, second half: type specifiers (DeclSpec.tla) and declarators (Declarator.tla)."""
import json, os
import vt
from vt import Infra
import c08

QUALS = ["", "const ", "volatile "]


def render_declspec(i, c):
    kws = list(c["kw"])
    # an ignorable qualifier at a case-dependent position (recognised but ignored by declspec)
    pos = i % (len(kws) + 1)
    q = QUALS[i % 3].strip()
    if q:
        kws.insert(pos, q)
    T = " ".join(kws)
    if c["k"] == "void":
        return ("static void f%d(void) { %s *p; printf(\"C %d %%d\\n\", (int)sizeof(p)); }\n" % (i, T, i))
    return ("static void f%d(void) { %s x; typedef %s T%d; "
            "printf(\"C %d %%d %%d %%d %%d\\n\", (int)sizeof(x), (int)_Alignof(T%d), (T%d)-1 < (T%d)0, (T%d)0.5 != (T%d)0); }\n"
            % (i, T, T, i, i, i, i, i, i, i))


def expect_declspec(i, c):
    if c["k"] == "void":
        return "C %d 8" % i
    frac = 1 if c["k"] in ("float", "bool") else 0
    return "C %d %d %d %d %d" % (i, c["sz"], c["sz"], 1 if c["sg"] else 0, frac)


PQUAL = ["", " const", " volatile", " const volatile", " restrict", " __restrict", " const __restrict__"]
FPARAM = [("void", ""), ("int", "0"), ("TD0", "0"), ("char *", "0")]


def decorate(i, c, arr0=None):
    """The declarator of case c as C text, rendered from the parse tree c["s"] exactly as Declarator.tla's Render does,
    with two decorations that do not change the type (Level A: identity): the qualifier list of every pointer (restrict
    only where the pointee is an object type) and the parameter list of every function (void / int / a typedef name /
    a pointer).  arr0: what stands between the brackets of the outermost array derivation of a parameter (N = its
    length; 6.7.6.2p1, 6.7.6.3p7: type qualifiers, static, *).  Returns (named % name, abstract or None, call arguments
    and parameter / qualifier texts per derivation)."""
    s, d = c["s"], c["d"]
    acc, plain, k, args, pars = ["\0"], ["x"], 0, [], []
    for o in s:
        if o == "G":
            acc, plain = ["("] + acc + [")"], ["("] + plain + [")"]
            continue
        nxt = d[k + 1] if k + 1 < len(d) else ""
        if o == "P":
            q = PQUAL[(i + 3 * k) % len(PQUAL)]
            if "restrict" in q and nxt == "F":
                q = " const"
            acc, plain = ["*" + q] + acc, ["*"] + plain
            args.append(None)
            pars.append(q)
        elif o == "F":
            par, arg = FPARAM[(i + k) % len(FPARAM)]
            acc, plain = acc + ["(" + par + ")"], plain + ["(", "void", ")"]
            args.append(arg)
            pars.append(par)
        else:
            acc, plain = acc + ["[%s]" % (arr0.replace("N", o[1]) if k == 0 and arr0 else o[1])], plain + ["[%s]" % o[1]]
            args.append(None)
            pars.append(None)
        k += 1
    if plain != c["named"]:
        raise Infra("harness rendering of %s differs from Declarator.tla's: %s / %s" % (s, plain, c["named"]))
    has_abs = c["abstract"] != ["-"]
    if has_abs and [t for t in plain if t != "x"] != c["abstract"]:
        raise Infra("harness rendering of abstract %s differs from Declarator.tla's" % s)
    text = " ".join(acc)
    return text.replace("\0", "%s"), (" ".join(text.replace("\0", "").split()) if has_abs else None), args, pars


def chain(e, d, sizes, args):
    """printf arguments: sizeof of e and of what every derivation leads to (*e / e(args)), where it is an object."""
    out = []
    for j in range(len(d) + 1):
        if sizes[j] != -1:
            out.append("(int)sizeof(%s)" % e)
        if j < len(d):
            e = "%s(%s)" % (e, args[j]) if d[j] == "F" else "(*%s)" % e
    return out


def addr_chain(e, d, sizes, args):
    """printf arguments: sizeof(*&e) for e and every lvalue of object type the derivations lead to (6.5.3.2p3: &e is a
    pointer to the type of e, also when that is an array type), and the distance from &e to &e + 1."""
    out, e0 = [], e
    for j in range(len(d) + 1):
        if sizes[j] != -1 and (j == 0 or d[j - 1] != "F"):
            out.append("(int)sizeof(*&%s)" % e)
        if j < len(d):
            e = "%s(%s)" % (e, args[j]) if d[j] == "F" else "(*%s)" % e
    if sizes[0] != -1:
        out.append("(int)((char *)(&%s + 1) - (char *)&%s)" % (e0, e0))
    return out


def addr_sizes(c):
    d, sz = c["d"], c["sizes"]
    return [sz[j] for j in range(len(d) + 1) if sz[j] != -1 and (j == 0 or d[j - 1] != "F")] + ([sz[0]] if sz[0] != -1 else [])


def pr(tag, exprs):
    return ' printf(" %s%s"%s);' % (tag, " %d" * len(exprs), "".join(", " + x for x in exprs))


def canon(d, pars):
    """C text of the abstract declarator of derivation sequence d with exactly the parentheses precedence requires."""
    acc, need = "", False
    for o, par in zip(d, pars):
        if o == "P":
            acc, need = "*" + (par or "") + " " + acc, True
        else:
            acc = ("(" + acc + ")" if need else acc) + ("(%s)" % par if o == "F" else "[%s]" % o[1])
            need = False
    return acc


def param_sizes(c):
    ps = list(c["sizes"])
    if c["d"] and c["d"][0] in ("A2", "A3", "F"):
        ps[0] = 8                       # 6.7.6.3p7-8: adjusted to a pointer
    return ps


def plf(c):
    """abstract declarator that begins with a parameter list (the innermost production is a function suffix)"""
    return c["abstract"] != ["-"] and bool(c["s"]) and c["s"][0] == "F"


def render_declarator(i, c):
    """Every context a declarator occurs in: file scope, block scope, typedef, member, parameter, type name."""
    named, abstract, args, pars = decorate(i, c)
    d, sz = c["d"], c["sizes"]
    fn = bool(d) and d[0] == "F"
    out = ["%s int %s;" % ("extern" if fn else "static", named % ("x%d" % i)),
           "typedef int %s;" % (named % ("T%d" % i))]
    if not fn:
        out.append("struct M%d { char c; int %s; char e; };" % (i, named % "x"))
    out.append("static void h%d(int %s) {%s }" % (i, named % "x", pr("p", chain("x", d, param_sizes(c), args))))
    body = [pr("g", chain("x%d" % i, d, sz, args)),
            " { int %s;%s }" % (named % ("y%d" % i), pr("l", chain("y%d" % i, d, sz, args))),
            " { T%d *v;%s }" % (i, pr("t", chain("(*v)", d, sz, args)))]
    if not fn:
        body.append(pr("m", chain("(((struct M%d *)0)->x)" % i, d, sz, args)
                       + ["OFF(struct M%d, x)" % i, "OFF(struct M%d, e)" % i, "(int)sizeof(struct M%d)" % i]))
    body.append(" h%d(0);" % i)
    if abstract is not None and not fn:
        body.append(" { typeof(int %s) *q;%s }" % (abstract, pr("a", ["(int)sizeof(int %s)" % abstract]
                                                                 + chain("(*q)", d, sz, args))))
        out.append("static void k%d(int %s);" % (i, abstract))
    out.append("static void f%d(void) { printf(\"C %d\");" % (i, i))
    out += body
    out.append(' printf("\\n"); }')
    return "\n".join(out) + "\n"


def expect_declarator(i, c):
    d, sz = c["d"], [x for x in c["sizes"] if x != -1]
    fn = bool(d) and d[0] == "F"
    f = ["C", str(i), "g"] + sz + ["l"] + sz + ["t"] + sz
    if not fn:
        f += ["m"] + sz + c["member"]
    f += ["p"] + [x for x in param_sizes(c) if x != -1]
    if c["abstract"] != ["-"] and not fn:
        f += ["a", sz[0]] + sz
    return " ".join(str(x) for x in f)


def render_addr(i, c):
    """&e is a pointer to the type of e: sizeof(*&e), &e + 1 for the declared object and what it leads to."""
    named, abstract, args, pars = decorate(i, c)
    d, sz = c["d"], c["sizes"]
    return ("%s int %s;\nstatic void f%d(void) { printf(\"C %d\");%s printf(\"\\n\"); }\n"
            % ("extern" if d and d[0] == "F" else "static", named % ("x%d" % i), i, i,
               pr("r", addr_chain("x%d" % i, d, sz, args))))


def expect_addr(i, c):
    return " ".join(str(x) for x in ["C", i, "r"] + addr_sizes(c))


def addr_sig(c, e, g_):
    return "declarator-addr:%s" % ("array" if any(o in ("A2", "A3") for o in c["d"]) else "".join(c["d"]))


ARRQ = ["const N", "static const N", "volatile restrict static N", "const volatile", "restrict N", "static N", "_Atomic N"]


def render_arrq(i, c):
    """A parameter of array type whose outermost brackets hold type qualifiers / static (definition) or * (prototype)."""
    d = c["d"]
    return ("static void k%d(int %s);\nstatic void h%d(int %s) {%s }\n"
            "static void f%d(void) { printf(\"C %d\"); h%d(0); printf(\"\\n\"); }\n"
            % (i, decorate(i, c, "*")[0] % "x", i, decorate(i, c, ARRQ[i % len(ARRQ)])[0] % "x",
               pr("p", chain("x", d, param_sizes(c), decorate(i, c)[2])), i, i, i))


def expect_arrq(i, c):
    return " ".join(str(x) for x in ["C", i, "p"] + [x for x in param_sizes(c) if x != -1])


def render_plf(i, c):
    """A type name / unnamed parameter that begins with a parameter list: `int (void)`, `int * (void)`, `int ((void))`.
    The type name is observed through typeof; the parameter's type (a pointer to the function type, 6.7.6.3p8) through
    _Generic against the same type spelt with the necessary parentheses only - for array-free types, because
    compatibility of array types is not this property's business."""
    named, abstract, args, pars = decorate(i, c)
    d, sz = c["d"], c["sizes"]
    k = ""
    if not any(o in ("A2", "A3") for o in d):
        k = ' printf(" k %%d", _Generic(&k%d, void (*)(int %s): 1, default: 2));' % (i, canon(["P"] + d, [""] + pars))
    return ("static void k%d(int %s);\n"
            "static void f%d(void) { printf(\"C %d\"); { typeof(int %s) *q;%s }\n"
            "%s printf(\"\\n\"); }\n"
            % (i, abstract, i, i, abstract, pr("a", chain("(*q)", d, sz, args)), k))


def expect_plf(i, c):
    k = [] if any(o in ("A2", "A3") for o in c["d"]) else ["k", 1]
    return " ".join(str(x) for x in ["C", i, "a"] + [x for x in c["sizes"] if x != -1] + k)


DECL_PRELUDE = "typedef int TD0;\n"


def shape(c):
    """the shape of the parse tree: parentheses directly nested / redundant / only where precedence requires / none"""
    s = c["s"]
    if any(s[j] == "G" and s[j + 1] == "G" for j in range(len(s) - 1)):
        return "nested-parens"
    if any(o == "G" and not (j > 0 and s[j - 1] == "P" and j + 1 < len(s) and s[j + 1] in ("A2", "A3", "F"))
           for j, o in enumerate(s)):
        return "redundant-parens"
    return "parens" if "G" in s else "plain"


def decl_rejsig(c):
    return "declarator:%s:rejected-or-crashed" % shape(c)


def decl_sig(c, e, g_):
    """root-cause class: the shape of the parse tree and the contexts whose observation differs"""
    ctxs = {}
    for side, line in (("e", e), ("g", g_)):
        cur = None
        for t in line.split()[2:]:
            if t.isalpha():
                cur = t
                ctxs.setdefault(cur, {}).setdefault(side, [])
            elif cur:
                ctxs[cur][side].append(t)
    bad = [k for k in "gltmpak" if k in ctxs and ctxs[k].get("e") != ctxs[k].get("g")]
    return "declarator:%s:%s:%s" % (shape(c), "".join(bad) or "?", "".join(c["d"]))


def render_std(i, c):
    s = c["std"]
    n = s["name"]
    if s["arith"]:
        return ("static void f%d(void) { printf(\"C %d %%d %%d %%d\\n\", (int)sizeof(%s), (int)_Alignof(%s), (%s)-1 < (%s)0); }\n"
                % (i, i, n, n, n, n))
    return ("static void f%d(void) { printf(\"C %d %%d %%d\\n\", (int)sizeof(%s), (int)_Alignof(%s)); }\n" % (i, i, n, n))


def expect_std(i, c):
    s = c["std"]
    if s["arith"]:
        return "C %d %d %d %d" % (i, s["sz"], s["al"], 1 if s["sg"] else 0)
    return "C %d %d %d" % (i, s["sz"], s["al"])


def run_decl(ctx, tree):
    q = ctx.quick
    # ---- specifiers
    out = os.path.join(ctx.scratch, "declspec.ndjson")
    g = c08.gen(ctx, "layout", "DeclSpec", "DeclSpec_mc.cfg", out, MaxLen=4 if q else 5, Emit=True)
    if not g.ok:
        p = ctx.replay_dir("tlc-DeclSpec")
        open(p + "/counterexample.txt", "w").write(g.trace_text())
        ctx.report("tlc:DeclSpec:%s" % g.violated, "declspec()'s counter disagrees with the 6.7.2p2 table", p)
    ctl = ctx.tlc("layout", "DeclSpec", ctx.cfg("layout", "DeclSpec_mc.cfg", Broken=True, MaxLen=4), workers=2, count=False)
    if ctl.ok:
        raise Infra("sensitivity control failed: TLC accepts a wrong declspec switch arm")
    allrows = vt.read_ndjson(out)
    std = [r for r in allrows if "std" in r]
    specs = [r for r in allrows if "std" not in r]
    if len(std) != 4:
        raise Infra("stddef table not emitted")
    c08.compare(ctx, tree, std, render_std, expect_std, "stddef", lambda c_, e, g_: "stddef:%s" % c_["std"]["name"],
                prelude_extra="#include <stddef.h>\n")
    if len(specs) < 50:
        raise Infra("declspec generator wrote only %d cases" % len(specs))
    ctx.sample(dict(kind="declspec", case=specs[len(specs) // 3], c_source=render_declspec(7, specs[len(specs) // 3])))
    c08.compare(ctx, tree, specs, render_declspec, expect_declspec, "declspec",
                lambda c, e, g_: "declspec:%s" % "-".join(sorted(c["kw"])))
    ctx.phase("declspec")
    # ---- declarators
    out = os.path.join(ctx.scratch, "declarator.ndjson")
    # the whole domain (MaxLen derivations, MaxG pairs of parentheses) is model-checked; its part with at most 4
    # derivations and 2 pairs is replayed completely, of the rest a seed-selected part
    g = c08.gen(ctx, "layout", "Declarator", "Declarator_mc.cfg", out, MaxLen=5 if q else 6, MaxG=2 if q else 3, Emit=True)
    if not g.ok:
        p = ctx.replay_dir("tlc-Declarator")
        open(p + "/counterexample.txt", "w").write(g.trace_text())
        ctx.report("tlc:Declarator:%s" % g.violated, "declarator() does not parse back the type it was rendered from", p)
    ctl = ctx.tlc("layout", "Declarator", ctx.cfg("layout", "Declarator_mc.cfg", Broken=True, MaxLen=3, MaxG=1), workers=2, count=False)
    if ctl.ok:
        raise Infra("sensitivity control failed: TLC accepts a wrong declarator parser")
    ctl = ctx.tlc("layout", "Declarator", ctx.cfg("layout", "Declarator_mc.cfg", ParamFirst=False, MaxLen=2, MaxG=1), workers=2, count=False)
    if ctl.ok:
        raise Infra("sensitivity control failed: TLC accepts a parser that takes every '(' for a parenthesised declarator")
    key = lambda c: json.dumps(c["s"])
    allc = vt.read_ndjson(out)
    small = sorted((c for c in allc if len(c["d"]) <= 4 and c["g"] <= 2), key=key)
    large = [c for c in allc if not (len(c["d"]) <= 4 and c["g"] <= 2)]
    if len(small) < 1000 or len(large) < 1000:
        raise Infra("declarator generator wrote only %d + %d cases" % (len(small), len(large)))
    large.sort(key=key)
    decls = small + vt.subsample(large, ctx.seed, 6 if q else 12)
    ctx.sample(dict(kind="declarator", case=decls[len(decls) // 2], c_source=render_declarator(3, decls[len(decls) // 2]),
                    expected=expect_declarator(3, decls[len(decls) // 2])))
    c08.compare(ctx, tree, decls, render_declarator, expect_declarator, "declarator", decl_sig, prelude_extra=DECL_PRELUDE,
                rejsig=decl_rejsig)
    # type names and unnamed parameters that begin with a parameter list: one translation unit each
    lead = [c for c in decls if plf(c)]
    lead = vt.subsample(lead, ctx.seed, max(1, len(lead) // (40 if q else 200)))
    c08.compare(ctx, tree, lead, render_plf, expect_plf, "declarator-plf",
                lambda c, e, g_: "declarator-plf:%s" % "".join(c["s"]), prelude_extra=DECL_PRELUDE, per=1)
    # the address of the declared object and of the lvalues it leads to
    addr = [c for c in small if len(c["s"]) <= 3 and addr_sizes(c)]
    c08.compare(ctx, tree, addr, render_addr, expect_addr, "declarator-addr", addr_sig, prelude_extra=DECL_PRELUDE)
    # parameters of array type with qualifiers, static or * between the outermost brackets: one translation unit each
    arrq = [c for c in small if c["d"] and c["d"][0] in ("A2", "A3") and len(c["s"]) <= 3]
    arrq = vt.subsample(arrq, ctx.seed, 2 if q else 1)
    c08.compare(ctx, tree, arrq, render_arrq, expect_arrq, "declarator-arrq",
                lambda c, e, g_: "declarator-arrq:%s" % "".join(c["s"]), prelude_extra=DECL_PRELUDE, per=1)
    ctx.phase("declarator")
    ctx.cov["declarator_array_qualifier_cases"] = len(arrq)
    ctx.cov["declarator_address_cases"] = len(addr)
    ctx.cov["declspec_cases"] = len(specs)
    ctx.cov["declarator_cases"] = len(decls)
    ctx.cov["declarator_states_model_checked"] = len(small) + len(large)
    ctx.cov["declarator_paramlist_first_cases"] = len(lead)


def replay_one(ctx, tree, c):
    if c["kind"] == "declspec":
        c08.compare(ctx, tree, [c["case"]], render_declspec, expect_declspec, "declspec",
                    lambda c_, e, g_: "declspec:%s" % "-".join(sorted(c_["kw"])), first=c.get("index", 0))
    elif c["kind"] == "stddef":
        c08.compare(ctx, tree, [c["case"]], render_std, expect_std, "stddef", lambda c_, e, g_: "stddef:%s" % c_["std"]["name"],
                    first=c.get("index", 0), prelude_extra="#include <stddef.h>\n")
    elif c["kind"] == "declarator-addr":
        c08.compare(ctx, tree, [c["case"]], render_addr, expect_addr, "declarator-addr", addr_sig, first=c.get("index", 0),
                    prelude_extra=DECL_PRELUDE)
    elif c["kind"] == "declarator-arrq":
        c08.compare(ctx, tree, [c["case"]], render_arrq, expect_arrq, "declarator-arrq",
                    lambda c_, e, g_: "declarator-arrq:%s" % "".join(c_["s"]), first=c.get("index", 0),
                    prelude_extra=DECL_PRELUDE, per=1)
    elif c["kind"] == "declarator-plf":
        c08.compare(ctx, tree, [c["case"]], render_plf, expect_plf, "declarator-plf",
                    lambda c_, e, g_: "declarator-plf:%s" % "".join(c_["s"]), first=c.get("index", 0),
                    prelude_extra=DECL_PRELUDE, per=1)
    else:
        c08.compare(ctx, tree, [c["case"]], render_declarator, expect_declarator, "declarator", decl_sig,
                    first=c.get("index", 0), prelude_extra=DECL_PRELUDE, rejsig=decl_rejsig)
