"""C06 — calls obey the System V x86-64 calling convention.

1. TLC, exhaustive: tla/abi/SysV.tla.  Level A = psABI classification/allocator/returns/va_list,
   Level I = chibicc's separate deciders (push_args, pop loop, assign_lvar_offsets, spill loop,
   va_area, stdarg.h walkers, struct returns, the push/pop slot stack).  SysV_graph.cfg explores the
   allocator graph (every reachable (gp, sse, parity, phase) x kind x {fixed, variadic} x
   {register, memory} return), SysV_sigs.cfg every signature of length <= MaxLen over 31 kinds,
   SysV_rets.cfg every return kind.  Disagreement classes that are open findings are waived (the
   set comes from findings' `model_classes`), anything else is a TLC counterexample -> violation.
   After an open-finding transition the side that did not deviate is explored further (cj/ej/fj).
   Sensitivity control: the pinned deciders (SysV_pinned.cfg, FixOffset etc. FALSE) must be rejected.
2. Generate -> replay: every transition TLC writes out is a signature with the psABI location of
   every argument and the classes of disagreement the model predicts.  Each selected signature is
   realised as a caller and a callee in two C files, compiled by chibicc (tree under test) and by
   gcc, and linked in the four combinations.  The callee reports every scalar/field it received
   (gcc side: also frame alignment and an aligned SSE store), the caller reports the returned
   value, an expression value computed around the call (pending pushes, depth 0..3, or the call as
   an argument of another call) and (gcc side) rbx/r12-r15 kept across the call.  Expected output:
   values are transferred intact.  gcc x gcc validates the harness and is the tie-break.  A linking is
   judged only while the model vouches for its chibicc side(s); probe extensions (one more S24 after a
   variadic fetch, one more long and double after a named parameter) and one representative per
   stratum of fetch / exhaustion situations make the state a step leaves behind observable.
"""
import json, os, subprocess
import vt
from vt import Infra

# ------------------------------------------------------------------ types (mirror of SysV.tla KindSeq)
SCALAR_C = dict(int="int", long="long", ptr="void *", float="float", double="double", ldouble="long double",
                char="char", uchar="unsigned char", short="short", ushort="unsigned short", bool="_Bool")
KT = {  # name -> scalar kind | ("struct"|"union", [(scalar kind, array length or 0), ...])
    "i": "int", "l": "long", "p": "ptr", "f": "float", "d": "double", "e": "ldouble",
    "Si": ("struct", [("int", 0)]), "Sc3": ("struct", [("char", 3)]), "Sd": ("struct", [("double", 0)]),
    "Sff": ("struct", [("float", 0), ("float", 0)]), "Sfff": ("struct", [("float", 0)] * 3),
    "Sld": ("struct", [("long", 0), ("double", 0)]), "Sdl": ("struct", [("double", 0), ("long", 0)]),
    "Sdd": ("struct", [("double", 0)] * 2), "Sll": ("struct", [("long", 0)] * 2),
    "Sif": ("struct", [("int", 0), ("float", 0)]), "Udl": ("union", [("double", 2), ("long", 0)]),
    "S24": ("struct", [("long", 0)] * 3), "Se": ("struct", [("ldouble", 0)]), "Sc16": ("struct", [("char", 16)]),
    "Sc1": ("struct", [("char", 0)]), "Sf": ("struct", [("float", 0)]), "Sc5": ("struct", [("char", 5)]),
    "Siii": ("struct", [("int", 0)] * 3), "Sc13": ("struct", [("char", 13)]),
    "Sdf": ("struct", [("double", 0), ("float", 0)]), "Sfic": ("struct", [("float", 0), ("int", 0), ("char", 0)]),
    "Sc17": ("struct", [("char", 17)]), "Sddd": ("struct", [("double", 0)] * 3),
    "See": ("struct", [("ldouble", 0)] * 2), "Sel": ("struct", [("ldouble", 0), ("long", 0)]),
    "v": "void", "b": "bool", "c": "char", "uc": "uchar", "s": "short", "us": "ushort",
}
NARROW = {"b": (8, False), "c": (8, True), "uc": (8, False), "s": (16, True), "us": (16, False)}


def ctype(k):
    t = KT[k]
    return ("void" if t == "void" else SCALAR_C[t]) if isinstance(t, str) else "K_" + k


def typedefs():
    out = []
    for k, t in KT.items():
        if isinstance(t, str):
            continue
        ms = "".join(" %s m%d%s;" % (SCALAR_C[sk], i, "[%d]" % n if n else "") for i, (sk, n) in enumerate(t[1]))
        out.append("typedef %s {%s } K_%s;" % (t[0], ms, k))
    return "\n".join(out) + "\n"


def leaves(k):
    """[(access suffix, scalar kind)] of the fields that are set and reported"""
    t = KT[k]
    if isinstance(t, str):
        return [("", t)]
    if t[0] == "union":                 # Udl: the long overlays m0[0]; m0[1] is the second eightbyte
        return [(".m1", "long"), (".m0[1]", "double")]
    out = []
    for i, (sk, n) in enumerate(t[1]):
        out += [(".m%d[%d]" % (i, j), sk) for j in range(n)] if n else [(".m%d" % i, sk)]
    return out


def lit(sk, v):
    """C literal of leaf value number v (1..120) and the integer the receiver reports for it"""
    if sk in ("char", "uchar"):
        return str(v), v
    if sk in ("short", "ushort"):
        return str(v * 257), v * 257
    if sk == "int":
        return str(v * 0x01010101), v * 0x01010101
    if sk == "long":
        return "%dL" % (v * 0x0101010101010101), v * 0x0101010101010101
    if sk == "ptr":
        return "(void *)%dL" % (v * 0x0101010101010101), v * 0x0101010101010101
    if sk == "float":
        return "%d.5f" % v, 8 * v + 4
    if sk == "double":
        return "%d.25" % v, 8 * v + 2
    if sk == "ldouble":
        return "%d.125L" % v, 8 * v + 1
    if sk == "bool":
        return "1", 1
    raise KeyError(sk)


def report_expr(e, sk):
    return "(long)(%s * 8)" % e if sk in ("float", "double", "ldouble") else "(long)%s" % e


def vnum(ai, li):
    return (7 * ai + li) % 120 + 1


# ------------------------------------------------------------------ one case -> C
CTXS = ["d0", "d1", "d2", "d3", "nest"]
RAXPROBE = [False]     # set by run(): observe rax after a MEMORY-class return (only once C06-ret-rax is not open)
PROBE = "S24"
NPROBE = ["l", "d"]


class Case:
    def __init__(self, n, b, ctx="d0", fwd=False, probe=False):
        self.n, self.b, self.ctx, self.fwd, self.probe = n, b, ctx, fwd, probe
        self.ret, self.args, self.nfix = b["ret"], list(b["args"]), b["nfix"]
        if probe and self.nfix < len(self.args):   # the spec says a further 24-byte struct is passed and fetched without disagreement
            self.args.append(PROBE)
        elif probe:                                # ... a further long and double parameter are placed without disagreement
            self.args += NPROBE
            self.nfix += len(NPROBE)
        self.var = self.nfix < len(self.args)

    def key(self):
        return "%s(%s%s)%s%s" % (self.ret, ",".join(self.args[:self.nfix]), (",...," + ",".join(self.args[self.nfix:])) if self.var else "",
                                 self.ctx, ":fwd" if self.fwd else "") + (":probe" if self.probe else "")

    def proto(self, name, names=False):
        ps = ["%s%s" % (ctype(k), " a%d" % i if names else "") for i, k in enumerate(self.args[:self.nfix])]
        return "%s %s(%s%s)" % (ctype(self.ret), name, ", ".join(ps), ", ..." if self.var else "")

    # --- expected report lines
    def exp_args(self, lo, hi):
        out = []
        for i in range(lo, hi):
            out += [lit(sk, vnum(i, j))[1] for j, (_, sk) in enumerate(leaves(self.args[i]))]
        return out

    def exp_ret(self):
        if self.ret == "v":
            return []
        if self.ret in NARROW:
            w, sg = NARROW[self.ret]
            return [1] if self.ret == "b" else [-vnum(15, 0) if sg else (1 << w) - vnum(15, 0)]
        return [lit(sk, vnum(15, j))[1] for j, (_, sk) in enumerate(leaves(self.ret))]

    def exp_sink(self):
        d = dict(d0=0, d1=1, d2=2, d3=3, nest=0)[self.ctx]
        return 1 + sum(1000 * (i + 1) for i in range(d)) if self.ctx != "nest" else 1000 + 1 + 2000

    def expected(self):
        e = {}
        nrep = self.nfix if self.fwd else len(self.args)
        e["c"] = self.exp_args(0, nrep) + [0]
        if self.fwd:
            e["w"] = self.exp_args(self.nfix, len(self.args))
        e["r"] = [1] + self.exp_ret() + [self.exp_sink()]
        if RAXPROBE[0] and self.b.get("hidden"):
            e["x"] = [1]
        return e

    # --- callee
    def callee_c(self):
        n, L = self.n, []
        if self.fwd:
            L.append("void walk_%d(va_list ap);" % n)
        if self.ret in NARROW:
            w, sg = NARROW[self.ret]
            low = 1 if self.ret == "b" else (1 << w) - vnum(15, 0)
            L.append("static NOINLINE long dirty_%d(void) { return dirtybase + %d; }" % (n, low))
        L.append(self.proto("callee_%d" % n, names=True) + " {")
        if self.var:
            L.append("  va_list ap; va_start(ap, a%d);" % (self.nfix - 1))
            if not self.fwd:
                for i in range(self.nfix, len(self.args)):
                    L.append("  %s a%d; a%d = va_arg(ap, %s);" % (ctype(self.args[i]), i, i, ctype(self.args[i])))
        nrep = self.nfix if self.fwd else len(self.args)
        for i in range(nrep):
            for sfx, sk in leaves(self.args[i]):
                L.append("  rec(%s);" % report_expr("a%d%s" % (i, sfx), sk))
        L.append("  ALIGNPROBE; flush(\"c\", %d);" % n)
        if self.fwd:
            L.append("  walk_%d(ap);" % n)
        if self.var:
            L.append("  va_end(ap);")
        if self.ret == "v":
            pass
        elif self.ret in NARROW:
            L.append("  return dirty_%d();" % n)
        else:
            L.append("  %s r;" % ctype(self.ret))
            for j, (sfx, sk) in enumerate(leaves(self.ret)):
                L.append("  r%s = %s;" % (sfx, lit(sk, vnum(15, j))[0]))
            L.append("  return r;")
        L.append("}")
        return "\n".join(L) + "\n"

    # --- caller
    def caller_c(self):
        n, L = self.n, []
        L.append(self.proto("callee_%d" % n) + ";")
        if self.fwd:
            L.append("void walk_%d(va_list ap) {" % n)
            for i in range(self.nfix, len(self.args)):
                L.append("  %s a%d; a%d = va_arg(ap, %s);" % (ctype(self.args[i]), i, i, ctype(self.args[i])))
                for sfx, sk in leaves(self.args[i]):
                    L.append("  rec(%s);" % report_expr("a%d%s" % (i, sfx), sk))
            L.append("  flush(\"w\", %d);\n}" % n)
        raxp = RAXPROBE[0] and self.b.get("hidden")
        if raxp:     # the same function seen as `long f(void *hidden, args...)`: for a MEMORY-class return that is the same call
            ps = ["void *"] + [ctype(k) for k in self.args[:self.nfix]]
            L.append("#ifdef GCC_SIDE\nextern long raxp_%d(%s%s) __asm__(\"callee_%d\");\n#endif" % (n, ", ".join(ps), ", ..." if self.var else "", n))
        L.append("void caller_%d(void) {" % n)
        for i, k in enumerate(self.args):
            L.append("  %s a%d;" % (ctype(k), i))
            for j, (sfx, sk) in enumerate(leaves(k)):
                L.append("  a%d%s = %s;" % (i, sfx, lit(sk, vnum(i, j))[0]))
        call = "callee_%d(%s)" % (n, ", ".join("a%d" % i for i in range(len(self.args))))
        inner = "(%s, 1L)" % call if self.ret == "v" else "((r = %s), 1L)" % call
        if self.ret != "v":        # a narrow return value is consumed as a long, without a store to a narrow object in between
            L.append("  %s r;" % ("long" if self.ret in NARROW else ctype(self.ret)))
        if raxp:
            L.append("#ifdef GCC_SIDE\n  { %s rb; rec(raxp_%d(%s) == (long)&rb); }\n#else\n  rec(1);\n#endif\n  flush(\"x\", %d);"
                     % (ctype(self.ret), n, ", ".join(["&rb"] + ["a%d" % i for i in range(len(self.args))]), n))
        L.append("  long sink; SAVE_REGS;")
        if self.ctx == "nest":
            L.append("  sink = id3(vv1, %s, vv2);" % inner)
        else:
            e = inner
            for d in range(int(self.ctx[1])):
                e = "(%s + vv%d)" % (e, d + 1)
            L.append("  sink = %s;" % e)
        L.append("  CHECK_REGS;")
        if self.ret != "v":
            for sfx, sk in leaves(self.ret):
                L.append("  rec(%s);" % report_expr("r" + sfx, sk))
        L.append("  rec(sink); flush(\"r\", %d);\n}" % n)
        return "\n".join(L) + "\n"


COMMON = r"""
int printf(const char *, ...);
int fflush(void *);
int atoi(const char *);
#include <stdarg.h>
#ifdef GCC_SIDE
#define NOINLINE __attribute__((noinline))
typedef float v4sf __attribute__((vector_size(16)));
#define ALIGNPROBE { volatile v4sf t_ = {1, 2, 3, 4}; (void)t_; rec((long)__builtin_frame_address(0) & 15); }
#else
#define NOINLINE
#define ALIGNPROBE rec(0)
#endif
static long recbuf[96]; static int nrec;
static void rec(long v) { if (nrec < 96) recbuf[nrec++] = v; }
static void flush(const char *tag, int id) {
  printf("%s %d", tag, id);
  for (int i = 0; i < nrec; i++) printf(" %ld", recbuf[i]);
  printf("\n"); fflush(0); nrec = 0;
}
"""
CALLER_PRE = r"""
#ifdef GCC_SIDE
register long R_rbx asm("rbx"); register long R_r12 asm("r12"); register long R_r13 asm("r13");
register long R_r14 asm("r14"); register long R_r15 asm("r15");
#define SAVE_REGS long o1_ = R_rbx, o2_ = R_r12, o3_ = R_r13, o4_ = R_r14, o5_ = R_r15; \
  R_rbx = 0x1111111111111111; R_r12 = 0x2222222222222222; R_r13 = 0x3333333333333333; \
  R_r14 = 0x4444444444444444; R_r15 = 0x5555555555555555
#define CHECK_REGS rec(R_rbx == 0x1111111111111111 && R_r12 == 0x2222222222222222 && R_r13 == 0x3333333333333333 \
  && R_r14 == 0x4444444444444444 && R_r15 == 0x5555555555555555); \
  R_rbx = o1_; R_r12 = o2_; R_r13 = o3_; R_r14 = o4_; R_r15 = o5_
#else
#define SAVE_REGS
#define CHECK_REGS rec(1)
#endif
volatile long vv1 = 1000, vv2 = 2000, vv3 = 3000;
long id3(long, long, long);
"""
CALLEE_PRE = r"""
volatile long dirtybase = 0x5a5a5a5a5a5a0000;
long id3(long a, long b, long c) { return a + b + c; }
"""


def batch_sources(cases):
    td = typedefs()
    callers = COMMON + td + CALLER_PRE + "".join(c.caller_c() for c in cases)
    callers += "static void (*tab[])(void) = {%s};\n" % ", ".join("caller_%d" % c.n for c in cases)
    callers += "int main(int argc, char **argv) { for (int i = argc > 1 ? atoi(argv[1]) : 0; i < %d; i++) tab[i](); return 0; }\n" % len(cases)
    callees = COMMON + td + CALLEE_PRE + "".join(c.callee_c() for c in cases)
    return callers, callees


LINKINGS = [("cc", "cc"), ("cc", "gcc"), ("gcc", "cc"), ("gcc", "gcc")]


def compile_one(tree, comp, src, obj):
    if comp == "cc":
        cmd = [tree + "/chibicc", "-I" + tree + "/include", "-c", "-o", obj, src]
    else:
        cmd = ["gcc", "-O1", "-w", "-DGCC_SIDE", "-fno-omit-frame-pointer", "-c", "-o", obj, src]
    p = vt.run_limited(cmd, timeout=300, mem_gb=4)      # chibicc, or gcc on generated text
    if p.returncode == -999:
        return "timeout"
    return None if p.returncode == 0 and os.path.exists(obj) else (p.stderr[-400:] or "rc=%d" % p.returncode)


def run_batch(ctx, tree, cases, d):
    """-> {id(case): {linking: ("ok", {tag: [ints]}) | ("compile", side, msg) | ("crash", rc, partial)}}"""
    os.makedirs(d, exist_ok=True)
    for i, c in enumerate(cases):
        c.n = i
    callers, callees = batch_sources(cases)
    open(d + "/callers.c", "w").write(callers)
    open(d + "/callees.c", "w").write(callees)
    err = {}
    for comp in ("cc", "gcc"):
        for f in ("callers", "callees"):
            e = compile_one(tree, comp, "%s/%s.c" % (d, f), "%s/%s.%s.o" % (d, f, comp))
            if e:
                if comp == "gcc":
                    raise Infra("gcc rejects a generated file (%s/%s.c): %s" % (d, f, e))
                err[f] = e
    res = {id(c): {} for c in cases}
    if err and len(cases) > 1:                    # find the case(s) chibicc cannot compile
        h = len(cases) // 2
        res.update(run_batch(ctx, tree, cases[:h], d + "a"))
        res.update(run_batch(ctx, tree, cases[h:], d + "b"))
        return res
    for l in LINKINGS:
        bad = [f for f in err if (f == "callers" and l[0] == "cc") or (f == "callees" and l[1] == "cc")]
        if bad:
            res[id(cases[0])][l] = ("compile", bad[0], err[bad[0]])
            continue
        exe = "%s/t.%s.%s" % (d, l[0], l[1])
        p = vt.sh(["gcc", "-no-pie", "-o", exe, "%s/callers.%s.o" % (d, l[0]), "%s/callees.%s.o" % (d, l[1])], timeout=120)
        if p.returncode:
            raise Infra("link failed: " + p.stderr[-400:])
        start = 0
        while start < len(cases):
            p = vt.run_limited([exe, str(start)], timeout=60, mem_gb=2, errors="replace")
            rc, out = p.returncode, p.stdout or ""
            got = {}
            for line in out.splitlines():
                f = line.split()
                if len(f) >= 2 and f[0] in ("c", "r", "w", "x") and f[1].isdigit():
                    try:
                        got.setdefault(int(f[1]), {})[f[0]] = [int(x) for x in f[2:]]
                    except ValueError:
                        got.setdefault(int(f[1]), {})[f[0]] = ["garbled"]
            last = start - 1
            for n in range(start, len(cases)):
                if n in got and "r" in got[n]:
                    res[id(cases[n])][l] = ("ok", got[n])
                    last = n
                else:
                    break
            if last + 1 >= len(cases):
                break
            res[id(cases[last + 1])][l] = ("crash", rc, got.get(last + 1, {}))      # died (or hung) inside this case
            start = last + 2
    return res


def run_cases(ctx, tree, cases, tag, size=120):
    """compile/run all cases in batches; returns {id(case): {linking: result}}"""
    batches = [cases[i:i + size] for i in range(0, len(cases), size)]
    root = ctx.tmp("b-" + tag)
    allres = {}
    for r in vt.pmap(lambda t: run_batch(ctx, tree, list(t[1]), "%s/%d" % (root, t[0])), list(enumerate(batches)), workers=6):
        allres.update(r)
    return allres


# ------------------------------------------------------------------ judging
def pick_class(classes, linking, prefer):
    order = dict(ccgcc=["caller-vs-psabi", "ret-callee", "vaforward"], gcccc=["callee-vs-psabi", "vaarg", "vastart", "ret-caller", "vaforward"],
                 cccc=["caller-vs-callee", "caller-push", "vaarg", "vastart"])["".join(linking)]
    for pre in prefer + order:
        for c in sorted(classes):
            if c.startswith(pre):
                return c
    return sorted(classes)[0]


def judge(ctx, case, results):
    exp = case.expected()
    b = case.b
    ref = results.get(("gcc", "gcc"))
    ctx.note_case(case.key(), nontrivial=len(case.args) >= 1)

    def diff(r):
        if r[0] != "ok":
            return r[0]
        for tag in ("c", "w", "x", "r"):
            if tag in exp and r[1].get(tag) != exp[tag]:
                return tag
        return None
    if ref is None or diff(ref):
        ctx.oracle_disagreements += 1          # the reference toolchain does not reproduce the spec's expectation
        ctx.cov.setdefault("oracle_examples", [])
        if len(ctx.cov["oracle_examples"]) < 5:
            ctx.cov["oracle_examples"].append(dict(case=case.key(), got=str(ref)[:300], exp=exp))
        return
    # which side of this behaviour the model still vouches for (a side that has deviated is not judged)
    cj, ej, fj = b.get("cj", True), b.get("ej", True), b.get("fj", True)
    side_ok = {("cc", "gcc"): cj, ("gcc", "cc"): ej and (fj or not case.fwd), ("cc", "cc"): cj and ej}
    predicted = set(b.get("adis", b.get("dis", []) + b.get("fdis", [])))
    if not case.fwd:
        predicted = {c for c in predicted if not c.startswith("vaforward")}
    rpred = set(b.get("rdis", []))
    fails = 0
    for l in LINKINGS[:3]:
        if case.fwd and l == ("cc", "gcc"):
            continue        # chibicc's walker on gcc's va_list: not modelled (see NOTES), not judged
        r = results.get(l)
        if r is None:
            raise Infra("no result for %s %s" % (case.key(), l))
        what = diff(r)
        if what is None:
            continue
        fails += 1
        ln = "%s>%s" % l + (":fwd" if case.fwd else "")
        retbad = what == "r" and r[0] == "ok" and r[1].get("r", [])[1:-1] != exp["r"][1:-1]
        if what == "r" and r[0] == "ok" and r[1].get("r", [None])[:1] == [0]:
            cls = "callee-saved-register-clobbered"
        elif what == "x":
            cls = "ret-rax-not-hidden-pointer"
        elif retbad and rpred:
            cls = pick_class(rpred, l, [])
        elif side_ok[l] or not predicted:
            if retbad:
                cls = "unpredicted:return:" + case.ret
            elif what == "r":
                cls = "unpredicted:value-around-call:" + case.ctx
            elif what == "c" and r[0] == "ok" and r[1].get("c", [])[:-1] == exp["c"][:-1]:
                cls = "stack-misaligned-at-call"
            else:
                cls = "unpredicted:%s:%s" % (dict(c="args", w="va_list-forwarded", compile="compile", crash="crash").get(what, what),
                                             case.args[-1] if case.args else "-")
        else:
            pl = predicted if l == ("gcc", "cc") else ({c for c in predicted if not c.startswith("vaforward")} or predicted)
            cls = pick_class(pl, l, ["vaarg", "vastart", "vaforward"] if what == "w" else [])
        ctx.report("replay:%s:%s" % (ln, cls),
                   "%s linked %s: expected %s got %s" % (case.key(), ln, exp, str(r)[:400]),
                   case=dict(kind="sig", beh=b, ctx=case.ctx, fwd=case.fwd, probe=case.probe, linking=ln, expected=exp, got=str(r)[:2000]))
    if (predicted or rpred) and not fails:
        ctx.cov["predicted_but_passing"] = ctx.cov.get("predicted_but_passing", 0) + 1
    ctx.cov["traces_validated_against_impl"] += 3


# ------------------------------------------------------------------ run
# Each open finding stands for one pinned decider in the model: while the finding is open its classes are
# waived and the model transcribes the pinned code (Fix* = FALSE); once it is no longer open (status
# fixed / entry removed) the model transcribes the repaired code and nothing is waived for it.
FIX_FLAG = {"C06-ret-rax": "FixRetRax", "C06-vastart": "FixVaArea", "C06-align16": "FixAlign16",
            "C06-valist-layout": "FixVaStride", "D22": "FixVaArg", "C06-x87agg": "FixX87"}


def open_findings(ctx):
    # VERIF_FINDINGS_IGNORE=id,id is a development aid (try a proposed fix before known_findings.json changes)
    ign = set(x for x in os.environ.get("VERIF_FINDINGS_IGNORE", "").split(",") if x)
    if ign:
        ctx.findings = [f for f in ctx.findings if f["id"] not in ign or f.get("proposed")]   # a proposed replacement entry stays
    return {f["id"] for f in ctx.findings}


def waived_classes(ctx):
    w = set()
    for f in ctx.findings:
        w |= set(f.get("model_classes", []))
    return w


def tlc_run(ctx, cfgname, out=None, workers=4, **over):
    ids = open_findings(ctx)
    w = waived_classes(ctx)
    flags = {flag: fid not in ids for fid, flag in FIX_FLAG.items()}
    flags["FixVaArgLd"] = "vaarg:ldouble" not in w        # D22 has two halves; the long double half can be closed on its own
    flags["FixVaArg"] = not ({"vaarg:agg<=8", "vaarg:agg<=16"} & w)
    flags.update(over)
    cfg = ctx.cfg("abi", cfgname, Waived="{" + ",".join('"%s"' % x for x in sorted(w)) + "}", **flags)
    return ctx.tlc("abi", "SysV", cfg, env=dict(OUT=out or os.devnull), workers=workers, timeout=900, heap="4g")


def check_model(ctx, res, cfgname):
    if not res.ok:
        p = ctx.replay_dir("tlc-SysV-" + cfgname)
        open(p + "/counterexample.txt", "w").write(res.trace_text())
        json.dump(dict(kind="tlc", cfg=cfgname), open(p + "/case.json", "w"))
        ctx.report("tlc:SysV:%s:%s" % (cfgname, res.violated), "chibicc's deciders disagree with the psABI or with each other (TLC counterexample)", p)


def is_dots(b):
    return b["nfix"] < len(b["args"])


def select(ctx, beh, stride, per_class=2):
    """seed-dependent subsample: behaviours with both sides judged, behaviours with one side judged (the
    other has an open finding), and a few examples per predicted class where nothing is judged"""
    both = [b for b in beh if b["cj"] and b["ej"]]
    one = [b for b in beh if b["cj"] != b["ej"]]
    none = [b for b in beh if not b["cj"] and not b["ej"]]
    sel = vt.subsample(both, ctx.seed, stride) + vt.subsample(one, ctx.seed, 2 * stride)
    seen = {}
    for b in vt.subsample(none + one, ctx.seed, max(1, stride // 8)):
        k = tuple(sorted(b["dis"] + b["fdis"]))
        if k and seen.get(k, 0) < per_class:
            seen[k] = seen.get(k, 0) + 1
            sel.append(b)
    return sel


def strata(ctx, beh, per=1):
    """Every kind of variadic fetch that the callee side is still judged on: (kind, register or overflow
    area, parity of the overflow area, gp / sse registers exhausted, first fetch after va_start), `per`
    representatives each chosen by the seed; replayed extended by the probe argument so that the cursor
    the fetch leaves behind is observed."""
    groups = {}
    for b in beh:
        if is_dots(b) and b["ej"]:
            k = (b["args"][-1], b["locs"][-1]["mem"], b["from"]["par"], b["from"]["gp"] >= 6, b["from"]["sse"] >= 8,
                 b["nfix"] == len(b["args"]) - 1, b["hidden"])
            groups.setdefault(k, []).append(b)
    # named parameters: every aggregate or scalar that meets exhausted or nearly exhausted registers
    for b in beh:
        if not is_dots(b) and (b["cj"] or b["ej"]) and b.get("probe"):
            f, k = b["from"], b["args"][-1]
            agg = k[0] in "SU"
            spill = b["locs"][-1]["mem"] and k not in ("S24", "See", "Sel", "Se", "Sc17", "Sddd", "e")   # did not fit: all-or-nothing
            if (agg and (spill or f["gp"] >= 5 or f["sse"] >= 7)) or (not agg and (f["gp"] >= 6 or f["sse"] >= 8)):
                key = ("named", k, b["locs"][-1]["mem"], min(f["gp"], 6), min(f["sse"], 8), b["hidden"], b["var"])
                groups.setdefault(key, []).append(b)
    out = []
    for k in sorted(groups, key=str):
        g = groups[k]
        for j in range(min(per, len(g))):
            out.append(g[(ctx.seed * 7919 + j * 104729) % len(g)])
    return out


def make_cases(beh, seed, probes=()):
    cases = []
    for i, b in enumerate(beh):
        var = is_dots(b)
        fwd = var and bool(b["fdis"] or (i + seed) % 3 == 0)
        cases.append(Case(0, b, CTXS[(i + seed) % len(CTXS)], fwd))
        if fwd and b["dis"]:
            cases.append(Case(0, b, "d0", False))
        if b.get("probe") and (i + seed) % 2 == 0:
            cases.append(Case(0, b, CTXS[(i + seed + 1) % len(CTXS)], False, probe=True))
    for i, b in enumerate(probes):
        cases.append(Case(0, b, CTXS[(i + seed) % len(CTXS)], False, probe=bool(b.get("probe"))))
    return cases


def run(ctx):
    q = ctx.quick
    RAXPROBE[0] = "C06-ret-rax" not in open_findings(ctx)
    tree = ctx.build()
    ctx.phase("build")
    # sensitivity control: the pinned deciders must be rejected
    for flag in (["FixOffset"] if q else ["FixOffset", "FixPhantom", "FixLE"]):
        over = {"FixOffset": True, flag: False}
        ctl = tlc_run(ctx, "SysV_pinned.cfg", **over)
        if ctl.ok:
            raise Infra("sensitivity control failed: TLC accepts the deciders with %s = FALSE" % flag)
    ctx.phase("control")
    # exhaustive checks + generation
    outs = {}
    # quick: the allocator graph over one kind per (class vector, size bucket, alignment); the kinds left out
    # (l p Sc3 Sff Sdd Sif Udl Sc16) are in every signature of length <= 2 below.  thorough: all 22.
    qkinds = '{"i","f","d","e","Si","Sd","Sfff","Sld","Sdl","Sll","S24","Se","See","Sel"}'
    for name, over in (("graph", dict(ParamSel=qkinds) if q else {}), ("sigs", dict(MaxLen=2 if q else 3)), ("rets", {})):
        outs[name] = os.path.join(ctx.scratch, name + ".ndjson")
        res = tlc_run(ctx, "SysV_%s.cfg" % name, outs[name], workers=8, **over)
        check_model(ctx, res, name)
    ctx.phase("tlc")
    if ctx.violations:           # the design itself is refuted; the generated set is incomplete
        return ctx.finish(rule="model check only (a TLC counterexample stopped the run)", exhaustive=False)
    graph, sigs, rets = (vt.read_ndjson(outs[k]) for k in ("graph", "sigs", "rets"))
    if len(graph) < 1000 or len(sigs) < 100 or len(rets) < 50:
        raise Infra("generator wrote too little: %d/%d/%d" % (len(graph), len(sigs), len(rets)))
    for lst in (graph, sigs, rets):
        lst.sort(key=lambda b: json.dumps([b["ret"], b["nfix"], b["args"]]))
    beh = select(ctx, graph, 120 if q else 6) + select(ctx, sigs, 16 if q else 8) + select(ctx, rets, 3 if q else 1)
    probes = strata(ctx, graph, 1 if q else 4) + strata(ctx, sigs, 1 if q else 2)
    cases = make_cases(beh, ctx.seed, probes)
    b0 = beh[len(beh) // 2]
    ctx.sample(dict(kind="allocator-graph transition", signature=Case(0, b0).key(), psabi_locations=b0["locs"], al=b0["al"],
                    return_in=b0["rloc"], predicted_disagreements=b0["dis"]))
    results = run_cases(ctx, tree, cases, "main")
    for c in cases:
        judge(ctx, c, results.get(id(c), {}))
    ctx.phase("replay")
    if ctx.oracle_disagreements > max(3, len(cases) // 50):
        raise Infra("gcc x gcc does not reproduce the expectation on %d of %d cases: the generator is broken (%s)"
                    % (ctx.oracle_disagreements, len(cases), str(ctx.cov.get("oracle_examples", [])[:1])[:600]))
    ctx.assumptions += [
        "Level I (SysV.tla) is a hand transcription of codegen.c / stdarg.h; the four-way linking judges the real code",
        "the C rendering of the kind alphabet (harness/c06.py KT) mirrors SysV.tla KindSeq; gcc x gcc linking validates each generated case",
        "after a transition with an open-finding disagreement only the side that did not deviate is explored and judged further (with gcc on the other side)",
        "%al, the exact register/stack location and `rax = hidden pointer` are checked in the model; replay observes them only through values received"]
    return ctx.finish(
        rule="case = one TLC-emitted signature (allocator-graph transition from the shortest history, every signature of length <= MaxLen, every return kind) x call context (expression depth 0..3 / nested call / forwarded va_list), run in 3 linkings against the gcc x gcc reference; non-trivial = at least one argument; distinct = distinct (signature, context)",
        exhaustive=not q,
        extra=dict(graph_transitions=len(graph), signatures=len(sigs), return_kinds=len(rets), cases_replayed=len(cases), fetch_strata_probed=len(probes)))


def replay(ctx, path):
    c = json.load(open(os.path.join(path, "case.json")))
    c = c.get("case") or c
    if c.get("kind") == "tlc":
        res = tlc_run(ctx, "SysV_%s.cfg" % c["cfg"])
        check_model(ctx, res, c["cfg"])
    else:
        tree = ctx.build()
        RAXPROBE[0] = "C06-ret-rax" not in open_findings(ctx)
        case = Case(0, c["beh"], c.get("ctx", "d0"), c.get("fwd", False), c.get("probe", False))
        results = run_cases(ctx, tree, [case], "replay")
        judge(ctx, case, results.get(id(case), {}))
    return ctx.finish(rule="replay of one recorded case")
