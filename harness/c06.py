"""C06 — calls obey the System V x86-64 calling convention.

1. TLC, exhaustive: tla/abi/SysV.tla.  Level A = psABI classification/allocator/returns/va_list,
   Level I = chibicc's separate deciders (push_args, pop loop, assign_lvar_offsets, spill loop,
   va_area, stdarg.h walkers, struct returns, the push/pop slot stack).  SysV_graph.cfg explores the
   allocator graph (every reachable (gp, sse, parity, phase) x kind x {fixed, variadic} x
   {register, memory} return), SysV_sigs.cfg every signature of length <= MaxLen over 31 kinds,
   SysV_rets.cfg every return kind.  Disagreement classes that are open findings are waived (the
   set comes from findings' `model_classes`), anything else is a TLC counterexample -> violation.
   After an open-finding transition the side that did not deviate is explored further (cj/ej/fj).
   Sensitivity control: the pinned deciders (SysV_pinned.cfg, FixOffset etc. FALSE) must be rejected.
2. Generate -> replay: every transition TLC writes out is a signature with the psABI location of
   every argument and the classes of disagreement the model predicts.  Each selected signature is
   realised as a caller and a callee in two C files, compiled by chibicc (tree under test) and by
   gcc, and linked in the four combinations.  The callee reports every scalar/field it received
   (gcc side: also frame alignment and an aligned SSE store), the caller reports the returned
   value, an expression value computed around the call (pending pushes, depth 0..3, or the call as
   an argument of another call) and (gcc side) rbx/r12-r15 kept across the call.  Expected output:
   values are transferred intact.  gcc x gcc validates the harness and is the tie-break.  A linking is
   judged only while the model vouches for its chibicc side(s); probe extensions (one more S24 after a
   variadic fetch, one more long and double after a named parameter) and one representative per
   stratum of fetch / exhaustion situations make the state a step leaves behind observable.
"""
import json, os, subprocess
import vt
from vt import Infra

# ------------------------------------------------------------------ types (mirror of SysV.tla KindSeq)
SCALAR_C = dict(int="int", long="long", ptr="void *", float="float", double="double", ldouble="long double",
                char="char", uchar="unsigned char", short="short", ushort="unsigned short", bool="_Bool")
KT = {  # name -> scalar kind | ("struct"|"union", [(scalar kind, array length or 0), ...])
    "i": "int", "l": "long", "p": "ptr", "f": "float", "d": "double", "e": "ldouble",
    "Si": ("struct", [("int", 0)]), "Sc3": ("struct", [("char", 3)]), "Sd": ("struct", [("double", 0)]),
    "Sff": ("struct", [("float", 0), ("float", 0)]), "Sfff": ("struct", [("float", 0)] * 3),
    "Sld": ("struct", [("long", 0), ("double", 0)]), "Sdl": ("struct", [("double", 0), ("long", 0)]),
    "Sdd": ("struct", [("double", 0)] * 2), "Sll": ("struct", [("long", 0)] * 2),
    "Sif": ("struct", [("int", 0), ("float", 0)]), "Udl": ("union", [("double", 2), ("long", 0)]),
    "S24": ("struct", [("long", 0)] * 3), "Se": ("struct", [("ldouble", 0)]), "Sc16": ("struct", [("char", 16)]),
    "Sc1": ("struct", [("char", 0)]), "Sf": ("struct", [("float", 0)]), "Sc5": ("struct", [("char", 5)]),
    "Siii": ("struct", [("int", 0)] * 3), "Sc13": ("struct", [("char", 13)]),
    "Sdf": ("struct", [("double", 0), ("float", 0)]), "Sfic": ("struct", [("float", 0), ("int", 0), ("char", 0)]),
    "Sc17": ("struct", [("char", 17)]), "Sddd": ("struct", [("double", 0)] * 3),
    "See": ("struct", [("ldouble", 0)] * 2), "Sel": ("struct", [("ldouble", 0), ("long", 0)]),
    "v": "void", "b": "bool", "c": "char", "uc": "uchar", "s": "short", "us": "ushort",
}
NARROW = {"b": (8, False), "c": (8, True), "uc": (8, False), "s": (16, True), "us": (16, False)}


def ctype(k):
    t = KT[k]
    return ("void" if t == "void" else SCALAR_C[t]) if isinstance(t, str) else "K_" + k


def typedefs():
    out = []
    for k, t in KT.items():
        if isinstance(t, str):
            continue
        ms = "".join(" %s m%d%s;" % (SCALAR_C[sk], i, "[%d]" % n if n else "") for i, (sk, n) in enumerate(t[1]))
        out.append("typedef %s {%s } K_%s;" % (t[0], ms, k))
    return "\n".join(out) + "\n"


def leaves(k):
    """[(access suffix, scalar kind)] of the fields that are set and reported"""
    t = KT[k]
    if isinstance(t, str):
        return [("", t)]
    if t[0] == "union":                 # Udl: the long overlays m0[0]; m0[1] is the second eightbyte
        return [(".m1", "long"), (".m0[1]", "double")]
    out = []
    for i, (sk, n) in enumerate(t[1]):
        out += [(".m%d[%d]" % (i, j), sk) for j in range(n)] if n else [(".m%d" % i, sk)]
    return out


def lit(sk, v):
    """C literal of leaf value number v (1..120) and the integer the receiver reports for it"""
    if sk in ("char", "uchar"):
        return str(v), v
    if sk in ("short", "ushort"):
        return str(v * 257), v * 257
    if sk == "int":
        return str(v * 0x01010101), v * 0x01010101
    if sk == "long":
        return "%dL" % (v * 0x0101010101010101), v * 0x0101010101010101
    if sk == "ptr":
        return "(void *)%dL" % (v * 0x0101010101010101), v * 0x0101010101010101
    if sk == "float":
        return "%d.5f" % v, 8 * v + 4
    if sk == "double":
        return "%d.25" % v, 8 * v + 2
    if sk == "ldouble":
        return "%d.125L" % v, 8 * v + 1
    if sk == "bool":
        return "1", 1
    raise KeyError(sk)


def report_expr(e, sk):
    return "(long)(%s * 8)" % e if sk in ("float", "double", "ldouble") else "(long)%s" % e


def vnum(ai, li):
    return (7 * ai + li) % 120 + 1


# ------------------------------------------------------------------ one case -> C
CTXS = ["d0", "d1", "d2", "d3", "nest"]
RAXPROBE = [False]     # set by run(): observe rax after a MEMORY-class return (only once C06-ret-rax is not open)
PROBE = "S24"
NPROBE = ["l", "d"]


class Case:
    def __init__(self, n, b, ctx="d0", fwd=False, probe=False):
        self.n, self.b, self.ctx, self.fwd, self.probe = n, b, ctx, fwd, probe
        self.ret, self.args, self.nfix = b["ret"], list(b["args"]), b["nfix"]
        if probe and self.nfix < len(self.args):   # the spec says a further 24-byte struct is passed and fetched without disagreement
            self.args.append(PROBE)
        elif probe:                                # ... a further long and double parameter are placed without disagreement
            self.args += NPROBE
            self.nfix += len(NPROBE)
        self.var = self.nfix < len(self.args)

    def key(self):
        return "%s(%s%s)%s%s" % (self.ret, ",".join(self.args[:self.nfix]), (",...," + ",".join(self.args[self.nfix:])) if self.var else "",
                                 self.ctx, ":fwd" if self.fwd else "") + (":probe" if self.probe else "")

    def proto(self, name, names=False):
        ps = ["%s%s" % (ctype(k), " a%d" % i if names else "") for i, k in enumerate(self.args[:self.nfix])]
        return "%s %s(%s%s)" % (ctype(self.ret), name, ", ".join(ps), ", ..." if self.var else "")

    # --- expected report lines
    def exp_args(self, lo, hi):
        out = []
        for i in range(lo, hi):
            out += [lit(sk, vnum(i, j))[1] for j, (_, sk) in enumerate(leaves(self.args[i]))]
        return out

    def exp_ret(self):
        if self.ret == "v":
            return []
        if self.ret in NARROW:
            w, sg = NARROW[self.ret]
            return [1] if self.ret == "b" else [-vnum(15, 0) if sg else (1 << w) - vnum(15, 0)]
        return [lit(sk, vnum(15, j))[1] for j, (_, sk) in enumerate(leaves(self.ret))]

    def exp_sink(self):
        d = dict(d0=0, d1=1, d2=2, d3=3, nest=0)[self.ctx]
        return 1 + sum(1000 * (i + 1) for i in range(d)) if self.ctx != "nest" else 1000 + 1 + 2000

    def expected(self):
        e = {}
        nrep = self.nfix if self.fwd else len(self.args)
        e["c"] = self.exp_args(0, nrep) + [0]
        if self.fwd:
            e["w"] = self.exp_args(self.nfix, len(self.args))
        e["r"] = [1] + self.exp_ret() + [self.exp_sink()]
        if RAXPROBE[0] and self.b.get("hidden"):
            e["x"] = [1]
        return e

    # --- callee
    def callee_c(self):
        n, L = self.n, []
        if self.fwd:
            L.append("void walk_%d(va_list ap);" % n)
        if self.ret in NARROW:
            w, sg = NARROW[self.ret]
            low = 1 if self.ret == "b" else (1 << w) - vnum(15, 0)
            L.append("static NOINLINE long dirty_%d(void) { return dirtybase + %d; }" % (n, low))
        L.append(self.proto("callee_%d" % n, names=True) + " {")
        if self.var:
            L.append("  va_list ap; va_start(ap, a%d);" % (self.nfix - 1))
            if not self.fwd:
                for i in range(self.nfix, len(self.args)):
                    L.append("  %s a%d; a%d = va_arg(ap, %s);" % (ctype(self.args[i]), i, i, ctype(self.args[i])))
        nrep = self.nfix if self.fwd else len(self.args)
        for i in range(nrep):
            for sfx, sk in leaves(self.args[i]):
                L.append("  rec(%s);" % report_expr("a%d%s" % (i, sfx), sk))
        L.append("  ALIGNPROBE; flush(\"c\", %d);" % n)
        if self.fwd:
            L.append("  walk_%d(ap);" % n)
        if self.var:
            L.append("  va_end(ap);")
        if self.ret == "v":
            pass
        elif self.ret in NARROW:
            L.append("  return dirty_%d();" % n)
        else:
            L.append("  %s r;" % ctype(self.ret))
            for j, (sfx, sk) in enumerate(leaves(self.ret)):
                L.append("  r%s = %s;" % (sfx, lit(sk, vnum(15, j))[0]))
            L.append("  return r;")
        L.append("}")
        return "\n".join(L) + "\n"

    # --- caller
    def caller_c(self):
        n, L = self.n, []
        L.append(self.proto("callee_%d" % n) + ";")
        if self.fwd:
            L.append("void walk_%d(va_list ap) {" % n)
            for i in range(self.nfix, len(self.args)):
                L.append("  %s a%d; a%d = va_arg(ap, %s);" % (ctype(self.args[i]), i, i, ctype(self.args[i])))
                for sfx, sk in leaves(self.args[i]):
                    L.append("  rec(%s);" % report_expr("a%d%s" % (i, sfx), sk))
            L.append("  flush(\"w\", %d);\n}" % n)
        raxp = RAXPROBE[0] and self.b.get("hidden")
        if raxp:     # the same function seen as `long f(void *hidden, args...)`: for a MEMORY-class return that is the same call
            ps = ["void *"] + [ctype(k) for k in self.args[:self.nfix]]
            L.append("#ifdef GCC_SIDE\nextern long raxp_%d(%s%s) __asm__(\"callee_%d\");\n#endif" % (n, ", ".join(ps), ", ..." if self.var else "", n))
        L.append("void caller_%d(void) {" % n)
        for i, k in enumerate(self.args):
            L.append("  %s a%d;" % (ctype(k), i))
            for j, (sfx, sk) in enumerate(leaves(k)):
                L.append("  a%d%s = %s;" % (i, sfx, lit(sk, vnum(i, j))[0]))
        call = "callee_%d(%s)" % (n, ", ".join("a%d" % i for i in range(len(self.args))))
        inner = "(%s, 1L)" % call if self.ret == "v" else "((r = %s), 1L)" % call
        if self.ret != "v":        # a narrow return value is consumed as a long, without a store to a narrow object in between
            L.append("  %s r;" % ("long" if self.ret in NARROW else ctype(self.ret)))
        if raxp:
            L.append("#ifdef GCC_SIDE\n  { %s rb; rec(raxp_%d(%s) == (long)&rb); }\n#else\n  rec(1);\n#endif\n  flush(\"x\", %d);"
                     % (ctype(self.ret), n, ", ".join(["&rb"] + ["a%d" % i for i in range(len(self.args))]), n))
        L.append("  long sink; SAVE_REGS;")
        if self.ctx == "nest":
            L.append("  sink = id3(vv1, %s, vv2);" % inner)
        else:
            e = inner
            for d in range(int(self.ctx[1])):
                e = "(%s + vv%d)" % (e, d + 1)
            L.append("  sink = %s;" % e)
        L.append("  CHECK_REGS;")
        if self.ret != "v":
            for sfx, sk in leaves(self.ret):
                L.append("  rec(%s);" % report_expr("r" + sfx, sk))
        L.append("  rec(sink); flush(\"r\", %d);\n}" % n)
        return "\n".join(L) + "\n"


# ------------------------------------------------------------------ integer argument conversions (ArgConv.tla)
INT_C = dict(bool="_Bool", char="char", schar="signed char", uchar="unsigned char", short="short", ushort="unsigned short",
             int="int", uint="unsigned int", long="long", ulong="unsigned long")
INT_SIGNED = {"char", "schar", "short", "int", "long"}


def s64(x):
    x &= (1 << 64) - 1
    return x - (1 << 64) if x >> 63 else x


class ConvCase:
    """all emitted vectors of one (argument type, parameter type) pair: register and stack position"""
    def __init__(self, frm, to, vecs):
        self.n, self.frm, self.to = 0, frm, to
        self.vals = sorted({tuple(v["val"]) for v in vecs})
        self.exp = {tuple(v["val"]): v["exp"] for v in vecs}
        self.args = [frm, to]

    def key(self):
        return "conv:%s->%s" % (self.frm, self.to)

    def callee_c(self):
        t, n = INT_C[self.to], self.n
        return ("long cvr_%d(%s x) { return (long)x; }\n"
                "long cvs_%d(long a, long b, long c, long d, long e, long f, %s x) { return (long)x + (a + b + c + d + e + f - 21); }\n" % (n, t, n, t))

    def literal(self, val):
        u = int.from_bytes(bytes(val), "little")
        v = s64(u) if self.frm in INT_SIGNED else u
        return "(-%dL - 1)" % (-v - 1) if v < 0 else "%dUL" % v

    def caller_c(self):
        t, f, n = INT_C[self.to], INT_C[self.frm], self.n
        L = ["long cvr_%d(%s); long cvs_%d(long, long, long, long, long, long, %s);" % (n, t, n, t), "void caller_%d(void) {" % n]
        for i, val in enumerate(self.vals):
            L.append("  { volatile %s v = %s; rec(cvr_%d(v)); rec(cvs_%d(1, 2, 3, 4, 5, 6, v)); }" % (f, self.literal(val), n, n))
        L.append("  flush(\"r\", %d);\n}" % n)
        return "\n".join(L) + "\n"

    def expected(self):
        out = []
        for val in self.vals:
            e = int.from_bytes(bytes(self.exp[val]), "little")
            w = 8 * len(self.exp[val])
            if self.to in INT_SIGNED and e >> (w - 1):
                e -= 1 << w
            out += [s64(e), s64(e)]
        return {"r": out}

    def describe(self, got, exp):
        for i, (g, e) in enumerate(zip(got + [None] * len(exp), exp)):
            if g != e:
                return "%s:%s value %s" % ("stk" if i % 2 else "reg", self.key(), self.literal(self.vals[i // 2]))
        return self.key()


# ------------------------------------------------------------------ the return slot of a MEMORY-class value (RetSlot.tla)
class SlotCase:
    """d = f(&d) and relatives; the early callee (assembly) clears and fills the slot before / while reading *src"""
    def __init__(self, shape, flavour, kind):
        self.n, self.shape, self.flavour, self.kind = 0, shape, flavour, kind
        self.args = [kind]

    def key(self):
        return "retslot:%s:%s:%s" % (self.shape, self.flavour, self.kind)

    def size(self):
        return dict(S24=24, Sc17=17)[self.kind]

    def asm_s(self):
        if self.flavour != "early":
            return ""
        n, sz = self.n, self.size()
        body = ("  xor %%ecx, %%ecx\n1: movb $0, (%%rdi,%%rcx)\n  inc %%rcx\n  cmp $%d, %%rcx\n  jne 1b\n"      # clear the slot first
                "  xor %%ecx, %%ecx\n2: movb (%%rsi,%%rcx), %%al\n  xor $1, %%al\n  movb %%al, (%%rdi,%%rcx)\n  inc %%rcx\n"
                "  cmp $%d, %%rcx\n  jne 2b\n  mov %%rdi, %%rax\n  ret\n" % (sz, sz))
        return (".text\n.globl fn_%d\nfn_%d:\n%s.globl fng_%d\nfng_%d:\n  mov gp_%d(%%rip), %%rsi\n%s" % (n, n, body, n, n, n, body))

    def callee_c(self):
        K, n = ctype(self.kind), self.n
        L = ["%s *gp_%d;" % (K, n), "%s *idp_%d(%s *p) { return p; }" % (K, n, K)]
        L.append("void use_%d(%s v) { %s flush(\"c\", %d); }" % (n, K, " ".join("rec(%s);" % report_expr("v" + sfx, sk) for sfx, sk in leaves(self.kind)), n))
        if self.flavour == "late":
            upd = " ".join("r%s = p->%s ^ %s;" % (sfx, sfx[1:], "0x0101010101010101L" if sk == "long" else "1") for sfx, sk in leaves(self.kind))
            L.append("%s fn_%d(const %s *p) { %s r; %s return r; }" % (K, n, K, K, upd))
            L.append("%s fng_%d(void) { return fn_%d(gp_%d); }" % (K, n, n, n))
        return "\n".join(L) + "\n"

    def caller_c(self):
        K, n, sh = ctype(self.kind), self.n, self.shape
        L = ["%s fn_%d(const %s *); %s fng_%d(void); extern %s *gp_%d; %s *idp_%d(%s *); void use_%d(%s);" % (K, n, K, K, n, K, n, K, n, K, n, K),
             "void caller_%d(void) {" % n, "  %s d, s2; struct { long pad; %s m; } w; %s *p = &d;" % (K, K, K)]
        for j, (sfx, sk) in enumerate(leaves(self.kind)):
            L.append("  d%s = %s; s2%s = %s;" % (sfx, lit(sk, vnum(0, j))[0], sfx, lit(sk, vnum(1, j))[0]))
        L.append(dict(arg="  d = fn_%d(&d);" % n,
                      glob="  gp_%d = &d; d = fng_%d();" % (n, n),
                      nested="  d = fn_%d(idp_%d(&d));" % (n, n),
                      member="  w.m = d; w.m = fn_%d(&w.m); d = w.m;" % n,
                      deref="  *p = fn_%d(p);" % n,
                      byvalue="  use_%d(fn_%d(&d));" % (n, n),
                      other="  d = fn_%d(&s2);" % n)[sh])
        for sfx, sk in leaves(self.kind):
            L.append("  rec(%s);" % report_expr("d" + sfx, sk))
        L.append("  flush(\"r\", %d);\n}" % n)
        return "\n".join(L) + "\n"

    def expected(self):
        def img(ai, on):
            return [lit(sk, (vnum(ai, j) ^ 1) if on else vnum(ai, j))[1] for j, (_, sk) in enumerate(leaves(self.kind))]
        if self.shape == "byvalue":
            return {"c": img(0, True), "r": img(0, False)}
        return {"r": img(1 if self.shape == "other" else 0, True)}

    def describe(self, got, exp):
        return self.key()


# ------------------------------------------------------------------ several live returned temporaries (RetTemps.tla)
class TempCase:
    def __init__(self, shape, cls, flavour, kind):
        self.n, self.shape, self.cls, self.flavour, self.kind = 0, shape, cls, flavour, kind
        self.args = [kind]
        self.sz = KT[kind][1][0][1]
        self.bases = [1, 40, 80][:3 if shape == "triple" else 2]

    def key(self):
        return "rettemps:%s:%s:%s" % (self.shape, self.flavour, self.kind)

    def asm_s(self):
        if self.flavour != "early":
            return ""
        n, sz = self.n, self.sz
        zero = "  xor %%ecx, %%ecx\n1: movb $0, (%%rdi,%%rcx)\n  inc %%rcx\n  cmp $%d, %%rcx\n  jne 1b\n  xor %%ecx, %%ecx\n" % sz
        mk = zero + "2: lea (%%rsi,%%rcx), %%eax\n  movb %%al, (%%rdi,%%rcx)\n  inc %%rcx\n  cmp $%d, %%rcx\n  jne 2b\n  mov %%rdi, %%rax\n  ret\n" % sz
        rv = zero + "2: movb (%%rsi,%%rcx), %%al\n  xor $1, %%al\n  movb %%al, (%%rdi,%%rcx)\n  inc %%rcx\n  cmp $%d, %%rcx\n  jne 2b\n  mov %%rdi, %%rax\n  ret\n" % sz
        return ".text\n.globl mk_%d\nmk_%d:\n%s.globl rv_%d\nrv_%d:\n%s" % (n, n, mk, n, n, rv)

    def callee_c(self):
        K, n, sz = ctype(self.kind), self.n, self.sz
        L = ["long use2_%d(const char *a, const char *b) { long s = 0; for (int i = 0; i < %d; i++) s += a[i] * (i + 1L) + 1000000L * b[i] * (i + 1); return s; }" % (n, sz),
             "long use3_%d(const char *a, const char *b, const char *c) { long s = use2_%d(a, b); for (int i = 0; i < %d; i++) s += 1000000000000L * c[i] * (i + 1); return s; }" % (n, n, sz)]
        if self.flavour == "late":
            L.append("%s mk_%d(int base) { %s r; for (int i = 0; i < %d; i++) r.m0[i] = base + i; return r; }" % (K, n, K, sz))
            L.append("%s rv_%d(const char *p) { %s r; for (int i = 0; i < %d; i++) r.m0[i] = p[i] ^ 1; return r; }" % (K, n, K, sz))
        return "\n".join(L) + "\n"

    def caller_c(self):
        K, n = ctype(self.kind), self.n
        L = ["%s mk_%d(int); %s rv_%d(const char *); long use2_%d(const char *, const char *); long use3_%d(const char *, const char *, const char *);" % (K, n, K, n, n, n),
             "void caller_%d(void) {" % n]
        if self.shape == "chain":
            L.append("  %s d; d = rv_%d(mk_%d(1).m0);" % (K, n, n))
            L += ["  rec(d.m0[%d]);" % i for i in range(self.sz)]
        elif self.shape == "pair":
            L.append("  rec(use2_%d(mk_%d(1).m0, mk_%d(40).m0));" % (n, n, n))
        else:
            L.append("  rec(use3_%d(mk_%d(1).m0, mk_%d(40).m0, mk_%d(80).m0));" % (n, n, n, n))
        L.append("  flush(\"r\", %d);\n}" % n)
        return "\n".join(L) + "\n"

    def expected(self):
        if self.shape == "chain":
            return {"r": [(1 + i) ^ 1 for i in range(self.sz)]}
        w = [1, 1000000, 1000000000000]
        return {"r": [sum(w[k] * (b + i) * (i + 1) for k, b in enumerate(self.bases) for i in range(self.sz))]}

    def describe(self, got, exp):
        return self.key()


# ------------------------------------------------------------------ x87 control word / MXCSR across calls (FpCtl.tla)
def ext80(fr):
    """(low 64 bits as signed long, sign+exponent) of the long double nearest to the positive Fraction fr"""
    from fractions import Fraction
    e = 0
    while fr / Fraction(2) ** e >= 2 ** 64:
        e += 1
    while fr / Fraction(2) ** e < 2 ** 63:
        e -= 1
    m = fr / Fraction(2) ** e
    mant = m.numerator // m.denominator
    rem = m - mant
    if rem > Fraction(1, 2) or (rem == Fraction(1, 2) and mant & 1):
        mant += 1
    if mant == 2 ** 64:
        mant >>= 1
        e += 1
    return s64(mant), e + 63 + 16383


class FpCase:
    """long double -> integer conversions of one target type (values on both sides of half the range) and long
    double arithmetic inside the callee; the gcc caller compares fnstcw / stmxcsr before and after every call,
    with the default control word and with the rounding mode set to `up`"""
    RANGE = dict(char=(-128, 127), schar=(-128, 127), uchar=(0, 255), short=(-32768, 32767), ushort=(0, 65535),
                 int=(-2 ** 31, 2 ** 31 - 1), uint=(0, 2 ** 32 - 1), long=(-2 ** 63, 2 ** 63 - 1), ulong=(0, 2 ** 64 - 1))

    def __init__(self, to):
        from fractions import Fraction as Fr
        self.n, self.to, self.args = 0, to, [to]
        lo, hi = self.RANGE[to]
        half = (hi + 1) // 2 if lo == 0 else (hi + 1) // 2
        cand = [Fr(0), Fr(7, 4), Fr(399, 100) if False else Fr(31, 8), Fr(hi), Fr(hi) - Fr(1, 2), Fr(hi) + Fr(1, 2), Fr(half), Fr(half) + Fr(1, 2),
                Fr(half) - 1, Fr(half) + 2048 + Fr(1, 2), Fr(lo), Fr(lo) - Fr(1, 2), Fr(lo) + Fr(1, 2), Fr(-3, 2)]
        vals = []
        for v in cand:
            t = int(v) if v >= 0 else -int(-v)          # truncation toward zero
            num = abs(v.numerator)
            while num and num % 2 == 0:
                num //= 2
            if lo <= t <= hi and num.bit_length() <= 64 and (v >= 0 or lo < 0) and v not in [x for x, _ in vals]:
                vals.append((v, t))
        self.vals = vals

    def key(self):
        return "fpctl:ldouble->%s" % self.to

    def lit(self, v):
        a = abs(v)
        s = "%d.%sL" % (a.numerator // a.denominator, {1: "0", 2: "5", 4: "%02d" % (25 * (a.numerator % 4)), 8: "%03d" % (125 * (a.numerator % 8))}[a.denominator])
        return ("-" if v < 0 else "") + s

    def callee_c(self):
        t, n = INT_C[self.to], self.n
        return ("%s cvl_%d(long double x) { return (%s)x; }\n"
                "long double div_%d(long double a, long double b) { return a / b; }\n"
                "long double mix_%d(long double x, long double a, long double b) { %s u = x; return a / b + (u & 0); }\n" % (t, n, t, n, n, t))

    def caller_c(self):
        t, n = INT_C[self.to], self.n
        L = ["%s cvl_%d(long double); long double div_%d(long double, long double); long double mix_%d(long double, long double, long double);" % (t, n, n, n),
             "void caller_%d(void) {" % n, "  union { long double e; unsigned long u[2]; } q;"]
        for up in (False, True):
            if up:
                L.append("  RC_UP;")
            for v, _ in self.vals:
                L.append("  { volatile long double v = %s; long r; SAVE_REGS; r = cvl_%d(v); CHECK_REGS; rec(r); }" % (self.lit(v), n))
            if up:
                L.append("  RC_DFLT;")
        big = self.vals[[x for x, _ in self.vals].index(max(x for x, _ in self.vals))][0]
        L.append("  { volatile long double a = 2.0L, b = 3.0L; SAVE_REGS; q.e = div_%d(a, b); CHECK_REGS; rec(q.u[0]); rec(q.u[1] & 0x7fff); }" % n)
        L.append("  { volatile long double a = 2.0L, b = 3.0L, x = %s; SAVE_REGS; q.e = mix_%d(x, a, b); CHECK_REGS; rec(q.u[0]); rec(q.u[1] & 0x7fff); }" % (self.lit(big), n))
        L.append("  flush(\"r\", %d);\n}" % n)
        return "\n".join(L) + "\n"

    def expected(self):
        from fractions import Fraction as Fr
        out = []
        for _ in range(2):
            for _, t in self.vals:
                out += [1, s64(t)]
        lo, hi = ext80(Fr(2, 3))
        out += [1, lo, hi, 1, lo, hi]
        return {"r": out}

    def describe(self, got, exp):
        for i, (g, e) in enumerate(zip(got + [None] * len(exp), exp)):
            if g != e:
                return "%s field %d: %s" % (self.key(), i, "control word / MXCSR changed by the callee" if g == 2 else "value")
        return self.key()


def judge_simple(ctx, case, results, family):
    """cases whose expectation the spec fixes completely: all three linkings with a chibicc side must match; gcc x gcc is the tie-break"""
    exp = case.expected()
    ctx.note_case(case.key())

    def bad(r):
        if r is None or r[0] != "ok":
            return "crash" if r is None or r[0] == "crash" else r[0]
        for tag in exp:
            if r[1].get(tag) != exp[tag]:
                return tag
        return None
    ref = results.get(("gcc", "gcc"))
    if bad(ref):
        ctx.oracle_disagreements += 1
        ctx.cov.setdefault("oracle_examples", [])
        if len(ctx.cov["oracle_examples"]) < 5:
            ctx.cov["oracle_examples"].append(dict(case=case.key(), got=str(ref)[:300], exp=str(exp)[:300]))
        return
    for l in LINKINGS[:3]:
        r = results.get(l)
        what = bad(r)
        if what:
            got = r[1].get(what, []) if r and r[0] == "ok" else []
            ctx.report("replay:%s>%s:%s:%s" % (l[0], l[1], family, case.key().split(":", 1)[1]),
                       "%s linked %s>%s: %s; expected %s got %s" % (case.key(), l[0], l[1], case.describe(got, exp.get(what, [])), str(exp)[:300], str(r)[:300]),
                       case=dict(kind=family, key=case.key(), linking="%s>%s" % l, expected=exp, got=str(r)[:1500]))
    ctx.cov["traces_validated_against_impl"] += 3


COMMON = r"""
int printf(const char *, ...);
int fflush(void *);
int atoi(const char *);
#include <stdarg.h>
#ifdef GCC_SIDE
#define NOINLINE __attribute__((noinline))
typedef float v4sf __attribute__((vector_size(16)));
#define ALIGNPROBE { volatile v4sf t_ = {1, 2, 3, 4}; (void)t_; rec((long)__builtin_frame_address(0) & 15); }
#else
#define NOINLINE
#define ALIGNPROBE rec(0)
#endif
static long recbuf[96]; static int nrec;
static void rec(long v) { if (nrec < 96) recbuf[nrec++] = v; }
static void flush(const char *tag, int id) {
  printf("%s %d", tag, id);
  for (int i = 0; i < nrec; i++) printf(" %ld", recbuf[i]);
  printf("\n"); fflush(0); nrec = 0;
}
"""
CALLER_PRE = r"""
#ifdef GCC_SIDE
register long R_rbx asm("rbx"); register long R_r12 asm("r12"); register long R_r13 asm("r13");
register long R_r14 asm("r14"); register long R_r15 asm("r15");
static inline unsigned short get_cw_(void) { unsigned short c; __asm__ volatile("fnstcw %0" : "=m"(c)); return c; }
static inline unsigned get_mx_(void) { unsigned m; __asm__ volatile("stmxcsr %0" : "=m"(m)); return m & 0xffc0; }
static inline void set_cw_(unsigned short c) { __asm__ volatile("fldcw %0" : : "m"(c)); }
static inline void set_mx_(unsigned m) { unsigned a; __asm__ volatile("stmxcsr %0" : "=m"(a)); a = (a & ~0xffc0u) | m; __asm__ volatile("ldmxcsr %0" : : "m"(a)); }
#define RC_UP set_cw_((get_cw_() & ~0x0c00) | 0x0800)
#define RC_DFLT set_cw_(0x037f)
#define SAVE_REGS unsigned short cw0_ = get_cw_(); unsigned mx0_ = get_mx_(); long o1_ = R_rbx, o2_ = R_r12, o3_ = R_r13, o4_ = R_r14, o5_ = R_r15; \
  R_rbx = 0x1111111111111111; R_r12 = 0x2222222222222222; R_r13 = 0x3333333333333333; \
  R_r14 = 0x4444444444444444; R_r15 = 0x5555555555555555
#define CHECK_REGS rec(!(R_rbx == 0x1111111111111111 && R_r12 == 0x2222222222222222 && R_r13 == 0x3333333333333333 \
  && R_r14 == 0x4444444444444444 && R_r15 == 0x5555555555555555) ? 0 : (get_cw_() == cw0_ && get_mx_() == mx0_) ? 1 : 2); \
  set_cw_(cw0_); set_mx_(mx0_); \
  R_rbx = o1_; R_r12 = o2_; R_r13 = o3_; R_r14 = o4_; R_r15 = o5_
#else
#define SAVE_REGS
#define CHECK_REGS rec(1)
#define RC_UP
#define RC_DFLT
#endif
volatile long vv1 = 1000, vv2 = 2000, vv3 = 3000;
long id3(long, long, long);
"""
CALLEE_PRE = r"""
volatile long dirtybase = 0x5a5a5a5a5a5a0000;
long id3(long a, long b, long c) { return a + b + c; }
"""


def batch_sources(cases):
    td = typedefs()
    callers = COMMON + td + CALLER_PRE + "".join(c.caller_c() for c in cases)
    callers += "static void (*tab[])(void) = {%s};\n" % ", ".join("caller_%d" % c.n for c in cases)
    callers += "int main(int argc, char **argv) { for (int i = argc > 1 ? atoi(argv[1]) : 0; i < %d; i++) tab[i](); return 0; }\n" % len(cases)
    callees = COMMON + td + CALLEE_PRE + "".join(c.callee_c() for c in cases)
    return callers, callees


LINKINGS = [("cc", "cc"), ("cc", "gcc"), ("gcc", "cc"), ("gcc", "gcc")]


def compile_one(tree, comp, src, obj):
    if comp == "cc":
        cmd = [tree + "/chibicc", "-I" + tree + "/include", "-c", "-o", obj, src]
    else:
        cmd = ["gcc", "-O1", "-w", "-DGCC_SIDE", "-fno-omit-frame-pointer", "-c", "-o", obj, src]
    p = vt.run_limited(cmd, timeout=300, mem_gb=4)      # chibicc, or gcc on generated text
    if p.returncode == -999:
        return "timeout"
    return None if p.returncode == 0 and os.path.exists(obj) else (p.stderr[-400:] or "rc=%d" % p.returncode)


def run_batch(ctx, tree, cases, d):
    """-> {id(case): {linking: ("ok", {tag: [ints]}) | ("compile", side, msg) | ("crash", rc, partial)}}"""
    os.makedirs(d, exist_ok=True)
    for i, c in enumerate(cases):
        c.n = i
    callers, callees = batch_sources(cases)
    open(d + "/callers.c", "w").write(callers)
    open(d + "/callees.c", "w").write(callees)
    extra = []
    asm = "".join(c.asm_s() for c in cases if hasattr(c, "asm_s"))
    if asm:          # callees written directly in assembly (a callee flavour no available compiler emits)
        open(d + "/extra.s", "w").write(asm + '\n.section .note.GNU-stack,"",@progbits\n')
        p = vt.sh(["gcc", "-c", "-o", d + "/extra.o", d + "/extra.s"], timeout=60)
        if p.returncode:
            raise Infra("assembler rejects generated callee: " + p.stderr[-400:])
        extra = [d + "/extra.o"]
    err = {}
    for comp in ("cc", "gcc"):
        for f in ("callers", "callees"):
            e = compile_one(tree, comp, "%s/%s.c" % (d, f), "%s/%s.%s.o" % (d, f, comp))
            if e:
                if comp == "gcc":
                    raise Infra("gcc rejects a generated file (%s/%s.c): %s" % (d, f, e))
                err[f] = e
    res = {id(c): {} for c in cases}
    if err and len(cases) > 1:                    # find the case(s) chibicc cannot compile
        h = len(cases) // 2
        res.update(run_batch(ctx, tree, cases[:h], d + "a"))
        res.update(run_batch(ctx, tree, cases[h:], d + "b"))
        return res
    for l in LINKINGS:
        bad = [f for f in err if (f == "callers" and l[0] == "cc") or (f == "callees" and l[1] == "cc")]
        if bad:
            res[id(cases[0])][l] = ("compile", bad[0], err[bad[0]])
            continue
        exe = "%s/t.%s.%s" % (d, l[0], l[1])
        p = vt.sh(["gcc", "-no-pie", "-o", exe, "%s/callers.%s.o" % (d, l[0]), "%s/callees.%s.o" % (d, l[1])] + extra, timeout=120)
        if p.returncode:
            raise Infra("link failed: " + p.stderr[-400:])
        start = 0
        while start < len(cases):
            p = vt.run_limited([exe, str(start)], timeout=60, mem_gb=2, errors="replace")
            rc, out = p.returncode, p.stdout or ""
            got = {}
            for line in out.splitlines():
                f = line.split()
                if len(f) >= 2 and f[0] in ("c", "r", "w", "x") and f[1].isdigit():
                    try:
                        got.setdefault(int(f[1]), {})[f[0]] = [int(x) for x in f[2:]]
                    except ValueError:
                        got.setdefault(int(f[1]), {})[f[0]] = ["garbled"]
            last = start - 1
            for n in range(start, len(cases)):
                if n in got and "r" in got[n]:
                    res[id(cases[n])][l] = ("ok", got[n])
                    last = n
                else:
                    break
            if last + 1 >= len(cases):
                break
            res[id(cases[last + 1])][l] = ("crash", rc, got.get(last + 1, {}))      # died (or hung) inside this case
            start = last + 2
    return res


def run_cases(ctx, tree, cases, tag, size=120):
    """compile/run all cases in batches; returns {id(case): {linking: result}}"""
    batches = [cases[i:i + size] for i in range(0, len(cases), size)]
    root = ctx.tmp("b-" + tag)
    allres = {}
    for r in vt.pmap(lambda t: run_batch(ctx, tree, list(t[1]), "%s/%d" % (root, t[0])), list(enumerate(batches)), workers=6):
        allres.update(r)
    return allres


# ------------------------------------------------------------------ judging
def pick_class(classes, linking, prefer):
    order = dict(ccgcc=["caller-vs-psabi", "ret-callee", "vaforward"], gcccc=["callee-vs-psabi", "vaarg", "vastart", "ret-caller", "vaforward"],
                 cccc=["caller-vs-callee", "caller-push", "vaarg", "vastart"])["".join(linking)]
    for pre in prefer + order:
        for c in sorted(classes):
            if c.startswith(pre):
                return c
    return sorted(classes)[0]


def judge(ctx, case, results):
    exp = case.expected()
    b = case.b
    ref = results.get(("gcc", "gcc"))
    ctx.note_case(case.key(), nontrivial=len(case.args) >= 1)

    def diff(r):
        if r[0] != "ok":
            return r[0]
        for tag in ("c", "w", "x", "r"):
            if tag in exp and r[1].get(tag) != exp[tag]:
                return tag
        return None
    if ref is None or diff(ref):
        ctx.oracle_disagreements += 1          # the reference toolchain does not reproduce the spec's expectation
        ctx.cov.setdefault("oracle_examples", [])
        if len(ctx.cov["oracle_examples"]) < 5:
            ctx.cov["oracle_examples"].append(dict(case=case.key(), got=str(ref)[:300], exp=exp))
        return
    # which side of this behaviour the model still vouches for (a side that has deviated is not judged)
    cj, ej, fj = b.get("cj", True), b.get("ej", True), b.get("fj", True)
    side_ok = {("cc", "gcc"): cj, ("gcc", "cc"): ej and (fj or not case.fwd), ("cc", "cc"): cj and ej}
    predicted = set(b.get("adis", b.get("dis", []) + b.get("fdis", [])))
    if not case.fwd:
        predicted = {c for c in predicted if not c.startswith("vaforward")}
    rpred = set(b.get("rdis", []))
    fails = 0
    for l in LINKINGS[:3]:
        if case.fwd and l == ("cc", "gcc"):
            continue        # chibicc's walker on gcc's va_list: not modelled (see NOTES), not judged
        r = results.get(l)
        if r is None:
            raise Infra("no result for %s %s" % (case.key(), l))
        what = diff(r)
        if what is None:
            continue
        fails += 1
        ln = "%s>%s" % l + (":fwd" if case.fwd else "")
        retbad = what == "r" and r[0] == "ok" and r[1].get("r", [])[1:-1] != exp["r"][1:-1]
        if what == "r" and r[0] == "ok" and r[1].get("r", [None])[:1] == [0]:
            cls = "callee-saved-register-clobbered"
        elif what == "r" and r[0] == "ok" and r[1].get("r", [None])[:1] == [2]:
            cls = "fp-control-state-changed"
        elif what == "x":
            cls = "ret-rax-not-hidden-pointer"
        elif retbad and rpred:
            cls = pick_class(rpred, l, [])
        elif side_ok[l] or not predicted:
            if retbad:
                cls = "unpredicted:return:" + case.ret
            elif what == "r":
                cls = "unpredicted:value-around-call:" + case.ctx
            elif what == "c" and r[0] == "ok" and r[1].get("c", [])[:-1] == exp["c"][:-1]:
                cls = "stack-misaligned-at-call"
            else:
                cls = "unpredicted:%s:%s" % (dict(c="args", w="va_list-forwarded", compile="compile", crash="crash").get(what, what),
                                             case.args[-1] if case.args else "-")
        else:
            pl = predicted if l == ("gcc", "cc") else ({c for c in predicted if not c.startswith("vaforward")} or predicted)
            cls = pick_class(pl, l, ["vaarg", "vastart", "vaforward"] if what == "w" else [])
        ctx.report("replay:%s:%s" % (ln, cls),
                   "%s linked %s: expected %s got %s" % (case.key(), ln, exp, str(r)[:400]),
                   case=dict(kind="sig", beh=b, ctx=case.ctx, fwd=case.fwd, probe=case.probe, linking=ln, expected=exp, got=str(r)[:2000]))
    if (predicted or rpred) and not fails:
        ctx.cov["predicted_but_passing"] = ctx.cov.get("predicted_but_passing", 0) + 1
    ctx.cov["traces_validated_against_impl"] += 3


# ------------------------------------------------------------------ run
# Each open finding stands for one pinned decider in the model: while the finding is open its classes are
# waived and the model transcribes the pinned code (Fix* = FALSE); once it is no longer open (status
# fixed / entry removed) the model transcribes the repaired code and nothing is waived for it.
FIX_FLAG = {"C06-ret-rax": "FixRetRax", "C06-vastart": "FixVaArea", "C06-align16": "FixAlign16",
            "C06-valist-layout": "FixVaStride", "D22": "FixVaArg", "C06-x87agg": "FixX87"}


def open_findings(ctx):
    # VERIF_FINDINGS_IGNORE=id,id is a development aid (try a proposed fix before known_findings.json changes)
    ign = set(x for x in os.environ.get("VERIF_FINDINGS_IGNORE", "").split(",") if x)
    if ign:
        ctx.findings = [f for f in ctx.findings if f["id"] not in ign or f.get("proposed")]   # a proposed replacement entry stays
    return {f["id"] for f in ctx.findings}


def waived_classes(ctx):
    w = set()
    for f in ctx.findings:
        w |= set(f.get("model_classes", []))
    return w


def tlc_run(ctx, cfgname, out=None, workers=4, **over):
    ids = open_findings(ctx)
    w = waived_classes(ctx)
    flags = {flag: fid not in ids for fid, flag in FIX_FLAG.items()}
    flags["FixVaArgLd"] = "vaarg:ldouble" not in w        # D22 has two halves; the long double half can be closed on its own
    flags["FixVaArg"] = not ({"vaarg:agg<=8", "vaarg:agg<=16"} & w)
    flags.update(over)
    cfg = ctx.cfg("abi", cfgname, Waived="{" + ",".join('"%s"' % x for x in sorted(w)) + "}", **flags)
    return ctx.tlc("abi", "SysV", cfg, env=dict(OUT=out or os.devnull), workers=workers, timeout=900, heap="4g")


def check_model(ctx, res, cfgname):
    if not res.ok:
        p = ctx.replay_dir("tlc-SysV-" + cfgname)
        open(p + "/counterexample.txt", "w").write(res.trace_text())
        json.dump(dict(kind="tlc", cfg=cfgname), open(p + "/case.json", "w"))
        ctx.report("tlc:SysV:%s:%s" % (cfgname, res.violated), "chibicc's deciders disagree with the psABI or with each other (TLC counterexample)", p)


def is_dots(b):
    return b["nfix"] < len(b["args"])


def select(ctx, beh, stride, per_class=2):
    """seed-dependent subsample: behaviours with both sides judged, behaviours with one side judged (the
    other has an open finding), and a few examples per predicted class where nothing is judged"""
    both = [b for b in beh if b["cj"] and b["ej"]]
    one = [b for b in beh if b["cj"] != b["ej"]]
    none = [b for b in beh if not b["cj"] and not b["ej"]]
    sel = vt.subsample(both, ctx.seed, stride) + vt.subsample(one, ctx.seed, 2 * stride)
    seen = {}
    for b in vt.subsample(none + one, ctx.seed, max(1, stride // 8)):
        k = tuple(sorted(b["dis"] + b["fdis"]))
        if k and seen.get(k, 0) < per_class:
            seen[k] = seen.get(k, 0) + 1
            sel.append(b)
    return sel


def strata(ctx, beh, per=1):
    """Every kind of variadic fetch that the callee side is still judged on: (kind, register or overflow
    area, parity of the overflow area, gp / sse registers exhausted, first fetch after va_start), `per`
    representatives each chosen by the seed; replayed extended by the probe argument so that the cursor
    the fetch leaves behind is observed."""
    groups = {}
    for b in beh:
        if is_dots(b) and b["ej"]:
            k = (b["args"][-1], b["locs"][-1]["mem"], b["from"]["par"], b["from"]["gp"] >= 6, b["from"]["sse"] >= 8,
                 b["nfix"] == len(b["args"]) - 1, b["hidden"])
            groups.setdefault(k, []).append(b)
    # named parameters: every aggregate or scalar that meets exhausted or nearly exhausted registers
    for b in beh:
        if not is_dots(b) and (b["cj"] or b["ej"]) and b.get("probe"):
            f, k = b["from"], b["args"][-1]
            agg = k[0] in "SU"
            spill = b["locs"][-1]["mem"] and k not in ("S24", "See", "Sel", "Se", "Sc17", "Sddd", "e")   # did not fit: all-or-nothing
            if (agg and (spill or f["gp"] >= 5 or f["sse"] >= 7)) or (not agg and (f["gp"] >= 6 or f["sse"] >= 8)):
                key = ("named", k, b["locs"][-1]["mem"], min(f["gp"], 6), min(f["sse"], 8), b["hidden"], b["var"])
                groups.setdefault(key, []).append(b)
    out = []
    for k in sorted(groups, key=str):
        g = groups[k]
        for j in range(min(per, len(g))):
            out.append(g[(ctx.seed * 7919 + j * 104729) % len(g)])
    return out


def make_cases(beh, seed, probes=()):
    cases = []
    for i, b in enumerate(beh):
        var = is_dots(b)
        fwd = var and bool(b["fdis"] or (i + seed) % 3 == 0)
        cases.append(Case(0, b, CTXS[(i + seed) % len(CTXS)], fwd))
        if fwd and b["dis"]:
            cases.append(Case(0, b, "d0", False))
        if b.get("probe") and (i + seed) % 2 == 0:
            cases.append(Case(0, b, CTXS[(i + seed + 1) % len(CTXS)], False, probe=True))
    for i, b in enumerate(probes):
        cases.append(Case(0, b, CTXS[(i + seed) % len(CTXS)], False, probe=bool(b.get("probe"))))
    return cases


def small_models(ctx):
    """ArgConv.tla and RetSlot.tla: model check (+ sensitivity controls), return the emitted behaviours"""
    out = {}
    for mod, floor in (("ArgConv", 1000), ("RetSlot", 14), ("RetTemps", 9), ("FpCtl", 9)):
        ctl = ctx.tlc("abi", mod, mod + "_pinned.cfg", env=dict(OUT=os.devnull), workers=2, timeout=300, count=False)
        if ctl.ok:
            raise Infra("sensitivity control failed: TLC accepts %s_pinned.cfg" % mod)
        o = os.path.join(ctx.scratch, mod + ".ndjson")
        res = ctx.tlc("abi", mod, mod + ".cfg", env=dict(OUT=o), workers=2, timeout=300)
        if not res.ok:
            p = ctx.replay_dir("tlc-" + mod)
            open(p + "/counterexample.txt", "w").write(res.trace_text())
            json.dump(dict(kind="tlc-small", module=mod), open(p + "/case.json", "w"))
            ctx.report("tlc:%s:%s" % (mod, res.violated), "%s: the caller-side design is refuted (TLC counterexample)" % mod, p)
        rows = vt.read_ndjson(o)
        uniq = {json.dumps(r, sort_keys=True): r for r in rows}
        out[mod] = [uniq[k] for k in sorted(uniq)]
        if res.ok and len(out[mod]) < floor:
            raise Infra("%s wrote only %d behaviours" % (mod, len(out[mod])))
    return out


def small_cases(sm):
    groups = {}
    for v in sm["ArgConv"]:
        groups.setdefault((v["from"], v["to"]), []).append(v)
    conv = [ConvCase(f, t, groups[(f, t)]) for (f, t) in sorted(groups)]
    slot = [SlotCase(b["shape"], b["flavour"], k) for b in sm["RetSlot"] for k in ("S24", "Sc17")]
    slot += [TempCase(b["shape"], b["cls"], b["flavour"], k) for b in sm["RetTemps"]
             for k in (("Sc17",) if b["cls"] == "mem" else ("Sc16", "Sc13", "Sc5", "Sc3"))]
    rows = {b["row"] for b in sm["FpCtl"]}
    tos = [t for t in ("char", "schar", "uchar", "short", "ushort", "int", "uint", "long", "ulong")
           if dict(char="i8", schar="i8", uchar="u8", short="i16", ushort="u16", int="i32", uint="u32", long="i64", ulong="u64")[t] in rows]
    slot += [FpCase(t) for t in tos]
    return conv, slot


def run(ctx):
    q = ctx.quick
    RAXPROBE[0] = "C06-ret-rax" not in open_findings(ctx)
    tree = ctx.build()
    ctx.phase("build")
    # sensitivity control: the pinned deciders must be rejected
    for flag in (["FixOffset"] if q else ["FixOffset", "FixPhantom", "FixLE"]):
        over = {"FixOffset": True, flag: False}
        ctl = tlc_run(ctx, "SysV_pinned.cfg", **over)
        if ctl.ok:
            raise Infra("sensitivity control failed: TLC accepts the deciders with %s = FALSE" % flag)
    ctx.phase("control")
    # exhaustive checks + generation (the two small models run beside the allocator graph)
    import concurrent.futures
    pool = concurrent.futures.ThreadPoolExecutor(1)
    smf = pool.submit(small_models, ctx)
    outs = {}
    # quick: the allocator graph over one kind per (class vector, size bucket, alignment); the kinds left out
    # (l p Sc3 Sff Sdd Sif Udl Sc16) are in every signature of length <= 2 below.  thorough: all 22.
    qkinds = '{"i","f","d","e","Si","Sd","Sfff","Sld","Sdl","Sll","S24","Se","See","Sel"}'
    for name, over in (("graph", dict(ParamSel=qkinds) if q else {}), ("sigs", dict(MaxLen=2 if q else 3)), ("rets", {})):
        outs[name] = os.path.join(ctx.scratch, name + ".ndjson")
        res = tlc_run(ctx, "SysV_%s.cfg" % name, outs[name], workers=8, **over)
        check_model(ctx, res, name)
    sm = smf.result()
    pool.shutdown()
    ctx.phase("tlc")
    if ctx.violations:           # the design itself is refuted; the generated set is incomplete
        return ctx.finish(rule="model check only (a TLC counterexample stopped the run)", exhaustive=False)
    graph, sigs, rets = (vt.read_ndjson(outs[k]) for k in ("graph", "sigs", "rets"))
    if len(graph) < 1000 or len(sigs) < 100 or len(rets) < 50:
        raise Infra("generator wrote too little: %d/%d/%d" % (len(graph), len(sigs), len(rets)))
    for lst in (graph, sigs, rets):
        lst.sort(key=lambda b: json.dumps([b["ret"], b["nfix"], b["args"]]))
    beh = select(ctx, graph, 120 if q else 6) + select(ctx, sigs, 16 if q else 8) + select(ctx, rets, 3 if q else 1)
    probes = strata(ctx, graph, 1 if q else 4) + strata(ctx, sigs, 1 if q else 2)
    cases = make_cases(beh, ctx.seed, probes)
    b0 = beh[len(beh) // 2]
    ctx.sample(dict(kind="allocator-graph transition", signature=Case(0, b0).key(), psabi_locations=b0["locs"], al=b0["al"],
                    return_in=b0["rloc"], predicted_disagreements=b0["dis"]))
    results = run_cases(ctx, tree, cases, "main")
    for c in cases:
        judge(ctx, c, results.get(id(c), {}))
    # integer argument conversions (every pair of the 10 integer types x boundary values, register and stack)
    # and the return slot of MEMORY-class values (every call shape x callee flavour)
    conv, slot = small_cases(sm)
    r2 = run_cases(ctx, tree, conv, "conv", size=25)
    for c in conv:
        judge_simple(ctx, c, r2.get(id(c), {}), "argconv")
    r3 = run_cases(ctx, tree, slot, "slot", size=28)
    for c in slot:
        judge_simple(ctx, c, r3.get(id(c), {}), c.key().split(":", 1)[0])
    ctx.sample(dict(kind="argument conversion", pair=conv[len(conv) // 2].key(), values=len(conv[0].vals), expected=conv[len(conv) // 2].expected()["r"][:6]))
    ctx.sample(dict(kind="return slot", case=slot[0].key(), expected=slot[0].expected()))
    ncases = len(cases) + len(conv) + len(slot)
    ctx.phase("replay")
    if ctx.oracle_disagreements > max(3, ncases // 50):
        raise Infra("gcc x gcc does not reproduce the expectation on %d of %d cases: the generator is broken (%s)"
                    % (ctx.oracle_disagreements, len(cases), str(ctx.cov.get("oracle_examples", [])[:1])[:600]))
    ctx.assumptions += [
        "Level I (SysV.tla) is a hand transcription of codegen.c / stdarg.h; the four-way linking judges the real code",
        "the C rendering of the kind alphabet (harness/c06.py KT) mirrors SysV.tla KindSeq; gcc x gcc linking validates each generated case",
        "after a transition with an open-finding disagreement only the side that did not deviate is explored and judged further (with gcc on the other side)",
        "%al, the exact register/stack location and `rax = hidden pointer` are checked in the model; replay observes them only through values received"]
    return ctx.finish(
        rule="case = one TLC-emitted signature (allocator-graph transition from the shortest history, every signature of length <= MaxLen, every return kind) x call context (expression depth 0..3 / nested call / forwarded va_list), run in 3 linkings against the gcc x gcc reference; non-trivial = at least one argument; distinct = distinct (signature, context)",
        exhaustive=not q,
        extra=dict(graph_transitions=len(graph), signatures=len(sigs), return_kinds=len(rets), cases_replayed=len(cases), fetch_strata_probed=len(probes)))


def replay(ctx, path):
    c = json.load(open(os.path.join(path, "case.json")))
    c = c.get("case") or c
    if c.get("kind") in ("argconv", "retslot", "rettemps", "fpctl", "tlc-small"):
        sm = small_models(ctx)
        if c["kind"] != "tlc-small":
            tree = ctx.build()
            conv, slot = small_cases(sm)
            sel = [x for x in conv + slot if x.key() == c["key"]]
            rr = run_cases(ctx, tree, sel, "replay")
            for x in sel:
                judge_simple(ctx, x, rr.get(id(x), {}), c["kind"])
    elif c.get("kind") == "tlc":
        res = tlc_run(ctx, "SysV_%s.cfg" % c["cfg"])
        check_model(ctx, res, c["cfg"])
    else:
        tree = ctx.build()
        RAXPROBE[0] = "C06-ret-rax" not in open_findings(ctx)
        case = Case(0, c["beh"], c.get("ctx", "d0"), c.get("fwd", False), c.get("probe", False))
        results = run_cases(ctx, tree, [case], "replay")
        judge(ctx, case, results.get(id(case), {}))
    return ctx.finish(rule="replay of one recorded case")
