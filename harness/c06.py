"""C06 — calls obey the System V x86-64 calling convention.

1. TLC, exhaustive: tla/abi/SysV.tla.  Level A = psABI classification/allocator/returns/va_list,
   Level I = chibicc's separate deciders (push_args, pop loop, assign_lvar_offsets, spill loop,
   va_area, stdarg.h walkers, struct returns, the push/pop slot stack).  SysV_graph.cfg explores the
   allocator graph (every reachable (gp, sse, parity, phase) x kind x {fixed, variadic} x
   {register, memory} return), SysV_sigs.cfg every signature of length <= MaxLen over 31 kinds,
   SysV_rets.cfg every return kind.  Disagreement classes that are open findings are waived (the
   set comes from findings' `model_classes`), anything else is a TLC counterexample -> violation.
   After an open-finding transition the side that did not deviate is explored further (cj/ej/fj).
   Sensitivity control: the pinned deciders (SysV_pinned.cfg, FixOffset etc. FALSE) must be rejected.
2. Generate -> replay: every transition TLC writes out is a signature with the psABI location of
   every argument and the classes of disagreement the model predicts.  Each selected signature is
   realised as a caller and a callee in two C files, compiled by chibicc (tree under test) and by
   gcc, and linked in the four combinations.  The callee reports every scalar/field it received
   (gcc side: also frame alignment and an aligned SSE store), the caller reports the returned
   value, an expression value computed around the call (pending pushes, depth 0..3, or the call as
   an argument of another call) and (gcc side) rbx/r12-r15 kept across the call.  Expected output:
   values are transferred intact.  gcc x gcc validates the harness and is the tie-break.  A linking is
   judged only while the model vouches for its chibicc side(s); probe extensions (one more S24 after a
   variadic fetch, one more long and double after a named parameter) and one representative per
   stratum of fetch / exhaustion situations make the state a step leaves behind observable.
3. Small models beside the allocator graph (each with a sensitivity control that TLC must reject), every emitted
   behaviour replayed in every tier: ArgConv (argument conversion), RetSlot / RetTemps (memory of returned
   aggregates), FpCtl (x87 control word), ArgEval (source form of every argument and of the designator x code
   model: default executable / -fPIC shared object), NarrowRet (narrow return value x place of the callee's
   definition x how the callee leaves the bits above the value); the same-translation-unit composition of
   every parameter kind and every return kind.
"""
import json, os, subprocess
import vt
from vt import Infra

# ------------------------------------------------------------------ types (mirror of SysV.tla KindSeq)
SCALAR_C = dict(int="int", long="long", ptr="void *", float="float", double="double", ldouble="long double",
                char="char", uchar="unsigned char", short="short", ushort="unsigned short", bool="_Bool")
KT = {  # name -> scalar kind | ("struct"|"union", [(scalar kind, array length or 0), ...])
    "i": "int", "l": "long", "p": "ptr", "f": "float", "d": "double", "e": "ldouble",
    "Si": ("struct", [("int", 0)]), "Sc3": ("struct", [("char", 3)]), "Sd": ("struct", [("double", 0)]),
    "Sff": ("struct", [("float", 0), ("float", 0)]), "Sfff": ("struct", [("float", 0)] * 3),
    "Sld": ("struct", [("long", 0), ("double", 0)]), "Sdl": ("struct", [("double", 0), ("long", 0)]),
    "Sdd": ("struct", [("double", 0)] * 2), "Sll": ("struct", [("long", 0)] * 2),
    "Sif": ("struct", [("int", 0), ("float", 0)]), "Udl": ("union", [("double", 2), ("long", 0)]),
    "S24": ("struct", [("long", 0)] * 3), "Se": ("struct", [("ldouble", 0)]), "Sc16": ("struct", [("char", 16)]),
    "Sc1": ("struct", [("char", 0)]), "Sf": ("struct", [("float", 0)]), "Sc5": ("struct", [("char", 5)]),
    "Siii": ("struct", [("int", 0)] * 3), "Sc13": ("struct", [("char", 13)]),
    "Sdf": ("struct", [("double", 0), ("float", 0)]), "Sfic": ("struct", [("float", 0), ("int", 0), ("char", 0)]),
    "Sc17": ("struct", [("char", 17)]), "Sddd": ("struct", [("double", 0)] * 3),
    "See": ("struct", [("ldouble", 0)] * 2), "Sel": ("struct", [("ldouble", 0), ("long", 0)]),
    # zero-sized aggregates (GNU C) and aggregates with an empty member; a member (kind name, 0) is a nested aggregate,
    # (scalar, -1) a zero-length array
    "S0": ("struct", []), "U0": ("union", []), "S0w": ("struct", [("S0", 0)]), "Sz": ("struct", [("int", -1)]),
    "S0i": ("struct", [("S0", 0), ("int", 0)]), "Sd0": ("struct", [("double", 0), ("S0", 0)]),
    "Siif": ("struct", [("int", 0), ("int", 0), ("float", 0)]),
    # packed aggregates (third element "packed"): Pcf / Pcd have an unaligned field (psABI: class MEMORY), Pic has not;
    # over-aligned aggregates: a member (kind, n, alignment) is declared _Alignas(alignment) - 16 bytes, the second
    # eightbyte is padding only (class NO_CLASS: no register)
    "Pcf": ("struct", [("char", 0), ("float", 0)], "packed"), "Pcd": ("struct", [("char", 0), ("double", 0)], "packed"),
    "Pic": ("struct", [("int", 0), ("char", 0)], "packed"),
    "Al": ("struct", [("long", 0, 16)]), "Ad": ("struct", [("double", 0, 16)]),
    "v": "void", "b": "bool", "c": "char", "uc": "uchar", "s": "short", "us": "ushort",
}
ZERO = {"S0", "U0", "S0w", "Sz"}
STRADDLE = {"Pcd"}
NARROW = {"b": (8, False), "c": (8, True), "uc": (8, False), "s": (16, True), "us": (16, False)}


def ctype(k):
    t = KT[k]
    return ("void" if t == "void" else SCALAR_C[t]) if isinstance(t, str) else "K_" + k


def typedefs():
    out = []
    for k, t in KT.items():
        if isinstance(t, str):
            continue
        ms = "".join(" %s%s m%d%s;" % ("_Alignas(%d) " % m[2] if len(m) > 2 else "", SCALAR_C.get(m[0]) or "K_" + m[0], i, "[%d]" % max(m[1], 0) if m[1] else "")
                     for i, m in enumerate(t[1]))
        out.append("typedef %s%s {%s } K_%s;" % (t[0], " __attribute__((packed))" if len(t) > 2 else "", ms, k))
    return "\n".join(out) + "\n"


def leaves(k):
    """[(access suffix, scalar kind)] of the fields that are set and reported"""
    t = KT[k]
    if isinstance(t, str):
        return [("", t)]
    if k == "Udl":                      # Udl: the long overlays m0[0]; m0[1] is the second eightbyte
        return [(".m1", "long"), (".m0[1]", "double")]
    out = []
    for i, m in enumerate(t[1]):
        sk, n = m[0], m[1]
        if sk in KT:                    # nested aggregate member
            out += [(".m%d%s" % (i, sfx), lk) for sfx, lk in leaves(sk)]
        elif n >= 0:                    # (n = -1: zero-length array, no element to set or report)
            out += [(".m%d[%d]" % (i, j), sk) for j in range(n)] if n else [(".m%d" % i, sk)]
    return out


def lit(sk, v):
    """C literal of leaf value number v (1..120) and the integer the receiver reports for it"""
    if sk in ("char", "uchar"):
        return str(v), v
    if sk in ("short", "ushort"):
        return str(v * 257), v * 257
    if sk == "int":
        return str(v * 0x01010101), v * 0x01010101
    if sk == "long":
        return "%dL" % (v * 0x0101010101010101), v * 0x0101010101010101
    if sk == "ptr":
        return "(void *)%dL" % (v * 0x0101010101010101), v * 0x0101010101010101
    if sk == "float":
        return "%d.5f" % v, 8 * v + 4
    if sk == "double":
        return "%d.25" % v, 8 * v + 2
    if sk == "ldouble":
        return "%d.125L" % v, 8 * v + 1
    if sk == "bool":
        return "1", 1
    raise KeyError(sk)


def report_expr(e, sk):
    return "(long)(%s * 8)" % e if sk in ("float", "double", "ldouble") else "(long)%s" % e


def vnum(ai, li):
    return (7 * ai + li) % 120 + 1


# ------------------------------------------------------------------ one case -> C
CTXS = ["d0", "d1", "d2", "d3", "nest"]
RAXPROBE = [False]     # set by run(): observe rax after a MEMORY-class return (only once C06-ret-rax is not open)
PROBE = "S24"
NPROBE = ["l", "d"]


PLACES = ["arg:end", "arg:start", "ret:end", "ret:start", "dst:end", "dst:start"]
WHERE = dict(end=1, start=2)


class Case:
    """place = "<site>:<where>": the objects of one site do not live in a stack frame but at a page boundary -
    `end`: the object's last byte is the last byte of a page and the next page is inaccessible, `start`: its
    first byte is the first of a page and the page before is inaccessible.  Sites: `arg` the caller's by-value
    argument objects (f( *p)), `ret` the object the callee returns (return *p), `dst` the objects the results are
    assigned to ( *p = f(..), *p = va_arg(..)).  Level A: an access to an object of n bytes touches [addr, addr+n),
    so nothing changes; an access that is wider than the object, or starts before it, faults."""
    def __init__(self, n, b, ctx="d0", fwd=False, probe=False, place=None, same=False):
        self.n, self.b, self.ctx, self.fwd, self.probe, self.place = n, b, ctx, fwd, probe, place
        self.same = same         # caller and callee in ONE translation unit (the callers' file), compiled by one compiler
        self.ret, self.args, self.nfix = b["ret"], list(b["args"]), b["nfix"]
        self.site, self.where = place.split(":") if place else (None, None)
        if probe and self.nfix < len(self.args):   # the spec says a further 24-byte struct is passed and fetched without disagreement
            self.args.append(PROBE)
        elif probe:                                # ... a further long and double parameter are placed without disagreement
            self.args += NPROBE
            self.nfix += len(NPROBE)
        self.var = self.nfix < len(self.args)

    def key(self):
        return "%s(%s%s)%s%s" % (self.ret, ",".join(self.args[:self.nfix]), (",...," + ",".join(self.args[self.nfix:])) if self.var else "",
                                 self.ctx, ":fwd" if self.fwd else "") + (":probe" if self.probe else "") + (":@" + self.place if self.place else "") + (":same" if self.same else "")

    def pkind(self):
        """the kind whose object sits at the page boundary (names the case in a signature)"""
        plain_ret = self.ret != "v" and self.ret not in NARROW
        if self.site == "ret" or (self.site == "dst" and plain_ret and not self.var):
            return self.ret
        return self.args[-1] if self.args else self.ret

    def pg(self, k):
        return "pgalloc(sizeof(%s), %d)" % (ctype(k), WHERE[self.where])

    def proto(self, name, names=False):
        ps = ["%s%s" % (ctype(k), " a%d" % i if names else "") for i, k in enumerate(self.args[:self.nfix])]
        return "%s %s(%s%s)" % (ctype(self.ret), name, ", ".join(ps) or "void", ", ..." if self.var else "")

    # --- expected report lines
    def exp_args(self, lo, hi):
        out = []
        for i in range(lo, hi):
            out += [lit(sk, vnum(i, j))[1] for j, (_, sk) in enumerate(leaves(self.args[i]))]
        return out

    def exp_ret(self):
        if self.ret == "v":
            return []
        if self.ret in NARROW:
            w, sg = NARROW[self.ret]
            return [1] if self.ret == "b" else [-vnum(15, 0) if sg else (1 << w) - vnum(15, 0)]
        return [lit(sk, vnum(15, j))[1] for j, (_, sk) in enumerate(leaves(self.ret))]

    def exp_sink(self):
        d = dict(d0=0, d1=1, d2=2, d3=3, nest=0)[self.ctx]
        return 1 + sum(1000 * (i + 1) for i in range(d)) if self.ctx != "nest" else 1000 + 1 + 2000

    def expected(self):
        e = {}
        nrep = self.nfix if self.fwd else len(self.args)
        e["c"] = self.exp_args(0, nrep) + [0]
        if self.fwd:
            e["w"] = self.exp_args(self.nfix, len(self.args))
        e["r"] = [1] + self.exp_ret() + [self.exp_sink()]
        if RAXPROBE[0] and self.b.get("hidden") and not self.same:
            e["x"] = [1]
        return e

    # --- callee
    def callee_c(self):
        return "" if self.same else self.callee_text()

    def callee_text(self):
        n, L = self.n, []
        if self.fwd:
            L.append("void walk_%d(va_list ap);" % n)
        if self.ret in NARROW:
            w, sg = NARROW[self.ret]
            low = 1 if self.ret == "b" else (1 << w) - vnum(15, 0)
            L.append("static NOINLINE long dirty_%d(void) { return dirtybase + %d; }" % (n, low))
        L.append(self.proto("callee_%d" % n, names=True) + " {")
        if self.var:
            L.append("  va_list ap; va_start(ap, a%d);" % (self.nfix - 1))
            if not self.fwd:
                for i in range(self.nfix, len(self.args)):
                    if self.site == "dst":
                        L.append("  %s *pa%d = %s; *pa%d = va_arg(ap, %s);" % (ctype(self.args[i]), i, self.pg(self.args[i]), i, ctype(self.args[i])))
                    else:
                        L.append("  %s a%d; a%d = va_arg(ap, %s);" % (ctype(self.args[i]), i, i, ctype(self.args[i])))
        nrep = self.nfix if self.fwd else len(self.args)
        for i in range(nrep):
            an = "(*pa%d)" % i if (self.site == "dst" and i >= self.nfix) else "a%d" % i
            for sfx, sk in leaves(self.args[i]):
                L.append("  rec(%s);" % report_expr(an + sfx, sk))
        L.append("  ALIGNPROBE; flush(\"c\", %d);" % n)
        if self.fwd:
            L.append("  walk_%d(ap);" % n)
        if self.var:
            L.append("  va_end(ap);")
        if self.ret == "v":
            pass
        elif self.ret in NARROW:
            L.append("  return dirty_%d();" % n)
        elif self.site == "ret":
            L.append("  %s *pr = %s;" % (ctype(self.ret), self.pg(self.ret)))
            for j, (sfx, sk) in enumerate(leaves(self.ret)):
                L.append("  (*pr)%s = %s;" % (sfx, lit(sk, vnum(15, j))[0]))
            L.append("  return *pr;")
        else:
            L.append("  %s r;" % ctype(self.ret))
            for j, (sfx, sk) in enumerate(leaves(self.ret)):
                L.append("  r%s = %s;" % (sfx, lit(sk, vnum(15, j))[0]))
            L.append("  return r;")
        L.append("}")
        return "\n".join(L) + "\n"

    # --- caller
    def caller_c(self):
        n, L = self.n, []
        L.append(self.proto("callee_%d" % n) + ";")
        if self.fwd:
            L.append("void walk_%d(va_list ap) {" % n)
            for i in range(self.nfix, len(self.args)):
                L.append("  %s a%d; a%d = va_arg(ap, %s);" % (ctype(self.args[i]), i, i, ctype(self.args[i])))
                for sfx, sk in leaves(self.args[i]):
                    L.append("  rec(%s);" % report_expr("a%d%s" % (i, sfx), sk))
            L.append("  flush(\"w\", %d);\n}" % n)
        A = ["(*pa%d)" % i if self.site == "arg" else "a%d" % i for i in range(len(self.args))]
        R = "(*pr)" if (self.site == "dst" and self.ret != "v" and self.ret not in NARROW) else "r"
        raxp = RAXPROBE[0] and self.b.get("hidden") and not self.same
        if raxp:     # the same function seen as `long f(void *hidden, args...)`: for a MEMORY-class return that is the same call
            ps = ["void *"] + [ctype(k) for k in self.args[:self.nfix]]
            L.append("#ifdef GCC_SIDE\nextern long raxp_%d(%s%s) __asm__(\"callee_%d\");\n#endif" % (n, ", ".join(ps), ", ..." if self.var else "", n))
        L.append("void caller_%d(void) {" % n)
        if self.place:
            L.append("  pgreset();")
        for i, k in enumerate(self.args):
            L.append("  %s *pa%d = %s;" % (ctype(k), i, self.pg(k)) if self.site == "arg" else "  %s a%d;" % (ctype(k), i))
            for j, (sfx, sk) in enumerate(leaves(k)):
                L.append("  %s%s = %s;" % (A[i], sfx, lit(sk, vnum(i, j))[0]))
        call = "callee_%d(%s)" % (n, ", ".join(A))
        inner = "(%s, 1L)" % call if self.ret == "v" else "((%s = %s), 1L)" % (R, call)
        if R != "r":
            L.append("  %s *pr = %s;" % (ctype(self.ret), self.pg(self.ret)))
        elif self.ret != "v":      # a narrow return value is consumed as a long, without a store to a narrow object in between
            L.append("  %s r;" % ("long" if self.ret in NARROW else ctype(self.ret)))
        if raxp:
            L.append("#ifdef GCC_SIDE\n  { %s rb; rec(raxp_%d(%s) == (long)&rb); }\n#else\n  rec(1);\n#endif\n  flush(\"x\", %d);"
                     % (ctype(self.ret), n, ", ".join(["&rb"] + A), n))
        L.append("  long sink; SAVE_REGS;")
        if self.ctx == "nest":
            L.append("  sink = id3(vv1, %s, vv2);" % inner)
        else:
            e = inner
            for d in range(int(self.ctx[1])):
                e = "(%s + vv%d)" % (e, d + 1)
            L.append("  sink = %s;" % e)
        L.append("  CHECK_REGS;")
        if self.ret != "v":
            for sfx, sk in leaves(self.ret):
                L.append("  rec(%s);" % report_expr(R + sfx, sk))
        L.append("  rec(sink); flush(\"r\", %d);\n}" % n)
        if self.same:            # the callee's definition follows the call (odd n: precedes it) in the same translation unit
            return ("\n".join(L) + "\n" + self.callee_text()) if n % 2 == 0 else (L[0] + "\n" + self.callee_text() + "\n".join(L[1:]) + "\n")
        return "\n".join(L) + "\n"


# ------------------------------------------------------------------ integer argument conversions (ArgConv.tla)
INT_C = dict(bool="_Bool", char="char", schar="signed char", uchar="unsigned char", short="short", ushort="unsigned short",
             int="int", uint="unsigned int", long="long", ulong="unsigned long")
INT_SIGNED = {"char", "schar", "short", "int", "long"}


def s64(x):
    x &= (1 << 64) - 1
    return x - (1 << 64) if x >> 63 else x


class ConvCase:
    """all emitted vectors of one (argument type, parameter type) pair: register and stack position"""
    def __init__(self, frm, to, vecs):
        self.n, self.frm, self.to = 0, frm, to
        self.vals = sorted({tuple(v["val"]) for v in vecs})
        self.exp = {tuple(v["val"]): v["exp"] for v in vecs}
        self.args = [frm, to]

    def key(self):
        return "conv:%s->%s" % (self.frm, self.to)

    def callee_c(self):
        t, n = INT_C[self.to], self.n
        return ("long cvr_%d(%s x) { return (long)x; }\n"
                "long cvs_%d(long a, long b, long c, long d, long e, long f, %s x) { return (long)x + (a + b + c + d + e + f - 21); }\n" % (n, t, n, t))

    def literal(self, val):
        u = int.from_bytes(bytes(val), "little")
        v = s64(u) if self.frm in INT_SIGNED else u
        return "(-%dL - 1)" % (-v - 1) if v < 0 else "%dUL" % v

    def caller_c(self):
        t, f, n = INT_C[self.to], INT_C[self.frm], self.n
        L = ["long cvr_%d(%s); long cvs_%d(long, long, long, long, long, long, %s);" % (n, t, n, t), "void caller_%d(void) {" % n]
        for i, val in enumerate(self.vals):
            L.append("  { volatile %s v = %s; rec(cvr_%d(v)); rec(cvs_%d(1, 2, 3, 4, 5, 6, v)); }" % (f, self.literal(val), n, n))
        L.append("  flush(\"r\", %d);\n}" % n)
        return "\n".join(L) + "\n"

    def expected(self):
        out = []
        for val in self.vals:
            e = int.from_bytes(bytes(self.exp[val]), "little")
            w = 8 * len(self.exp[val])
            if self.to in INT_SIGNED and e >> (w - 1):
                e -= 1 << w
            out += [s64(e), s64(e)]
        return {"r": out}

    def describe(self, got, exp):
        for i, (g, e) in enumerate(zip(got + [None] * len(exp), exp)):
            if g != e:
                return "%s:%s value %s" % ("stk" if i % 2 else "reg", self.key(), self.literal(self.vals[i // 2]))
        return self.key()


# ------------------------------------------------------------------ the return slot of a MEMORY-class value (RetSlot.tla)
class SlotCase:
    """d = f(&d) and relatives; the early callee (assembly) clears and fills the slot before / while reading *src"""
    def __init__(self, shape, flavour, kind):
        self.n, self.shape, self.flavour, self.kind = 0, shape, flavour, kind
        self.args = [kind]

    def key(self):
        return "retslot:%s:%s:%s" % (self.shape, self.flavour, self.kind)

    def size(self):
        return dict(S24=24, Sc17=17)[self.kind]

    def asm_s(self):
        if self.flavour != "early":
            return ""
        n, sz = self.n, self.size()
        body = ("  xor %%ecx, %%ecx\n1: movb $0, (%%rdi,%%rcx)\n  inc %%rcx\n  cmp $%d, %%rcx\n  jne 1b\n"      # clear the slot first
                "  xor %%ecx, %%ecx\n2: movb (%%rsi,%%rcx), %%al\n  xor $1, %%al\n  movb %%al, (%%rdi,%%rcx)\n  inc %%rcx\n"
                "  cmp $%d, %%rcx\n  jne 2b\n  mov %%rdi, %%rax\n  ret\n" % (sz, sz))
        return (".text\n.globl fn_%d\nfn_%d:\n%s.globl fng_%d\nfng_%d:\n  mov gp_%d(%%rip), %%rsi\n%s" % (n, n, body, n, n, n, body))

    def callee_c(self):
        K, n = ctype(self.kind), self.n
        L = ["%s *gp_%d;" % (K, n), "%s *idp_%d(%s *p) { return p; }" % (K, n, K)]
        L.append("void use_%d(%s v) { %s flush(\"c\", %d); }" % (n, K, " ".join("rec(%s);" % report_expr("v" + sfx, sk) for sfx, sk in leaves(self.kind)), n))
        if self.flavour == "late":
            upd = " ".join("r%s = p->%s ^ %s;" % (sfx, sfx[1:], "0x0101010101010101L" if sk == "long" else "1") for sfx, sk in leaves(self.kind))
            L.append("%s fn_%d(const %s *p) { %s r; %s return r; }" % (K, n, K, K, upd))
            L.append("%s fng_%d(void) { return fn_%d(gp_%d); }" % (K, n, n, n))
        return "\n".join(L) + "\n"

    def caller_c(self):
        K, n, sh = ctype(self.kind), self.n, self.shape
        L = ["%s fn_%d(const %s *); %s fng_%d(void); extern %s *gp_%d; %s *idp_%d(%s *); void use_%d(%s);" % (K, n, K, K, n, K, n, K, n, K, n, K),
             "void caller_%d(void) {" % n, "  %s d, s2; struct { long pad; %s m; } w; %s *p = &d;" % (K, K, K)]
        for j, (sfx, sk) in enumerate(leaves(self.kind)):
            L.append("  d%s = %s; s2%s = %s;" % (sfx, lit(sk, vnum(0, j))[0], sfx, lit(sk, vnum(1, j))[0]))
        L.append(dict(arg="  d = fn_%d(&d);" % n,
                      glob="  gp_%d = &d; d = fng_%d();" % (n, n),
                      nested="  d = fn_%d(idp_%d(&d));" % (n, n),
                      member="  w.m = d; w.m = fn_%d(&w.m); d = w.m;" % n,
                      deref="  *p = fn_%d(p);" % n,
                      byvalue="  use_%d(fn_%d(&d));" % (n, n),
                      other="  d = fn_%d(&s2);" % n)[sh])
        for sfx, sk in leaves(self.kind):
            L.append("  rec(%s);" % report_expr("d" + sfx, sk))
        L.append("  flush(\"r\", %d);\n}" % n)
        return "\n".join(L) + "\n"

    def expected(self):
        def img(ai, on):
            return [lit(sk, (vnum(ai, j) ^ 1) if on else vnum(ai, j))[1] for j, (_, sk) in enumerate(leaves(self.kind))]
        if self.shape == "byvalue":
            return {"c": img(0, True), "r": img(0, False)}
        return {"r": img(1 if self.shape == "other" else 0, True)}

    def describe(self, got, exp):
        return self.key()


# ------------------------------------------------------------------ several live returned temporaries (RetTemps.tla)
class TempCase:
    def __init__(self, shape, cls, flavour, kind):
        self.n, self.shape, self.cls, self.flavour, self.kind = 0, shape, cls, flavour, kind
        self.args = [kind]
        self.sz = KT[kind][1][0][1]
        self.bases = [1, 40, 80][:3 if shape == "triple" else 2]

    def key(self):
        return "rettemps:%s:%s:%s" % (self.shape, self.flavour, self.kind)

    def asm_s(self):
        if self.flavour != "early":
            return ""
        n, sz = self.n, self.sz
        zero = "  xor %%ecx, %%ecx\n1: movb $0, (%%rdi,%%rcx)\n  inc %%rcx\n  cmp $%d, %%rcx\n  jne 1b\n  xor %%ecx, %%ecx\n" % sz
        mk = zero + "2: lea (%%rsi,%%rcx), %%eax\n  movb %%al, (%%rdi,%%rcx)\n  inc %%rcx\n  cmp $%d, %%rcx\n  jne 2b\n  mov %%rdi, %%rax\n  ret\n" % sz
        rv = zero + "2: movb (%%rsi,%%rcx), %%al\n  xor $1, %%al\n  movb %%al, (%%rdi,%%rcx)\n  inc %%rcx\n  cmp $%d, %%rcx\n  jne 2b\n  mov %%rdi, %%rax\n  ret\n" % sz
        return ".text\n.globl mk_%d\nmk_%d:\n%s.globl rv_%d\nrv_%d:\n%s" % (n, n, mk, n, n, rv)

    def callee_c(self):
        K, n, sz = ctype(self.kind), self.n, self.sz
        L = ["long use2_%d(const char *a, const char *b) { long s = 0; for (int i = 0; i < %d; i++) s += a[i] * (i + 1L) + 1000000L * b[i] * (i + 1); return s; }" % (n, sz),
             "long use3_%d(const char *a, const char *b, const char *c) { long s = use2_%d(a, b); for (int i = 0; i < %d; i++) s += 1000000000000L * c[i] * (i + 1); return s; }" % (n, n, sz)]
        if self.flavour == "late":
            L.append("%s mk_%d(int base) { %s r; for (int i = 0; i < %d; i++) r.m0[i] = base + i; return r; }" % (K, n, K, sz))
            L.append("%s rv_%d(const char *p) { %s r; for (int i = 0; i < %d; i++) r.m0[i] = p[i] ^ 1; return r; }" % (K, n, K, sz))
        return "\n".join(L) + "\n"

    def caller_c(self):
        K, n = ctype(self.kind), self.n
        L = ["%s mk_%d(int); %s rv_%d(const char *); long use2_%d(const char *, const char *); long use3_%d(const char *, const char *, const char *);" % (K, n, K, n, n, n),
             "void caller_%d(void) {" % n]
        if self.shape == "chain":
            L.append("  %s d; d = rv_%d(mk_%d(1).m0);" % (K, n, n))
            L += ["  rec(d.m0[%d]);" % i for i in range(self.sz)]
        elif self.shape == "pair":
            L.append("  rec(use2_%d(mk_%d(1).m0, mk_%d(40).m0));" % (n, n, n))
        else:
            L.append("  rec(use3_%d(mk_%d(1).m0, mk_%d(40).m0, mk_%d(80).m0));" % (n, n, n, n))
        L.append("  flush(\"r\", %d);\n}" % n)
        return "\n".join(L) + "\n"

    def expected(self):
        if self.shape == "chain":
            return {"r": [(1 + i) ^ 1 for i in range(self.sz)]}
        w = [1, 1000000, 1000000000000]
        return {"r": [sum(w[k] * (b + i) * (i + 1) for k, b in enumerate(self.bases) for i in range(self.sz))]}

    def describe(self, got, exp):
        return self.key()


# ------------------------------------------------------------------ x87 control word / MXCSR across calls (FpCtl.tla)
def ext80(fr):
    """(low 64 bits as signed long, sign+exponent) of the long double nearest to the positive Fraction fr"""
    from fractions import Fraction
    e = 0
    while fr / Fraction(2) ** e >= 2 ** 64:
        e += 1
    while fr / Fraction(2) ** e < 2 ** 63:
        e -= 1
    m = fr / Fraction(2) ** e
    mant = m.numerator // m.denominator
    rem = m - mant
    if rem > Fraction(1, 2) or (rem == Fraction(1, 2) and mant & 1):
        mant += 1
    if mant == 2 ** 64:
        mant >>= 1
        e += 1
    return s64(mant), e + 63 + 16383


class FpCase:
    """long double -> integer conversions of one target type (values on both sides of half the range) and long
    double arithmetic inside the callee; the gcc caller compares fnstcw / stmxcsr before and after every call,
    with the default control word and with the rounding mode set to `up`"""
    RANGE = dict(char=(-128, 127), schar=(-128, 127), uchar=(0, 255), short=(-32768, 32767), ushort=(0, 65535),
                 int=(-2 ** 31, 2 ** 31 - 1), uint=(0, 2 ** 32 - 1), long=(-2 ** 63, 2 ** 63 - 1), ulong=(0, 2 ** 64 - 1))

    def __init__(self, to):
        from fractions import Fraction as Fr
        self.n, self.to, self.args = 0, to, [to]
        lo, hi = self.RANGE[to]
        half = (hi + 1) // 2 if lo == 0 else (hi + 1) // 2
        cand = [Fr(0), Fr(7, 4), Fr(399, 100) if False else Fr(31, 8), Fr(hi), Fr(hi) - Fr(1, 2), Fr(hi) + Fr(1, 2), Fr(half), Fr(half) + Fr(1, 2),
                Fr(half) - 1, Fr(half) + 2048 + Fr(1, 2), Fr(lo), Fr(lo) - Fr(1, 2), Fr(lo) + Fr(1, 2), Fr(-3, 2)]
        vals = []
        for v in cand:
            t = int(v) if v >= 0 else -int(-v)          # truncation toward zero
            num = abs(v.numerator)
            while num and num % 2 == 0:
                num //= 2
            if lo <= t <= hi and num.bit_length() <= 64 and (v >= 0 or lo < 0) and v not in [x for x, _ in vals]:
                vals.append((v, t))
        self.vals = vals

    def key(self):
        return "fpctl:ldouble->%s" % self.to

    def lit(self, v):
        a = abs(v)
        s = "%d.%sL" % (a.numerator // a.denominator, {1: "0", 2: "5", 4: "%02d" % (25 * (a.numerator % 4)), 8: "%03d" % (125 * (a.numerator % 8))}[a.denominator])
        return ("-" if v < 0 else "") + s

    def callee_c(self):
        t, n = INT_C[self.to], self.n
        return ("%s cvl_%d(long double x) { return (%s)x; }\n"
                "long double div_%d(long double a, long double b) { return a / b; }\n"
                "long double mix_%d(long double x, long double a, long double b) { %s u = x; return a / b + (u & 0); }\n" % (t, n, t, n, n, t))

    def caller_c(self):
        t, n = INT_C[self.to], self.n
        L = ["%s cvl_%d(long double); long double div_%d(long double, long double); long double mix_%d(long double, long double, long double);" % (t, n, n, n),
             "void caller_%d(void) {" % n, "  union { long double e; unsigned long u[2]; } q;"]
        for up in (False, True):
            if up:
                L.append("  RC_UP;")
            for v, _ in self.vals:
                L.append("  { volatile long double v = %s; long r; SAVE_REGS; r = cvl_%d(v); CHECK_REGS; rec(r); }" % (self.lit(v), n))
            if up:
                L.append("  RC_DFLT;")
        big = self.vals[[x for x, _ in self.vals].index(max(x for x, _ in self.vals))][0]
        L.append("  { volatile long double a = 2.0L, b = 3.0L; SAVE_REGS; q.e = div_%d(a, b); CHECK_REGS; rec(q.u[0]); rec(q.u[1] & 0x7fff); }" % n)
        L.append("  { volatile long double a = 2.0L, b = 3.0L, x = %s; SAVE_REGS; q.e = mix_%d(x, a, b); CHECK_REGS; rec(q.u[0]); rec(q.u[1] & 0x7fff); }" % (self.lit(big), n))
        L.append("  flush(\"r\", %d);\n}" % n)
        return "\n".join(L) + "\n"

    def expected(self):
        from fractions import Fraction as Fr
        out = []
        for _ in range(2):
            for _, t in self.vals:
                out += [1, s64(t)]
        lo, hi = ext80(Fr(2, 3))
        out += [1, lo, hi, 1, lo, hi]
        return {"r": out}

    def describe(self, got, exp):
        for i, (g, e) in enumerate(zip(got + [None] * len(exp), exp)):
            if g != e:
                return "%s field %d: %s" % (self.key(), i, "control word / MXCSR changed by the callee" if g == 2 else "value")
        return self.key()


# ------------------------------------------------------------------ source form of the arguments x code model (ArgEval.tla)
SRC_KIND = dict(gp="l", fp="d", gg="Sll", gf="Sld", mem="S24")


class SrcCase:
    """one call whose arguments (and designator) have the source forms ArgEval.tla emitted; mode pic = the caller is
    compiled with -fPIC and lives in a shared object.  Every function called while an argument is evaluated
    (idk_*, getfp_*) overwrites all registers that are not callee-saved (scrub), as any function may."""
    RET = 77 * 0x0101010101010101

    def __init__(self, b):
        self.n, self.b, self.mode, self.desig = 0, b, b["mode"], b["desig"]
        self.items = [(SRC_KIND[a["cls"]], a["src"]) for a in b["args"]]
        self.args = [k for k, _ in self.items]

    def key(self):
        return "argsrc:%s:%s:%s" % (self.mode, self.desig, ",".join("%s.%s" % it for it in self.items))

    def sig(self):
        act = sorted({"%s.%s" % it for it in self.items if it[1] != "local"})
        return "%s:%s:%s" % (self.mode, self.desig, "+".join(act) or "locals")

    def asm_shared(self):
        return SCRUB_S

    def proto(self, name):
        return "long %s(%s)" % (name, ", ".join("%s a%d" % (ctype(k), i) for i, k in enumerate(self.args)))

    def callee_c(self):
        n, L = self.n, []
        for i, (k, src) in enumerate(self.items):
            if src == "call":
                L.append("%s idk_%d_%d(%s x) { scrub(); return x; }" % (ctype(k), n, i, ctype(k)))
        L.append(self.proto("callee_%d" % n) + " {")
        for i, k in enumerate(self.args):
            for sfx, sk in leaves(k):
                L.append("  rec(%s);" % report_expr("a%d%s" % (i, sfx), sk))
        L.append("  ALIGNPROBE; flush(\"c\", %d);\n  return %dL;\n}" % (n, self.RET))
        if self.desig == "callptr":
            L.append("typedef long (*FT_%d)(%s);\nFT_%d getfp_%d(void) { scrub(); return callee_%d; }" % (n, ", ".join(ctype(k) for k in self.args), n, n, n))
        return "\n".join(L) + "\n"

    def caller_c(self):
        n, L, E = self.n, [], []
        L.append(self.proto("callee_%d" % n) + ";")
        L.append("typedef long (*FT_%d)(%s);" % (n, ", ".join(ctype(k) for k in self.args)))
        for i, (k, src) in enumerate(self.items):
            K = ctype(k)
            if src == "global":
                L.append("%s g_%d_%d;" % (K, n, i))
            elif src == "tls":         # alternately internal and external linkage: both are general-dynamic under -fPIC
                L.append("%s_Thread_local %s t_%d_%d;" % ("static " if i % 2 else "", K, n, i))
            elif src == "call":
                L.append("%s idk_%d_%d(%s);" % (K, n, i, K))
        if self.desig == "tlsptr":
            L.append("static _Thread_local FT_%d tfp_%d;" % (n, n))
        elif self.desig == "callptr":
            L.append("FT_%d getfp_%d(void);" % (n, n))
        L.append("void caller_%d(void) {" % n)
        for i, (k, src) in enumerate(self.items):
            K = ctype(k)
            L.append("  %s a%d;" % (K, i))
            for j, (sfx, sk) in enumerate(leaves(k)):
                L.append("  a%d%s = %s;" % (i, sfx, lit(sk, vnum(i, j))[0]))
            if src == "local":
                E.append("a%d" % i)
            elif src == "const":
                E.append(lit(KT[k], vnum(i, 0))[0])
            elif src == "global":
                L.append("  g_%d_%d = a%d;" % (n, i, i))
                E.append("g_%d_%d" % (n, i))
            elif src == "tls":
                L.append("  t_%d_%d = a%d;" % (n, i, i))
                E.append("t_%d_%d" % (n, i))
            elif src == "call":
                E.append("idk_%d_%d(a%d)" % (n, i, i))
            elif src == "arith":
                E.append("((a%d + vz) / vone << vz)" % i if k == "l" else "((a%d + vzd) * voned)" % i)
            elif src == "deref":
                L.append("  %s *p%d = &a%d;" % (K, i, i))
                E.append("*p%d" % i)
            elif src == "assign":
                L.append("  %s b%d;" % (K, i))
                E.append("(b%d = a%d)" % (i, i))
            else:
                raise KeyError(src)
        if self.desig == "direct":
            f = "callee_%d" % n
        elif self.desig == "ptr":
            L.append("  FT_%d fp = callee_%d;" % (n, n))
            f = "fp"
        elif self.desig == "tlsptr":
            L.append("  tfp_%d = callee_%d;" % (n, n))
            f = "tfp_%d" % n
        else:
            f = "getfp_%d()" % n
        L.append("  long r; SAVE_REGS;\n  r = %s(%s);\n  CHECK_REGS; rec(r); flush(\"r\", %d);\n}" % (f, ", ".join(E), n))
        return "\n".join(L) + "\n"

    def expected(self):
        c = []
        for i, k in enumerate(self.args):
            c += [lit(sk, vnum(i, j))[1] for j, (_, sk) in enumerate(leaves(k))]
        return {"c": c + [0], "r": [1, self.RET]}

    def describe(self, got, exp):
        return self.key()


# ------------------------------------------------------------------ narrow return values (NarrowRet.tla)
class NarrowCase:
    """all emitted vectors of one (type, place of the callee's definition, producer).  The caller consumes the value
    as a long; expected = the extension of the low bits by the type (Level A)."""
    def __init__(self, ty, place, prod, vecs):
        self.n, self.ty, self.place, self.prod = 0, ty, place, prod
        self.vecs = sorted({(v["v"], v["nv"], v["up"]) for v in vecs})
        self.args = [ty]
        self.w = 16 if ty in ("short", "ushort") else 8
        self.samefile = place.startswith("same")

    def key(self):
        return "narrowret:%s:%s:%s" % (self.place, self.prod, self.ty)

    def image(self, v, up):
        """the register an asm / foreign callee returns with: value in the low bits, the pattern in bits w..31, junk above"""
        hi = dict(zeros=0, ones=0xffffffff, junk=0x5a5a5a5a)[up] >> self.w << self.w & 0xffffffff
        return 0xa5a5a5a5 << 32 | hi | v

    def fname(self, k=None):
        return "nr_%d" % self.n + ("_%d" % k if k is not None else "")

    def params(self):
        T = INT_C[self.ty]
        return dict(conv="long", fwd="long", exch="%s, %s" % (T, T), asm="void", ref="void")[self.prod]

    def defs(self):
        """the callee definition(s), in C"""
        T, n = INT_C[self.ty], self.n
        st = "static NOINLINE " if self.place == "samestatic" else ""
        if self.prod == "conv":
            return "%s%s %s(long x) { return (%s)x; }\n" % (st, T, self.fname(), T)
        if self.prod == "fwd":
            return "%s%s %s(long x) { return nrg_%d(x); }\n" % (st, T, self.fname(), n)
        if self.prod == "exch":
            return "%s%s %s(%s o, %s nv) { static _Atomic %s obj; obj = o; return atomic_exchange(&obj, nv); }\n" % (st, T, self.fname(), T, T, T)
        if self.prod == "asm":       # the function returns from its asm statement (test/asm.c's idiom; gcc: a naked function)
            out = []
            for k, (v, _, up) in enumerate(self.vecs):
                out.append("#ifdef GCC_SIDE\n%s__attribute__((naked)) %s %s(void) { __asm__(\"movabs $%d, %%rax\\n\\tret\"); }\n#else\n"
                           "%s%s %s(void) { asm(\"movabs $%d, %%rax\\n\\tmov %%rbp, %%rsp\\n\\tpop %%rbp\\n\\tret\"); }\n#endif\n"
                           % (st.replace("NOINLINE ", ""), T, self.fname(k), self.image(v, up), st.replace("NOINLINE ", ""), T, self.fname(k), self.image(v, up)))
            return "".join(out)
        return ""                    # ref: assembly

    def protos(self):
        T = INT_C[self.ty]
        st = "static " if self.place == "samestatic" else ""
        names = [self.fname(k) for k in range(len(self.vecs))] if self.prod in ("asm", "ref") else [self.fname()]
        return "".join("%s%s %s(%s);\n" % (st, T, f, self.params()) for f in names)

    def asm_s(self):
        if self.prod != "ref":
            return ""
        return "".join(".text\n.globl %s\n.type %s, @function\n%s:\n  movabs $%d, %%rax\n  ret\n" % (self.fname(k), self.fname(k), self.fname(k), self.image(v, up))
                       for k, (v, _, up) in enumerate(self.vecs))

    def callee_c(self):
        T, n = INT_C[self.ty], self.n
        g = "%s nrg_%d(long x) { return (%s)x; }\n" % (T, n, T) if self.prod == "fwd" else ""      # always in the other file
        return g + ("" if self.samefile else self.defs())

    def arg(self, v, nv):
        if self.prod in ("conv", "fwd"):     # bits above the type's width are set (not for _Bool: conversion is != 0)
            return "%dL" % s64(v if self.ty == "bool" else (0x5a5a5a5a5a5a5a5a >> self.w << self.w | v))
        if self.prod == "exch":
            return "(%s)%d, (%s)%d" % (INT_C[self.ty], v, INT_C[self.ty], nv)
        return ""

    def caller_c(self):
        T, n = INT_C[self.ty], self.n
        L = [self.protos().rstrip("\n")]
        if self.prod == "fwd":
            L.append("%s nrg_%d(long);" % (T, n))
        if self.place == "samestatic":
            L.append(self.defs().rstrip("\n"))
        L.append("void caller_%d(void) {" % n)
        ptr = self.place.endswith("ptr")
        for k, (v, nv, up) in enumerate(self.vecs):
            f = self.fname(k if self.prod in ("asm", "ref") else None)
            if ptr:
                L.append("  { %s (*volatile fp)(%s) = %s; long r = fp(%s); rec(r); }" % (T, self.params(), f, self.arg(v, nv)))
            else:
                L.append("  { long r = %s(%s); rec(r); }" % (f, self.arg(v, nv)))
        L.append("  flush(\"r\", %d);\n}" % n)
        if self.samefile and self.place != "samestatic":      # external linkage, defined after the call
            L.append(self.defs().rstrip("\n"))
        return "\n".join(L) + "\n"

    def ext(self, v):
        if self.ty in INT_SIGNED and v >> (self.w - 1):
            return v - (1 << self.w)
        return v

    def expected(self):
        return {"r": [self.ext(v) for v, _, _ in self.vecs]}

    def describe(self, got, exp):
        for i, (g, e) in enumerate(zip(got + [None] * len(exp), exp)):
            if g != e:
                return "%s vector (value %d, new value %d, bits above: %s): consumed %s" % ((self.key(),) + self.vecs[i] + (g,))
        return self.key()


def judge_simple(ctx, case, results, family):
    """cases whose expectation the spec fixes completely: all three linkings with a chibicc side must match; gcc x gcc is the tie-break"""
    exp = case.expected()
    ctx.note_case(case.key())

    def bad(r):
        if r is None or r[0] != "ok":
            return "crash" if r is None or r[0] == "crash" else r[0]
        for tag in exp:
            if r[1].get(tag) != exp[tag]:
                return tag
        return None
    ref = results.get(("gcc", "gcc"))
    if bad(ref):
        ctx.oracle_disagreements += 1
        ctx.cov.setdefault("oracle_examples", [])
        if len(ctx.cov["oracle_examples"]) < 5:
            ctx.cov["oracle_examples"].append(dict(case=case.key(), got=str(ref)[:300], exp=str(exp)[:300]))
        return
    for l in LINKINGS[:3]:
        r = results.get(l)
        what = bad(r)
        if what:
            got = r[1].get(what, []) if r and r[0] == "ok" else []
            ctx.report("replay:%s>%s:%s:%s" % (l[0], l[1], family, case.sig() if hasattr(case, "sig") else case.key().split(":", 1)[1]),
                       "%s linked %s>%s: %s; expected %s got %s" % (case.key(), l[0], l[1], case.describe(got, exp.get(what, [])), str(exp)[:300], str(r)[:300]),
                       case=dict(kind=family, key=case.key(), linking="%s>%s" % l, expected=exp, got=str(r)[:1500]))
    ctx.cov["traces_validated_against_impl"] += 3


COMMON = r"""
int printf(const char *, ...);
int fflush(void *);
int atoi(const char *);
#include <stdarg.h>
#include <stdatomic.h>
#ifdef GCC_SIDE
#define NOINLINE __attribute__((noinline))
typedef float v4sf __attribute__((vector_size(16)));
#define ALIGNPROBE { volatile v4sf t_ = {1, 2, 3, 4}; (void)t_; rec((long)__builtin_frame_address(0) & 15); }
#else
#define NOINLINE
#define ALIGNPROBE rec(0)
#endif
void *pgalloc(long, int); void pgreset(void);
static long recbuf[96]; static int nrec;
static void rec(long v) { if (nrec < 96) recbuf[nrec++] = v; }
static void flush(const char *tag, int id) {
  printf("%s %d", tag, id);
  for (int i = 0; i < nrec; i++) printf(" %ld", recbuf[i]);
  printf("\n"); fflush(0); nrec = 0;
}
"""
CALLER_PRE = r"""
#ifdef GCC_SIDE
register long R_rbx asm("rbx"); register long R_r12 asm("r12"); register long R_r13 asm("r13");
register long R_r14 asm("r14"); register long R_r15 asm("r15");
static inline unsigned short get_cw_(void) { unsigned short c; __asm__ volatile("fnstcw %0" : "=m"(c)); return c; }
static inline unsigned get_mx_(void) { unsigned m; __asm__ volatile("stmxcsr %0" : "=m"(m)); return m & 0xffc0; }
static inline void set_cw_(unsigned short c) { __asm__ volatile("fldcw %0" : : "m"(c)); }
static inline void set_mx_(unsigned m) { unsigned a; __asm__ volatile("stmxcsr %0" : "=m"(a)); a = (a & ~0xffc0u) | m; __asm__ volatile("ldmxcsr %0" : : "m"(a)); }
#define RC_UP set_cw_((get_cw_() & ~0x0c00) | 0x0800)
#define RC_DFLT set_cw_(0x037f)
#define SAVE_REGS unsigned short cw0_ = get_cw_(); unsigned mx0_ = get_mx_(); long o1_ = R_rbx, o2_ = R_r12, o3_ = R_r13, o4_ = R_r14, o5_ = R_r15; \
  R_rbx = 0x1111111111111111; R_r12 = 0x2222222222222222; R_r13 = 0x3333333333333333; \
  R_r14 = 0x4444444444444444; R_r15 = 0x5555555555555555
#define CHECK_REGS rec(!(R_rbx == 0x1111111111111111 && R_r12 == 0x2222222222222222 && R_r13 == 0x3333333333333333 \
  && R_r14 == 0x4444444444444444 && R_r15 == 0x5555555555555555) ? 0 : (get_cw_() == cw0_ && get_mx_() == mx0_) ? 1 : 2); \
  set_cw_(cw0_); set_mx_(mx0_); \
  R_rbx = o1_; R_r12 = o2_; R_r13 = o3_; R_r14 = o4_; R_r15 = o5_
#else
#define SAVE_REGS
#define CHECK_REGS rec(1)
#define RC_UP
#define RC_DFLT
#endif
volatile long vv1 = 1000, vv2 = 2000, vv3 = 3000;
long id3(long, long, long);
extern volatile long dirtybase, vz, vone; extern volatile double vzd, voned;
void scrub(void);
"""
CALLEE_PRE = r"""
void *mmap(void *, unsigned long, int, int, int, long);
int mprotect(void *, unsigned long, int);
int munmap(void *, unsigned long);
static char *pgmap[64]; static int npg;
/* an object of n bytes at a page boundary: where = 1 its last byte is the last byte of a page and the page behind
   it is inaccessible; where = 2 its first byte is the first byte of a page and the page before it is inaccessible */
void *pgalloc(long n, int where) {
  char *m = mmap(0, 3 * 4096, 0, 0x22, -1, 0);          /* PROT_NONE, MAP_PRIVATE | MAP_ANONYMOUS */
  mprotect(m + 4096, 4096, 3);
  if (npg < 64) pgmap[npg++] = m;
  return where == 1 ? m + 8192 - n : m + 4096;
}
void pgreset(void) { while (npg) munmap(pgmap[--npg], 3 * 4096); }
volatile long dirtybase = 0x5a5a5a5a5a5a0000;
volatile long vz = 0, vone = 1; volatile double vzd = 0.0, voned = 1.0;
long id3(long a, long b, long c) { return a + b + c; }
void scrub(void);
"""
# every register a function need not preserve (psABI 3.2.1) is overwritten: a callee is free to do exactly this
SCRUB_S = (".text\n.globl scrub\n.type scrub, @function\nscrub:\n  movabs $0x6b6b6b6b6b6b6b6b, %rax\n"
           + "".join("  mov %%rax, %%%s\n" % r for r in ("rcx", "rdx", "rsi", "rdi", "r8", "r9", "r10", "r11"))
           + "".join("  movq %%rax, %%xmm%d\n" % i for i in range(16)) + "  ret\n")
STUB_C = "int cases_main(int, char **); int main(int argc, char **argv) { return cases_main(argc, argv); }\n"


def batch_sources(cases):
    td = typedefs()
    callers = COMMON + td + CALLER_PRE + "".join(c.caller_c() for c in cases)
    callers += "static void (*tab[])(void) = {%s};\n" % ", ".join("caller_%d" % c.n for c in cases)
    callers += "#ifndef MAIN_NAME\n#define MAIN_NAME main\n#endif\n"
    callers += "int MAIN_NAME(int argc, char **argv) { for (int i = argc > 1 ? atoi(argv[1]) : 0; i < %d; i++) tab[i](); return 0; }\n" % len(cases)
    callees = COMMON + td + CALLEE_PRE + "".join(c.callee_c() for c in cases)
    return callers, callees


LINKINGS = [("cc", "cc"), ("cc", "gcc"), ("gcc", "cc"), ("gcc", "gcc")]


def compile_one(tree, comp, src, obj, pic=False):
    if comp == "cc":
        cmd = [tree + "/chibicc", "-I" + tree + "/include", "-c", "-o", obj, src]
    else:
        cmd = ["gcc", "-O1", "-w", "-DGCC_SIDE", "-fno-omit-frame-pointer", "-c", "-o", obj, src]
    if pic:          # position-independent code for a shared object
        cmd[1:1] = ["-fPIC", "-DMAIN_NAME=cases_main"]
    p = vt.run_limited(cmd, timeout=300, mem_gb=4)      # chibicc, or gcc on generated text
    if p.returncode == -999:
        return "timeout"
    return None if p.returncode == 0 and os.path.exists(obj) else (p.stderr[-400:] or "rc=%d" % p.returncode)


def run_batch(ctx, tree, cases, d, pic=False):
    """-> {id(case): {linking: ("ok", {tag: [ints]}) | ("compile", side, msg) | ("crash", rc, partial)}}
    pic: both files are compiled with -fPIC and linked into ONE SHARED OBJECT (the linker relaxes nothing there:
    general-dynamic TLS accesses stay calls of __tls_get_addr, globals go through the GOT); a stub executable calls it."""
    os.makedirs(d, exist_ok=True)
    for i, c in enumerate(cases):
        c.n = i
    callers, callees = batch_sources(cases)
    open(d + "/callers.c", "w").write(callers)
    open(d + "/callees.c", "w").write(callees)
    extra = []
    asm = "".join(sorted({c.asm_shared() for c in cases if hasattr(c, "asm_shared")})) + "".join(c.asm_s() for c in cases if hasattr(c, "asm_s"))
    if asm:          # callees written directly in assembly (a callee flavour no available compiler emits)
        open(d + "/extra.s", "w").write(asm + '\n.section .note.GNU-stack,"",@progbits\n')
        p = vt.sh(["gcc", "-c", "-o", d + "/extra.o", d + "/extra.s"], timeout=60)
        if p.returncode:
            raise Infra("assembler rejects generated callee: " + p.stderr[-400:])
        extra = [d + "/extra.o"]
    err = {}
    for comp in ("cc", "gcc"):
        for f in ("callers", "callees"):
            e = compile_one(tree, comp, "%s/%s.c" % (d, f), "%s/%s.%s.o" % (d, f, comp), pic)
            if e:
                if comp == "gcc":
                    raise Infra("gcc rejects a generated file (%s/%s.c): %s" % (d, f, e))
                err[f] = e
    res = {id(c): {} for c in cases}
    if err and len(cases) > 1:                    # find the case(s) chibicc cannot compile
        h = len(cases) // 2
        res.update(run_batch(ctx, tree, cases[:h], d + "a", pic))
        res.update(run_batch(ctx, tree, cases[h:], d + "b", pic))
        return res
    if pic:
        open(d + "/stub.c", "w").write(STUB_C)
        p = vt.sh(["gcc", "-c", "-o", d + "/stub.o", d + "/stub.c"], timeout=60)
        if p.returncode:
            raise Infra("stub: " + p.stderr[-400:])
    for l in LINKINGS:
        bad = [f for f in err if (f == "callers" and l[0] == "cc") or (f == "callees" and l[1] == "cc")]
        if bad:
            res[id(cases[0])][l] = ("compile", bad[0], err[bad[0]])
            continue
        exe = "%s/t.%s.%s" % (d, l[0], l[1])
        objs = ["%s/callers.%s.o" % (d, l[0]), "%s/callees.%s.o" % (d, l[1])] + extra
        if pic:
            so = "%s/libt.%s.%s.so" % (d, l[0], l[1])
            p = vt.sh(["gcc", "-shared", "-o", so] + objs, timeout=120)
            if p.returncode:
                raise Infra("link (shared object) failed: " + p.stderr[-400:])
            p = vt.sh(["gcc", "-o", exe, d + "/stub.o", so, "-Wl,-rpath," + d], timeout=120)
        else:
            p = vt.sh(["gcc", "-no-pie", "-o", exe] + objs, timeout=120)
        if p.returncode:
            raise Infra("link failed: " + p.stderr[-400:])
        start = 0
        while start < len(cases):
            p = vt.run_limited([exe, str(start)], timeout=60, mem_gb=2, errors="replace")
            rc, out = p.returncode, p.stdout or ""
            got = {}
            for line in out.splitlines():
                f = line.split()
                if len(f) >= 2 and f[0] in ("c", "r", "w", "x") and f[1].isdigit():
                    try:
                        got.setdefault(int(f[1]), {})[f[0]] = [int(x) for x in f[2:]]
                    except ValueError:
                        got.setdefault(int(f[1]), {})[f[0]] = ["garbled"]
            last = start - 1
            for n in range(start, len(cases)):
                if n in got and "r" in got[n]:
                    res[id(cases[n])][l] = ("ok", got[n])
                    last = n
                else:
                    break
            if last + 1 >= len(cases):
                break
            res[id(cases[last + 1])][l] = ("crash", rc, got.get(last + 1, {}))      # died (or hung) inside this case
            start = last + 2
    return res


def run_cases(ctx, tree, cases, tag, size=120, pic=False):
    """compile/run all cases in batches; returns {id(case): {linking: result}}"""
    batches = [cases[i:i + size] for i in range(0, len(cases), size)]
    root = ctx.tmp("b-" + tag)
    allres = {}
    for r in vt.pmap(lambda t: run_batch(ctx, tree, list(t[1]), "%s/%d" % (root, t[0]), pic), list(enumerate(batches)), workers=6):
        allres.update(r)
    return allres


# ------------------------------------------------------------------ judging
def pick_class(classes, linking, prefer):
    order = dict(ccgcc=["caller-vs-psabi", "ret-callee", "vaforward"], gcccc=["callee-vs-psabi", "vaarg", "vastart", "ret-caller", "vaforward"],
                 cccc=["caller-vs-callee", "caller-push", "vaarg", "vastart"])["".join(linking)]
    for pre in prefer + order:
        for c in sorted(classes):
            if c.startswith(pre):
                return c
    return sorted(classes)[0]


def judge(ctx, case, results):
    exp = case.expected()
    b = case.b
    ref = results.get(("gcc", "gcc"))
    ctx.note_case(case.key(), nontrivial=len(case.args) >= 1)

    def diff(r):
        if r[0] != "ok":
            return r[0]
        for tag in ("c", "w", "x", "r"):
            if tag in exp and r[1].get(tag) != exp[tag]:
                return tag
        return None
    if ref is None or diff(ref):
        ctx.oracle_disagreements += 1          # the reference toolchain does not reproduce the spec's expectation
        ctx.cov.setdefault("oracle_examples", [])
        if len(ctx.cov["oracle_examples"]) < 5:
            ctx.cov["oracle_examples"].append(dict(case=case.key(), got=str(ref)[:300], exp=exp))
        return
    # which side of this behaviour the model still vouches for (a side that has deviated is not judged)
    cj, ej, fj = b.get("cj", True), b.get("ej", True), b.get("fj", True)
    side_ok = {("cc", "gcc"): cj, ("gcc", "cc"): ej and (fj or not case.fwd), ("cc", "cc"): cj and ej}
    predicted = set(b.get("adis", b.get("dis", []) + b.get("fdis", [])))
    if not case.fwd:
        predicted = {c for c in predicted if not c.startswith("vaforward")}
    rpred = set(b.get("rdis", []))
    zpred = sorted(c for c in predicted | rpred if c.endswith(":agg0"))
    upred = {c for c in predicted | rpred if c.endswith(":unaligned")}
    retoff = bool(b.get("retoff")) and bool(rpred)      # the return kind alone already takes both sides out (hidden pointer)
    fails = 0
    for l in LINKINGS[:3]:
        if case.fwd and l == ("cc", "gcc"):
            continue        # chibicc's walker on gcc's va_list: not modelled (see NOTES), not judged
        if case.same and l != ("cc", "cc"):
            continue        # one translation unit: caller and callee are both the callers' compiler's
        r = results.get(l)
        if r is None:
            raise Infra("no result for %s %s" % (case.key(), l))
        what = diff(r)
        if what is None:
            continue
        fails += 1
        ln = "%s>%s" % l + (":fwd" if case.fwd else "")       # (a same-translation-unit case is cc>cc; its key ends in :same)
        retbad = what == "r" and r[0] == "ok" and r[1].get("r", [])[1:-1] != exp["r"][1:-1]
        if what == "r" and r[0] == "ok" and r[1].get("r", [None])[:1] == [0]:
            cls = "callee-saved-register-clobbered"
        elif what == "r" and r[0] == "ok" and r[1].get("r", [None])[:1] == [2]:
            cls = "fp-control-state-changed"
        elif retoff:
            cls = pick_class(rpred, l, [])
        elif what == "x":
            cls = "ret-rax-not-hidden-pointer"
        elif what == "compile" and (zpred or has_zero(case)):
            # a zero-sized aggregate in the signature: while the zero-size finding is open the model predicts the
            # deviation (and the compiler in fact dies); otherwise the root cause is still named
            cls = zpred[0] if zpred else "compile:agg0"
        elif what == "compile" and upred and not side_ok[l]:
            # a packed aggregate whose unaligned field straddles the two eightbytes: while the finding is open the model
            # predicts the deviation, and the compiler in fact dies in the register-return paths (size asserts)
            cls = pick_class(upred, l, [])
        elif case.place and what == "crash" and (side_ok[l] or not predicted):
            # the only difference to the same case with its objects in the frame is where the objects live: an access
            # reached beyond (end) or before (start) the object of this site
            cls = "extent:%s:%s" % (case.place, case.pkind())
        elif retbad and rpred:
            cls = pick_class(rpred, l, [])
        elif side_ok[l] or not predicted:
            if retbad:
                cls = "unpredicted:return:" + case.ret
            elif what == "r":
                cls = "unpredicted:value-around-call:" + case.ctx
            elif what == "c" and r[0] == "ok" and r[1].get("c", [])[:-1] == exp["c"][:-1]:
                cls = "stack-misaligned-at-call"
            else:
                cls = "unpredicted:%s:%s" % (dict(c="args", w="va_list-forwarded", compile="compile", crash="crash").get(what, what),
                                             case.args[-1] if case.args else "-")
        else:
            pl = predicted if l == ("gcc", "cc") else ({c for c in predicted if not c.startswith("vaforward")} or predicted)
            cls = pick_class(pl, l, ["vaarg", "vastart", "vaforward"] if what == "w" else [])
        ctx.report("replay:%s:%s" % (ln, cls),
                   "%s linked %s: expected %s got %s" % (case.key(), ln, exp, str(r)[:400]),
                   case=dict(kind="sig", beh=b, ctx=case.ctx, fwd=case.fwd, probe=case.probe, place=case.place, same=case.same, linking=ln, expected=exp, got=str(r)[:2000]))
    if (predicted or rpred) and not fails:
        ctx.cov["predicted_but_passing"] = ctx.cov.get("predicted_but_passing", 0) + 1
    ctx.cov["traces_validated_against_impl"] += 1 if case.same else 3


# ------------------------------------------------------------------ run
# Each open finding stands for one pinned decider in the model: while the finding is open its classes are
# waived and the model transcribes the pinned code (Fix* = FALSE); once it is no longer open (status
# fixed / entry removed) the model transcribes the repaired code and nothing is waived for it.
FIX_FLAG = {"C06-packed-unaligned": "FixPacked", "C06-ret-load-overrun": "FixRetLoad", "C06-zero-size": "FixZero", "C06-ret-rax": "FixRetRax", "C06-vastart": "FixVaArea", "C06-align16": "FixAlign16",
            "C06-valist-layout": "FixVaStride", "D22": "FixVaArg", "C06-x87agg": "FixX87"}


def open_findings(ctx):
    # VERIF_FINDINGS_IGNORE=id,id is a development aid (try a proposed fix before known_findings.json changes)
    ign = set(x for x in os.environ.get("VERIF_FINDINGS_IGNORE", "").split(",") if x)
    if ign:
        ctx.findings = [f for f in ctx.findings if f["id"] not in ign or f.get("proposed")]   # a proposed replacement entry stays
    return {f["id"] for f in ctx.findings}


def waived_classes(ctx):
    w = set()
    for f in ctx.findings:
        w |= set(f.get("model_classes", []))
    return w


def tlc_run(ctx, cfgname, out=None, workers=4, **over):
    return ctx.tlc("abi", "SysV", sysv_cfg(ctx, cfgname, **over), env=dict(OUT=out or os.devnull), workers=workers, timeout=900, heap="4g")


def sysv_cfg(ctx, cfgname, **over):
    ids = open_findings(ctx)
    w = waived_classes(ctx)
    flags = {flag: fid not in ids for fid, flag in FIX_FLAG.items()}
    flags["FixVaArgLd"] = "vaarg:ldouble" not in w        # D22 has two halves; the long double half can be closed on its own
    flags["FixVaArg"] = not ({"vaarg:agg<=8", "vaarg:agg<=16"} & w)
    flags["Waived"] = "{" + ",".join('"%s"' % x for x in sorted(w)) + "}"
    flags.update(over)
    return ctx.cfg("abi", cfgname, **flags)


def check_model(ctx, res, cfgname):
    if not res.ok:
        p = ctx.replay_dir("tlc-SysV-" + cfgname)
        open(p + "/counterexample.txt", "w").write(res.trace_text())
        json.dump(dict(kind="tlc", cfg=cfgname), open(p + "/case.json", "w"))
        ctx.report("tlc:SysV:%s:%s" % (cfgname, res.violated), "chibicc's deciders disagree with the psABI or with each other (TLC counterexample)", p)


def is_dots(b):
    return b["nfix"] < len(b["args"])


def select(ctx, beh, stride, per_class=2):
    """seed-dependent subsample: behaviours with both sides judged, behaviours with one side judged (the
    other has an open finding), and a few examples per predicted class where nothing is judged"""
    both = [b for b in beh if b["cj"] and b["ej"]]
    one = [b for b in beh if b["cj"] != b["ej"]]
    none = [b for b in beh if not b["cj"] and not b["ej"]]
    sel = vt.subsample(both, ctx.seed, stride) + vt.subsample(one, ctx.seed, 2 * stride)
    seen = {}
    for b in vt.subsample(none + one, ctx.seed, max(1, stride // 8)):
        k = tuple(sorted(b["dis"] + b["fdis"] + (b["rdis"] if b.get("retoff") else [])))
        if b.get("retoff"):
            k = (b["ret"],) + k              # (every such return kind is replayed)
        if k and seen.get(k, 0) < per_class:
            seen[k] = seen.get(k, 0) + 1
            sel.append(b)
    return sel


def strata(ctx, beh, per=1):
    """Every kind of variadic fetch that the callee side is still judged on: (kind, register or overflow
    area, parity of the overflow area, gp / sse registers exhausted, first fetch after va_start), `per`
    representatives each chosen by the seed; replayed extended by the probe argument so that the cursor
    the fetch leaves behind is observed."""
    groups = {}
    for b in beh:
        if is_dots(b) and b["ej"]:
            k = (b["args"][-1], b["locs"][-1]["mem"], b["from"]["par"], b["from"]["gp"] >= 6, b["from"]["sse"] >= 8,
                 b["nfix"] == len(b["args"]) - 1, b["hidden"])
            groups.setdefault(k, []).append(b)
    # named parameters: every aggregate or scalar that meets exhausted or nearly exhausted registers
    for b in beh:
        if not is_dots(b) and (b["cj"] or b["ej"]) and b.get("probe"):
            f, k = b["from"], b["args"][-1]
            agg = k[0] in "SU"
            spill = b["locs"][-1]["mem"] and k not in ("S24", "See", "Sel", "Se", "Sc17", "Sddd", "e")   # did not fit: all-or-nothing
            if (agg and (spill or f["gp"] >= 5 or f["sse"] >= 7)) or (not agg and (f["gp"] >= 6 or f["sse"] >= 8)):
                key = ("named", k, b["locs"][-1]["mem"], min(f["gp"], 6), min(f["sse"], 8), b["hidden"], b["var"])
                groups.setdefault(key, []).append(b)
    out = []
    for k in sorted(groups, key=str):
        g = groups[k]
        for j in range(min(per, len(g))):
            out.append(g[(ctx.seed * 7919 + j * 104729) % len(g)])
    return out


def make_cases(beh, seed, probes=()):
    cases = []
    for i, b in enumerate(beh):
        var = is_dots(b)
        fwd = var and bool(b["fdis"] or (i + seed) % 3 == 0)
        cases.append(Case(0, b, CTXS[(i + seed) % len(CTXS)], fwd))
        if fwd and b["dis"]:
            cases.append(Case(0, b, "d0", False))
        if b.get("probe") and (i + seed) % 2 == 0:
            cases.append(Case(0, b, CTXS[(i + seed + 1) % len(CTXS)], False, probe=True))
    for i, b in enumerate(probes):
        cases.append(Case(0, b, CTXS[(i + seed) % len(CTXS)], False, probe=bool(b.get("probe"))))
    return cases


def placed(sigs, rets):
    """The placement family - every kind of the alphabet at every site, at both page boundaries, in every tier
    and for every seed: `f(k)` and `f(int, ... k)` with the caller's argument objects at the boundary, every
    return kind with the callee's returned object / the caller's destination at the boundary, and the object
    that receives `va_arg(ap, k)`."""
    out, seen = [], set()

    def add(b, places):
        for pl in places:
            k = (b["ret"], b["nfix"], tuple(b["args"]), pl)
            if k not in seen:
                seen.add(k)
                out.append(Case(0, b, "d0", False, False, pl))
    for b in sigs:
        if len(b["args"]) == 1 and b["nfix"] == 1:
            add(b, ["arg:end", "arg:start"])
        elif len(b["args"]) == 2 and b["nfix"] == 1 and b["args"][0] == "i":
            add(b, ["arg:end", "dst:end", "dst:start"])
    for b in rets:
        if b["args"] == ["i"] and b["nfix"] == 1 and b["ret"] != "v" and b["ret"] not in NARROW:
            add(b, ["ret:end", "ret:start", "dst:end"])
    return out


def same_tu(sigs, rets):
    """The placement of the callee's DEFINITION: every parameter kind as `f(k)`, every return
    kind as `k f(int)`, with caller and callee in one translation unit (the definition after / before the call) - "between
    two chibicc-compiled functions" also means two functions of one file.  Every tier, every seed."""
    out, seen = [], set()
    for b in sigs + rets:
        if len(b["args"]) == 1 and b["nfix"] == 1:
            k = (b["ret"], b["nfix"], tuple(b["args"]))
            if k not in seen:
                seen.add(k)
                out.append(Case(0, b, CTXS[len(out) % len(CTXS)], False, False, None, True))
    return out


def has_zero(case):
    return any(k in ZERO for k in case.args + [case.ret])


SMALL = (("ArgConv", 1000), ("RetSlot", 14), ("RetTemps", 9), ("FpCtl", 9), ("ArgEval", 800), ("NarrowRet", 2000))


def small_models(ctx, mods=None):
    """the small models: model check (+ sensitivity controls), return the emitted behaviours"""
    out = {}
    for mod, floor in SMALL:
        if mods is not None and mod not in mods:
            continue
        ctl = ctx.tlc("abi", mod, mod + "_pinned.cfg", env=dict(OUT=os.devnull), workers=2, timeout=300, count=False)
        if ctl.ok:
            raise Infra("sensitivity control failed: TLC accepts %s_pinned.cfg" % mod)
        o = os.path.join(ctx.scratch, mod + ".ndjson")
        cfg = mod + ".cfg"
        if mod == "ArgEval" and not ctx.quick:       # thorough: two non-local arguments per call
            cfg = ctx.cfg("abi", cfg, MaxActive=2)
        res = ctx.tlc("abi", mod, cfg, env=dict(OUT=o), workers=2, timeout=600)
        if not res.ok:
            p = ctx.replay_dir("tlc-" + mod)
            open(p + "/counterexample.txt", "w").write(res.trace_text())
            json.dump(dict(kind="tlc-small", module=mod), open(p + "/case.json", "w"))
            ctx.report("tlc:%s:%s" % (mod, res.violated), "%s: the caller-side design is refuted (TLC counterexample)" % mod, p)
        rows = vt.read_ndjson(o)
        uniq = {json.dumps(r, sort_keys=True): r for r in rows}
        out[mod] = [uniq[k] for k in sorted(uniq)]
        if res.ok and len(out[mod]) < floor:
            raise Infra("%s wrote only %d behaviours" % (mod, len(out[mod])))
    return out


def small_cases(sm):
    groups = {}
    for v in sm["ArgConv"]:
        groups.setdefault((v["from"], v["to"]), []).append(v)
    conv = [ConvCase(f, t, groups[(f, t)]) for (f, t) in sorted(groups)]
    slot = [SlotCase(b["shape"], b["flavour"], k) for b in sm["RetSlot"] for k in ("S24", "Sc17")]
    slot += [TempCase(b["shape"], b["cls"], b["flavour"], k) for b in sm["RetTemps"]
             for k in (("Sc17",) if b["cls"] == "mem" else ("Sc16", "Sc13", "Sc5", "Sc3"))]
    rows = {b["row"] for b in sm["FpCtl"]}
    tos = [t for t in ("char", "schar", "uchar", "short", "ushort", "int", "uint", "long", "ulong")
           if dict(char="i8", schar="i8", uchar="u8", short="i16", ushort="u16", int="i32", uint="u32", long="i64", ulong="u64")[t] in rows]
    slot += [FpCase(t) for t in tos]
    return conv, slot


def narrow_cases(sm):
    ng = {}
    for v in sm["NarrowRet"]:
        ng.setdefault((v["ty"], v["place"], v["prod"]), []).append(v)
    return [NarrowCase(t, pl, pr, ng[(t, pl, pr)]) for (t, pl, pr) in sorted(ng)]


def src_cases(ctx, sm):
    """ArgEval's behaviours: every signature with the plain designator, a seed-chosen part (thorough: all) of those
    with another designator form; -> (default code model, -fPIC shared object)"""
    rows = sorted(sm["ArgEval"], key=lambda b: json.dumps(b, sort_keys=True))
    direct = [b for b in rows if b["desig"] == "direct"]
    other = [b for b in rows if b["desig"] != "direct"]
    out = []
    for mode in ("exe", "pic"):          # (the stride is coprime to the number of designator forms)
        sel = [b for b in direct if b["mode"] == mode] + vt.subsample([b for b in other if b["mode"] == mode], ctx.seed, 5 if ctx.quick else 1)
        out.append([SrcCase(b) for b in sel])
    return out


def run(ctx):
    q = ctx.quick
    RAXPROBE[0] = "C06-ret-rax" not in open_findings(ctx)
    tree = ctx.build()
    ctx.phase("build")
    # sensitivity controls: the pinned deciders must be rejected (the configurations are written here, the runs
    # happen in the side thread, beside the allocator graph, together with the small models)
    ctls = []
    for flag in (["FixOffset", "FixRetLoad", "FixZero"] if q else ["FixOffset", "FixPhantom", "FixLE", "FixRetLoad", "FixZero"]):
        over = {"FixOffset": True, flag: False}
        if flag == "FixRetLoad":      # the second-eightbyte load of `return` reaches beyond a 12-byte object
            over.update(RetSel='{"Sfff"}', ParamSel='{"i"}', MaxLen=1, Waived="{}")
        if flag == "FixZero":         # a zero-sized argument is charged a register
            over.update(ParamSel='{"i","S0"}', MaxLen=2, Waived="{}")
        ctls.append((flag, sysv_cfg(ctx, "SysV_pinned.cfg", **over)))

    # Two side threads beside the allocator graph: the controls and the small models, and - as soon as a model has
    # written its behaviours - the compilation and execution of its replay family (judged later, in this thread).
    def side_a():
        for flag, cfg in ctls:
            ctl = ctx.tlc("abi", "SysV", cfg, env=dict(OUT=os.devnull), workers=2, timeout=900, heap="4g", count=False)
            if ctl.ok:
                raise Infra("sensitivity control failed: TLC accepts the deciders with %s = FALSE" % flag)
        sm = small_models(ctx, ("ArgConv", "RetSlot"))
        return sm

    def side_b():
        sm = small_models(ctx, ("ArgEval", "NarrowRet", "RetTemps", "FpCtl"))
        # source form of every argument and of the designator, in the default code model and as -fPIC code in a shared object
        sexe, spic = src_cases(ctx, sm)
        if len(sexe) < 100 or len(spic) < 100:
            raise Infra("argument-source family has only %d + %d cases" % (len(sexe), len(spic)))
        nar = narrow_cases(sm)
        r4 = run_cases(ctx, tree, sexe, "srcexe", size=60)
        r4.update(run_cases(ctx, tree, spic, "srcpic", size=60, pic=True))
        r4.update(run_cases(ctx, tree, nar, "narrow", size=33))
        return sm, sexe, spic, nar, r4
    import concurrent.futures
    pool = concurrent.futures.ThreadPoolExecutor(2)
    smfa, smfb = pool.submit(side_a), pool.submit(side_b)
    outs = {}
    # quick: the allocator graph over one kind per (class vector, size bucket, alignment); the kinds left out
    # (l p Sc3 Sff Sdd Sif Udl Sc16) are in every signature of length <= 2 below.  thorough: all 22.
    qkinds = '{"i","f","d","e","Si","Sd","Sfff","Sld","Sdl","Sll","S24","Se","See","Sel","S0"}'
    # quick signatures (length <= 2): every kind except the second and third representative of a root cause that
    # the packed / over-aligned kinds Pcf and Al already stand for (Pcd Pic Ad are return kinds of SysV_rets in every
    # tier and parameter kinds of the thorough tier)
    qsig = "{" + ",".join('"%s"' % k for k in KT if k not in NARROW and k != "v" and k not in ("Pcd", "Pic", "Ad")) + "}"
    # thorough signatures (length 3): without the near-duplicates of the zero-sized kinds (all kinds are in the length-2 signatures)
    tkinds = "{" + ",".join('"%s"' % k for k in KT if k not in NARROW and k != "v" and k not in ("U0", "S0w", "S0i", "Sd0")) + "}"
    for name, over in (("graph", dict(ParamSel=qkinds) if q else {}), ("sigs", dict(MaxLen=2, ParamSel=qsig) if q else dict(MaxLen=3, ParamSel=tkinds)), ("rets", {})):
        outs[name] = os.path.join(ctx.scratch, name + ".ndjson")
        res = tlc_run(ctx, "SysV_%s.cfg" % name, outs[name], workers=8, **over)
        check_model(ctx, res, name)
    sm = smfa.result()
    smb, sexe, spic, nar, r4 = smfb.result()
    sm.update(smb)
    pool.shutdown()
    ctx.phase("tlc")
    if ctx.violations:           # the design itself is refuted; the generated set is incomplete
        return ctx.finish(rule="model check only (a TLC counterexample stopped the run)", exhaustive=False)
    graph, sigs, rets = (vt.read_ndjson(outs[k]) for k in ("graph", "sigs", "rets"))
    if len(graph) < 1000 or len(sigs) < 100 or len(rets) < 50:
        raise Infra("generator wrote too little: %d/%d/%d" % (len(graph), len(sigs), len(rets)))
    for lst in (graph, sigs, rets):
        lst.sort(key=lambda b: json.dumps([b["ret"], b["nfix"], b["args"]]))
    beh = select(ctx, graph, 120 if q else 6) + select(ctx, sigs, 16 if q else 8) + select(ctx, rets, 3 if q else 1)
    probes = strata(ctx, graph, 1 if q else 4) + strata(ctx, sigs, 1 if q else 2)
    cases = make_cases(beh, ctx.seed, probes)
    pcases = placed(sigs, rets)
    if len(pcases) < 200:
        raise Infra("placement family has only %d cases" % len(pcases))
    cases += pcases
    scases = same_tu(sigs, rets)
    if len(scases) < 60:
        raise Infra("same-translation-unit family has only %d cases" % len(scases))
    cases += scases
    b0 = beh[len(beh) // 2]
    ctx.sample(dict(kind="allocator-graph transition", signature=Case(0, b0).key(), psabi_locations=b0["locs"], al=b0["al"],
                    return_in=b0["rloc"], predicted_disagreements=b0["dis"]))
    # while the zero-size finding is open the compiler dies on those signatures: they get small batches of their own,
    # so that the batches of all other cases are not bisected
    zopen = "C06-zero-size" in open_findings(ctx)
    popen = "C06-packed-unaligned" in open_findings(ctx)     # (likewise: returning a packed {char, double} kills the compiler)

    def own(c):
        return (zopen and has_zero(c)) or (popen and c.ret in STRADDLE)
    zc = [c for c in cases if own(c)]
    results = run_cases(ctx, tree, [c for c in cases if not own(c)], "main")
    results.update(run_cases(ctx, tree, zc, "zero", size=6))
    for c in cases:
        judge(ctx, c, results.get(id(c), {}))
    ctx.sample(dict(kind="object at a page boundary", case=pcases[len(pcases) // 3].key(), expected=pcases[len(pcases) // 3].expected()))
    # integer argument conversions (every pair of the 10 integer types x boundary values, register and stack)
    # and the return slot of MEMORY-class values (every call shape x callee flavour)
    conv, slot = small_cases(sm)
    r2 = run_cases(ctx, tree, conv, "conv", size=25)
    for c in conv:
        judge_simple(ctx, c, r2.get(id(c), {}), "argconv")
    r3 = run_cases(ctx, tree, slot, "slot", size=28)
    for c in slot:
        judge_simple(ctx, c, r3.get(id(c), {}), c.key().split(":", 1)[0])
    for c in sexe + spic:
        judge_simple(ctx, c, r4.get(id(c), {}), "argsrc")
    for c in nar:
        judge_simple(ctx, c, r4.get(id(c), {}), "narrowret")
    ctx.sample(dict(kind="narrow return value", case=nar[len(nar) // 2].key(), vectors=len(nar[len(nar) // 2].vecs)))
    ctx.sample(dict(kind="argument source forms", case=spic[len(spic) // 2].key(), expected=spic[len(spic) // 2].expected()))
    ctx.sample(dict(kind="argument conversion", pair=conv[len(conv) // 2].key(), values=len(conv[0].vals), expected=conv[len(conv) // 2].expected()["r"][:6]))
    ctx.sample(dict(kind="return slot", case=slot[0].key(), expected=slot[0].expected()))
    ncases = len(cases) + len(conv) + len(slot) + len(sexe) + len(spic) + len(nar)
    ctx.phase("replay")
    if ctx.oracle_disagreements > max(3, ncases // 50):
        raise Infra("gcc x gcc does not reproduce the expectation on %d of %d cases: the generator is broken (%s)"
                    % (ctx.oracle_disagreements, len(cases), str(ctx.cov.get("oracle_examples", [])[:1])[:600]))
    ctx.assumptions += [
        "Level I (SysV.tla) is a hand transcription of codegen.c / stdarg.h; the four-way linking judges the real code",
        "the C rendering of the kind alphabet (harness/c06.py KT) mirrors SysV.tla KindSeq; gcc x gcc linking validates each generated case",
        "after a transition with an open-finding disagreement only the side that did not deviate is explored and judged further (with gcc on the other side)",
        "%al, the exact register/stack location and `rax = hidden pointer` are checked in the model; replay observes them only through values received"]
    return ctx.finish(
        rule="case = one TLC-emitted signature (allocator-graph transition from the shortest history, every signature of length <= MaxLen, every return kind) x call context (expression depth 0..3 / nested call / forwarded va_list), run in 3 linkings against the gcc x gcc reference; non-trivial = at least one argument; distinct = distinct (signature, context)",
        exhaustive=not q,
        extra=dict(graph_transitions=len(graph), signatures=len(sigs), return_kinds=len(rets), cases_replayed=len(cases), fetch_strata_probed=len(probes),
                   placed_at_page_boundary=len(pcases), same_translation_unit=len(scases)))


def replay(ctx, path):
    c = json.load(open(os.path.join(path, "case.json")))
    c = c.get("case") or c
    if c.get("kind") in ("argconv", "retslot", "rettemps", "fpctl", "narrowret", "argsrc", "tlc-small"):
        sm = small_models(ctx)
        if c["kind"] != "tlc-small":
            tree = ctx.build()
            conv, slot = small_cases(sm)
            sel = [x for x in conv + slot + narrow_cases(sm) + [SrcCase(b) for b in sm["ArgEval"]] if x.key() == c["key"]]
            rr = run_cases(ctx, tree, sel, "replay", pic=bool(sel) and getattr(sel[0], "mode", "") == "pic")
            for x in sel:
                judge_simple(ctx, x, rr.get(id(x), {}), c["kind"])
    elif c.get("kind") == "tlc":
        res = tlc_run(ctx, "SysV_%s.cfg" % c["cfg"])
        check_model(ctx, res, c["cfg"])
    else:
        tree = ctx.build()
        RAXPROBE[0] = "C06-ret-rax" not in open_findings(ctx)
        case = Case(0, c["beh"], c.get("ctx", "d0"), c.get("fwd", False), c.get("probe", False), c.get("place"), c.get("same", False))
        results = run_cases(ctx, tree, [case], "replay")
        judge(ctx, case, results.get(id(case), {}))
    return ctx.finish(rule="replay of one recorded case")
