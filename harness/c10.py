"""C10 — conditional inclusion and #include resolution select exactly the right text.

1. TLC, exhaustive:
   * tla/pp/CondIncl.tla — chibicc's cond_incl list + skip scanners + skip_line (Level I)
     select the same text and leave the same macro table as the 6.10.1 group stack
     (Level A) for every directive sequence of any length with nesting <= MaxDepth; the
     directives that take no part in the selection (#line, #pragma, the null directive, and
     #error in skipped groups) are lines of the alphabet too and change nothing in any state.
   * tla/pp/Include.tla — the include machinery with chibicc's shortcuts (file-name cache,
     #include_next index, include-guard memo, #pragma once table) produces the same token
     stream as plain textual inclusion by search order, for every scenario of a closed
     family of file trees x search lists x including programs.
   Sensitivity controls: the pinned (pre-fix) variants of both Level I models must be rejected.
2. Generate -> replay: every transition of CondIncl's state graph (+ one-line extensions)
   becomes a source file; every Include scenario becomes a real directory tree + command
   line; `chibicc -E` of the tree under test must print Level A's token sequence.
   #if arithmetic: tla/pp/IfExpr.tla enumerates a typed expression family (intmax_t /
   uintmax_t), a hand-checked table covers the 64-bit boundaries, and the family of
   identifiers SPELLED LIKE KEYWORDS (6.10.1p4: they are 0 like any other identifier, macros
   if defined, and there are no casts) puts every keyword spelling in every operand position.
3. Trace validation (when the tree has hook H2): directive events of real runs are checked
   against tla/pp/CondTrace.tla.
"""
import glob, json, os, re, shutil, subprocess
import vt
from vt import Infra

W = 6          # TLC workers


# ----------------------------------------------------------------- utilities
def toks_of(text):
    """token sequence of -E output: whitespace separated words of non-marker lines"""
    out = []
    for l in text.splitlines():
        if l.startswith("#"):
            continue
        out += l.split()
    return out


def run_E(cc, argv, cwd, timeout=30, env=None):
    """chibicc -E under vt.run_limited: a preprocessor run on these tiny inputs needs milliseconds of CPU, so a run
    that burns 3 s of CPU time or 1 GB (runaway #include recursion) is killed and counts as a failed run,
    independent of machine load; a wall timeout is retried once and is then infrastructure trouble"""
    for tmo in (timeout, 10 * timeout):
        p = vt.run_limited([cc, "-E"] + argv, timeout=tmo, mem_gb=1, cpu_s=3, cwd=cwd, env=env, errors="replace")
        if p.returncode != -999:
            return p.returncode, p.stdout, p.stderr
    raise Infra("chibicc -E %s did not finish within %ds" % (" ".join(argv)[-200:], 10 * timeout))


CONFIRMED = {}      # sig -> number of cases in which gcc sided with the specification


def settled(sig):
    return CONFIRMED.get(sig, 0) >= 3


def gcc_E(argv, cwd):
    p = subprocess.run(["cc", "-E", "-P", "-w"] + argv, cwd=cwd, capture_output=True, text=True, timeout=180)
    return p.returncode, toks_of(p.stdout)



# ------------------------------------------------- 4. trace validation (H2)
TR = dict(cond=[], inc=[], procs=0, on=False, every=1)     # collected event streams of this run


def has_hook(tree):
    return '\\"e\\":\\"cond\\"' in open(tree + "/preprocess.c").read()


def trace_env(tf):
    return dict(os.environ, CHIBICC_VERIF_TRACE=tf)


def ingest_trace(tf, cwd, label):
    """H2 (+H1 for guard macros) events of one trace file -> TR; one 'reset' per process.  The harness adds the
    file-system facts (which candidates exist) that the include rules are judged against."""
    rows = vt.read_ndjson(tf)
    try:
        os.unlink(tf)
    except OSError:
        pass
    bypid = {}
    for r in rows:
        bypid.setdefault(r.get("pid"), []).append(r)

    def ex(path):
        return 1 if os.path.isfile(path if os.path.isabs(path) else os.path.join(cwd, path)) else 0
    for pid in sorted(bypid, key=str):
        rs = sorted(bypid[pid], key=lambda r: r["seq"])
        if not any(r.get("e") in ("cond", "inc") for r in rs):
            continue
        mmap = [r["m"] for r in rs if r.get("e") == "mapname" and r.get("name") == "macros"]
        dirs = [r["dir"] for r in sorted((r for r in rs if r.get("e") == "incpath"), key=lambda r: r["i"])]
        guards = {r["macro"] for r in rs if r.get("e") == "guard"}
        cond, inc = [dict(e="reset", src=label)], [dict(e="reset", src=label)]
        for r in rs:
            e = r.get("e")
            if e == "cond":
                cond.append(dict(e="cond", d=r["d"], file=r["file"], line=r["line"], val=r["val"], taken=r["taken"], sk=r["sk"], depth=r["depth"]))
            elif e == "inc":
                ldir = os.path.dirname(r["from"]) or "."
                inc.append(dict(e="inc", form=r["form"], name=r["name"], resolved=r["resolved"], idx=r["idx"], skipped=r["skipped"],
                                **{"from": r["from"]}, ldir=ldir, dirs=dirs, exl=ex(ldir + "/" + r["name"]),
                                ex=[ex(x + "/" + r["name"]) for x in dirs]))
            elif e == "once":
                inc.append(dict(e="once", file=r["file"]))
            elif e == "guard":
                inc.append(dict(e="guard", file=r["file"], macro=r["macro"]))
            elif e == "hm" and mmap and r["m"] == mmap[0] and r["k"] in guards and r["op"] in ("put", "del"):
                inc.append(dict(e="def" if r["op"] == "put" else "undef", k=r["k"]))
        TR["cond"] += cond
        if len(inc) > 1:
            TR["inc"] += inc
        TR["procs"] += 1


def validate_stream(ctx, module, evs, label):
    """TLC checks the event stream against tla/pp/<module>.tla; returns True iff accepted"""
    tf = os.path.join(ctx.scratch, "trace-%s.ndjson" % label)
    vt.write_ndjson(tf, evs)
    res = ctx.tlc("pp", module, module + ".cfg", env=dict(TRACE=tf), workers=1, timeout=1500)
    if res.ok and res.depth == len(evs) + 1:
        return True, None, tf
    res2 = ctx.tlc("pp", module, module + ".cfg", env=dict(TRACE=tf), workers=1, timeout=1500, count=False)   # a rejection must repeat
    if res2.depth != res.depth or res2.ok != res.ok:
        raise Infra("trace validation not reproducible (%s: %d vs %d)" % (module, res.depth, res2.depth))
    if not res.ok and not res.violated:
        raise Infra("%s failed without a verdict: %s" % (module, res.trace_text()[:500]))
    return False, res.depth - 1, tf


CTL_COND = [dict(e="reset"), dict(e="cond", d="if", file="f.c", line=1, val=1, taken=1, sk=0, depth=1),
            dict(e="cond", d="else", file="f.c", line=3, val=-1, taken=1, sk=0, depth=1),      # #else taken after a taken #if
            dict(e="cond", d="endif", file="f.c", line=5, val=-1, taken=0, sk=0, depth=0), dict(e="reset")]
CTL_INC = [dict(e="reset"), dict(e="inc", form="angle", name="n.h", resolved="b/n.h", idx=1, skipped="none", ldir=".", dirs=["a", "b"],
                                 exl=0, ex=[1, 1], **{"from": "m.c"})]                          # not the first directory holding n.h


def submit_trace_controls(ctx, pool):
    return [pool.submit(validate_stream, ctx, "CondTrace", CTL_COND, "ctl-cond"),
            pool.submit(validate_stream, ctx, "IncludeTrace", CTL_INC, "ctl-inc")]


def record_sources(ctx, tree):
    """the repository's own tests (and, thorough, the compiler's sources) through -E with tracing"""
    srcs = sorted(glob.glob(tree + "/test/*.c"))
    srcs = vt.subsample(srcs, ctx.seed, 8) if ctx.quick else srcs + sorted(glob.glob(tree + "/*.c"))
    d = ctx.tmp("srctr")

    def one(src):
        tf = "%s/%s.trace" % (d, os.path.basename(src))
        p = vt.run_limited([tree + "/chibicc", "-E", "-Itest", "-Iinclude", "-o", "/dev/null", src], timeout=300, mem_gb=4, cpu_s=60,
                           cwd=tree, env=trace_env(tf), errors="replace")
        if p.returncode == 0 and os.path.exists(tf):      # an aborted run legitimately leaves sections open
            ingest_trace(tf, tree, os.path.basename(src))
            return 1
        return 0
    return sum(vt.pmap(one, srcs, workers=8))


def finish_traces(ctx, tree, pool, ctl):
    out = dict(trace_hook="H2 present")
    n_src = record_sources(ctx, tree)
    jobs = []
    for module, key in (("CondTrace", "cond"), ("IncludeTrace", "inc")):
        evs = TR[key] + [dict(e="reset", src="end")]
        if len(evs) < 50:
            raise Infra("only %d %s events recorded although the hook is present" % (len(evs), key))
        jobs.append((module, key, evs, pool.submit(validate_stream, ctx, module, evs, key)))
    for module, key, evs, fut in jobs:
        ok, at, tf = fut.result()
        if not ok:
            bad = evs[at] if at is not None and at < len(evs) else None
            src = next((e.get("src") for e in reversed(evs[:(at or 0) + 1]) if e.get("e") == "reset"), "?")
            p = ctx.replay_dir("trace-" + key)
            os.replace(tf, p + "/trace.ndjson")
            json.dump(dict(kind="trace", module=module, matched=at, rejected_event=bad, source=src), open(p + "/case.json", "w"), indent=1)
            if key == "cond":
                sig = "trace:cond:%s" % (bad or {}).get("d", "end-of-trace")
            else:
                sig = "trace:inc:%s:%s" % ((bad or {}).get("form", (bad or {}).get("e", "end")), (bad or {}).get("skipped", "-"))
            ctx.report(sig, "event %s of %d (process %s) is not a step of Level A: %s" % (at, len(evs), src, bad), p)
        out["trace_%s_events" % key] = len(evs)
    for fut, name in zip(ctl, ("#else taken after a taken #if", "second directory chosen although the first holds the file")):
        if fut.result()[0]:
            raise Infra("sensitivity control failed: trace spec accepts a doctored event (%s)" % name)
    ctx.cov["traces_validated_against_impl"] += TR["procs"]
    out["trace_processes"] = TR["procs"]
    out["trace_sources"] = n_src
    return out


# ------------------------------------------------------- 1. conditional part
COND_TXT = {"0": "0", "1": "1", "X": "X", "DX": "defined(X)", "NDX": "!defined X"}
# the directives that take no part in the selection (CondIncl.tla: Neutral); #error only occurs in skipped groups
NEUTRAL = {"line": "#line 7000", "pragma": "#pragma c10 neutral", "null": "#", "error": "#error not reached"}


def cond_line(l, pos):
    k, a, j = l["k"], l["a"], l["j"]
    junk = " J%d" % pos if j else ""
    if k in ("if", "elif"):
        return "#%s %s" % (k, COND_TXT[a])
    if k in ("ifdef", "ifndef", "undef"):
        return "#%s X%s" % (k, junk)
    if k in ("else", "endif"):
        return "#%s%s" % (k, junk)
    if k == "def":
        return "#define X %s" % a
    if k in NEUTRAL:
        return NEUTRAL[k]
    return "T%d" % pos


def cond_case_text(lines, depth):
    txt = [cond_line(l, i + 1) for i, l in enumerate(lines)]
    txt += ["#endif"] * depth
    txt += ["#ifdef X", "MX X", "#else", "MX u", "#endif", "#undef X"]
    return txt


def cond_cases(beh, seed, stride_nx):
    """every transition, and a subsample of its one-line extensions"""
    cases = []
    n = 0
    for b in beh:
        cases.append(dict(lines=b["lines"], depth=b["depth"], exp=b["out"] + ["MX", b["mac"]]))
        for x in b["nx"]:
            n += 1
            if stride_nx > 1 and (n * 7919 + seed) % stride_nx:
                continue
            cases.append(dict(lines=b["lines"] + [x["l"]], depth=x["depth"], exp=b["out"] + x["out"] + ["MX", x["mac"]]))
    return cases


def cond_sig(c, got):
    exp = c["exp"]
    extra = [t for t in got if t not in exp]
    if extra and all(t.startswith("J") for t in extra) and [t for t in got if not t.startswith("J")] == exp:
        kinds = sorted({c["lines"][int(t[1:]) - 1]["k"] for t in extra})
        return "cond:trailing-tokens-leak:" + "+".join(kinds)
    if got[-2:-1] == ["MX"] and exp[:-2] == got[:-2]:
        return "cond:macro-table"
    return "cond:wrong-group"


def replay_cond(ctx, tree, cases, batch=150):
    d = ctx.tmp("cond")
    cc = tree + "/chibicc"

    def render(idx):
        txt = []
        for i in idx:
            txt.append("CASE %d" % i)
            txt += cond_case_text(cases[i]["lines"], cases[i]["depth"])
        return "\n".join(txt) + "\nCASE end\n"

    def split(tokens):
        res, cur = {}, None
        for t, nxt in zip(tokens, tokens[1:] + [""]):
            if t == "CASE":
                cur = "hdr"
                continue
            if cur == "hdr":
                cur = t
                res[cur] = []
                continue
            if cur is not None:
                res[cur].append(t)
        return res

    def run_batch(idx, top=False):
        f = "%s/b%d.c" % (d, idx[0])
        open(f, "w").write(render(idx))
        tf = f + ".trace" if (top and TR["on"] and (idx[0] // batch) % TR["every"] == 0) else None
        rc, out, err = run_E(cc, [f], d, env=trace_env(tf) if tf else None)
        if tf and rc == 0 and os.path.exists(tf):
            ingest_trace(tf, d, "cond-batch-%d" % idx[0])
        os.unlink(f)
        if rc == 0:
            r = split(toks_of(out))
            if "end" in r and all(str(i) in r for i in idx):
                return [(i, 0, r[str(i)], "") for i in idx]
        if len(idx) == 1:
            return [(idx[0], rc, split(toks_of(out)).get(str(idx[0]), []), err[-300:])]
        h = len(idx) // 2
        return run_batch(idx[:h]) + run_batch(idx[h:])

    chunks = [list(range(j, min(j + batch, len(cases)))) for j in range(0, len(cases), batch)]
    for res in vt.pmap(lambda ix: run_batch(ix, True), chunks):
        for i, rc, got, err in res:
            c = cases[i]
            key = "cond:" + "|".join(cond_line(l, 0) for l in c["lines"])
            ctx.note_case(key, nontrivial=any(l["k"] in ("if", "ifdef", "ifndef") for l in c["lines"]))
            if rc == 0 and got == c["exp"]:
                continue
            text = "\n".join(cond_case_text(c["lines"], c["depth"])) + "\n"
            if rc != 0:
                # root-cause class: the neutral directive kinds met while a conditional is open + the diagnostic
                depth, inside = 0, set()
                for l in c["lines"]:
                    if l["k"] in ("if", "ifdef", "ifndef"):
                        depth += 1
                    elif l["k"] == "endif":
                        depth -= 1
                    elif l["k"] in NEUTRAL and depth > 0:
                        inside.add(l["k"])
                msgs = re.findall(r"\^ (.*)", err)          # the last one is the error (warnings such as "extra token" precede it)
                sig = "cond:rejected:%s:%s" % ("+".join(sorted(inside)) + "-in-group" if inside else "", (msgs[-1] if msgs else "no message").strip()[:60])
                what = "chibicc -E rc=%s: %s" % (rc, err)
            else:
                sig, what = cond_sig(c, got), "expected %s got %s" % (c["exp"], got)
            # tie-break: is the specification right about this input?  (not repeated once a class is settled)
            if not settled(sig):
                open(d + "/g%d.c" % i, "w").write(text)
                grc, gg = gcc_E([d + "/g%d.c" % i], d)
                os.unlink(d + "/g%d.c" % i)
                if grc != 0 or gg != c["exp"]:
                    ctx.oracle_disagreements += 1
                    continue
                CONFIRMED[sig] = CONFIRMED.get(sig, 0) + 1
            ctx.report(sig, "directive sequence\n%s%s" % (text, what), case=dict(kind="cond", case=c, text=text, got=got))
    ctx.cov["traces_validated_against_impl"] += len(cases)


def submit_cond(ctx, pool):
    q = ctx.quick
    out = os.path.join(ctx.scratch, "cond.ndjson")
    c1 = ctx.cfg("pp", "CondIncl_mc.cfg", MaxDepth=3 if q else 5)
    c2 = ctx.cfg("pp", "CondIncl_mc.cfg", MaxDepth=2, FixSkipLine=False)
    c4 = ctx.cfg("pp", "CondIncl_mc.cfg", MaxDepth=2, FixLineInGroup=False)
    c3 = ctx.cfg("pp", "CondIncl_gen.cfg", MaxDepth=3)      # depth 3 is needed to reach the scanner inside the scanner (skip_cond_incl2 recursion)
    return dict(out=out,
                mc=pool.submit(ctx.tlc_expect_ok, "pp", "CondIncl", c1, "cond_incl/skip scanner design does not refine 6.10.1", workers=2),
                ctl=pool.submit(ctx.tlc, "pp", "CondIncl", c2, workers=1, count=False),
                ctl2=pool.submit(ctx.tlc, "pp", "CondIncl", c4, workers=1, count=False),
                gen=pool.submit(ctx.tlc, "pp", "CondIncl", c3, env=dict(OUT=out), workers=3))


def finish_cond(ctx, tree, job):
    q = ctx.quick
    g = job["gen"].result()
    if not g.ok:
        raise Infra("CondIncl generation run failed: %s" % g.trace_text()[:1000])
    beh = vt.read_ndjson(job["out"])
    if len(beh) < 1000:
        raise Infra("CondIncl generator wrote only %d behaviours" % len(beh))
    beh.sort(key=lambda b: json.dumps(b["lines"]))
    cases = cond_cases(beh, ctx.seed, 16 if q else 1)
    mid = cases[len(cases) // 2]
    ctx.sample(dict(kind="directive sequence", text=cond_case_text(mid["lines"], mid["depth"]), expected_tokens=mid["exp"]))
    replay_cond(ctx, tree, cases)
    job["mc"].result()
    if job["ctl"].result().ok:
        raise Infra("sensitivity control failed: TLC accepts the inverted skip_line")
    if job["ctl2"].result().ok:
        raise Infra("sensitivity control failed: TLC accepts a read_line_marker that rejects #line inside an open conditional")
    return dict(cond_transitions=len(beh), cond_cases_replayed=len(cases))


# ---------------------------------------------------------- 2. include part
FAMS = [("R1", 3), ("R2", 2), ("C", 2), ("M", 2), ("G", 1), ("P", 1)]


def incl_materialise(b, cdir, tree):
    """real directory tree + command line of one Include.tla scenario"""
    nopt = b["nopt"]
    sysd = nopt + 1

    def dpath(d):
        return cdir + "/bin/include" if d == sysd else "%s/d%d" % (cdir, d)
    for d in range(nopt + 1):
        os.makedirs(dpath(d), exist_ok=True)
    os.makedirs(dpath(sysd), exist_ok=True)
    os.symlink(tree + "/chibicc", cdir + "/bin/chibicc")
    for f in b["files"]:
        open("%s/%s.h" % (dpath(f["d"]), f["n"]), "w").write("\n".join(f["text"]) + "\n")
    open(cdir + "/d0/main.c", "w").write("\n".join(b["main"]) + "\n")
    argv, gargv = [], ["-nostdinc", "-isystem", dpath(sysd)]
    for i, k in enumerate(b["kinds"]):
        o = ["-I" + dpath(i + 1)] if k == "I" else ["-idirafter", dpath(i + 1)]
        argv += o
        gargv += o
    for o in b["pre"]:
        x = {"D": ["-D" + o[1]], "U": ["-U" + o[1]], "inc": ["-include", o[1] + ".h"],
             "DI": ["-DINC_%s=%s" % (o[1], '"%s.h"' % o[1] if o[-1] == "Q" else "<%s.h>" % o[1])]}[o[0]]     # the macro of a computed #include
        argv += x
        gargv += x
    return argv + [cdir + "/d0/main.c"], gargv + [cdir + "/d0/main.c"]


def incl_sig(b, rc, err, got):
    txt = " ".join(" ".join(f["text"]) for f in b["files"])
    feats = [b["fam"], b["shape"]]
    if "include_next" in txt:
        feats.append("next")
    if "A" in b["kinds"]:
        feats.append("idirafter")
    if rc != 0:
        why = "not-found" if "cannot open file" in err or "No such file" in err else ("timeout" if rc == -99 else "rejected")
    else:
        why = "lost-text" if len(got) < len(b["exp"]) else ("extra-text" if len(got) > len(b["exp"]) else "wrong-file")
    return "incl:%s:%s" % (why, ":".join(feats))


def replay_incl(ctx, tree, behs, oracle_only=False):
    root = ctx.tmp("incl")
    bad = []

    def one(t):
        i, b = t
        cdir = "%s/c%d" % (root, i)
        os.makedirs(cdir)
        argv, gargv = incl_materialise(b, cdir, tree)
        if oracle_only:
            grc, gg = gcc_E(gargv, cdir + "/d0")
            shutil.rmtree(cdir, ignore_errors=True)
            return i, grc, gg, "", None
        tf = cdir + "/trace" if (TR["on"] and i % TR["every"] == 0) else None
        rc, out, err = run_E(cdir + "/bin/chibicc", argv, cdir + "/d0", env=trace_env(tf) if tf else None)
        got = toks_of(out)
        if tf and rc == 0 and os.path.exists(tf):
            ingest_trace(tf, cdir + "/d0", "incl-%s-%d" % (b["fam"], i))
        g = None
        if (rc != 0 or got != b["exp"]) and not settled(incl_sig(b, rc, err, got)):
            g = gcc_E(gargv, cdir + "/d0")
        shutil.rmtree(cdir, ignore_errors=True)
        return i, rc, got, err[-400:], g

    for i, rc, got, err, g in vt.pmap(one, list(enumerate(behs))):
        b = behs[i]
        if oracle_only:
            if rc != 0 or got != b["exp"]:
                bad.append((b, rc, got))
            continue
        ctx.note_case("incl:%s:%s:%s:%s:%s" % (b["fam"], b["kinds"], b["pre"], [(f["d"], f["n"]) for f in b["files"]], b["main"]) + b["shape"],
                      nontrivial=len(b["exp"]) > 1)
        if rc == 0 and got == b["exp"]:
            continue
        sig = incl_sig(b, rc, err, got)
        if g is not None:
            if g[0] != 0 or g[1] != b["exp"]:
                ctx.oracle_disagreements += 1
                continue
            CONFIRMED[sig] = CONFIRMED.get(sig, 0) + 1
        ctx.report(sig,
                   "include scenario %s kinds=%s pre=%s main=%s files=%s: expected %s, chibicc -E rc=%s got %s %s" % (
                       b["shape"], b["kinds"], b["pre"], b["main"], [(f["d"], f["n"]) for f in b["files"]], b["exp"], rc, got, err[-200:]),
                   case=dict(kind="incl", beh=b, got=got, rc=rc))
    ctx.cov["traces_validated_against_impl"] += len(behs)
    return bad


CONTROLS = [("file-name cache consulted before the includer's directory", "C", 2, dict(CacheFirst=True)),
            ("computed #include looked up beside the macro's definition", "M", 2, dict(CompDir='"macro"')),
            ("include_next_idx global", "R1", 3, dict(NextAlg='"global"')),
            ("-idirafter argument", "R1", 3, dict(FixIdirArg=False)),
            ("-idirafter order", "R1", 3, dict(FixIdirOrder=False)),
            ("#pragma once taken from a pre-scan of the opened file, conditionals ignored", "G", 1, dict(OncePrescan=True)),
            ("detect_include_guard pinned", "G", 1, dict(GuardAlg='"pinned"')),
            ("detect_include_guard tok->next only", "G", 1, dict(GuardAlg='"toknext"'))]


def submit_incl(ctx, pool):
    q = ctx.quick
    for n in ("a", "b"):
        for d in ("/usr/local/include", "/usr/include/x86_64-linux-gnu", "/usr/include"):
            if os.path.exists("%s/%s.h" % (d, n)):
                raise Infra("%s/%s.h exists on this machine; scenario header names would collide" % (d, n))
    strides = dict(R1=5, R2=24, C=12, M=36, G=3, P=2) if q else dict(R1=1, R2=2, C=1, M=2, G=1, P=1)
    jobs = dict(gen=[], ctl=[], mc=[])
    for fam, nopt in FAMS:
        out = os.path.join(ctx.scratch, "incl-%s.ndjson" % fam)
        cfg = ctx.cfg("pp", "Include_gen.cfg", Fam='"%s"' % fam, NOpt=nopt, Seed=ctx.seed, Stride=strides[fam])
        jobs["gen"].append((fam, out, cfg, pool.submit(ctx.tlc, "pp", "Include", cfg, env=dict(OUT=out), workers=2 if q else 4, timeout=1500)))
        if not q and strides[fam] > 1:      # replay every other world, but model-check the whole family
            full = ctx.cfg("pp", "Include_mc.cfg", Fam='"%s"' % fam, NOpt=nopt)
            jobs["mc"].append(pool.submit(ctx.tlc_expect_ok, "pp", "Include", full, "include shortcuts change the token stream in the model (family %s)" % fam,
                                          workers=4, timeout=1500))
    # sensitivity controls: the pinned algorithms must be rejected by TLC
    for name, fam, nopt, kw in CONTROLS:
        cfg = ctx.cfg("pp", "Include_mc.cfg", Fam='"%s"' % fam, NOpt=nopt, Stride=3 if fam == "G" else (24 if fam in ("C", "M") else 12), **kw)
        jobs["ctl"].append((name, pool.submit(ctx.tlc, "pp", "Include", cfg, workers=1, count=False)))
    return jobs


def finish_incl(ctx, tree, jobs):
    total = 0
    for fam, out, cfg, fut in jobs["gen"]:
        g = fut.result()
        if not g.ok:
            p = ctx.replay_dir("tlc-Include-%s" % fam)
            open(p + "/counterexample.txt", "w").write(g.trace_text())
            json.dump(dict(kind="tlc", area="pp", module="Include", cfg=cfg), open(p + "/case.json", "w"))
            ctx.report("tlc:Include:%s:%s" % (fam, g.violated), "include shortcuts change the token stream in the model", p)
        behs = vt.read_ndjson(out)
        if len(behs) < 20:
            raise Infra("Include generator wrote only %d scenarios for family %s" % (len(behs), fam))
        behs.sort(key=lambda b: json.dumps(b, sort_keys=True))
        replay_incl(ctx, tree, behs)
        total += len(behs)
        if fam in ("R2", "M", "G"):
            b = behs[len(behs) // 3]
            ctx.sample(dict(kind="include scenario", family=fam, options=b["kinds"], files={"d%d/%s.h" % (f["d"], f["n"]): f["text"] for f in b["files"]},
                            main=b["main"], expected_tokens=b["exp"]))
    for fut in jobs["mc"]:
        fut.result()
    for name, fut in jobs["ctl"]:
        if fut.result().ok:
            raise Infra("sensitivity control failed: TLC accepts the pinned algorithm (%s)" % name)
    return dict(include_scenarios_replayed=total)



# ------------------------------------------------------- 3. #if expressions
# hand-checked 64-bit boundary table: (expression, value as Python int modulo 2^64 semantics, unsigned?)
# every entry was checked against gcc and clang at development time
M64 = 1 << 64
BOUNDARY = [
    ("0x7fffffffffffffff", 2**63 - 1, False), ("0x7fffffffffffffff + 0u", 2**63 - 1, True),
    ("-0x7fffffffffffffff - 1", -2**63, False), ("0xffffffffffffffff", 2**64 - 1, True),
    ("18446744073709551615u", 2**64 - 1, True), ("-1 + 0u", 2**64 - 1, True), ("0u - 1", 2**64 - 1, True),
    ("~0u", 2**64 - 1, True), ("~0", -1, False), ("2147483647 + 1", 2**31, False), ("-2147483647 - 2", -2**31 - 1, False),
    ("0xffffffff + 1", 2**32, False), ("4294967295 * 2", 2**33 - 2, False), ("0x80000000", 2**31, False),
    ("65536 * 65536", 2**32, False), ("1 << 40", 2**40, False), ("1u << 63", 2**63, True), ("(1 << 62) >> 61", 2, False),
    ("0xffffffffffffffff >> 63", 1, True), ("0x7fffffffffffffff / 3", (2**63 - 1) // 3, False),
    ("0xffffffffffffffff / 2", 2**63 - 1, True), ("0xffffffffffffffff % 10", 5, True),
    ("-1 < 0u", 0, False), ("-1 > 0u", 1, False), ("-1 + 0 < 0", 1, False), ("-1 < 0", 1, False),
    ("0x8000000000000000 > 0", 1, False), ("9223372036854775807 > -9223372036854775807", 1, False),
    ("(0 ? -1 : 0u) > 0", 0, False), ("(1 ? -1 : 0u) > 0", 1, False), ("-9223372036854775807 - 1 < 0", 1, False),
    ("4294967296 == 0", 0, False), ("4294967296 > 4294967295", 1, False), ("(2147483647 + 1) < 0", 0, False),
    ("3000000000 > 0", 1, False), ("-3000000000 < 0", 1, False), ("0x100000000 / 0x10000 == 0x10000", 1, False),
    ("(-7) / 2", -3, False), ("(-7) % 2", -1, False), ("7 / (-2)", -3, False), ("1 ? 2 : (1/0)", 2, False),
    ("0 && (1/0)", 0, False), ("1 || (1/0)", 1, False), ("!0x100000000", 0, False), ("0x100000000 && 1", 1, False),
    # non-zero values whose low 32 (16, 8) bits are all zero: a result narrowed to int/short/char would select #else
    ("0x100000000", 2**32, False), ("1 << 32", 2**32, False), ("1 << 40", 2**40, False), ("1 << 62", 2**62, False),
    ("-1 & ~0xFFFFFFFF", -2**32, False), ("-4294967296", -2**32, False), ("0xFFFFFFFF00000000u", 2**64 - 2**32, True),
    ("0x7fffffff00000000", 0x7fffffff00000000, False), ("1u << 63", 2**63, True), ("0x8000000000000000", 2**63, True),
    ("-0x7fffffffffffffff - 1", -2**63, False), ("65536 * 65536 * 3", 3 * 2**32, False), ("0x10000", 65536, False),
    ("0x100", 256, False), ("0x300000000 - 0x100000000", 2**33, False), ("0x100000000 ? 1 : 0", 1, False),
    ("0x100000000 - 0x100000000", 0, False), ("0x100000000 ^ 0x100000000", 0, False), ("0u", 0, True),
]


def ifexpr_case_text(k, e, v, u, meta=None):
    val = "(%d)" % v if v < 2**63 else "%du" % v
    defs = (meta or {}).get("defs", [])
    return (["#define %s %s" % (n, b) for n, b in defs] +
            ["#if (%s) == %s" % (e, val), "E%d v" % k, "#else", "E%d x" % k, "#endif",
             "#if ((%s) - (%s) - 1) < 0" % (e, e), "E%d s" % k, "#else", "E%d u" % k, "#endif",
             # the expression itself selects the group: taken iff its value compares unequal to 0 (6.10.1p4)
             "#if %s" % e, "E%d t" % k, "#else", "E%d f" % k, "#endif",
             "#if 0", "E%d z" % k, "#elif %s" % e, "E%d t" % k, "#else", "E%d f" % k, "#endif",
             # where the expression is not evaluated it selects nothing: an #elif after the group that was
             # taken, and an #if inside a group that is being skipped
             "#if 1", "E%d a" % k, "#elif %s" % e, "E%d b" % k, "#endif",
             "#if 0", "#if %s" % e, "E%d c" % k, "#else", "E%d d" % k, "#endif", "#endif"] +
            ["#undef %s" % n for n, b in defs])


def replay_ifexpr(ctx, tree, exprs, tag, batch=100):
    """exprs: list of (text, value, unsigned[, meta]); meta = dict(defs=[(name, body)] wrapped around the case,
    shape=classification used in the signature)"""
    d = ctx.tmp("ifexpr-" + tag)
    cc = tree + "/chibicc"
    pre = ["#define X 3", "#define Y (-2)"]

    def text(idx):
        out = list(pre)
        for k in idx:
            out += ifexpr_case_text(k, *exprs[k])
        return "\n".join(out) + "\nEND\n"

    def parse(tokens):
        r = {}
        for a, b in zip(tokens, tokens[1:]):
            if a.startswith("E") and a[1:].isdigit():
                r.setdefault(int(a[1:]), []).append(b)
        return r

    def run_batch(idx):
        f = "%s/e%d_%d.c" % (d, idx[0], len(idx))
        open(f, "w").write(text(idx))
        rc, out, err = run_E(cc, [f], d)
        os.unlink(f)
        tk = toks_of(out)
        if rc == 0 and tk[-1:] == ["END"]:
            r = parse(tk)
            return [(k, 0, r.get(k, []), "") for k in idx]
        if len(idx) == 1:
            return [(idx[0], rc, [], err[-300:])]
        h = len(idx) // 2
        return run_batch(idx[:h]) + run_batch(idx[h:])

    chunks = [list(range(j, min(j + batch, len(exprs)))) for j in range(0, len(exprs), batch)]
    for res in vt.pmap(run_batch, chunks):
        for k, rc, got, err in res:
            e, v, u = exprs[k][:3]
            meta = exprs[k][3] if len(exprs[k]) > 3 else None
            sel = "t" if v != 0 else "f"
            exp = ["v", "u" if u else "s", sel, sel, "a"]
            ctx.note_case("ifexpr:" + e, nontrivial=True)
            if rc == 0 and got == exp:
                continue
            if rc != 0:
                cls = "rejected"
            elif got[:1] != ["v"]:
                cls = "value"
            elif got[1:2] != exp[1:2]:
                cls = "signedness"
            elif got[2:4] != exp[2:4]:
                cls = "group-selection"
            else:
                cls = "not-evaluated"
            neg = "neg" if (v < 0 or "-" in e or "~" in e) else "nonneg"
            sig = "ifexpr:%s:%s:%s:%s" % (tag, cls, "unsigned" if u else "signed", neg)
            if meta and meta.get("shape"):
                sig = "ifexpr:%s:%s:%s:%s" % (tag, cls, meta["shape"], "macro" if meta.get("defs") else "not-a-macro")
            if not settled(sig):
                f = "%s/g%d.c" % (d, k)
                open(f, "w").write("\n".join(pre + ifexpr_case_text(k, e, v, u, meta)) + "\n")
                grc, gg = gcc_E([f], d)
                os.unlink(f)
                if grc != 0 or gg != [x for y in exp for x in ("E%d" % k, y)]:
                    ctx.oracle_disagreements += 1
                    continue
                CONFIRMED[sig] = CONFIRMED.get(sig, 0) + 1
            ctx.report(sig,
                       "#if %s: expected value %d (%s), chibicc says %s %s" % (e, v, "uintmax_t" if u else "intmax_t", got, err),
                       case=dict(kind="ifexpr", tag=tag, expr=[e, v, u] + ([meta] if meta else [])))
    ctx.cov["traces_validated_against_impl"] += len(exprs)


KW_STRIDE = 29      # quick: every 29th of the 30,210 keyword-spelled expressions ...
KW_CAST_STRIDE = 4  # ... but every 4th of the 11,872 `(k) op a` shapes among them


def submit_ifexpr(ctx, pool):
    out = os.path.join(ctx.scratch, "ifexpr.ndjson")
    cfg = ctx.cfg("pp", "IfExpr_gen.cfg", Seed=ctx.seed, Stride=90 if ctx.quick else 2, KwStride=KW_STRIDE if ctx.quick else 1, CastStride=KW_CAST_STRIDE if ctx.quick else 1)
    return dict(out=out, gen=pool.submit(ctx.tlc, "pp", "IfExpr", cfg, env=dict(OUT=out), workers=2 if ctx.quick else 4, timeout=1500))


def finish_ifexpr(ctx, tree, job):
    g = job["gen"].result()
    if not g.ok:
        raise Infra("IfExpr generation failed: " + g.trace_text()[:800])
    rows = vt.read_ndjson(job["out"])
    if len(rows) < 500:
        raise Infra("IfExpr generator wrote only %d expressions" % len(rows))
    rows.sort(key=lambda r: r["e"])
    # canary: the C07 constant folder must get negative int constants right (defect D10, owned by C07);
    # while it does not, nearly every expression of the family is affected and the family is not judged
    d = ctx.tmp("canary")
    open(d + "/c.c", "w").write("#if -1 < 0\nOK1\n#endif\n#if (1 - 2) < 0\nOK2\n#endif\n")
    rc, out, err = run_E(tree + "/chibicc", [d + "/c.c"], d)
    if rc != 0 or toks_of(out) != ["OK1", "OK2"]:
        ctx.report("ifexpr:canary:negative-int-constant", "#if -1 < 0 / #if (1 - 2) < 0 are not both true: %s %s" % (toks_of(out), err[-200:]),
                   case=dict(kind="ifexpr", tag="canary", expr=["-1 < 0", 1, False]))
        ctx.assumptions.append("#if expression family NOT judged in this run: the constant folder mis-evaluates negative int constants (D10)")
        return dict(if_expressions=0, if_family_skipped=True)
    exprs = [(r["e"], r["v"], r["u"]) for r in rows if "kw" not in r]
    kws = [(r["e"], r["v"], r["u"], dict(defs=[(r["kw"], "5")] if r["d"] else [], shape=r["shape"], kw=r["kw"])) for r in rows if "kw" in r]
    if len(kws) < 500:
        raise Infra("IfExpr generator wrote only %d keyword-spelled expressions" % len(kws))
    ctx.sample(dict(kind="#if expression", expr=exprs[len(exprs) // 2][0], value=exprs[len(exprs) // 2][1], unsigned=exprs[len(exprs) // 2][2]))
    replay_ifexpr(ctx, tree, exprs, "gen")
    replay_ifexpr(ctx, tree, kws, "kw")
    ctx.sample(dict(kind="#if expression, identifier spelled like a keyword", expr=kws[len(kws) // 2][0], value=kws[len(kws) // 2][1],
                    macro=bool(kws[len(kws) // 2][3]["defs"])))
    seen, table = set(), []
    for e, v, u in BOUNDARY:
        if e not in seen:
            seen.add(e)
            table.append((e, v if not u else v % M64, u))
    replay_ifexpr(ctx, tree, table, "boundary")
    return dict(if_expressions=len(exprs), if_keyword_spelled_expressions=len(kws), if_keyword_spellings=len(set(m["kw"] for _, _, _, m in kws)),
                if_boundary_expressions=len(BOUNDARY))


# -------------------------------------------------------------------- run
def run(ctx):
    import concurrent.futures
    tree = ctx.build()
    ctx.phase("build done")
    extra = {}
    with concurrent.futures.ThreadPoolExecutor(8) as pool:
        TR.update(cond=[], inc=[], procs=0, on=has_hook(tree), every=(6 if ctx.quick else 3))
        jc = submit_cond(ctx, pool)
        ji = submit_incl(ctx, pool)
        je = submit_ifexpr(ctx, pool)
        ctl = submit_trace_controls(ctx, pool) if TR["on"] else None
        extra.update(finish_cond(ctx, tree, jc))
        ctx.phase("cond done")
        extra.update(finish_incl(ctx, tree, ji))
        ctx.phase("include done")
        extra.update(finish_ifexpr(ctx, tree, je))
        ctx.phase("ifexpr done")
        if TR["on"]:
            extra.update(finish_traces(ctx, tree, pool, ctl))
        else:
            extra["trace_hook"] = "H2 absent in the tree under test: trace validation (CondTrace/IncludeTrace) not performed"
            ctx.assumptions.append("trace validation skipped: the tree under test has no H2 hook (preprocess.c lacks the \"cond\" event)")
        ctx.phase("traces done")
    ctx.assumptions += ["Level I models (CondIncl.tla, Include.tla) are hand transcriptions of preprocess.c/main.c; replay judges the real binary",
                        "directive sequences are well nested (ill-nested input is C13's)"]
    return ctx.finish(
        rule="case = one transition of CondIncl.tla's complete state graph (shortest directive history + one line, optionally + one more line), closed with #endif's and a macro-table probe, preprocessed by chibicc -E; non-trivial = contains at least one conditional; distinct = distinct directive sequence",
        exhaustive=True, extra=extra)


def replay(ctx, path):
    c = json.load(open(os.path.join(path, "case.json")))
    c = c.get("case") or c
    tree = ctx.build()
    if c.get("kind") == "cond":
        replay_cond(ctx, tree, [c["case"]])
    elif c.get("kind") == "ifexpr":
        replay_ifexpr(ctx, tree, [tuple(c["expr"])], c["tag"])
    elif c.get("kind") == "incl":
        replay_incl(ctx, tree, [c["beh"]])
    elif c.get("kind") == "trace":
        evs = vt.read_ndjson(os.path.join(path, "trace.ndjson"))
        ok, at, tf = validate_stream(ctx, c["module"], evs, "replay")
        if not ok:
            ctx.report("trace:replay:%s" % c["module"], "recorded trace still rejected at event %s: %s" % (at, evs[at] if at < len(evs) else None), path)
        print("note: this re-validates the RECORDED trace; re-record by running the check against the tree")
    elif c.get("kind") == "tlc":
        ctx.tlc_expect_ok(c["area"], c["module"], c["cfg"], "replayed model check", env=c.get("env"))
    return ctx.finish(rule="replay of one recorded case")
