"""Shared by C01 and C07: TLC model checks of tla/expr, vector generation with
ExprGen.tla, rendering of vectors as batched C programs, compile/run/compare with
gcc as tie-break only (a vector on which gcc also disagrees with the spec is an
oracle disagreement, never a violation)."""
import json, os, subprocess
import vt
from vt import Infra

CT = {"bool": "_Bool", "char": "char", "uchar": "unsigned char", "short": "short", "ushort": "unsigned short",
      "int": "int", "uint": "unsigned int", "long": "long", "ulong": "unsigned long", "enum": "enum E",
      "float": "float", "double": "double", "ldouble": "long double"}
OPS = {"mul": "*", "div": "/", "mod": "%", "add": "+", "sub": "-", "shl": "<<", "shr": ">>", "lt": "<", "gt": ">",
       "le": "<=", "ge": ">=", "eq": "==", "ne": "!=", "band": "&", "bxor": "^", "bor": "|", "land": "&&", "lor": "||",
       "pos": "+", "neg": "-", "bnot": "~", "lnot": "!"}
PRELUDE = """int printf(const char *, ...);
enum E { E_NEG = -2147483647 - 1, E_POS = 2147483647 };
#define P(id, e) printf("%d v %lu %d %d\\n", id, (unsigned long)(e), (int)sizeof(e), (int)((__typeof__(e))-1 < 0))
#define O(id, e) printf("%d o %lu\\n", id, (unsigned long)(e))
"""
# pointer family: a reserved (never touched) address range stands for the array; PP prints the byte offset
# of a pointer from the array start and sizeof the pointer expression
PTR_PRELUDE = """void *mmap(void *, unsigned long, int, int, int, long);
static char *B;
struct S12 { int a[3]; };
struct S24 { long a[3]; };
#define PP(id, e) printf("%d v %lu %d %d\\n", id, (unsigned long)((char *)(e) - B), (int)sizeof(e), 0)
"""
PTR_INIT = """B = mmap(0, 24UL * 4294967296UL + 8192, 0, 0x22 | 0x4000, -1, 0);   /* PROT_NONE, MAP_PRIVATE|MAP_ANONYMOUS|MAP_NORESERVE */
if (B == (char *)-1) { printf("NOMEM\\n"); return 3; }
"""
ELEM = {1: "char", 2: "short", 4: "int", 8: "long", 12: "struct S12", 24: "struct S24"}
M64 = (1 << 64) - 1


def ilit(v):
    """an int-typed (or long-typed, by suffix) literal expression for v"""
    if -2147483647 <= v <= 2147483647:
        return str(v) if v >= 0 else "(-%d)" % -v
    if v == -2147483648:
        return "(-2147483647-1)"
    if v == -(1 << 63):
        return "(-9223372036854775807L-1)"
    if v < 0:
        return "(-%dL)" % -v
    return "%dL" % v if v < (1 << 63) else "%duL" % v


def lit(t, v):
    """a constant expression of exactly type t and value v"""
    if t == "int":
        return ilit(v)
    if t == "uint":
        return "%du" % v
    if t == "long":
        if v == -(1 << 63):
            return "(-9223372036854775807L-1)"
        return "%dL" % v if v >= 0 else "(-%dL)" % -v
    if t == "ulong":
        return "%duL" % v
    return "((%s)%s)" % (CT[t], ilit(v))


FSUF = {"float": ("f", "1e38f"), "double": ("", "1e308"), "ldouble": ("L", "1e4932L")}


def fconst(tf, name):
    """a floating constant expression of type tf for the named value of CInt.FV (those with lit = TRUE are
    plain floating constants)"""
    s, big = FSUF[tf]
    return {"nan": "(0.0%s/0.0%s)" % (s, s), "inf": "(%s*10)" % big, "ninf": "(-%s*10)" % big, "m1_5": "(-1.5%s)" % s,
            "m0": "(-0.0%s)" % s, "p0": "0.0%s" % s, "p0_5": "0.5%s" % s, "p2": "2.0%s" % s, "big": "1e30%s" % s}[name]


def leaves(e, out=None):
    """the replaceable leaves of a tree: integer leaves and named floating constants ("fv"); a "call" is not one"""
    out = [] if out is None else out
    if e["k"] in ("leaf", "fv"):
        out.append(e)
    else:
        for f in ("c", "a", "b"):
            if f in e:
                leaves(e[f], out)
    return out


def render(e, leaf):
    """C text of tree e; leaf(i, node) renders the i-th leaf (in leaves() order)"""
    cnt = [0]

    def go(n):
        k = n["k"]
        if k in ("leaf", "fv"):
            i = cnt[0]
            cnt[0] += 1
            return leaf(i, n)
        if k == "call":                         # ci(v): counts the call, returns v (harness/c07.py PRELUDE7)
            return "ci(%s)" % ilit(int(n["v"]))
        if k == "comma":
            l = go(n["a"])
            r = go(n["b"])
            return "(%s, %s)" % (l, r)
        if k == "un":
            return "(%s%s)" % (OPS[n["op"]], go(n["a"]))
        if k == "cast":
            return "((%s)%s)" % (CT[n["t"]], go(n["a"]))
        if k == "bin":
            l = go(n["a"])
            r = go(n["b"])
            return "(%s %s %s)" % (l, OPS[n["op"]], r)
        c = go(n["c"])
        a = go(n["a"])
        b = go(n["b"])
        return "(%s ? %s : %s)" % (c, a, b)
    return go(e)


def const_text(e):
    return render(e, lambda i, n: fconst(n["t"], n["n"]) if n["k"] == "fv" else lit(n["t"], int(n["v"])))


def describe(v):
    if v["f"] == "asgv":
        return "asgv %s: (%s d = (%s)%s)%s" % (v["op"], v["td"], v["ta"], v["xv"], "" if v["tc"] == "-" else " assigned to " + v["tc"])
    if v["f"] == "ptr":
        return "ptr %s elem=%d i=(%s)%s k=%s k2=%s" % (v["op"], v["es"], v["it"], v["iv"], v["k"], v["k2"])
    return "%s %s" % (v["f"], const_text(v["e"]))


def shape(e):
    """operator/type skeleton of a tree (classification of root causes)"""
    k = e["k"]
    if k == "leaf":
        return e["t"]
    if k == "fv":
        return "%s-%s" % (e["t"], e["n"])
    if k == "call":
        return "call"
    if k == "comma":
        return "comma(%s,%s)" % (shape(e["a"]), shape(e["b"]))
    if k == "un":
        return "%s(%s)" % (e["op"], shape(e["a"]))
    if k == "cast":
        return "cast-%s(%s)" % (e["t"], shape(e["a"]))
    if k == "bin":
        return "%s(%s,%s)" % (e["op"], shape(e["a"]), shape(e["b"]))
    return "cond(%s,%s,%s)" % (shape(e["c"]), shape(e["a"]), shape(e["b"]))


# ------------------------------------------------------------------ TLC side
def model_check(ctx, cfgname, what, invariants, workers, sensitivity=True, **consts):
    """exhaustive Level I = Level A check at scaled widths + the sensitivity control"""
    if os.environ.get("VERIF_DEV_SKIP_MC"):      # development aid for mutant runs only (the model does not
        ctx.assumptions.append("DEVELOPMENT RUN: model check skipped")   # depend on the tree); registered commands never set it
        return None
    cfg = ctx.cfg("expr", cfgname, **consts)
    txt = open(cfg).read()
    import re
    txt = re.sub(r"(?m)^INVARIANTS .*$", "INVARIANTS " + " ".join(invariants), txt)
    open(cfg, "w").write(txt)
    res = ctx.tlc_expect_ok("expr", "ExprMC", cfg, what, workers=workers, timeout=1500, heap="6g")
    if sensitivity:
        for mut, shapes in ((("setl", '{"bin"}'),) if sensitivity == "one" else (("setl", '{"bin"}'), ("castrow", '{"cast"}'))):
            c2 = ctx.cfg("expr", cfgname, MUT='"%s"' % mut, Shapes=shapes)
            t2 = re.sub(r"(?m)^INVARIANTS .*$", "INVARIANTS ValueInv", open(c2).read())
            open(c2, "w").write(t2)
            r2 = ctx.tlc("expr", "ExprMC", c2, workers=4, timeout=600, count=False)
            if r2.ok:
                raise Infra("sensitivity control failed: TLC accepts the wrong variant MUT=%s" % mut)
    return res


def generate(ctx, fams, stride, d2stride, workers, name="vec", minimum=50, base=1, d2base=8):
    out = os.path.join(ctx.scratch, name + ".ndjson")
    if os.path.exists(out):
        os.unlink(out)
    cache = os.environ.get("VERIF_DEV_VECTORS")   # development aid for mutant runs only: reuse generated vectors
    ckey = cache and os.path.join(cache, "%s-%s-%s-%s-%s.ndjson" % (ctx.prop, ctx.tier, ctx.seed, stride, d2stride))
    if ckey and os.path.exists(ckey):
        ctx.assumptions.append("DEVELOPMENT RUN: vectors reused from " + ckey)
        ctx.cov["states"] += 1
        ctx.cov["transitions"] += 1
        return vt.read_ndjson(ckey)
    cfg = ctx.cfg("expr", "ExprGen.cfg", name=name, Fams="{%s}" % ",".join('"%s"' % f for f in fams),
                  Seed=ctx.seed, Stride=stride, D2Stride=d2stride, Base=base, D2Base=d2base)
    g = ctx.tlc("expr", "ExprGen", cfg, env=dict(OUT=out), workers=workers, timeout=2400, heap="6g")
    if not g.ok:
        raise Infra("ExprGen reported %s:\n%s" % (g.violated, g.trace_text()[:2000]))
    vec = vt.read_ndjson(out)
    if len(vec) < minimum:
        raise Infra("generator wrote only %d vectors (%s)" % (len(vec), name))
    # deterministic order independent of worker interleaving
    vec.sort(key=lambda v: json.dumps(v, sort_keys=True))
    if ckey:
        vt.write_ndjson(ckey, vec)
    return vec


# ------------------------------------------------------------ compile + run
def parse_out(text):
    res = {}
    for l in text.splitlines():
        f = l.split()
        if len(f) >= 3 and f[0].lstrip("-").isdigit():
            res.setdefault(int(f[0]), {})[f[1]] = f[2:]
    return res


def compile_run(cmd, src, exe, timeout=300):
    """-> (ok, stdout or message).  A timeout is infrastructure trouble (subprocess.TimeoutExpired
    propagates to vt.main -> exit 2), never a verdict about the compiler."""
    p = subprocess.run(cmd + ["-o", exe, src], capture_output=True, text=True, timeout=timeout)
    if p.returncode != 0 or not os.path.exists(exe):
        return False, "compile rc=%s: %s" % (p.returncode, (p.stderr or p.stdout)[-400:])
    try:
        r = subprocess.run([exe], capture_output=True, text=True, timeout=120)
    finally:
        if os.path.exists(exe):
            os.unlink(exe)
    if r.returncode == 3 and r.stdout.endswith("NOMEM\n"):
        raise Infra("cannot reserve the address range for the pointer family (mmap failed)")
    if r.returncode != 0:
        return False, "program rc=%s after: %s" % (r.returncode, r.stdout[-200:])
    return True, r.stdout


def run_cases(cmd, cases, mkprog, workdir, tag):
    """cases: list of (id, case).  Compile+run them as one program; if that fails, bisect so
    that one bad case does not hide the others.  -> {id: fields | ("fail", msg)}"""
    if not cases:
        return {}
    src = os.path.join(workdir, "%s_%d_%d.c" % (tag, cases[0][0], len(cases)))
    open(src, "w").write(mkprog(cases))
    ok, out = compile_run(cmd, src, src[:-2] + ".exe")
    if ok:
        os.unlink(src)
        got = parse_out(out)
        return {i: got.get(i, ("fail", "no output line")) for i, _ in cases}
    if len(cases) == 1:
        return {cases[0][0]: ("fail", out)}
    os.unlink(src)
    h = len(cases) // 2
    r = run_cases(cmd, cases[:h], mkprog, workdir, tag)
    r.update(run_cases(cmd, cases[h:], mkprog, workdir, tag))
    return r


def chibicc_cmd(tree):
    return [tree + "/chibicc", "-I" + tree + "/include"]


GCC = ["cc", "-O0", "-w", "-std=gnu11", "-fwrapv"]


def run_batches(ctx, tree, items, mkprog, tag, per=300):
    """items: list of (id, case).  Returns {id: result} from the tree under test."""
    wd = ctx.tmp(tag)
    chunks = [items[i:i + per] for i in range(0, len(items), per)]
    res = {}
    for r in vt.pmap(lambda ch: run_cases(chibicc_cmd(tree), ch, mkprog, wd, tag), chunks):
        res.update(r)
    return res


def gcc_results(ctx, items, mkprog, tag):
    wd = ctx.tmp(tag + "-gcc")
    chunks = [items[i:i + 100] for i in range(0, len(items), 100)]
    res = {}
    for r in vt.pmap(lambda ch: run_cases(GCC, ch, mkprog, wd, tag), chunks):
        res.update(r)
    return res
