"""C05 — initializers produce exactly the object value of C11 6.7.9.

1. TLC, exhaustive: Init.tla — the 6.7.9 current-object automaton; every token
   sequence of the initializer grammar up to the bounds, for every type of the
   domain; invariants: cursor inside the object, every scalar holds its last
   initializer, everything else zero, unknown bounds determined, termination
   (progress + deadlock freedom).  Sensitivity control: Broken = TRUE (a `{`
   does not discard earlier initializers of the subobject) must be rejected.
2. Generate -> replay: every completed behaviour is one (type, initializer
   text, value map).  It is instantiated twice - `static T s = I;` at file
   scope (write_gvar_data + emit_data) and `T a = I;` in a function (MEMZERO +
   assignment chain) on a poisoned stack - and both objects are dumped
   member-wise through their member names (padding never read).  Both must
   equal the value map; sizeof of arrays of unknown bound must be the p22 size.
   gcc is the tie-break only.
"""
import json, os, re
import vt
from vt import Infra

AREA = "init"
# ----------------------------------------------------------------- type domain
SCALARS = ["int", "char", "long", "float", "double", "ldouble", "ptr", "bool", "short"]
ARRAYS = ["i2", "i3", "i0", "i22", "i02", "l3", "p2", "d2", "i8", "i33"]
CHARS = ["c4", "c0", "c3", "uc4", "h4", "h0", "U4", "w4", "w0", "c24", "c100"]
STRUCTS = ["sii", "scl", "sfd", "sn", "sn2", "sa", "sa3", "as", "as0", "asa", "sbf", "sbf2", "sub", "sub2",
           "san", "sau", "sau2", "u", "us", "ub", "su", "au", "sf", "sfs", "sfc", "sc4", "sw", "sp", "s56", "u40",
           "spk", "spk2", "apk", "snpk", "sal", "sfl", "ufd", "sc23"]
# layouts off the natural alignment (packed: pointers = relocations at odd offsets, array stride 19; over-aligned members)
LAYOUT = ["spk", "spk2", "apk", "snpk", "sal"]
# the value family: every value class (positive / explicit zero / negated zero / negative) in every position of
# these types, at <= 3 initializers, one designator
VALTYPES = ["int", "char", "long", "short", "bool", "float", "double", "ldouble", "ptr", "d2", "p2", "sfd", "sfl", "ufd", "sbf", "sp", "spk", "spk2"]
VALCLASSES = '{"k","zero","negzero","neg"}'
ALL_TYPES = SCALARS + ARRAYS + CHARS + STRUCTS
BIG = ["i8", "i33", "c100", "s56", "u40"]          # 32, 36, 100, 56, 40 bytes: the block zero-fill of automatic objects
HEAVY = BIG + LAYOUT + ["sc23"] + ["c24", "sw", "sc4", "u", "i02", "su", "sfc", "as0", "au", "sf", "sfs", "asa", "sa3", "sn2", "i22"]   # many spellings: small bound only
DEEP5 = ["i3", "i0", "sii", "sn", "sa", "as", "san", "sau", "sbf", "sub", "us", "c3"]

CT = dict(int="int", char="char", short="short", long="long", uint="unsigned", bool="_Bool", float="float",
          double="double", ldouble="long double", ptr="int *", uchar="unsigned char", c16="unsigned short", c32="unsigned", wchar="int")

PRELUDE = r'''
int printf(const char *, ...);
int fflush(void *);
long c05_clobber(void);            /* harness/c/c05_clobber.c, compiled by gcc: every caller-saved register non-zero */
static struct { char c; int m[12]; } G;
static void P(long v) { printf(" %ld", v); }
static long PP(int *p) { return p ? (long)((char *)p - (char *)&G.m[0]) : -1; }
static long FB(double d) { union { double d; long l; } u; u.d = d; return u.l; }   /* the representation: -0.0 differs from 0.0 */
static void poison(void) { volatile unsigned char b[768]; for (int i = 0; i < 768; i++) b[i] = 0xA5; }
'''


class Types:
    def __init__(self, tt):
        self.tt = tt

    def k(self, t):
        return self.tt[t]["k"]

    def body(self, t):
        """struct/union body text"""
        d = self.tt[t]
        out = []
        for m in d["ms"]:
            if m["w"] > 0 or (m["n"] == "" and self.k(m["t"]) == "sc"):
                out.append("%s %s:%d;" % (CT[self.tt[m["t"]]["c"]], m["n"], m["w"]))
            elif m["n"] == "":
                out.append("%s { %s };" % ("struct" if self.k(m["t"]) == "st" else "union", self.body(m["t"])))
            else:
                out.append(("_Alignas(%d) " % m["al"] if m.get("al") else "") + self.decl(m["t"], m["n"]) + ";")
        return " ".join(out)

    def typedefs(self, t, seen):
        """typedefs needed (dependencies first) for type t"""
        d, out = self.tt[t], []
        if d["k"] == "arr":
            return self.typedefs(d["e"], seen)
        if d["k"] == "sc" or t in seen:
            return []
        seen.add(t)
        for m in d["ms"]:
            if m["n"] != "":
                out += self.typedefs(m["t"], seen)
            elif self.k(m["t"]) != "sc":
                for mm in self.tt[m["t"]]["ms"]:
                    out += self.typedefs(mm["t"], seen)
        out.append("typedef %s%s { %s } T_%s;" % ("struct" if d["k"] == "st" else "union",
                                                    " __attribute__((%s))" % d["at"] if d.get("at") else "", self.body(t), t))
        return out

    def decl(self, t, name):
        d = self.tt[t]
        if d["k"] == "arr":
            return self.decl(d["e"], "%s[%s]" % (name, d["n"] if d["n"] else ""))
        if d["k"] == "sc":
            c = CT[d["c"]]
            return c + name if c.endswith("*") else c + " " + name
        return "T_%s %s" % (t, name)

    def type_at(self, t, path):
        """the type table entry of the subobject at a (1-based) path of type t"""
        d = self.tt[t]
        for i in path:
            d = self.tt[d["e"] if d["k"] == "arr" else d["ms"][i - 1]["t"]]
        return d

    def has_flex(self, t):
        d = self.tt[t]
        return d["k"] == "st" and self.k(d["ms"][-1]["t"]) == "arr" and self.tt[d["ms"][-1]["t"]]["n"] == 0

    def leaves(self, t, val, path=(), expr="", w=0):
        """[(path, access expression, scalar kind)] of the scalars that can be read: named members only,
        the active member of a union, elements 0..bound-1 of an array of unknown bound; a bit-field's kind
        is written kind:width"""
        d = self.tt[t]
        if d["k"] == "sc":
            return [(path, expr, d["c"] + (":%d" % w if w else ""))]
        out = []
        if d["k"] == "arr":
            n = d["n"]
            if n == 0:
                n = max([p[len(path)] for p in val if p[:len(path)] == path and len(p) > len(path)] or [0])
            for i in range(n):
                out += self.leaves(d["e"], val, path + (i + 1,), "%s[%d]" % (expr, i))
            return out
        idx = range(len(d["ms"]))
        if d["k"] == "un":
            act = sorted(set(p[len(path)] for p in val if p[:len(path)] == path and len(p) > len(path)))
            if len(act) > 1:
                raise Infra("two active union members in %s" % (val,))
            first = [i for i in idx if not (d["ms"][i]["n"] == "" and d["ms"][i]["w"] > 0)][0]
            idx = [act[0] - 1] if act else [first]
        for i in idx:
            m = d["ms"][i]
            if m["n"] == "" and (m["w"] > 0 or self.k(m["t"]) == "sc"):
                continue                                   # unnamed bit-field: not an object that can be named
            e = expr if m["n"] == "" else "%s.%s" % (expr, m["n"])
            out += self.leaves(m["t"], val, path + (i + 1,), e, m["w"])
        return out


STR = {"": "abcd", "u8": "abcd", "u": "aβcd", "U": "aβcd", "L": "aβcd"}


FLOATS = dict(float=(0.5, "f"), double=(0.25, ""), ldouble=(0.25, "L"))
FORMS = ["plain", "paren", "cast", "inner"]
INTBITS = dict(char=8, short=16, int=32, long=64, wchar=32)             # signed
UINTBITS = dict(uchar=8, c16=16, c32=32, uint=32)


def decode(code):
    """Init.tla VCode: (class index 0..3 = k / zero / negzero / neg, ordinal k)"""
    return code // 10000, code % 10000


def vtext(kind, v, form="plain"):
    """C spelling of the initializer expression with value code v for a scalar of the given kind.  form: plain,
    paren = (x), cast = converted from a literal of ANOTHER type of the same value, inner = -(literal) for the
    negated classes"""
    cls, k = decode(v)
    neg = cls >= 2
    if kind in FLOATS:
        frac, suf = FLOATS[kind]
        if form == "cast":                         # e.g. (double)-0.0f, (float)-1.5, (long double)-0.0
            suf = "f" if kind != "float" else ""
        mag = ("%d%s" % (k, str(frac)[1:]) if cls in (0, 3) else "0.0") + suf
        ctype = CT[kind]
    elif kind == "ptr":
        ctype = "int *"
        if cls == 0:
            return {"plain": "&G.m[%d] + 1", "paren": "(&G.m[%d] + 1)", "cast": "(int *)(&G.m[%d] + 1)", "inner": "G.m + %d + 1"}[form] % k
        if cls == 3:
            return {"plain": "&G.m[%d] - 1", "paren": "(&G.m[%d] - 1)", "cast": "(int *)(&G.m[%d] - 1)", "inner": "G.m + %d - 1"}[form] % k
        x = "0" if cls == 1 else "(void *)0"
        return {"plain": x, "paren": "(%s)" % x, "cast": "(int *)%s" % x, "inner": x}[form]
    else:
        mag = "%d" % (k if cls in (0, 3) else 0)
        ctype = CT[kind]
    if form == "inner":
        return "-(%s)" % mag if neg else "(%s)" % mag
    x = ("-" if neg else "") + mag
    if form == "paren":
        return "(%s)" % x
    if form == "cast":
        return "(%s)%s" % (ctype, x)
    return x


def leaf_value(kind, v):
    """what the dump prints for a scalar of `kind` (kind:width for a bit-field) initialised with value code v:
    the value converted as if by assignment (6.7.9p11); floating members are dumped as the bits of the value
    converted to double, pointers as byte offset from &G.m[0] (-1 = null)"""
    import struct
    cls, k = decode(v)
    kind, _, w = kind.partition(":")
    w = int(w) if w else 0
    if kind in FLOATS:
        x = (k + FLOATS[kind][0]) if cls in (0, 3) else 0.0
        if cls >= 2:
            x = -x
        return struct.unpack("<q", struct.pack("<d", x))[0]
    if kind == "ptr":
        return 4 * k + 4 if cls == 0 else 4 * k - 4 if cls == 3 else -1
    x = k if cls == 0 else -k if cls == 3 else 0
    if kind == "bool":
        return 1 if x else 0
    if kind in UINTBITS:
        return x % (1 << (w or UINTBITS[kind]))
    bits = w or INTBITS[kind]
    x %= 1 << bits
    return x - (1 << bits) if x >> (bits - 1) else x


def expect_leaf(kind, val, path):
    if path not in val:
        return -1 if kind == "ptr" else 0
    return leaf_value(kind, val[path])


def dump_expr(kind, e):
    if kind in FLOATS:
        return "P(FB(%s));" % e
    if kind == "ptr":
        return "P(PP(%s));" % e
    return "P((long)%s);" % e


def init_text(toks):
    out, comma, pend = [], False, False
    for t in toks:
        a = t["a"]
        if a in "FIR":
            if not pend and comma:
                out.append(", ")
            pend = True
            out.append(".%s" % t["m"] if a == "F" else "[%d]" % t["i"] if a == "I" else "[%d ... %d]" % (t["i"], t["j"]))
            continue
        if a == "T":
            out.append(",")
            continue
        if a == "C":
            out.append("}")
            comma = True
            continue
        if pend:
            out.append(" = ")
        elif comma:
            out.append(", ")
        pend = False
        if a == "O":
            out.append("{")
            comma = False
        elif a == "V":
            out.append(vtext(t["c"], t["v"], t.get("form", "plain")))
            comma = True
        elif a == "S":
            out.append('%s"%s"' % (t["pre"], STR[t["pre"]][:t["l"]]))
            comma = True
    return "".join(out)


class Case:
    __slots__ = ("ty", "toks", "val", "text", "key", "dis")

    def __init__(self, b, forms=False):
        self.ty, self.toks = b["ty"], b["toks"]
        if forms:            # the value family: the spelling of every expression rotates (a function of the case alone)
            import hashlib
            base = init_text(self.toks)
            for j, t in enumerate(self.toks):
                if t["a"] == "V" and "form" not in t:
                    t["form"] = FORMS[int(hashlib.sha1(("%s|%s|%d" % (self.ty, base, j)).encode()).hexdigest()[:8], 16) % len(FORMS)]
        self.val = {tuple(e["p"]): e["v"] for e in b["val"]}
        self.dis = {}                    # path -> values given earlier and discarded by a later `{`/string (p19)
        for e in b.get("dis") or []:
            self.dis.setdefault(tuple(e["p"]), set()).add(e["v"])
        self.text = init_text(self.toks)
        self.key = self.ty + " = " + self.text


def case_plan(T, c):
    """what is dumped and what is expected for a case"""
    lv = T.leaves(c.ty, c.val)
    exp = [expect_leaf(k, c.val, p) for p, e, k in lv]
    d = T.tt[c.ty]
    unk = d["k"] == "arr" and d["n"] == 0
    n = max([p[0] for p in c.val] or [0]) if unk else -1
    flex_used = T.has_flex(c.ty) and any(p[0] == len(d["ms"]) for p in c.val)
    return lv, exp, n, flex_used


def render_case(T, i, c):
    lv, exp, n, flex_used = case_plan(T, c)
    s = ["static %s = %s;" % (T.decl(c.ty, "s%d" % i), c.text),
         "static void f%d(void) {" % i]
    if not flex_used:
        s.append(" c05_clobber();")          # the definition is reached with stale registers (and a poisoned stack)
        s.append(" %s = %s;" % (T.decl(c.ty, "a"), c.text))
    s.append(' printf("C %d S");' % i)
    s.append(" " + " ".join(dump_expr(k, "s%d%s" % (i, e)) for p, e, k in lv))
    if not flex_used:
        s.append(' printf(" A");')
        s.append(" " + " ".join(dump_expr(k, "a" + e) for p, e, k in lv))
    if n >= 0:
        s.append(' printf(" Z"); P(sizeof(s%d) / sizeof(s%d[0])); P(sizeof(a) / sizeof(a[0]));' % (i, i))
    s.append(' printf(" .\\n"); }')
    return "\n".join(s) + "\n"


def expect_line(T, i, c):
    lv, exp, n, flex_used = case_plan(T, c)
    e = " ".join(str(x) for x in exp)
    out = "C %d S %s" % (i, e)
    if not flex_used:
        out += " A " + e
    if n >= 0:
        out += " Z %d %d" % (n, n)
    return out


def batch_source(T, batch, lines=None):
    """C text of a batch; lines (if given) receives (first line, last line, case index) of every case"""
    seen, tds = set(), []
    for i, c in batch:
        tds += T.typedefs(c.ty, seen)
    src = PRELUDE + "\n" + "\n".join(tds) + "\n"
    ln = src.count("\n") + 1
    parts = [src]
    for i, c in batch:
        t = render_case(T, i, c)
        n = t.count("\n")
        if lines is not None:
            lines.append((ln, ln + n - 1, i))
        ln += n
        parts.append(t)
    parts.append("int main(void) {\n" + "".join(" poison(); f%d(); fflush(0);\n" % i for i, _ in batch) + " return 0; }\n")
    return "".join(parts)


def clobber_obj(ctx):
    """harness/c/c05_clobber.c compiled by gcc, once per run"""
    o = os.path.join(ctx.scratch, "c05_clobber.o")
    if not os.path.exists(o):
        r = vt.sh(["gcc", "-O1", "-c", "-o", o + ".tmp.o", os.path.join(vt.VERIF, "harness/c/c05_clobber.c")])
        if r.returncode:
            raise Infra("c05_clobber.c does not compile: " + r.stderr[-500:])
        os.replace(o + ".tmp.o", o)
    return o


REJECT_LIMIT = int(os.environ.get("C05_REJECT_LIMIT", "6"))


def run_batches(ctx, compiler, tree, T, cases, tag, per=300, limit=None):
    """Compile and run batches of cases.  Returns (lines by case index, rejected {index: (stage, rc, message)},
    number of cases left unjudged).  A case the compiler rejects (or whose code crashes) is identified by the
    diagnostic's line number (the position in the output), removed, and the rest of its batch is retried; after
    REJECT_LIMIT culprits in one batch the rest of that batch is left unjudged (it is counted)."""
    d = ctx.tmp("prog-%s-%s" % (tag, compiler))
    cobj = clobber_obj(ctx)
    batches = [cases[k:k + per] for k in range(0, len(cases), per)]
    limit = limit or REJECT_LIMIT

    def one(t):
        bi, batch = t
        res, rej = {}, {}
        src, exe = "%s/b%d.c" % (d, bi), "%s/b%d.exe" % (d, bi)
        while batch:
            lines = []
            with open(src, "w") as f:
                f.write(batch_source(T, batch, lines))
            if compiler == "gcc":
                cmd = ["gcc", "-w", "-std=gnu11", "-O0", "-o", exe, src, cobj]
            else:
                cmd = [tree + "/chibicc", "-I" + tree + "/include", "-o", exe, src, cobj]
            p = vt.run_limited(cmd, timeout=180)
            if p.returncode != 0:
                err = "\n".join(l for l in p.stderr.splitlines() if "GNU-stack" not in l and "NOTE:" not in l)
                culprits = set()
                for m in re.finditer(r"b%d\.c:(\d+):" % bi, err):
                    n = int(m.group(1))
                    culprits |= {i for a, b, i in lines if a <= n <= b}
                if not culprits or len(rej) >= limit:
                    return res, rej, len(batch), (p.returncode, err[-400:])
                for i in culprits:
                    rej[i] = ("compile", p.returncode, err[-400:])
                batch = [(i, c) for i, c in batch if i not in culprits]
                continue
            r = vt.run_limited([exe], timeout=60, mem_gb=1)
            done = set()
            for l in r.stdout.splitlines():
                f = l.split()
                if len(f) >= 2 and f[0] == "C" and l.endswith(" ."):
                    res[int(f[1])] = l[:-2].strip()
                    done.add(int(f[1]))
            rest = [(i, c) for i, c in batch if i not in done]
            if r.returncode == 0 and not rest:
                break
            if not rest or len(rej) >= limit:
                return res, rej, len(rest), (r.returncode, "program output incomplete")
            rej[rest[0][0]] = ("run", r.returncode, r.stderr[-200:])      # the first case without a line crashed
            batch = rest[1:]
        for f in (src, exe):
            try:
                os.unlink(f)
            except OSError:
                pass
        return res, rej, 0, None

    res, rej, unj = {}, {}, 0
    for r1, j1, u1, why in vt.pmap(one, list(enumerate(batches)), workers=min(vt.NCPU, 8)):
        res.update(r1)
        rej.update(j1)
        unj += u1
        if why and os.environ.get("VERIF_VERBOSE"):
            print("batch given up (%s): %s" % (compiler, why), flush=True)
    return res, rej, unj


# ---------------------------------------------------------------- classification
FLEXF = {"flex-indexed", "flex-elided-then-designator", "flex-initialised-twice"}
PRIORITY = ["flex-indexed", "flex-elided-then-designator", "flex-initialised-twice", "string-elided-array", "braced-string",
            "range-nested", "range", "nested-designator", "unnamed-bitfield", "bitfield", "union", "anonymous-member",
            "flex", "string", "unknown-bound", "trailing-comma", "plain"]


def features(T, c):
    """syntactic features of a case; the signature names the first one of PRIORITY (root-cause classes)"""
    f = {"plain"}
    toks, tt = c.toks, T.tt
    flex = len(tt[c.ty]["ms"]) if T.has_flex(c.ty) else -1
    run, depth, flex_items, flex_elided_at, prev_flex = 0, 0, 0, None, False
    opened = []                                  # paths of the subobjects whose `{` is open
    for j, t in enumerate(toks):
        a = t["a"]
        if a in "FIR":
            run += 1
            if run == 2:
                f.add("nested-designator")
            if a == "R":
                f.add("range-nested" if run >= 2 else "range")
            if flex_elided_at is not None and depth == 1:
                f.add("flex-elided-then-designator")
            if a == "F" and depth == 1 and run == 1 and flex > 0 and t["m"] == tt[c.ty]["ms"][-1]["n"]:
                if toks[j + 1]["a"] in "IR":
                    f.add("flex-indexed")
            continue
        if a in "VSO" and depth == 1 and flex > 0:
            # one initialisation of the flexible member = a designated item, or a run of positional items
            inflex = t["p"][:1] == [flex]
            if inflex and (run > 0 or not prev_flex):
                flex_items += 1
            prev_flex = inflex
        run = 0
        if a == "T":
            f.add("trailing-comma")
        elif a == "O":
            depth += 1
            opened.append(t["p"])
        elif a == "C":
            depth -= 1
            opened.pop()
        elif a == "S":
            f.add("string")
            if j > 0 and toks[j - 1]["a"] == "O":
                f.add("braced-string")
            # the character array is an element of an array that has no braces of its own and was not indexed by a
            # designator: the literal reaches it by brace elision through that array (6.7.9p20)
            par = t["p"][:-1]
            if t["p"] and par not in opened and (j == 0 or toks[j - 1]["a"] not in "IR") and T.type_at(c.ty, par)["k"] == "arr":
                f.add("string-elided-array")
        if a in "VS" and depth == 1 and flex > 0 and t["p"][:1] == [flex]:
            flex_elided_at = j
    if flex_items >= 2:
        f.add("flex-initialised-twice")

    def walk(t):
        d = tt[t]
        if d["k"] == "arr":
            if d["n"] == 0:
                f.add("unknown-bound")
            walk(d["e"])
        elif d["k"] in ("st", "un"):
            if d["k"] == "un":
                f.add("union")
            for m in d["ms"]:
                if m["n"] == "" and tt[m["t"]]["k"] == "sc":
                    f.add("unnamed-bitfield")
                elif m["w"] > 0:
                    f.add("bitfield")
                if m["n"] == "" and tt[m["t"]]["k"] != "sc":
                    f.add("anonymous-member")
                walk(m["t"])
    walk(c.ty)
    if flex > 0:
        f.add("flex")
    return f


def sections(line):
    """{'S': [...], 'A': [...] or None, 'Z': [...] or None} of an output / expectation line"""
    x = line.split()[2:]
    out, cur = {"S": None, "A": None, "Z": None}, None
    for w in x:
        if w in out:
            cur = w
            out[w] = []
        else:
            out[cur].append(w)
    return out


def only_survivors(T, c, exp, got):
    """D35, exactly: a `{`/string re-initialised a subobject that already had initializers, both objects
    agree with each other, and every leaf that differs from the specification holds a value that was
    given for that very leaf earlier and discarded by the later `{`/string, and the specification has the
    implicit zero there (no later initializer writes the leaf)."""
    if not c.dis or got is None:
        return False
    e, g = sections(exp), sections(got)
    if g["S"] is None or e["Z"] != g["Z"] or (e["A"] is None) != (g["A"] is None):
        return False
    if g["A"] is not None and g["A"] != g["S"]:
        return False
    lv = case_plan(T, c)[0]
    if len(lv) != len(g["S"]) or len(lv) != len(e["S"]):
        return False
    diff = False
    for (path, _, kind), ev, gv in zip(lv, e["S"], g["S"]):
        if ev != gv:
            diff = True
            # ... and the later `{`/string itself gives that leaf nothing: it is absent from the value map (the implicit
            # zero).  A leaf the later initializer DOES write (e.g. the NUL of the shorter string) must hold that value.
            if path in c.val or gv not in {str(expect_leaf(kind, {path: v}, path)) for v in c.dis.get(path, ())}:
                return False
    return diff


def classify(T, c, exp, got):
    """signature of a discrepancy: which back end is wrong + the syntactic class of the initializer"""
    ft = features(T, c)
    if not (ft & FLEXF) and only_survivors(T, c, exp, got):
        return "init:both:override-whole-subobject"
    if got is None:
        side = "rejected"
    else:
        e, g = exp.split(), got.split()

        def sect(x, a, b):
            if a not in x:
                return None
            i = x.index(a)
            j = x.index(b) if b in x else len(x)
            return x[i + 1:j]
        es, gs = sect(e, "S", "A" if "A" in e else "Z"), sect(g, "S", "A" if "A" in g else "Z")
        ea, ga = sect(e, "A", "Z"), sect(g, "A", "Z")
        sbad, abad = es != gs, ea is not None and ea != ga
        if sbad and abad:
            side = "both" if gs == ga else "both-differently"
        elif sbad:
            side = "static"
        elif abad:
            side = "auto"
        else:
            side = "size"
    return "init:%s:%s" % (side, [x for x in PRIORITY if x in ft][0])


# ------------------------------------------------------------------------ compare
def compare(ctx, tree, T, cases, tag, first=0, per=300, limit=None):
    idx = [(first + k, c) for k, c in enumerate(cases)]
    res, rejected, unjudged = run_batches(ctx, "chibicc", tree, T, idx, tag, per=per, limit=limit)
    wrong = []
    for i, c in idx:
        ctx.note_case(c.key, nontrivial=len(c.toks) >= 4)
        exp = expect_line(T, i, c)
        if i in rejected:
            wrong.append((i, c, exp, None))
        elif i in res and res[i] != exp:
            wrong.append((i, c, exp, res[i]))
    if wrong:
        # the reference compiler must agree with the specification before chibicc is blamed
        gres, grej, gunj = run_batches(ctx, "gcc", tree, T, [(i, c) for i, c, _, _ in wrong], tag + "-gcc")
        for i, c, exp, got in wrong:
            if gres.get(i) != exp:
                ctx.oracle_disagreements += 1
                continue
            sig = classify(T, c, exp, got)
            what = "%s = %s : spec (=gcc) `%s`, chibicc %s" % (
                T.decl(c.ty, "x"), c.text, exp.split(" ", 2)[2],
                "`%s`" % got.split(" ", 2)[2] if got else "does not compile/run it: %s" % (rejected[i],))
            ctx.report(sig, what, case=dict(kind="init", ty=c.ty, toks=c.toks, dis=[dict(p=list(p), v=v) for p, vs in c.dis.items() for v in sorted(vs)], val=[dict(p=list(p), v=v) for p, v in c.val.items()],
                                            index=i, expected=exp, got=got, source=batch_source(T, [(i, c)])))
    ctx.cov["traces_validated_against_impl"] += len(res)
    return res, unjudged, wrong


def gcc_validate(ctx, T, cases, tag):
    """development aid (C05_GCC=1): the automaton against gcc over the whole generated domain"""
    idx = list(enumerate(cases))
    res, rej, unj = run_batches(ctx, "gcc", None, T, idx, tag + "-val")
    for i in sorted(rej)[:40]:
        c = cases[i]
        print("GCC-REJECTS %s = %s : %s" % (T.decl(c.ty, "x"), c.text, rej[i][2][-300:].replace("\n", " | ")))
    n = 0
    for i, c in idx:
        exp = expect_line(T, i, c)
        if i in res and res[i] != exp:
            n += 1
            if n <= 40:
                print("GCC-DISAGREES %s = %s : spec `%s` gcc `%s`" % (T.decl(c.ty, "x"), c.text, exp, res[i]))
    print("gcc validation %s: %d cases, %d judged, %d rejected, %d unjudged, %d disagreements" % (tag, len(idx), len(res), len(rej), unj, n))
    return n + len(rej) + unj


# ------------------------------------------------------------------------- run
def generate(ctx, types, out, workers=4, cfg=None, **consts):
    tset = "{" + ",".join('"%s"' % t for t in types) + "}"
    cfg = cfg or ctx.cfg(AREA, "Init_gen.cfg", Types=tset, **consts)
    g = ctx.tlc(AREA, "Init", cfg, env=dict(OUT=out), workers=workers, heap="6g", timeout=3000)
    if not g.ok:
        p = ctx.replay_dir("tlc-Init-%s" % "-".join(types)[:40])
        open(p + "/counterexample.txt", "w").write(g.trace_text())
        json.dump(dict(kind="tlc", area=AREA, module="Init", cfg=open(cfg).read()), open(p + "/case.json", "w"))
        ctx.report("tlc:Init:%s" % g.violated, "the 6.7.9 automaton violates its own invariant %s" % g.violated, p)
    return g


def load(out, forms=False):
    tt, cases = None, []
    for b in vt.read_ndjson(out):
        if "tt" in b:
            tt = b["tt"]
        else:
            cases.append(Case(b, forms))
    if tt is None:
        raise Infra("generator wrote no type table")
    cases.sort(key=lambda c: c.key)                     # TLC's worker interleaving must not matter
    return Types(tt), cases


def run(ctx):
    q = ctx.quick
    tree = ctx.build()
    ctx.phase("build")
    # sensitivity control: the automaton that does not discard overridden subobjects must be rejected
    ctl = ctx.tlc(AREA, "Init", ctx.cfg(AREA, "Init_gen.cfg", Types='{"sn","c24"}', MaxItems=4, Emit=False, Broken=True),
                  workers=2, count=False, timeout=600)
    if ctl.ok:
        raise Infra("sensitivity control failed: TLC accepts the automaton that keeps overridden initializers")
    ctx.phase("control")
    out = os.path.join(ctx.scratch, "beh.ndjson")
    # the complete graph for every type at the small bound ...
    if q:
        generate(ctx, ALL_TYPES, out, MaxItems=3, MaxDesig=2)
    else:       # the 56-byte struct and int[3][3] have very many spellings at 4 items; 3 suffice for them
        generate(ctx, [t for t in ALL_TYPES if t not in ("s56", "i33")], out, MaxItems=4, MaxDesig=2)
        generate(ctx, ["s56", "i33"], out, MaxItems=3, MaxDesig=2)
    # ... and one item more: quick = a seed-selected fifth of the lighter types, thorough = a fixed set
    # of small types at 5 items (no ranges / trailing commas there)
    light = [t for t in ARRAYS + CHARS + STRUCTS if t not in HEAVY]
    # (the union type `us` is always in the deeper slice: discarding the previous member on a member
    #  switch, D39, needs four initializers to show)
    deep = sorted(set(vt.subsample(light, ctx.seed, 5)) | {"us"}) if q else DEEP5
    out2 = os.path.join(ctx.scratch, "beh2.ndjson")
    # the value family: every value class in every position of the types of VALTYPES (the same for every seed);
    # generated next to the deeper slice (2 + 2 workers)
    out3 = os.path.join(ctx.scratch, "beh3.ndjson")
    vconsts = dict(MaxItems=3, MaxDesig=1, MaxTC=0, Ranges=False, ValClasses=VALCLASSES)
    if q:
        import concurrent.futures
        vcfg = ctx.cfg(AREA, "Init_gen.cfg", Types="{" + ",".join('"%s"' % t for t in VALTYPES) + "}", **vconsts)
        with concurrent.futures.ThreadPoolExecutor(1) as ex:
            fut = ex.submit(generate, ctx, VALTYPES, out3, workers=2, cfg=vcfg)
            generate(ctx, deep, out2, workers=2, MaxItems=4, MaxDesig=2)
            fut.result()
    else:
        generate(ctx, deep, out2, MaxItems=5, MaxDesig=2, MaxTC=0, Ranges=False)
        generate(ctx, VALTYPES, out3, **vconsts)
    ctx.phase("tlc")
    T, c1 = load(out)
    _, c2 = load(out2)
    _, c3 = load(out3, forms=True)
    ctx.cov["value_family_cases"] = len(c3)
    seen, cases = set(), []
    for c in c1 + c2 + c3:
        if c.key not in seen:
            seen.add(c.key)
            cases.append(c)
    if len(cases) < 1000:
        raise Infra("generator wrote only %d behaviours" % len(cases))
    if os.environ.get("C05_GCC"):
        gcc_validate(ctx, T, cases, "all")
    # cases in the classes of the open finding D37 (flexible array member designated / initialised twice) are
    # mostly rejected by the compiler; a seed-selected tenth of them is replayed in small batches so that
    # they cannot take the other cases of a batch with them
    prone = [c for c in cases if features(T, c) & FLEXF]
    # likewise the cases in which a string literal reaches a character array by brace elision through an enclosing
    # array (rejected by a tree without proposed/C11/fix-3): all of them, in small batches
    elided = [c for c in cases if "string-elided-array" in features(T, c) and not features(T, c) & FLEXF]
    pk = set(c.key for c in prone + elided)
    sel = [c for c in cases if c.key not in pk]
    prone = vt.subsample(prone, ctx.seed, 10 if q else 4) + elided
    mid = sel[len(sel) // 2]
    ctx.sample(dict(kind="initializer", c_static="static %s = %s;" % (T.decl(mid.ty, "s"), mid.text),
                    c_automatic="%s = %s;" % (T.decl(mid.ty, "a"), mid.text), expected=expect_line(T, 0, mid)))
    res, unjudged, wrong = compare(ctx, tree, T, sel, "init")
    r2, u2, w2 = compare(ctx, tree, T, prone, "flex", first=len(sel), per=12, limit=12)
    unjudged += u2
    if unjudged * 20 > len(sel) and not ctx.violations:      # with violations reported the verdict is already "fails"
        raise Infra("%d of %d cases could not be judged (their batches did not compile or run)" % (unjudged, len(sel)))
    if unjudged:
        ctx.cov["unjudged_cases_in_failed_batches"] = unjudged
    ctx.phase("replay")
    ctx.assumptions += [
        "the automaton was validated against gcc 12 on the whole generated domain at development time; at check time gcc only discards vectors on which it disagrees with the automaton",
        "generated programs read objects through member names only (padding and unnamed bit-fields are never read); only the active member of a union is read",
        "flexible array members are initialised in the static form only (GNU extension; gcc rejects the automatic form)",
        "excluded (undefined, a constraint violation, or gcc/clang disagree): excess initializers, empty braces, {{scalar}}, too long strings, a range designator that is not last or is followed by brace elision"]
    return ctx.finish(
        rule="case = one completed behaviour of Init.tla (type, initializer token sequence, value map) compiled by the tree's chibicc as a static and as an automatic object, both dumped member-wise and compared with the value map; non-trivial = at least 4 tokens; distinct = distinct (type, initializer text)",
        exhaustive=not q, extra=dict(behaviours=len(cases), replayed=len(sel) + len(prone), deep_types=deep))


def replay(ctx, path):
    c = json.load(open(os.path.join(path, "case.json")))
    c = c.get("case") or c
    tree = ctx.build()
    if c.get("kind") == "init":
        out = os.path.join(ctx.scratch, "tt.ndjson")
        generate(ctx, [c["ty"]], out, MaxItems=2, Emit=True)
        T, _ = load(out)
        compare(ctx, tree, T, [Case(dict(ty=c["ty"], toks=c["toks"], val=c["val"], dis=c.get("dis")))], "init", first=c.get("index", 0))
    elif c.get("kind") == "tlc":
        cfg = os.path.join(ctx.scratch, "replay.cfg")
        open(cfg, "w").write(c["cfg"])
        ctx.tlc_expect_ok(AREA, "Init", cfg, "replayed model check", env=dict(OUT=os.path.join(ctx.scratch, "r.ndjson")))
    return ctx.finish(rule="replay of one recorded case")
