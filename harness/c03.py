"""C03 — control flow and lexical scoping follow the abstract machine.

1. TLC, exhaustive: tla/flow/CFlow.tla enumerates every statement tree up to a bound over several
   alphabets ("profiles"); for each complete program the trace of chibicc's label/jump lowering
   (Level I, run on a jump machine) equals the trace of the C abstract machine (Level A), break /
   continue reach the innermost construct, labels are unique.  tla/flow/Scope.tla: chibicc's scope
   chain (two maps per scope + per-function label list) binds every use like the innermost-visible
   rule, for every shadowing pattern in the bound.  tla/flow/SwitchCmp.tla: the width arithmetic of
   the case compare.  Sensitivity controls: wrong lowerings / scope variants must be rejected.
2. Generate -> replay: every complete program becomes a C function that calls M(id) at every mark;
   the chibicc built from the tree under test compiles batches of them; the printed trace must be
   the Level A trace.  Switch programs are instantiated over controlling types x value embeddings;
   scope histories print which declaration each use is bound to.  gcc is the tie-break only.
"""
import json, os, re
import vt
from vt import Infra

# ------------------------------------------------------------------ flow programs -> C
PRELUDE = r'''
int printf(const char *, ...);
int _setjmp(void *);
void longjmp(void *, int);
void *signal(int, void *);
int setitimer(int, void *, void *);
int sigprocmask(int, void *, void *);
static int buf[260], nb;
static long jb[64];
static int M(int i) { if (nb >= 250) longjmp(jb, 1); buf[nb++] = i; return 7; }
static int T(int i) { M(i); return 1; }
static int F(int i) { M(i); return 0; }
/* truth values of other scalar types: true = nonzero (0x100000000, 0.5, non-null, NaN), false = 0 / -0.0 / null */
static double vzero;
/* operands of 64-bit comparisons (V*: with a mark, N*: without) */
static long VL(int i, long v) { M(i); return v; }                   static long NL(long v) { return v; }
static unsigned long VU(int i, unsigned long v) { M(i); return v; } static unsigned long NU(unsigned long v) { return v; }
static int T_i(int i) { M(i); return 1; }                           static int F_i(int i) { M(i); return 0; }
static long T_l(int i) { M(i); return 0x100000000L; }               static long F_l(int i) { M(i); return 0; }
static void *T_p(int i) { M(i); return buf; }                       static void *F_p(int i) { M(i); return 0; }
static float T_f(int i) { M(i); return 0.5f; }                      static float F_f(int i) { M(i); return -0.0f; }
static double T_d(int i) { M(i); return 0.5; }                      static double F_d(int i) { M(i); return -0.0; }
static double T_dn(int i) { M(i); return vzero / vzero; }           static double F_dn(int i) { M(i); return 0.0; }
static long double T_x(int i) { M(i); return 0.5L; }                static long double F_x(int i) { M(i); return -0.0L; }
static long double T_xn(int i) { M(i); return vzero / vzero; }      static long double F_xn(int i) { M(i); return 0.0L; }
/* operand SHAPES: the same mark and the same value, delivered through an lvalue expression whose evaluation has the
   side effect (the mark) underneath: *TP(i), TS(i)->m, tv[MX(i, v)], TV(i).m */
struct SH { int pad; int m; };
static int one = 1, zero;                                          static int tv[2] = {0, 1};
static struct SH sone = {0, 1}, szero;
static int *TP(int i) { M(i); return &one; }                       static int *FP(int i) { M(i); return &zero; }
static struct SH *TS(int i) { M(i); return &sone; }                static struct SH *FS(int i) { M(i); return &szero; }
static int MX(int i, int v) { M(i); return v; }
static struct SH TV(int i) { M(i); return sone; }                  static struct SH FV(int i) { M(i); return szero; }
static void show(int id) { printf("C %d", id); for (int i = 0; i < nb; i++) printf(" %d", buf[i]); printf("\n"); }
/* a case that spins without marks (only a broken compiler produces one) is cut off after 1 s of its
   own CPU time (ITIMER_VIRTUAL: machine load cannot trigger it) */
static void on_vtalrm(int s) { longjmp(jb, 2); }
static void arm(long sec) { long tv[4] = {0, 0, sec, 0}; setitimer(1, tv, 0); }
static void run(int id, void (*f)(void)) {
  int r;
  nb = 0;
  if ((r = _setjmp(jb)) == 0) { arm(1); f(); arm(0); show(id); }
  else { unsigned long z[16] = {0}; arm(0); sigprocmask(2, z, 0); printf("C %d %s\n", id, r == 1 ? "OVERFLOW" : "TIMEOUT"); }
}
'''
LOOPS = ("While", "Do", "For")


def open_if(P, i):
    n = P[i - 1]
    k = n["k"]
    if k == "If":
        return True
    if k == "IfElse":
        return open_if(P, n["kids"][2])
    if k in ("While", "For", "Label", "Case", "CaseR", "Default"):
        return open_if(P, n["kids"][0])
    if k in ("WhileE", "ForE", "SwitchE"):
        return open_if(P, n["kids"][1])
    return False


# operand types of the truth-value family (Truth.tla): int, long, pointer, float, double, long double, NaNs
TYS = [["i", "l", "p", "f", "d", "x", "dn", "xn"], ["i", "d", "l", "x", "p", "f", "xn", "dn"]]
TRUEC = dict(i="1", l="0x100000000L", p="(void *)buf", f="0.5f", d="0.5", dn="(vzero / vzero)", x="0.5L", xn="(long double)(vzero / vzero)")
FALSEC = dict(i="0", l="0L", p="(void *)0", f="-0.0f", d="-0.0", dn="0.0", x="-0.0L", xn="0.0L")


# truth values that are 64-bit COMPARISONS whose operands differ only above bit 31 / have equal low halves
# (true form, false form); V( = long operand, U( = unsigned long operand
CMP = dict(
    ql=("(V(0x100000000L) != 0L)", "(V(0x100000000L) == 0L)"),
    rl=("(V(0x100000000L) > 1L)", "(V(0x100000005L) < 6L)"),
    rn=("(V(-0x100000000L) < 0L)", "(V(0xffffffffL) <= -1L)"),
    ru=("(U(0x100000000UL) >= 5UL)", "(U(0x100000000UL) < 5UL)"),
    qp=("((char *)V(0x100000000L) != (char *)0)", "((char *)V(0x100000000L) == (char *)0)"),
    sw=("(1L < V(0x100000000L))", "(0L == V(0x100000000L))"))
TYS += [["ql", "i", "rl", "d", "ru", "l", "qp", "rn"], ["rl", "qp", "sw", "rn", "p", "ql", "x", "ru"]]
NROT = 8 * len(TYS)
for _t, (_a, _b) in CMP.items():
    TRUEC[_t] = _a.replace("V(", "NL(").replace("U(", "NU(")
    FALSEC[_t] = _b.replace("V(", "NL(").replace("U(", "NU(")

# loop counters as 64-bit objects that cross 2^32 while the loop runs: (C type, start value, suffix)
# (a comparison of the low halves alone gives a different answer at the bound)
WIDE = dict(l=("long", 0x7ffffffe, "L"), n=("long", -0x80000002, "L"), u=("unsigned long", 0xfffffffe, "UL"))


def value_leaves(P, i):
    """the T/F leaves whose type becomes the type of expression i"""
    n = P[i - 1]
    k = n["k"]
    if k in ("T", "F"):
        return {i}
    if k in ("Comma", "SE"):
        return value_leaves(P, n["kids"][1])
    if k == "Cond":
        return value_leaves(P, n["kids"][1]) | value_leaves(P, n["kids"][2])
    if k == "Elvis":
        return value_leaves(P, n["kids"][0]) | value_leaves(P, n["kids"][1])
    return set()


def type_map(P, rot):
    """node index -> type tag; pointers are replaced by long where ?: would have to merge them with arithmetic types"""
    ty = TYS[rot // 8]
    tm = {i + 1: ty[(i + 1 + rot) % 8] for i in range(len(P))}
    for i, n in enumerate(P):
        if n["k"] in ("Cond", "Elvis"):
            for j in value_leaves(P, n["kids"][1]) | value_leaves(P, n["kids"][2 if n["k"] == "Cond" else 0]):
                if tm[j] == "p":
                    tm[j] = "l"
    return tm


# operand shapes of the T / F leaves (CFlow.tla, constant Shapes): shape -> (true form, false form)
SHAPE = {1: ("*TP(%d)", "*FP(%d)"), 2: ("TS(%d)->m", "FS(%d)->m"), 3: ("tv[MX(%d, 1)]", "tv[MX(%d, 0)]"), 4: ("TV(%d).m", "FV(%d).m")}


def cnum(wd, k):
    """the counter value k (0 = start) as a C constant"""
    if not wd:
        return str(k)
    v = WIDE[wd][1] + k
    return "%s0x%x%s" % ("-" if v < 0 else "", abs(v), WIDE[wd][2])


def loop_cond(n, i, incr, tm=None, wd=None):
    a = n["a"]
    t = tm[i] if tm else "i"
    c = FALSEC[t] if a == 0 else TRUEC[t] if a == 9 else ("c%d++ < %s" % (i, cnum(wd, a)) if incr else "c%d < %s" % (i, cnum(wd, a)))
    return "(M(%d), %s)" % (100 + i, c) if n["b"] & 1 else c


def rs(P, i, sw, tm=None, wd=None):
    """render statement/expression node i (1-based) of program P; sw = (ctype, value map) for Switch/Case"""
    n = P[i - 1]
    k, kids = n["k"], n["kids"]
    R = lambda j: rs(P, kids[j], sw, tm, wd)
    cv = lambda v: sw[1][v] if sw else str(v)
    if k == "Mark":
        return "M(%d);" % i
    if k == "Seq":
        return "{ " + " ".join(R(j) for j in range(len(kids))) + " }"
    if k == "If":
        return "if (%s) %s" % (R(0), R(1))
    if k == "IfElse":
        t = R(1)
        if open_if(P, kids[1]):
            t = "{ " + t + " }"
        return "if (%s) %s else %s" % (R(0), t, R(2))
    if k == "While":
        return "{ c%d = %s; while (%s) %s }" % (i, cnum(wd, 0), loop_cond(n, i, True, tm, wd), R(0))
    if k == "Do":
        return "{ c%d = %s; do %s while (%s); }" % (i, cnum(wd, 0), R(0), loop_cond(n, i, True, tm, wd))
    if k == "For":
        cond = "" if (n["a"] == 9 and not n["b"] & 1) else loop_cond(n, i, False, tm, wd)
        inc = "(M(%d), c%d++)" % (200 + i, i) if n["b"] & 2 else "c%d++" % i
        return "for (c%d = %s; %s; %s) %s" % (i, cnum(wd, 0), cond, inc, R(0))
    if k == "WhileE":
        return "while (%s) %s" % (R(0), R(1))
    if k == "DoE":
        return "do %s while (%s);" % (R(0), R(1))
    if k == "ForE":
        return "for (c%d = 0; %s; (%s, c%d++)) %s" % (i, R(0), R(2), i, R(1))
    if k == "SwitchE":
        return "switch (%s) %s" % (R(0), R(1))
    if k == "Switch":
        if sw:
            ctl = sw[3][str(i)] if len(sw) > 3 else (sw[2] if len(sw) > 2 else sw[1])[n["a"]]
            return "{ %s v%d = %s; switch (v%d) %s }" % (sw[0], i, ctl, i, R(0))
        return "switch (%d) %s" % (n["a"], R(0))
    if k == "Case":
        return "case %s: %s" % (cv(n["a"]), R(0))
    if k == "CaseR" and sw and len(sw) > 3:       # dense family: every value of the range as a label of its own
        return "case %s: %s" % (": case ".join(cv(v) for v in range(n["a"], n["b"] + 1)), R(0))
    if k == "CaseR":
        return "case %s ... %s: %s" % (cv(n["a"]), cv(n["b"]), R(0))
    if k == "Default":
        return "default: %s" % R(0)
    if k == "Break":
        return "break;"
    if k == "Continue":
        return "continue;"
    if k == "Goto":
        return "goto L%d;" % n["a"]
    if k == "GotoStar":
        return "goto *tab[%d];" % (n["a"] - 1)
    if k == "Label":
        return "L%d: %s" % (n["a"], R(0))
    if k == "Expr":
        return R(0) + ";"
    if k in ("T", "F") and tm and tm[i] in CMP:
        return CMP[tm[i]][0 if k == "T" else 1].replace("V(", "VL(%d, " % i).replace("U(", "VU(%d, " % i)
    if k in ("T", "F") and n["a"] and not tm:
        return SHAPE[n["a"]][0 if k == "T" else 1] % i
    if k in ("T", "F"):
        return "%s%s(%d)" % (k, "_" + tm[i] if tm else "", i)
    if k == "Not":
        return "!" + R(0)
    if k == "And":
        return "(%s && %s)" % (R(0), R(1))
    if k == "Or":
        return "(%s || %s)" % (R(0), R(1))
    if k == "Cond":
        return "(%s ? %s : %s)" % (R(0), R(1), R(2))
    if k == "Elvis":
        return "(%s ?: %s)" % (R(0), R(1))
    if k == "Comma":
        return "(%s, %s)" % (R(0), R(1))
    if k == "SE":
        return "({ %s %s; })" % (R(0), R(1))
    if k == "CntLt":
        return "c%d++ < %s" % (i, cnum(wd, n["a"]))
    raise Infra("unknown node kind " + k)


def render_flow(idx, c):
    P = c["p"]
    sw = c.get("sw")
    cs = [i + 1 for i, n in enumerate(P) if n["k"] in LOOPS + ("CntLt", "ForE")]
    labs = sorted(n["a"] for n in P if n["k"] == "Label")
    stars = [n["a"] for n in P if n["k"] == "GotoStar"]
    out = ["static void f%d(void) {" % idx]
    if cs:
        wd = c.get("wide")
        out.append(" %s " % (WIDE[wd][0] if wd else "int") + ", ".join("c%d = %s" % (i, cnum(wd, 0)) for i in cs) + ";")
    if stars:
        out.append(" void *tab[] = {" + ", ".join("&&L%d" % j if j in labs else "(void *)0" for j in range(1, max(stars) + 1)) + "};")
    out.append(" " + rs(P, 1, sw, type_map(P, c["rot"]) if c.get("rot") is not None else None, c.get("wide")))
    out.append("}")
    return "\n".join(out) + "\n"


def expect_flow(idx, c):
    return " ".join(["C", str(idx)] + [str(x) for x in c["tr"]])


def main_flow(batch):
    return ("int main(void) {\n signal(26, on_vtalrm);\n" + "".join(" run(%d, f%d);\n" % (i, i) for i, _ in batch) + " return 0; }\n")


# --------------------------------------------------------------- batched compile and run
def run_batches(ctx, compiler, tree, cases, render, mainfn, tag, per=200, prelude=PRELUDE):
    d = ctx.tmp("prog-%s-%s" % (tag, compiler))
    batches = [cases[k:k + per] for k in range(0, len(cases), per)]

    def one(t):
        bi, batch = t
        src = "%s/b%d.c" % (d, bi)
        with open(src, "w") as f:
            f.write(prelude)
            for i, c in batch:
                f.write(render(i, c))
            f.write(mainfn(batch))
        exe = src[:-2] + ".exe"
        if compiler == "gcc":
            cmd = ["gcc", "-w", "-O0", "-std=gnu11", "-o", exe, src]
        else:
            cmd = [tree + "/chibicc", "-I" + tree + "/include", "-o", exe, src]
        p = vt.run_limited(cmd, timeout=180)
        if p.returncode != 0:
            return bi, batch, ("compile", p.returncode, p.stderr[-600:])
        r = vt.run_limited([exe], timeout=60, mem_gb=1)
        try:
            os.unlink(exe)
        except OSError:
            pass
        return bi, batch, ("run", r.returncode, r.stdout)

    res, failed = {}, []
    for bi, batch, (st, rc, out) in vt.pmap(one, list(enumerate(batches)), workers=8):
        if st == "run":
            for l in out.splitlines():
                f = l.split()
                if len(f) >= 2 and f[0] == "C" and f[1].isdigit():
                    res[int(f[1])] = l.strip()
        if st == "compile" or rc != 0:
            failed.append((bi, [(i, c) for i, c in batch if i not in res], st, rc, out))
    return res, failed


def bisect_failed(ctx, compiler, tree, failed, render, mainfn, tag, limit=3, prelude=PRELUDE):
    res, bad = {}, []
    seq = [0]

    def rec(batch):
        seq[0] += 1
        r, f = run_batches(ctx, compiler, tree, batch, render, mainfn, "%s-bis%d" % (tag, seq[0]), per=len(batch), prelude=prelude)
        res.update(r)
        if not f:
            return
        rest = f[0][1]
        if len(batch) == 1:
            bad.append((batch[0], f[0][2], f[0][3], f[0][4]))
            return
        if len(bad) >= limit:
            return
        if f[0][2] == "run" and len(rest) < len(batch):
            # the program died in the middle: the first case without a line is the culprit
            bad.append((rest[0], "run", f[0][3], "died while running this case"))
            if len(rest) > 1:
                rec(rest[1:])
            return
        h = len(batch) // 2
        rec(batch[:h])
        rec(batch[h:])
    for bi, batch, st, rc, out in failed:
        if len(bad) >= limit or not batch:
            continue
        rec(batch)
    return res, bad


def compare(ctx, tree, cases, render, expect, mainfn, tag, sigfn, first=0, prelude=PRELUDE, nontrivial=None):
    idx = [(first + k, c) for k, c in enumerate(cases)]
    res, failed = run_batches(ctx, "chibicc", tree, idx, render, mainfn, tag, prelude=prelude)
    if failed:
        r2, bad = bisect_failed(ctx, "chibicc", tree, failed, render, mainfn, tag, prelude=prelude)
        res.update(r2)
        for (i, c), st, rc, out in bad:
            g, gf = run_batches(ctx, "gcc", tree, [(i, c)], render, mainfn, "%s-g%d" % (tag, i), per=1, prelude=prelude)
            if gf or g.get(i) != expect(i, c):
                ctx.oracle_disagreements += 1        # gcc does not accept it / disagrees with the spec: generator or spec problem
                continue
            ctx.report(sigfn(c, expect(i, c), "%s rc=%s" % (st, rc)) + ":rejected-or-crashed",
                       "chibicc %s rc=%s: %s | %s" % (st, rc, str(out)[-200:], render(i, c)[:400]),
                       case=dict(kind=tag, case=c, index=i, expected=expect(i, c), source=prelude + render(i, c) + mainfn([(i, c)])))
    bad = []
    for i, c in idx:
        ctx.note_case("%s:%s" % (tag, json.dumps(c, sort_keys=True)), nontrivial=nontrivial(c) if nontrivial else True)
        if i in res and res[i] != expect(i, c):
            bad.append((i, c, expect(i, c), res[i]))
    if bad:
        gres, gf = run_batches(ctx, "gcc", tree, [(i, c) for i, c, _, _ in bad], render, mainfn, tag + "-gcc", prelude=prelude)
        if gf:
            g2, _ = bisect_failed(ctx, "gcc", tree, gf, render, mainfn, tag + "-gccb", prelude=prelude)
            gres.update(g2)
        for i, c, exp, got in bad:
            if gres.get(i) != exp:
                ctx.oracle_disagreements += 1
                continue
            ctx.report(sigfn(c, exp, got), "spec (= gcc) %s, chibicc %s | %s" % (exp, got, render(i, c)[:500]),
                       case=dict(kind=tag, case=c, index=i, expected=exp, got=got, source=prelude + render(i, c) + mainfn([(i, c)])))
    ctx.cov["traces_validated_against_impl"] += len(res)
    return res




# ----------------------------------------------- switch: controlling types x value embeddings
# abstract case/controlling values 0..3 of the "switch" profile -> C constants, increasing in the
# promoted controlling type, so that the Level A trace of the abstract program stays the trace
EMBED = [
    ("char", ["-128", "-1", "0", "127"]), ("char", ["-3", "-2", "5", "6"]),
    ("unsigned char", ["0", "1", "200", "255"]),
    ("short", ["-32768", "-1", "1", "32767"]),
    ("int", ["(-2147483647-1)", "-1", "0", "2147483647"]), ("int", ["-5", "3", "4", "100"]),
    ("unsigned", ["0", "1", "2147483648u", "4294967295u"]), ("unsigned", ["0u", "5u", "0x7fffffffu", "0x80000000u"]),
    ("unsigned", ["0", "5", "-2", "-1"]),
    ("long", ["-0x100000001L", "-1L", "0x7fffffffL", "0x100000000L"]),
    ("long", ["(-0x7fffffffffffffffL-1)", "0L", "0x80000000L", "0x7fffffffffffffffL"]),
    ("long", ["0L", "1L", "0x100000000L", "0x100000001L"]), ("long", ["-7L", "-6L", "8L", "9L"]),
    ("unsigned long", ["0UL", "0xffffffffUL", "0x100000000UL", "0xffffffffffffffffUL"]),
    ("unsigned long", ["1UL", "2UL", "0x8000000000000000UL", "0xfffffffffffffffeUL"]),
    ("unsigned long", ["0", "5", "-2", "-1"]),
]


# controlling types narrower than int with labels that are NOT representable in the type (but are in int):
# (type, labels, controlling values; None = no value of the type equals that label).  6.8.4.2p5 converts the
# labels to the PROMOTED type, so such a label never matches; every unrepresentable label here wraps to
# another value of the list, which is then used as a controlling value.
EMBED_NARROW = [
    ("char", ["-56", "5", "6", "200"], ["-56", "5", "6", None]),
    ("char", ["-129", "-128", "127", "128"], [None, "-128", "127", None]),
    ("signed char", ["-56", "5", "6", "200"], ["-56", "5", "6", None]),
    ("unsigned char", ["-1", "0", "255", "256"], [None, "0", "255", None]),
    ("unsigned char", ["-254", "2", "3", "258"], [None, "2", "3", None]),
    ("short", ["-1", "7", "8", "0xFFFF"], ["-1", "7", "8", None]),
    ("short", ["-32769", "-32768", "32767", "32768"], [None, "-32768", "32767", None]),
    ("unsigned short", ["-1", "0", "65535", "65536"], [None, "0", "65535", None]),
    ("_Bool", ["-1", "0", "1", "2"], [None, "0", "1", None]),
    ("_Bool", ["0", "1", "2", "3"], ["0", "1", None, None]),
]


def c_int(txt):
    t = txt.strip("()").rstrip("uUlL")
    if t.endswith("-1") and t.startswith("-0x7fffffffffffffffL"):
        return -(1 << 63)
    if t == "-2147483647-1":
        return -(1 << 31)
    return int(t, 0)


def typed_switch_cases(progs):
    """-> (wide family, narrow family)"""
    out, narrow = [], []
    for c in progs:
        ks = [n["k"] for n in c["p"]]
        if "Switch" not in ks:
            continue
        used = set()
        for n in c["p"]:
            if n["k"] in ("Case", "Switch"):
                used.add(n["a"])
            if n["k"] == "CaseR":
                used |= {n["a"], n["b"]}
        for ei, (ty, vm) in enumerate(EMBED):
            if "-" in vm[2] and ty.startswith("unsigned") and "CaseR" in ks:
                continue            # `case 5 ... -2` is only a range after conversion; gcc rejects it as empty
            wide = ty.endswith("long") and any(not -(1 << 31) <= c_int(vm[v]) < (1 << 31) for v in used)
            big32 = ty == "unsigned" and "CaseR" in ks and any(c_int(vm[v]) >= (1 << 31) for v in used)
            sig = ("case-label-beyond-int:" if wide or big32 else "") + ty.replace(" ", "-")
            out.append(dict(p=c["p"], tr=c["tr"], sw=[ty, vm], swsig=sig, emb=ei))
        labels = set()
        for n in c["p"]:
            if n["k"] == "Case":
                labels.add(n["a"])
            if n["k"] == "CaseR":
                labels |= {n["a"], n["b"]}
        for ei, (ty, vm, cm) in enumerate(EMBED_NARROW):
            if any(cm[n["a"]] is None for n in c["p"] if n["k"] == "Switch"):
                continue            # the controlling value must be a value of the narrow type
            if not any(cm[v] is None for v in labels):
                continue            # no label outside the type's range: covered by the other family
            narrow.append(dict(p=c["p"], tr=c["tr"], sw=[ty, vm, cm], swsig="label-outside-narrow-type:" + ty.replace(" ", "-"), emb=100 + ei))
    return out, narrow


# dense switches: every abstract label value j stands for the block of 8 consecutive labels base+8j .. base+8j+7
# (a switch with one label has 8 labels, two adjacent ones 16, non-adjacent ones leave a hole; ranges are written
# out label by label).  A controlling value that no label of its switch covers is rendered as one of the switch's
# labels plus a multiple of 2^32: equal low halves, still no match.   (type, base, suffix, offsets)
DENSE = [("long", 0, "L", [0x100000000, 0x700000000, -0x100000000]),
         ("long", -20, "L", [0x100000000, -0x300000000]),
         ("unsigned long", 5, "UL", [0x100000000, 0xffffffff00000000])]


def dense_switch_cases(progs):
    out = []
    for c in progs:
        P = c["p"]
        sws = [i + 1 for i, n in enumerate(P) if n["k"] == "Switch"]
        if not sws:
            continue
        par = {}
        for i, n in enumerate(P):
            for j in n["kids"]:
                par[j] = i + 1

        def owner(j):
            j = par.get(j)
            while j and P[j - 1]["k"] != "Switch":
                j = par.get(j)
            return j
        cover = {i: set() for i in sws}
        for j, n in enumerate(P):
            if n["k"] in ("Case", "CaseR") and owner(j + 1) in cover:
                cover[owner(j + 1)] |= set(range(n["a"], (n["b"] if n["k"] == "CaseR" else n["a"]) + 1))
        if not any(cover[i] and P[i - 1]["a"] not in cover[i] for i in sws):
            continue                # no switch whose value misses all its labels: nothing new to see
        for di, (ty, base, suf, offs) in enumerate(DENSE):
            for oi, off in enumerate(offs):
                lab = lambda v: "%d%s" % (v, suf) if v >= 0 else "(%d%s)" % (v, suf)
                vm = [": case ".join(lab(base + 8 * j + k) for k in range(8)) for j in range(4)]
                ctl = {}
                for i in sws:
                    a = P[i - 1]["a"]
                    if a in cover[i] or not cover[i]:
                        ctl[str(i)] = lab(base + 8 * a + 3)
                    else:
                        hit = base + 8 * min(cover[i]) + (i + oi) % 8          # a label of this switch ...
                        v = (hit + off) % (1 << 64) if ty.startswith("unsigned") else hit + off      # ... plus k * 2^32
                        ctl[str(i)] = lab(v) if v < (1 << 63) else "0x%xUL" % v
                out.append(dict(p=P, tr=c["tr"], sw=[ty, vm, None, ctl], swsig="dense-labels:" + ty.replace(" ", "-"), emb=200 + 10 * di + oi))
    return out


def truth_typed_cases(progs):
    """programs with truth-valued leaves or constant loop conditions x 16 assignments of operand types;
    -> (programs with && or ||, whose two operands get different types; the others)"""
    mixed, rest = [], []
    for c in progs:
        if not any(n["k"] in ("T", "F") or (n["k"] in LOOPS and n["a"] in (0, 9)) for n in c["p"]):
            continue
        tgt = mixed if any(n["k"] in ("And", "Or") for n in c["p"]) else rest
        for rot in range(NROT):
            tgt.append(dict(p=c["p"], tr=c["tr"], rot=rot))
    return mixed, rest


def wide_counter_cases(progs):
    """programs with counting loops / counting if-conditions, their counters as long and unsigned long objects
    that cross 2^32: the conditions are 64-bit comparisons directly controlling while / for / do / if"""
    out = []
    for c in progs:
        if any((n["k"] in LOOPS and n["a"] in (1, 2, 3)) or n["k"] == "CntLt" for n in c["p"]):
            for wd in sorted(WIDE):
                out.append(dict(p=c["p"], tr=c["tr"], wide=wd))
    return out


# ------------------------------------------------------------------ scope histories -> C
SPRELUDE = r"""
int printf(const char *, ...);
static void bad(int i) { printf(" BAD%d", i); }
"""
VAL = dict(obj=10, enum=20, typedef=30, mem=50)


def tag_size(d):
    """size of the struct defined by event d: LATER definitions are SMALLER, so that an object whose type is
    wrongly replaced by a later definition gets too little room"""
    return 72 - 8 * d


def probe_c(name, exp):
    o = exp["ord"]
    oe = "0" if o["k"] == "none" else ("(int)sizeof(%s)" % name if o["k"] == "typedef" else "(int)%s" % name)
    te = "(int)sizeof(struct %s)" % name if exp["tag"] else "0"
    # a statement that begins with the identifier: parsed as a declaration if it were taken for a typedef name
    st = " %s += 0;" % name if o["k"] == "obj" else ""
    # every pointer `struct x *p` in scope: the size of the type it was bound to (once that is complete)
    ps = "".join(' printf(" %%d", %s);' % ("(int)sizeof(*p%s_%d)" % (name, q["pid"]) if q["def"] else "0") for q in exp["ptrs"])
    return st + ' printf(" %%d %%d", %s, %s);' % (oe, te) + ps


def probe_exp(exp):
    o = exp["ord"]
    return ([str(0 if o["k"] == "none" else VAL[o["k"]] + o["id"]), str(tag_size(exp["tag"]) if exp["tag"] else 0)] +
            [str(tag_size(q["def"]) if q["def"] else 0) for q in exp["ptrs"]])


def decl_c(name, k, d):
    if k == "obj":
        return "int %s = %d;" % (name, VAL[k] + d)
    if k == "typedef":
        return "typedef char %s[%d];" % (name, VAL[k] + d)
    if k == "enum":
        return "enum { %s = %d };" % (name, VAL[k] + d)
    if k == "tag":
        return "struct %s { char m[%d]; };" % (name, tag_size(d))
    if k == "tagfwd":
        return "struct %s;" % name
    if k == "tagref":
        return "struct %s *p%s_%d;" % (name, name, d)
    raise Infra("decl kind " + k)


def render_scope(idx, c):
    x = "x%d" % idx
    out, infn, arg, nfor = [], False, None, 0
    for ev in c["h"]:
        e, k, d = ev["e"], ev["k"], ev["id"]
        if e == "open" and k == "fn":
            infn = True
            arg = VAL["obj"] + d if ev["p"] else None
            out.append("static void f%d(%s) {" % (idx, "int " + x if ev["p"] else "void"))
        elif e == "open" and k == "block":
            out.append(" {")
        elif e == "open" and k == "for":
            nfor += 1
            o = "once%d" % nfor
            out.append(" for (int %s%s = 1; %s; %s = 0) {" % ("%s = %d, " % (x, VAL["obj"] + d) if ev["p"] else "", o, o, o))
        elif e == "close":
            out.append("}" if k == "fn" else " }")
            if k == "fn":
                infn = False
        elif e == "decl" and k == "lab":
            out.append(' goto %s; bad(1); %s: printf(" L");' % (x, x))
        elif e == "decl" and k == "mem":
            out.append(' struct { int %s; } m%d = { %d }; printf(" %%d", m%d.%s);' % (x, d, VAL["mem"] + d, d, x))
        elif e == "decl":
            out.append((" " if infn else "") + decl_c(x, k, d))
            if k == "tag" and infn:
                # an object of the type just defined between two guards; filling it must not touch them (the frame
                # is laid out at the end of the translation unit from the type's final size)
                out.append(' { int ga = 7001; struct %s o; int gb = 7002; for (int k = 0; k < (int)sizeof(o.m); k++) o.m[k] = 85;'
                           ' printf(" %%d %%d %%d", ga, gb, (int)sizeof(o)); }' % x)
        elif e == "g":
            out.append('static void g%d(void) { goto %s; bad(2); %s: printf(" G"); }' % (idx, x, x))
        if infn:
            out.append(probe_c(x, ev["exp"]))
    out.append("static void r%d(void) { f%d(%s); g%d(); }" % (idx, idx, arg if arg is not None else "", idx))
    return "\n".join(out) + "\n"


def expect_scope(idx, c):
    out, infn = ["C", str(idx)], False
    for ev in c["h"]:
        e, k = ev["e"], ev["k"]
        if e == "open" and k == "fn":
            infn = True
        if e == "close" and k == "fn":
            infn = False
        if e == "decl" and k == "lab":
            out.append("L")
        if e == "decl" and k == "mem":
            out.append(str(VAL["mem"] + ev["id"]))
        if e == "decl" and k == "tag" and infn:
            out += ["7001", "7002", str(tag_size(ev["id"]))]
        if e == "g":
            out.append("G")
        if infn:
            out += probe_exp(ev["exp"])
    return " ".join(out)


def main_scope(batch):
    return "int main(void) {\n" + "".join(' printf("C %d"); r%d(); printf("\\n");\n' % (i, i) for i, _ in batch) + " return 0; }\n"


def fwd_hides_outer(c):
    """does the history contain `struct x;` in a scope that has no x while an enclosing scope has one (6.7.2.3p7)?"""
    st = [False]                    # per open scope: has it declared the tag
    for ev in c["h"]:
        e, k = ev["e"], ev["k"]
        if e == "open":
            st += [False, False] if k == "for" else [False]
        elif e == "close":
            del st[-2 if k == "for" else -1:]
            if not st:
                st = [False]
        elif e == "decl" and k == "tagfwd":
            if not st[-1] and any(st[:-1]):
                return True
            st[-1] = True
        elif e == "decl" and k == "tag":
            st[-1] = True
        elif e == "decl" and k == "tagref":
            if not any(st):
                st[-1] = True
    return False


def scope_sig(c, exp, got):
    if fwd_hides_outer(c):
        return "scope:tagfwd-hides-outer"
    ks = sorted(set(ev["k"] for ev in c["h"] if ev["e"] == "decl" or (ev["e"] == "open" and ev["p"])))
    return "scope:" + "+".join(ks)


def replay_scope(ctx, tree, paths):
    """paths: the history files of the Scope.tla generation runs (their union is the replayed domain)"""
    q = ctx.quick
    nt = lambda c: sum(1 for ev in c["h"] if ev["e"] == "decl" or ev["p"]) >= 2
    if not q:
        # thorough replays everything: stream the files in chunks (a large Python heap makes every fork() slow)
        n, first, sampled = 0, 0, False
        for path in paths:
            chunk = []
            for line in open(path):
                v = json.loads(line)
                chunk.append(json.loads(v) if isinstance(v, str) else v)
                if len(chunk) == 40000:
                    compare(ctx, tree, chunk, render_scope, expect_scope, main_scope, "scope", scope_sig, first=first, prelude=SPRELUDE, nontrivial=nt)
                    first, n, chunk = first + len(chunk), n + len(chunk), []
            if chunk:
                if not sampled:
                    ctx.sample(dict(kind="scope", c_source=render_scope(0, chunk[len(chunk) // 3]), expected=expect_scope(0, chunk[len(chunk) // 3])))
                    sampled = True
                compare(ctx, tree, chunk, render_scope, expect_scope, main_scope, "scope", scope_sig, first=first, prelude=SPRELUDE, nontrivial=nt)
                first, n = first + len(chunk), n + len(chunk)
        if n < 500:
            raise Infra("Scope generator wrote only %d histories" % n)
        ctx.phase("scope replay")
        return n, n
    seen, hs = set(), []
    for path in paths:
        for h in vt.read_ndjson(path):
            k = json.dumps(h, sort_keys=True)
            if k not in seen:
                seen.add(k)
                hs.append((k, h))
    hs = [h for _, h in sorted(hs, key=lambda t: t[0])]
    if len(hs) < 500:
        raise Infra("Scope generator wrote only %d histories" % len(hs))
    ntag = lambda h: sum(1 for ev in h["h"] if ev["k"] in ("tag", "tagfwd", "tagref"))
    tagged = [h for h in hs if ntag(h) >= 2]
    other = [h for h in hs if ntag(h) < 2]
    sel = vt.subsample(tagged, ctx.seed, 3) + vt.subsample(other, ctx.seed, 4)
    mid = sel[len(sel) // 3]
    ctx.sample(dict(kind="scope", c_source=render_scope(0, mid), expected=expect_scope(0, mid)))
    compare(ctx, tree, sel, render_scope, expect_scope, main_scope, "scope", scope_sig, prelude=SPRELUDE, nontrivial=nt)
    ctx.phase("scope replay")
    return len(hs), len(sel)


# ------------------------------------------------ optional: label/jump skeleton of the emitted -S
JMP = re.compile(r"^\s+(j[a-z]+|lea)\s+(\.L[\w.$]*)")
LBL = re.compile(r"^(\.L[\w.$]*):")


def asm_skeleton(ctx, tree, cases, render, mainfn, prelude, tag):
    """compile one batch with -S, reduce it to label/jump events, let TLC (AsmSkel.tla) check that
    every label is defined once and every jump target is defined"""
    d = ctx.tmp("skel-" + tag)
    src = d + "/s.c"
    with open(src, "w") as f:
        f.write(prelude + "".join(render(i, c) for i, c in cases) + mainfn(cases))
    p = vt.run_limited([tree + "/chibicc", "-I" + tree + "/include", "-S", "-o", d + "/s.s", src], timeout=120)
    if p.returncode != 0:
        return                     # the replay reports compile failures
    evs = []
    for line in open(d + "/s.s"):
        m = LBL.match(line)
        if m:
            evs.append(dict(e="label", l=m.group(1)))
            continue
        m = JMP.match(line)
        if m and not m.group(2).startswith(".L.return"):
            evs.append(dict(e="jump", l=m.group(2)))
    evs.append(dict(e="end", l=""))
    if len(evs) < 10:
        raise Infra("assembly skeleton of %s has only %d events" % (tag, len(evs)))
    tf = d + "/skel.ndjson"
    vt.write_ndjson(tf, evs)
    res = ctx.tlc("flow", "AsmSkel", "AsmSkel.cfg", env=dict(TRACE=tf), workers=1, heap="1g", timeout=600)
    if not (res.ok and res.depth == len(evs) + 1):
        res2 = ctx.tlc("flow", "AsmSkel", "AsmSkel.cfg", env=dict(TRACE=tf), workers=1, heap="1g", timeout=600, count=False)
        if res2.depth != res.depth:
            raise Infra("skeleton validation not reproducible")
        bad = evs[res.depth - 1] if res.depth - 1 < len(evs) else None
        rp = ctx.replay_dir("skeleton-" + tag)
        os.replace(tf, rp + "/skel.ndjson")
        os.replace(src, rp + "/s.c")
        json.dump(dict(kind="skeleton", rejected_event=bad, matched=res.depth - 1), open(rp + "/case.json", "w"))
        ctx.report("skeleton:%s" % (bad or {}).get("e"), "label/jump skeleton of the emitted assembly is not well formed at event %s" % bad, rp)
    ctx.cov["traces_validated_against_impl"] += 1
    ctx.cov["skeleton_events"] = ctx.cov.get("skeleton_events", 0) + len(evs)

# ------------------------------------------------------------------------ profiles
ALLK = ["Mark", "Seq", "If", "IfElse", "While", "Do", "For", "Switch", "Case", "CaseR", "Default", "Break", "Continue",
        "Goto", "GotoStar", "Label", "Expr", "T", "F", "Not", "And", "Or", "Cond", "Comma", "SE", "CntLt"]


def kset(ks):
    return "{" + ",".join('"%s"' % k for k in ks) + "}"


def iset(xs):
    return "{" + ",".join(str(x) for x in xs) + "}"


# name -> (Kinds, LoopConds, LoopB, SwVals, CaseVals, NLab, MaxN quick, MaxN thorough, MaxD)
PROFILES = {
    "all":    (ALLK, [0, 2, 9], [0, 3], [1], [0, 1, 2], 1, 4, 5, 4),
    "loops":  (["Mark", "Seq", "If", "T", "While", "Do", "For", "Break", "Continue"], [2], [0, 3], [1], [1], 1, 6, 7, 4),
    "switch": (["Mark", "Seq", "Switch", "Case", "CaseR", "Default", "Break"], [2], [0], [0, 1, 2, 3], [0, 1, 2, 3], 1, 6, 7, 4),
    "swloop": (["Mark", "Seq", "Switch", "Case", "Default", "Break", "Continue", "While", "For"], [2], [0], [1], [1, 2], 1, 6, 7, 4),
    "expr":   (["Expr", "T", "F", "Not", "And", "Or", "Cond", "Comma", "SE", "Mark", "If"], [2], [0], [1], [1], 1, 7, 8, 5),
    "sejump": (["Mark", "Seq", "Expr", "SE", "T", "F", "And", "Goto", "Label", "While", "Break", "Continue"], [2], [0], [1], [1], 1, 6, 7, 5),
    # break / continue / goto inside statement expressions in the controlling expressions of while, do-while,
    # for (condition and increment), switch and if, nested in an outer loop / switch
    "condjump": (["Mark", "SE", "T", "F", "While", "Switch", "Case", "WhileE", "SwitchE", "Break", "Continue"], [2], [0], [1], [1], 1, 6, 7, 5),
    "dojump":   (["Mark", "SE", "T", "F", "While", "Switch", "DoE", "Break", "Continue"], [2], [0], [1], [1], 1, 6, 7, 5),
    "forjump":  (["Mark", "SE", "T", "F", "While", "ForE", "Break", "Continue"], [2], [0], [1], [1], 1, 7, 8, 5),
    # GNU `a ?: b` next to ?: ! && , and statement expressions; every T / F leaf in each of the five operand SHAPES
    # (rvalue call, dereference, member through a pointer, subscript, member of a call result)
    "elvis":    (["Expr", "T", "F", "Elvis", "Cond", "Not", "And", "Comma", "SE", "Mark"], [2], [0], [1], [1], 1, 5, 6, 4),
    "goto":   (["Mark", "Seq", "If", "CntLt", "Goto", "GotoStar", "Label", "While", "Break"], [2], [0], [1], [1], 2, 6, 7, 4),
}


# small alphabets for the sensitivity controls only
CTL_PROFILES = {
    "swmini":   (["Mark", "Seq", "Switch", "Case", "CaseR", "Default"], [2], [0], [2], [1, 2], 1, 6, 6, 4),
    "loopmini": (["Mark", "Seq", "While", "Switch", "Break", "Continue"], [2], [0], [1], [1], 1, 5, 5, 4),
}


SHAPED = ("elvis",)           # profiles whose T / F leaves range over the operand shapes


def flow_cfg(ctx, name, maxn, variant="ok", emit=True, forlate=True):
    ks, lc, lb, sv, cvs, nl, _, _, md = (PROFILES.get(name) or CTL_PROFILES[name])
    return ctx.cfg("flow", "CFlow_mc.cfg", name="CFlow-" + name, MaxN=maxn, MaxD=md, Kinds=kset(ks), LoopConds=iset(lc),
                   LoopB=iset(lb), SwVals=iset(sv), CaseVals=iset(cvs), NLab=nl, Variant='"%s"' % variant, Emit=emit,
                   ForLate=forlate, Shapes=iset(range(5) if name in SHAPED else [0]))


def subtree(P, i):
    out = [i]
    for j in P[i - 1]["kids"]:
        out += subtree(P, j)
    return out


def jump_in_for_clause(P):
    return any(n["k"] == "ForE" and any(P[j - 1]["k"] in ("Break", "Continue") for kid in (n["kids"][0], n["kids"][2]) for j in subtree(P, kid))
               for n in P)


FULL = ("condjump", "dojump", "forjump", "elvis")     # small profiles whose programs are all replayed in the quick tier too


def flow_sig(c, exp, got):
    ks = set(n["k"] for n in c["p"])
    if jump_in_for_clause(c["p"]):
        return "flow:jump-in-for-clause"
    if c.get("sw"):
        return "switch:" + c["swsig"]
    if c.get("rot") is not None:
        return "truth:operand-types"
    if c.get("wide"):
        return "truth:wide-counter-comparison"
    if "Elvis" in ks:
        return "flow:elvis" + (":lvalue-operand" if any(n["k"] in ("T", "F") and n["a"] for n in c["p"]) else "")
    for tag, grp in (("goto", {"Goto", "GotoStar", "Label"}), ("switch", {"Switch"}), ("stmt-expr", {"SE"}),
                     ("loop", set(LOOPS)), ("expr", {"And", "Or", "Cond", "Comma", "Not"})):
        if ks & grp:
            return "flow:" + tag
    return "flow:basic"


PAR = int(os.environ.get("VERIF_C03_PAR", "4"))      # concurrent TLC runs (2 workers each)

CONTROLS = [("elvis", 4, "elvis-reeval"), ("dojump", 6, "do-restore-late"), ("loopmini", 5, "norestore-cont"), ("loopmini", 5, "norestore-brk"), ("swmini", 6, "norestore-sw"),
            ("expr", 4, "and-or-mixup"), ("swmini", 6, "default-first"), ("swmini", 4, "range-open")]


TAGK = '{"tag","tagfwd","tagref"}'


def tlc_jobs(ctx):
    """every TLC run of the check as one job list (run PAR at a time, biggest first):
    (key, module, cfg, env, workers, heap, count, expect)   expect: "ok" | "reject" """
    q = ctx.quick
    jobs = []
    # quick: 3 declarations in <= 2 opened constructs and 2 declarations in <= 3; thorough: 3 in <= 3
    # plus the tag forms alone (definition, `struct x;`, `struct x *p;`) with 4 declarations
    for mdl, mo, dk in ((3, 2, None), (2, 3, None), (4, 2, TAGK)) if q else ((3, 3, None), (4, 3, TAGK)):
        out = os.path.join(ctx.scratch, "scope%d%d%s.ndjson" % (mdl, mo, "t" if dk else ""))
        kw = dict(MaxDecl=mdl, MaxOpen=mo, Emit=True)
        if dk:
            kw["Decls"] = dk
        jobs.append((("scope", "%d/%d%s" % (mdl, mo, "t" if dk else ""), out), "Scope", ctx.cfg("flow", "Scope_mc.cfg", **kw), dict(OUT=out), 2 if q else 4, "3g", True, "ok"))
    for name in ("all", "goto", "switch", "loops", "swloop", "expr", "sejump", "condjump", "dojump", "forjump", "elvis"):
        prof = PROFILES[name]
        out = os.path.join(ctx.scratch, "flow-%s.ndjson" % name)
        jobs.append((("prof", name, out), "CFlow", flow_cfg(ctx, name, prof[6] if q else prof[7]), dict(OUT=out), 2, "3g", True, "ok"))
    # quick runs one control per mechanism, thorough all of them
    for name, n, v in [c for c in CONTROLS if not q or c[2] in ("norestore-cont", "norestore-sw", "and-or-mixup", "do-restore-late", "elvis-reeval")]:
        jobs.append((("ctl", "CFlow:" + v, None), "CFlow", flow_cfg(ctx, name, n, variant=v, emit=False), None, 1, "1g", False, "reject"))
    for v in ("for-noleave", "def-completes-outer") if q else ("for-noleave", "typedef-own-map", "def-completes-outer", "fwd-finds-outer"):
        jobs.append((("ctl", "Scope:" + v, None), "Scope", ctx.cfg("flow", "Scope_mc.cfg", MaxDecl=2, Variant='"%s"' % v), None, 1, "1g", False, "reject"))
    jobs.append((("mc", "SwitchCmp", None), "SwitchCmp", ctx.cfg("flow", "SwitchCmp.cfg"), None, 1, "1g", True, "ok"))
    jobs.append((("ctl", "SwitchCmp:labels-in-int", None), "SwitchCmp", ctx.cfg("flow", "SwitchCmp.cfg", FIXED=False), None, 1, "1g", False, "reject"))
    jobs.append((("ctl", "SwitchCmp:narrow-wrap", None), "SwitchCmp", ctx.cfg("flow", "SwitchCmp.cfg", NarrowWrap=True), None, 1, "1g", False, "reject"))
    jobs.append((("ctl", "SwitchCmp:low32", None), "SwitchCmp", ctx.cfg("flow", "SwitchCmp.cfg", Low32=True), None, 1, "1g", False, "reject"))
    if not q:
        jobs.append((("ctl", "CFlow:for-labels-early", None), "CFlow", flow_cfg(ctx, "forjump", 7, emit=False, forlate=False), None, 1, "1g", False, "reject"))
    jobs.append((("mc", "Truth", None), "Truth", ctx.cfg("flow", "Truth.cfg"), None, 1, "1g", True, "ok"))
    for v in ("rhs-in-lhs-class", "cmp-width-of-result") if q else ("rhs-in-lhs-class", "nan-false", "cmp-width-of-result"):
        jobs.append((("ctl", "Truth:" + v, None), "Truth", ctx.cfg("flow", "Truth.cfg", Variant='"%s"' % v), None, 1, "1g", False, "reject"))
    return jobs


def run_models(ctx):
    jobs = tlc_jobs(ctx)

    def one(j):
        key, module, cfg, env, workers, heap, count, expect = j
        return j, ctx.tlc("flow", module, cfg, env=env, workers=workers, heap=heap, count=count, timeout=3000)
    progs, scope = {}, {}
    what = dict(CFlow="chibicc's lowering (Level I) differs from the abstract machine (Level A)",
                Scope="chibicc's scope chain (Level I) binds differently from the innermost-visible rule (Level A)",
                SwitchCmp="the case compare (Level I) differs from 6.8.4.2 (Level A)",
                Truth="cmp_zero (Level I) differs from `compares unequal to 0` (Level A)")
    for (key, module, cfg, env, workers, heap, count, expect), g in vt.pmap(one, jobs, workers=PAR):
        kind, name, out = key
        if expect == "reject":
            if g.ok:
                raise Infra("sensitivity control failed: TLC accepts the wrong variant '%s'" % name)
            continue
        if not g.ok:
            p = ctx.replay_dir("tlc-%s-%s" % (module, name))
            open(p + "/counterexample.txt", "w").write(g.trace_text())
            json.dump(dict(kind="tlc", area="flow", module=module, profile=name), open(p + "/case.json", "w"))
            ctx.report("tlc:%s:%s:%s" % (module, name, g.violated), what[module], p)
        if kind == "prof":
            # TLC workers append in no fixed order: sort, so that a seed selects the same programs in every run
            progs[name] = sorted(vt.read_ndjson(out), key=lambda c: json.dumps(c, sort_keys=True))
            if len(progs[name]) < 50:
                raise Infra("CFlow profile %s wrote only %d programs" % (name, len(progs[name])))
        if kind == "scope":
            scope[name] = out
    ctx.phase("TLC models and controls")
    return progs, scope


def run(ctx):
    q = ctx.quick
    tree = ctx.build()
    ctx.phase("build")
    progs, scope = run_models(ctx)
    allp = []
    for name in PROFILES:
        for c in progs[name]:
            c["prof"] = name
            allp.append(c)
    sel = vt.subsample([c for c in allp if c["prof"] not in FULL], ctx.seed, 3 if q else 1) + [c for c in allp if c["prof"] in FULL]
    mid = max(sel[:400], key=lambda c: len(c["tr"]))
    ctx.sample(dict(kind="flow", profile=mid["prof"], c_source=render_flow(0, mid), expected=expect_flow(0, mid)))
    compare(ctx, tree, sel, render_flow, expect_flow, main_flow, "flow", flow_sig,
            nontrivial=lambda c: len(c["p"]) >= 3)
    asm_skeleton(ctx, tree, list(enumerate(vt.subsample(sel, ctx.seed, max(1, len(sel) // 150)))), render_flow, main_flow, PRELUDE, "flow")
    ctx.phase("flow replay")
    # switch at the real widths: 7 controlling types x 16 embeddings, and narrow types with labels outside their range
    typed, narrow = typed_switch_cases([c for c in progs["switch"] if len(c["p"]) <= (5 if q else 6)])
    dense = dense_switch_cases([c for name in ("switch", "swloop") for c in progs[name] if len(c["p"]) <= (5 if q else 6)])
    tsel = (vt.subsample(typed, ctx.seed, 24 if q else 1) + vt.subsample(narrow, ctx.seed, 6 if q else 1) +
            vt.subsample(dense, ctx.seed, 8 if q else 1))
    ctx.sample(dict(kind="switch", c_source=render_flow(0, tsel[-1]), expected=expect_flow(0, tsel[-1])))
    compare(ctx, tree, tsel, render_flow, expect_flow, main_flow, "switch", flow_sig, first=1000000)
    ctx.phase("typed switch replay")
    # truth values of int / long / pointer / float / double / long double operands and conditions
    # (the same closed domain in both tiers: expr programs <= 6 / 5 nodes, all-kinds programs <= 4 nodes)
    mixed = truth_typed_cases([c for c in progs["expr"] if len(c["p"]) <= 6] + [c for c in progs["all"] if len(c["p"]) <= 4])[0]
    rest = truth_typed_cases([c for c in progs["expr"] if len(c["p"]) <= 5] + [c for c in progs["all"] if len(c["p"]) <= 4])[1]
    # `a ?: b` over the operand types (the temporary has the type of a): the elvis programs whose leaves are plain calls
    elv = truth_typed_cases([c for c in progs["elvis"] if len(c["p"]) <= 5 and any(n["k"] == "Elvis" for n in c["p"])
                             and not any(n["k"] in ("T", "F") and n["a"] for n in c["p"])])
    elv = elv[0] + elv[1]
    truth = mixed + rest + elv
    wide = wide_counter_cases([c for name in ("loops", "swloop", "goto") for c in progs[name] if len(c["p"]) <= 5])
    usel = (vt.subsample(mixed, ctx.seed, 6 if q else 1) + vt.subsample(rest, ctx.seed, 64 if q else 4) +
            vt.subsample(wide, ctx.seed, 4 if q else 1) + vt.subsample(elv, ctx.seed, 2 if q else 1))
    ctx.sample(dict(kind="truth", c_source=render_flow(0, usel[len(usel) // 2]), expected=expect_flow(0, usel[len(usel) // 2])))
    compare(ctx, tree, usel, render_flow, expect_flow, main_flow, "truth", flow_sig, first=2000000)
    ctx.phase("typed truth replay")
    nh, nhs = replay_scope(ctx, tree, [scope[k] for k in sorted(scope)])
    ctx.assumptions += [
        "Level A (CFlow.tla, Scope.tla) was validated against gcc 12 on every generated program / history of the quick domain (and the typed families) at development time; at check time gcc only discards vectors on which it disagrees with the spec",
        "marks are calls of M(id), which appends to a buffer; the observable is the printed buffer",
        "not generated (outside GNU C or rejected by gcc): labels and case labels inside statement expressions that are jumped to from outside; loops whose Level A run exceeds the fuel bound; ranges that are empty before conversion to an unsigned controlling type",
        "scope histories use one identifier per history (renamed per case so that hundreds of histories share a translation unit)"]
    return ctx.finish(
        rule="case = one complete program of CFlow.tla (per profile; per controlling type x value embedding for the switch profile; per operand-type assignment for the truth family) or one history of Scope.tla, compiled by the tree's chibicc; the printed mark trace / bound declarations are compared with Level A; non-trivial = at least 3 statement nodes / 2 declarations; distinct = distinct program, embedding, typing or history",
        exhaustive=not q, extra=dict(flow_programs=len(allp), flow_replayed=len(sel), typed_switch_programs=len(typed),
                                     narrow_switch_programs=len(narrow), dense_switch_programs=len(dense), typed_switch_replayed=len(tsel),
                                     truth_typed_programs=len(truth), wide_counter_programs=len(wide), truth_typed_replayed=len(usel),
                                     scope_histories=nh, scope_replayed=nhs))


def replay(ctx, path):
    c = json.load(open(os.path.join(path, "case.json")))
    c = c.get("case") or c
    tree = ctx.build()
    if c.get("kind") == "scope":
        compare(ctx, tree, [c["case"]], render_scope, expect_scope, main_scope, "scope", scope_sig, first=c.get("index", 0), prelude=SPRELUDE)
    elif c.get("kind") in ("flow", "switch", "truth"):
        compare(ctx, tree, [c["case"]], render_flow, expect_flow, main_flow, c["kind"], flow_sig, first=c.get("index", 0))
    elif c.get("kind") == "tlc":
        print("re-run: ./check C03 (profile %s)" % c.get("profile"))
    return ctx.finish(rule="replay of one recorded case")
