def model_check(ctx):
    pass
