"""C02 model-checking jobs: FloatMC.tla over scaled-down formats (see the module's header).

Every job is one TLC run; c02.run() executes them concurrently with the vector generation and
judges them afterwards in the main thread."""
import vt
from vt import Infra

CONV_MUTS = ["cvt-rounds", "no-cw-bracket", "row-u32-as-i32", "u64f80-no-fixup", "u64-no-sticky", "f2u32-narrow",
             "row-f80f32-as-f64", "rank-float-double", "no-vararg-promotion"]
MINI_MUTS = ["no-operand-swap", "ucomis-operands", "drop-setnp", "fsubp-fdivp", "sse-operand-order", "truth-bit-test"]


def jobs(ctx):
    q = ctx.quick
    J = []

    def job(name, base, expect, workers, what, **consts):
        J.append(dict(name=name, module="FloatMC", cfg=ctx.cfg("float", base, name=name, **consts), expect=expect,
                      workers=workers, what=what, env=None))
    # quick: widths 2/3/5/9 and precisions 4/6/9; thorough: 2/3/5/10 and 4/7/10 (the base configuration).  Both keep
    # W16 < p32 < W32 < p64 <= W64 - 3 and p80 = W64, the relations the algorithms depend on.
    small = dict(WLong=9, P64=6, P80=9, EMAX32=9, EMAX64=10, EMAX80=11) if q else {}
    job("mc-conv", "FloatMC_conv.cfg", "ok", 4, "a cast-table algorithm (Level I) differs from IntToFloat/FloatToInt/FloatToFloat (Level A)", **small)
    job("mc-mini", "FloatMC_mini.cfg", "ok", 4, "comparison / truth test / operand order (Level I) differs from the IEEE relation (Level A), or Level A is not the nearest-even value",
        TypesC='{"float","ldouble"}' if q else '{"float","double","ldouble"}')
    if not q:
        job("mc-fmt", "FloatMC_mini.cfg", "ok", 4, "double arithmetic/comparison in a format of its own (p = 5)", P64=5, NEMIN64=4, EMAX64=5,
            Kinds='{"arith","cmp"}', TypesC='{"double"}')
        job("ctl-fmt-ss-sd", "FloatMC_mini.cfg", "reject", 2, "addss/addsd selection", P64=5, NEMIN64=4, EMAX64=5,
            Kinds='{"arith"}', TypesC='{"double"}', MUT='"ss-sd-selection"')
    # sensitivity controls: the pinned algorithms and wrong variants must be rejected
    job("ctl-conv-pinned", "FloatMC_conv.cfg", "reject", 2, "pinned cast table (D05)", FIXED=False, **small)
    job("ctl-mini-pinned", "FloatMC_mini.cfg", "reject", 2, "pinned NaN handling (cmp_zero, long double ==)", FIXED=False)
    cm = CONV_MUTS if not q else [CONV_MUTS[(ctx.seed + k * 4) % len(CONV_MUTS)] for k in range(2)]
    mm = MINI_MUTS if not q else [MINI_MUTS[ctx.seed % len(MINI_MUTS)]]
    for m in cm:
        job("ctl-conv-" + m, "FloatMC_conv.cfg", "reject", 2, "wrong variant " + m, MUT='"%s"' % m, **small)
    for m in mm:
        job("ctl-mini-" + m, "FloatMC_mini.cfg", "reject", 2, "wrong variant " + m, MUT='"%s"' % m)
    return J


def judge(ctx, j, res):
    if j["expect"] == "reject":
        if res.ok:
            raise Infra("sensitivity control failed: TLC accepts %s (%s)" % (j["name"], j["what"]))
        ctx.cov.setdefault("controls_rejected", []).append("%s: %s" % (j["name"], res.violated))
        return
    ctx.cov["states"] += res.distinct
    ctx.cov["transitions"] += res.generated
    if not res.ok:
        p = ctx.replay_dir("tlc-" + j["name"])
        open(p + "/counterexample.txt", "w").write(res.trace_text())
        import json
        json.dump(dict(kind="tlc", area="float", module=j["module"], cfg_text=open(j["cfg"]).read()), open(p + "/case.json", "w"))
        ctx.report("tlc:%s:%s" % (j["name"], res.violated), j["what"], p)
