"""C17 — name tables behave as dictionaries under any history.

1. TLC, exhaustive: HashMap.tla (Level I, the repaired algorithm) refines the
   dictionary for every history over NK keys and every collision pattern.
   Sensitivity control: the same model with the pinned algorithm (FIXED=FALSE)
   must be rejected by TLC (else the invariants are vacuous -> exit 2).
2. Generate -> replay: every transition of the complete state graph is one
   behaviour; replayed (a) on hashmap.c of the tree under test linked into
   harness/c/hm_harness.c with INIT_SIZE = the model's InitCap (hook H6), real
   keys chosen so that their FNV-1 hashes realise the model's home slots,
   (b) as #define/#undef/-D/-U histories through `chibicc -E`.
   Longer histories across rehashes come from TLC -simulate at INIT_SIZE 16.
   (c) MacroTable.tla: the table of Macro objects - user names, predefined static names and
   handler-based dynamic names under #define / #undef / #include of guarded headers / uses;
   (d) IncMemo.tla: the include memo of search_include_paths - colliding header names written
   in several spellings, present in different search directories.  Both are model-checked
   (each with controls TLC must reject) and their histories replayed through `chibicc -E`.
3. Trace validation: H1 events of real compiler runs (macro histories, include histories,
   test/*.c) against DictTrace.tla.
"""
import glob, json, os, re, subprocess
import vt
from vt import Infra

NAMES = json.load(open(os.path.join(vt.VERIF, "harness", "data", "fnv_names.json")))


def fnv(s):
    h = 0xcbf29ce484222325
    for c in s.encode():
        h = (h * 0x100000001b3) & ((1 << 64) - 1)
        h ^= c
    return h


def key_name(k, home):
    """real key for model key k (1-based) whose hash is `home` mod 2^16"""
    return NAMES[str(home)][k - 1]


def build_hm_harness(ctx, tree, init_size):
    exe = os.path.join(ctx.scratch, "hm_harness_%d" % init_size)
    cmd = ["cc", "-O1", "-w", "-I", tree, "-D" + vt.GUARD, "-DCHIBICC_VERIF_INIT_SIZE=%d" % init_size,
           "-o", exe, os.path.join(vt.VERIF, "harness/c/hm_harness.c"), tree + "/hashmap.c", tree + "/verif_trace.c"]
    r = vt.sh(cmd)
    if r.returncode:
        raise Infra("hm_harness build failed: " + r.stderr[-2000:])
    return exe


def hist_line(i, b):
    nk = len(b["h"])
    keys = [key_name(k + 1, b["h"][k]) for k in range(nk)]
    ops = [tuple(o) for o in b["hist"]] + [tuple(b["op"])]
    toks = [str(i), str(nk)] + keys + [str(len(ops))]
    for o in ops:
        toks.append("P%d:%d" % (o[1], o[2]) if o[0] == "put" else "D%d" % o[1])
    return " ".join(toks)


def classify(exp, got):
    for e, g in zip(exp, got):
        if e != g:
            if e == 0:
                return "stale-entry-after-delete"
            if g == 0:
                return "entry-lost"
            return "wrong-value"
    return None


def replay_inproc(ctx, exe, behaviours, tag):
    """Run all behaviours through the real hashmap.c; compare final gets with the spec."""
    lines = [hist_line(i, b) for i, b in enumerate(behaviours)]
    chunks = [list(range(j, min(j + 4000, len(lines)))) for j in range(0, len(lines), 4000)]

    def run_chunk(idx):
        res = {}
        todo = idx
        while todo:
            p = subprocess.run([exe], input="\n".join(lines[i] for i in todo) + "\n",
                               capture_output=True, text=True, timeout=300)
            done = 0
            for l in p.stdout.splitlines():
                f = l.split()
                if f and all(x.lstrip("-").isdigit() for x in f) and int(f[0]) == todo[done] \
                        and len(f) == len(behaviours[todo[done]]["h"]) + 3:
                    res[todo[done]] = [int(x) for x in f[1:]]
                    done += 1
                    if done == len(todo):
                        break
            if done < len(todo):               # the harness died on history todo[done]
                res[todo[done]] = ("abort", p.returncode, p.stdout[-200:] + p.stderr[-200:])
                todo = todo[done + 1:]
            else:
                todo = []
        return res

    allres = {}
    for r in vt.pmap(run_chunk, chunks):
        allres.update(r)
    for i, b in enumerate(behaviours):
        got = allres.get(i)
        ops = b["hist"] + [b["op"]]
        ctx.note_case("%s:%s:%s" % (tag, b["h"], ops), nontrivial=len(ops) >= 2)
        if isinstance(got, tuple):
            ctx.report("replay:%s:abort" % tag, "hashmap.c aborted on history %s (h=%s): %s" % (ops, b["h"], got[1:]),
                       case=dict(kind="inproc", tag=tag, beh=b, line=lines[i]))
            continue
        nk = len(b["h"])
        cls = classify(b["exp"], got[:nk])
        if cls:
            ctx.report("replay:%s:%s" % (tag, cls),
                       "history %s with home slots %s: spec gets %s, hashmap.c gets %s" % (ops, b["h"], b["exp"], got[:nk]),
                       case=dict(kind="inproc", tag=tag, beh=b, line=lines[i], got=got))
        elif got[nk] >= got[nk + 1] and got[nk + 1] > 0:
            ctx.report("replay:%s:no-empty-slot" % tag, "used=%d capacity=%d after %s" % (got[nk], got[nk + 1], ops),
                       case=dict(kind="inproc", tag=tag, beh=b, line=lines[i], got=got))
    ctx.cov["traces_validated_against_impl"] += len(behaviours)


# ------------------------------------------------------------ macro level
def macro_case(b, variant):
    """#define/#undef history as (argv options, file text, expected probe lines)."""
    nk = len(b["h"])
    base = 0
    names = [key_name(k + 1, (base + b["h"][k]) % 16) for k in range(nk)]
    ops = [tuple(o) for o in b["hist"]] + [tuple(b["op"])]
    ncmd = 0 if variant == "file" else len(ops) if variant == "allcmd" else (len(ops) + 1) // 2
    opts, txt = [], []
    for j, o in enumerate(ops):
        n = names[o[1] - 1]
        if j < ncmd:
            opts.append("-D%s=v%d" % (n, o[2]) if o[0] == "put" else "-U" + n)
        else:
            txt.append("#define %s v%d" % (n, o[2]) if o[0] == "put" else "#undef " + n)
    exp = []
    for k in range(nk):
        txt += ["#ifdef " + names[k], "P%d %s" % (k + 1, names[k]), "#else", "P%d undef" % (k + 1), "#endif",
                "#if defined(%s)" % names[k], "Q%d 1" % (k + 1), "#else", "Q%d 0" % (k + 1), "#endif"]
        v = b["exp"][k]
        exp += ["P%d %s" % (k + 1, "v%d" % v if v else "undef"), "Q%d %d" % (k + 1, 1 if v else 0)]
    return opts, "\n".join(txt) + "\n", exp


def replay_macros(ctx, tree, behaviours, trace_to=None):
    d = ctx.tmp("macro")
    cc = tree + "/chibicc"

    def one(t):
        i, b, variant = t
        opts, txt, exp = macro_case(b, variant)
        f = "%s/m%d_%s.c" % (d, i, variant)
        open(f, "w").write(txt)
        env = dict(os.environ)
        if trace_to and i % trace_to[1] == 0:
            env["CHIBICC_VERIF_TRACE"] = "%s/m%d_%s.trace" % (trace_to[0], i, variant)
        # a loaded machine can starve a 10 ms process for many seconds: a first timeout is repeated with a
        # generous limit before anything is concluded; only a repeated one is a hang (reported, not exit 2)
        p = vt.run_limited([cc, "-E"] + opts + [f], timeout=30, env=env)
        if p.returncode == -999:
            p = vt.run_limited([cc, "-E"] + opts + [f], timeout=300, env=env)
        got = [" ".join(l.split()) for l in p.stdout.splitlines() if l.strip() and not l.startswith("#")]
        os.unlink(f)
        return i, b, variant, opts, txt, exp, p.returncode, got, p.stderr[-300:]

    work = [(i, b, v) for i, b in enumerate(behaviours) for v in ("file", "cmdline", "allcmd")]
    for i, b, variant, opts, txt, exp, rc, got, err in vt.pmap(one, work):
        ops = b["hist"] + [b["op"]]
        ctx.note_case("macro:%s:%s:%s" % (variant, b["h"], ops), nontrivial=len(ops) >= 2)
        if rc == -999:
            ctx.report("macro:%s:hang" % variant, "chibicc -E does not terminate (300 s) on history %s" % (ops,),
                       case=dict(kind="macro", variant=variant, beh=b, opts=opts, text=txt))
        elif rc != 0:
            ctx.report("macro:%s:failed" % variant, "chibicc -E rc=%s on history %s: %s" % (rc, ops, err),
                       case=dict(kind="macro", variant=variant, beh=b, opts=opts, text=txt))
        elif got != exp:
            bad = [(e, g) for e, g in zip(exp, got) if e != g]
            cls = "defined-after-undef" if any(e.endswith(("undef", " 0")) for e, g in bad) else "definition-lost-or-stale"
            ctx.report("macro:%s:%s" % (variant, cls), "history %s: expected %s got %s" % (ops, exp, got),
                       case=dict(kind="macro", variant=variant, beh=b, opts=opts, text=txt, exp=exp, got=got))
    ctx.cov["traces_validated_against_impl"] += len(work)


# ------------------------------------------- running the compiler under test, thousands of times
def run_guarded(cmd, timeout=20, mem_gb=4, env=None):
    """see run_guarded1; a first timeout is repeated once with a generous limit, because a loaded machine can
    starve a 10 ms process for many seconds and a timeout is judged as a hang by the callers"""
    p = run_guarded1(cmd, timeout, mem_gb, env)
    if p.returncode == -999 and timeout < 300:
        p = run_guarded1(cmd, 300, mem_gb, env)
    return p


def run_guarded1(cmd, timeout=20, mem_gb=4, env=None):
    """The protections of vt.run_limited (own process group killed as a whole on timeout - the driver's cc1 child
    dies with it -, RLIMIT_AS and RLIMIT_CPU) without a preexec_fn: the limits are set by prlimit(1), the session
    by start_new_session, so that Python can vfork.  With the check's heap a preexec_fn fork costs ~30 ms per
    process (measured: 300 runs 9.4 s against 1.3 s), which the ~2,000 replays of the quick tier cannot afford."""
    import shutil, signal
    if not shutil.which("prlimit"):
        raise Infra("prlimit(1) not found (util-linux)")
    p = subprocess.Popen(["prlimit", "--as=%d" % (mem_gb << 30), "--cpu=%d" % (timeout + 5), "--"] + cmd, stdout=subprocess.PIPE,
                         stderr=subprocess.PIPE, text=True, errors="replace", start_new_session=True, env=env)
    try:
        out, err = p.communicate(timeout=timeout)
    except subprocess.TimeoutExpired:
        try:
            os.killpg(p.pid, signal.SIGKILL)
        except ProcessLookupError:
            pass
        out, err = p.communicate()
        return subprocess.CompletedProcess(cmd, -999, out, err)
    return subprocess.CompletedProcess(cmd, p.returncode, out, err)


# ------------------------------------------- TLC runs of the small models, in the background
class Jobs:
    """The model checks, sensitivity controls and generators of MacroTable.tla and IncMemo.tla are small
    (seconds, 2 workers); they are started when the check starts and run beside the HashMap.tla phases.
    Results are consumed (counted, judged) by the main thread only."""

    def __init__(self, ctx, parallel=True):
        import concurrent.futures
        self.ctx, self.f = ctx, {}
        self.ex = concurrent.futures.ThreadPoolExecutor(3) if parallel else None

    def start(self, key, module, cfg, **kw):
        kw.update(count=False, workers=2, heap="2g")
        if self.ex:
            self.f[key] = self.ex.submit(self.ctx.tlc, "hash", module, cfg, **kw)
        else:
            self.f[key] = (module, cfg, kw)
        return key

    def result(self, key):
        f = self.f.pop(key)
        return f.result() if self.ex else self.ctx.tlc("hash", f[0], f[1], **f[2])

    def control(self, key, what):
        if self.result(key).ok:
            raise Infra("sensitivity control failed: TLC accepts " + what)

    def checked(self, key, module, what):
        """a generator / model-checking run: counted; a counterexample is a finding about the design"""
        res = self.result(key)
        self.ctx.cov["states"] += res.distinct
        self.ctx.cov["transitions"] += res.generated
        if not res.ok:
            p = self.ctx.replay_dir("tlc-%s-%s" % (module, key))
            open(p + "/counterexample.txt", "w").write(res.trace_text())
            self.ctx.report("tlc:%s:%s:%s" % (module, key, res.violated), what, p)
        return res


def mt_shapes(q):
    """(user names, predefined static names, predefined dynamic names), stride of the quick/thorough subsample"""
    return (((2, 0, 0), 48), ((1, 1, 1), 160)) if q else (((3, 0, 0), 3), ((1, 1, 1), 1))


def start_models(ctx, jobs, q, only=None):
    """start every TLC run of MacroTable.tla and IncMemo.tla (configs are written by the calling thread)"""
    c = lambda base, **kw: ctx.cfg("hash", base, **kw)
    if only in (None, "mtab"):
        jobs.start("ctl-StaleGuard", "MacroTable", c("MacroTable.cfg", NK=1, NP=0, ND=1, StaleGuard=True))
        jobs.start("ctl-KeepHandler", "MacroTable", c("MacroTable.cfg", NK=1, NP=0, ND=1, KeepHandler=True))
        for shape, _ in mt_shapes(q):
            out = os.path.join(ctx.scratch, "mt-%d%d%d.ndjson" % shape)
            jobs.start("gen-%d%d%d" % shape, "MacroTable", c("MacroTable.cfg", NK=shape[0], NP=shape[1], ND=shape[2], Emit=True), env=dict(OUT=out))
    if only in (None, "incmemo"):
        jobs.start("ctl-KeyByRef", "IncMemo", c("IncMemo.cfg", KeyByRef=True))
        jobs.start("gen-im", "IncMemo", c("IncMemo.cfg", MaxLen=2 if q else 3, Emit='"all"'), env=dict(OUT=os.path.join(ctx.scratch, "im.ndjson")))
        jobs.start("sim-im", "IncMemo", c("IncMemo.cfg", NDir=3, NN=10, MaxLen=48, AllWorlds=False, Emit='"last"'),
                   env=dict(OUT=os.path.join(ctx.scratch, "imsim.ndjson")), simulate=12 if q else 200, depth=49,
                   extra=["-seed", str(ctx.seed + 1)])


# ------------------------------------------- macro table with guarded headers
FDEF = {4: "(a,b) a - b", 5: "(b,a) a - b", 6: "(a,b) b - a"}
APPLIED = {1: "v1(5,3)", 2: "v2(5,3)", 3: "v3(5,3)", 4: "5-3", 5: "3-5", 6: "3-5"}
# predefined names of MacroTable.tla.  Static ones: names every x86-64 Linux compiler predefines with the same
# replacement list (gcc agrees), so "untouched = initial meaning" is judged without quoting init_macros.
PRE_NAMES = [("__x86_64__", "1"), ("__LP64__", "1"), ("__linux__", "1"), ("unix", "1"), ("__SIZEOF_INT__", "4"),
             ("__SIZEOF_POINTER__", "8"), ("__ELF__", "1")]
# dynamic ones: the five handler-based builtins; what a use shows is computed from the place of the use
DYN_NAMES = ["__COUNTER__", "__LINE__", "__FILE__", "__BASE_FILE__", "__TIMESTAMP__"]
MT_PRE, MT_DYN = 7, 8


def defline(n, v):
    return "#define %s%s" % (n, FDEF[v]) if v in FDEF else "#define %s v%d" % (n, v)


def mt_names(nk, np_, nd, i):
    """real names of the model's keys for case number i (user names collide in the table; the predefined
    names rotate with the case number over the whole list)"""
    r = ((i * 2654435761) % 2 ** 32) >> 8          # spread: the strides of the subsample must not select one name
    return ([key_name(k + 1, 5) for k in range(nk)] + [PRE_NAMES[(r + k) % len(PRE_NAMES)][0] for k in range(np_)]
            + [DYN_NAMES[(r // 7 + k) % len(DYN_NAMES)] for k in range(nd)])


def mt_case(shape, i, hist, eout, fin, path):
    """One history of MacroTable.tla as (options, file text, expected lines as a function of the file's mtime).
    Odd case numbers put the longest prefix of object-like definitions / undefinitions on the command line
    (-DN=v / -UN, every fourth as two arguments -D N=v / -U N)."""
    nk, np_, nd = shape
    names = mt_names(nk, np_, nd, i)
    ncmd = 0
    if i % 2:
        while ncmd < len(hist) and (hist[ncmd][0] == "undef" or (hist[ncmd][0] == "def" and hist[ncmd][2] in (1, 2))):
            ncmd += 1
    opts, lines, uline = [], [], {}
    for j, o in enumerate(hist):
        n = names[o[1] - 1]
        if j < ncmd:
            a = "-D%s=v%d" % (n, o[2]) if o[0] == "def" else "-U" + n
            opts += [a[:2], a[2:]] if i % 4 == 3 else [a]
        elif o[0] == "use":
            lines.append("USE%d_ %s(5,3)" % (j + 1, n))
            uline[j + 1] = len(lines)
        else:
            lines.append(defline(n, o[2]) if o[0] == "def" else "#undef " + n if o[0] == "undef" else '#include "h%d.h"' % o[1])
    pline = {}
    for k in range(len(names)):
        lines += ["#ifdef " + names[k], "PROBE%d_ %s(5,3)" % (k + 1, names[k]), "#else", "PROBE%d_ undef" % (k + 1), "#endif"]
        pline[k + 1] = len(lines) - 3

    def means(k, v, n, line, mtime):
        name = names[k - 1]
        if v == 0:
            return name + "(5,3)"
        if v == MT_PRE:
            return dict(PRE_NAMES)[name] + "(5,3)"
        if v == MT_DYN:
            return {"__COUNTER__": str(n), "__LINE__": str(line), "__FILE__": '"%s"' % path, "__BASE_FILE__": '"%s"' % path,
                    "__TIMESTAMP__": '"%s"' % mtime.replace(" ", "")}[name] + "(5,3)"
        return APPLIED[v]

    def expected(mtime):
        exp, nuse = [], 0
        for e in eout:
            if e["t"] == "G":
                exp.append("GUARD%d_" % e["k"])
            else:
                j = [x for x in sorted(uline)][nuse]
                nuse += 1
                exp.append("USE%d_" % j + means(e["k"], e["v"], e["n"], uline[j], mtime))
        for k in range(1, len(names) + 1):
            v = fin[k - 1]["v"]
            exp.append("PROBE%d_undef" % k if v == 0 else "PROBE%d_" % k + means(k, v, fin[k - 1]["n"], pline[k], mtime))
        return exp
    return opts, "\n".join(lines) + "\n", expected, names


def mt_run(cmd, opts, f):
    import time
    p = run_guarded(cmd + ["-E"] + opts + [f])
    # the token stream, cut at the markers: how the output is divided into lines is not this property's business
    got = "".join("".join(l.split()) for l in p.stdout.splitlines() if not l.startswith("#"))
    got = [x for x in re.split(r"(?=(?:PROBE|USE|GUARD)\d+_)", got) if x]
    return p.returncode, got, time.ctime(os.stat(f).st_mtime)


def mt_generate(ctx, jobs, shape, what):
    """all histories of the complete graph of MacroTable.tla for one shape (NK, NP, ND) + their one-step extensions;
    the generating run checks the invariants as well"""
    out = os.path.join(ctx.scratch, "mt-%d%d%d.ndjson" % shape)
    jobs.checked("gen-%d%d%d" % shape, "MacroTable", what)
    rows = vt.read_ndjson(out)
    os.unlink(out)
    seen, uniq = set(), []
    for r in rows:
        for hist, eout, fin in [(r["hist"], r["out"], r["fin"])] + [(r["hist"] + [n["op"]], n["out"], n["fin"]) for n in r["nx"]]:
            k = json.dumps(hist)
            if k not in seen:
                seen.add(k)
                uniq.append((hist, eout, fin))
    if len(uniq) < 50:
        raise Infra("MacroTable generator wrote only %d histories for shape %s" % (len(uniq), shape))
    uniq.sort(key=lambda c: json.dumps(c[0]))          # case numbers must not depend on the order in which TLC's workers wrote
    return uniq


def replay_macrotable(ctx, tree, q, jobs, cmd=None):
    """MacroTable.tla: #define / #undef / #include of guarded headers / uses, over user names and predefined
    (static and dynamic) names; neither the re-inclusion shortcut (guard memo + macro table) nor what the table
    held for a name before may change the emitted text or the final macro table."""
    jobs.control("ctl-StaleGuard", "a guard shortcut that trusts an #undef'd guard")
    jobs.control("ctl-KeepHandler", "a redefinition that keeps the handler of a dynamic builtin")
    total = 0
    for shape, stride in mt_shapes(q):
        uniq = mt_generate(ctx, jobs, shape, "the macro table (guard shortcut, entries with handlers) changes the text of a define/undef/include/use history")
        total += run_mt_cases(ctx, tree, shape, vt.subsample(list(enumerate(uniq)), ctx.seed, stride), cmd)
    return total


def run_mt_cases(ctx, tree, shape, cases, cmd=None):
    """replay numbered histories (i, (history, expected events, expected final table)) of one shape"""
    sd = "%s/s%d%d%d" % ((ctx.tmp("mtab"),) + tuple(shape))
    os.makedirs(sd, exist_ok=True)
    names = mt_names(shape[0], 0, 0, 0)
    for k in range(shape[0]):
        open("%s/h%d.h" % (sd, k + 1), "w").write("#ifndef %s\n#define %s v3\nGUARD%d_\n#endif\n" % (names[k], names[k], k + 1))

    def one(t):
        i, (hist, eout, fin) = t
        f = "%s/t%d.c" % (sd, i)
        opts, txt, expected, nm = mt_case(shape, i, hist, eout, fin, f)
        open(f, "w").write(txt)
        rc, got, mtime = mt_run(cmd or [tree + "/chibicc"], opts, f)
        exp = expected(mtime)
        gcc = None
        if (rc != 0 or got != exp) and cmd is None:            # the oracle is validated on the vector before it judges
            grc, ggot, _ = mt_run(["cc"], opts, f)
            gcc = (grc == 0 and ggot == exp)
        os.unlink(f)
        return i, hist, eout, fin, opts, txt, exp, got, rc, gcc, nm

    for i, hist, eout, fin, opts, txt, exp, got, rc, gcc, nm in vt.pmap(one, cases):
        ctx.note_case("mtab:%s:%d:%s" % (shape, i, hist), nontrivial=len(hist) >= 2)
        if rc == 0 and got == exp:
            continue
        if gcc is False:
            ctx.oracle_disagreements += 1
            continue
        kinds = "+".join(sorted(set(o[0] for o in hist)))
        cls = "text" if [x for x in got if x.startswith("G")] != [x for x in exp if x.startswith("G")] else "table"
        bad = [re.match(r"(PROBE|USE)(\d+)_", e) for e, g in zip(exp, got) if e != g and e[0] in "PU"]
        sig = "macrotable:%s:%s" % (kinds, cls)
        if cls == "table" and bad:                              # which kind of name shows the wrong meaning, and after what
            k = int(bad[0].group(2)) if bad[0].group(1) == "PROBE" else hist[int(bad[0].group(2)) - 1][1]
            last = [o for o in hist if o[1] == k and o[0] != "use"][-1:]
            if k > shape[0]:
                sig = "macrotable:%s:%s" % ("predefined" if k <= shape[0] + shape[1] else "dynamic",
                                            "untouched" if not last else "after-undef" if last[0][0] == "undef" else "after-define")
        ctx.report(sig,
                   "history %s over %s (options %s): expected %s got %s (rc=%s)" % (hist, nm, opts, exp, got, rc),
                   case=dict(kind="mtab", shape=list(shape), i=i, hist=hist, eout=eout, fin=fin, opts=opts, exp=exp, got=got, text=txt))
    ctx.cov["traces_validated_against_impl"] += len(cases)
    if cases:
        i, (hist, eout, fin) = cases[len(cases) // 2]
        ctx.sample(dict(kind="define/undef/include/use history", names=mt_names(*shape, i), history=hist,
                        expected_events=eout, final_table=fin))
    return len(cases)


# ------------------------------------------- include memo table (IncMemo.tla)
SPELL = {"p": "%s", "d": "./%s", "dd": "././%s", "u": "s/../%s"}


def im_names(nn):
    """header names whose FNV-1 hashes collide (same home slot up to capacity 2^16) and that have the same length"""
    pool = [n for n in NAMES["3"] if len(n) == 7]
    if len(pool) < nn:
        raise Infra("name pool too small for %d colliding header names" % nn)
    return pool[:nn]


def replay_incmemo(ctx, tree, q, jobs, trd, cmd=None):
    """IncMemo.tla: #include histories over names written in several spellings, found in different search
    directories; every directive must include the copy the search list designates (the memo never answers for a
    name that was not stored).  Every k-th run also records the H1 events of the memo table for DictTrace."""
    jobs.control("ctl-KeyByRef", "a memo table whose keys alias a scratch buffer")
    out, out2 = os.path.join(ctx.scratch, "im.ndjson"), os.path.join(ctx.scratch, "imsim.ndjson")
    jobs.checked("gen-im", "IncMemo", "the include memo changes which file a directive includes")
    rows = vt.read_ndjson(out)
    if len(rows) < 1000:
        raise Infra("IncMemo generator wrote only %d histories" % len(rows))
    rows.sort(key=lambda c: json.dumps([c["pres"], c["hist"]]))      # numbering independent of TLC's workers
    cases = vt.subsample(rows, ctx.seed, 60 if q else 25)
    del rows
    # long histories over many names: the memo table grows 16 -> 32 -> 64 while it is consulted
    s = jobs.result("sim-im")
    if not s.ok:
        ctx.report("tlc:IncMemo:simulate:%s" % s.violated, "simulation of long include histories violated " + str(s.violated),
                   case=dict(out=s.trace_text()[:3000]))
    sim = vt.read_ndjson(out2)
    if not sim:
        raise Infra("IncMemo simulation wrote no history")
    return run_im_cases(ctx, tree, cases + sim, trd, cmd)


def run_im_cases(ctx, tree, cases, trd, cmd=None):
    d = ctx.tmp("incmemo")
    worlds = {}

    def world(pres):
        """the directory tree for one presence pattern (made once)"""
        key = json.dumps(pres)
        if key not in worlds:
            w = "%s/w%d" % (d, len(worlds))
            names = im_names(len(pres))
            for n, row in enumerate(pres):
                for j, there in enumerate(row):
                    os.makedirs("%s/d%d/s" % (w, j + 1), exist_ok=True)
                    if there:
                        open("%s/d%d/%s" % (w, j + 1, names[n]), "w").write("H%d_%d\n" % (n + 1, j + 1))
            os.makedirs(w + "/src", exist_ok=True)
            worlds[key] = w
        return worlds[key]
    for c in cases:
        world(c["pres"])

    def one(t):
        i, c = t
        w = world(c["pres"])
        names = im_names(len(c["pres"]))
        f = "%s/src/t%d.c" % (w, i)
        txt = "".join("#include %s\n" % (("<%s>" if fo == "A" else '"%s"') % (SPELL[sp] % names[n - 1])) for n, sp, fo in c["hist"])
        open(f, "w").write(txt)
        opts = ["-I%s/d%d" % (w, j + 1) for j in range(len(c["pres"][0]))]
        env = dict(os.environ)
        if cmd is None and (i % 16 == 0 or len(c["hist"]) > 8):
            env["CHIBICC_VERIF_TRACE"] = "%s/im%d.trace" % (trd, i)
        p = run_guarded((cmd or [tree + "/chibicc"]) + ["-E"] + opts + [f], env=env)
        got = ["".join(l.split()) for l in p.stdout.splitlines() if l.strip() and not l.startswith("#")]
        exp = ["H%d_%d" % (n, dd) for n, dd in c["out"]]
        gcc = None
        if (p.returncode != 0 or got != exp) and cmd is None:
            g = run_guarded(["cc", "-E"] + opts + [f])
            gcc = g.returncode == 0 and ["".join(l.split()) for l in g.stdout.splitlines() if l.strip() and not l.startswith("#")] == exp
        os.unlink(f)
        return c, txt, exp, got, p.returncode, p.stderr[-300:], gcc

    for c, txt, exp, got, rc, err, gcc in vt.pmap(one, list(enumerate(cases))):
        ctx.note_case("incmemo:%s:%s" % (c["pres"], c["hist"]), nontrivial=len(c["hist"]) >= 2)
        if rc == 0 and got == exp:
            continue
        if gcc is False:
            ctx.oracle_disagreements += 1
            continue
        ctx.report("incmemo:%s" % ("failed" if rc != 0 else "wrong-copy"),
                   "include history %s with presence %s: expected %s got %s (rc=%s %s)" % (c["hist"], c["pres"], exp, got, rc, err),
                   case=dict(kind="incmemo", beh=c, text=txt, exp=exp, got=got))
    ctx.cov["traces_validated_against_impl"] += len(cases)
    ctx.sample(dict(kind="include history", presence=cases[0]["pres"], history=cases[0]["hist"], expected=cases[0]["out"]))
    return len(cases)


# -------------------------------------------------------- trace validation
def validate_traces(ctx, files, label):
    """Concatenate per-process H1 event streams and let TLC check them against DictTrace."""
    evs, nproc = [], 0
    for f in files:
        rows = vt.read_ndjson(f)
        bypid = {}
        for r in rows:
            if r.get("e") == "hm":
                bypid.setdefault(r["pid"], []).append(r)
        for pid in sorted(bypid):
            rs = sorted(bypid[pid], key=lambda r: r["seq"])
            evs.append(dict(e="reset", src=os.path.basename(f), pid=pid))
            evs += [dict(e="hm", op=r["op"], m=r["m"], k=r["k"], r=r["r"], used=r["used"], cap=r["cap"]) for r in rs]
            nproc += 1
    if not evs:
        raise Infra("no H1 events recorded (%s)" % label)
    tf = os.path.join(ctx.scratch, "trace-%s.ndjson" % label)
    vt.write_ndjson(tf, evs)
    res = ctx.tlc("hash", "DictTrace", "DictTrace.cfg", env=dict(TRACE=tf), workers=1, timeout=1200)
    accepted = res.ok and res.depth == len(evs) + 1
    if not accepted:          # a rejection must repeat (DESIGN 4.6)
        res2 = ctx.tlc("hash", "DictTrace", "DictTrace.cfg", env=dict(TRACE=tf), workers=1, timeout=1200, count=False)
        if res2.depth != res.depth:
            raise Infra("trace validation not reproducible (%d vs %d)" % (res.depth, res2.depth))
        bad = evs[res.depth - 1] if res.depth - 1 < len(evs) else None
        p = ctx.replay_dir("trace-" + label)
        os.replace(tf, p + "/trace.ndjson")
        json.dump(dict(kind="trace", matched=res.depth - 1, rejected_event=bad), open(p + "/case.json", "w"), indent=1)
        ctx.report("trace:%s:lookup-disagrees-with-dictionary" % label,
                   "event %d of %d not explained by the dictionary: %s" % (res.depth, len(evs), bad), p)
    ctx.cov["traces_validated_against_impl"] += nproc
    ctx.cov.setdefault("trace_events", 0)
    ctx.cov["trace_events"] += len(evs)
    return accepted


def record_compile_traces(ctx, tree, sources, label):
    d = ctx.tmp("tr-" + label)

    def one(src):
        tf = "%s/%s.trace" % (d, os.path.basename(src))
        env = dict(os.environ, CHIBICC_VERIF_TRACE=tf)
        p = subprocess.run([tree + "/chibicc", "-I" + tree + "/include", "-I" + tree + "/test", "-I" + tree,
                            "-c", "-o", "/dev/null", src], capture_output=True, text=True, env=env, timeout=120)
        return tf if os.path.exists(tf) else None
    return [t for t in vt.pmap(one, sources) if t]


# -------------------------------------------------------------------- run
def run(ctx):
    q = ctx.quick
    tree = ctx.build()
    ctx.phase("build done")
    jobs = Jobs(ctx)
    start_models(ctx, jobs, q)
    # 1. exhaustive refinement check of the design
    for (nk, hmod) in ([] if q else [(3, 8), (4, 4)]):      # quick: the generation run below checks the same invariants
        cfg = ctx.cfg("hash", "HashMap_mc.cfg", NK=nk, HMod=hmod, MaxCap=16 if nk < 4 else 32)
        ctx.tlc_expect_ok("hash", "HashMap", cfg, "hash table design does not refine the dictionary", workers=8, heap="8g")
    cfg = ctx.cfg("hash", "HashMap_mc.cfg", NK=3, HMod=4, FIXED=False)
    ctl = ctx.tlc("hash", "HashMap", cfg, workers=4, count=False)
    if ctl.ok:
        raise Infra("sensitivity control failed: TLC accepts the pinned (tombstone-reusing) algorithm")
    ctx.phase("mc done")
    # 2a. every transition of the complete graph -> real hashmap.c at INIT_SIZE = 4
    out = os.path.join(ctx.scratch, "beh.ndjson")
    cfg = ctx.cfg("hash", "HashMap_gen.cfg", NK=3, HMod=4 if q else 8)
    g = ctx.tlc("hash", "HashMap", cfg, env=dict(OUT=out), workers=8, heap="8g")
    if not g.ok:
        p = ctx.replay_dir("tlc-HashMap-gen")
        open(p + "/counterexample.txt", "w").write(g.trace_text())
        ctx.report("tlc:HashMap:gen:%s" % g.violated, "hash table design does not refine the dictionary", p)
    beh = vt.read_ndjson(out)
    if len(beh) < 1000:
        raise Infra("generator wrote only %d behaviours" % len(beh))
    ctx.sample(dict(kind="graph transition", h=beh[len(beh) // 2]["h"], history=beh[len(beh) // 2]["hist"],
                    op=beh[len(beh) // 2]["op"], expected_gets=beh[len(beh) // 2]["exp"]))
    ctx.phase("gen done")
    exe4 = build_hm_harness(ctx, tree, 4)
    replay_inproc(ctx, exe4, beh, "cap4")
    # ... and each transition extended by every further single operation (the implementation's
    # hidden state after a model no-op / a state reached by another history is exercised too)
    pairs = [dict(h=b["h"], hist=b["hist"] + [b["op"]], op=n["op"], exp=n["exp"])
             for b in beh if b["fail"] == "none" for n in b["nx"]]
    pairs = vt.subsample(pairs, ctx.seed, 8 if q else 6)      # thorough: the graph has HMod = 8; all of it took 80 min
    replay_inproc(ctx, exe4, pairs, "cap4x")
    # the macro-level sample (2c) is drawn now so that the large lists can be released
    mb = vt.subsample(beh, ctx.seed, 80 if q else 24) + vt.subsample(pairs, ctx.seed + 1, 800 if q else 80)
    nbeh, npairs = len(beh), len(pairs)
    del beh, pairs
    # as many keys as (and more than) initial slots: histories that leave no never-used slot
    # (put/delete of every key) - the table must purge tombstones instead of probing forever
    outf = os.path.join(ctx.scratch, "full.ndjson")
    for nk, hmod in ((4, 2),) if q else ((4, 4), (5, 2)):
        cfgf = ctx.cfg("hash", "HashMap_gen.cfg", NK=nk, HMod=hmod, Look=False, MaxCap=32)
        gf = ctx.tlc("hash", "HashMap", cfgf, env=dict(OUT=outf), workers=8, heap="8g")
        if not gf.ok:
            p = ctx.replay_dir("tlc-HashMap-full")
            open(p + "/counterexample.txt", "w").write(gf.trace_text())
            ctx.report("tlc:HashMap:full:%s" % gf.violated, "hash table design does not refine the dictionary", p)
    full = vt.subsample(vt.read_ndjson(outf), ctx.seed, 3 if q else 2)
    replay_inproc(ctx, exe4, full, "cap4full")
    nfull = len(full)
    del full
    ctx.phase("cap4 done")
    # 2b. long histories over 16 keys at the real INIT_SIZE, across 16->32(->64) growth
    out2 = os.path.join(ctx.scratch, "sim.ndjson")
    cfg = ctx.cfg("hash", "HashMap_sim.cfg", NK=28, NV=2, InitCap=16, HMod=16, MaxCap=128)
    s = ctx.tlc("hash", "HashMap", cfg, env=dict(OUT=out2), workers=4, simulate=30 if q else 400, depth=120,
                extra=["-seed", str(ctx.seed + 1)], count=False)
    if not s.ok:
        ctx.report("tlc:HashMap:simulate:%s" % s.violated, "simulation of long histories violated " + str(s.violated),
                   case=dict(out=s.trace_text()[:3000]))
    sim = vt.read_ndjson(out2)
    ctx.sample(dict(kind="long history", h=sim[-1]["h"], ops=len(sim[-1]["hist"]) + 1, cap=sim[-1]["cap"]))
    replay_inproc(ctx, build_hm_harness(ctx, tree, 16), sim, "cap16")
    nsim = len(sim)
    del sim
    ctx.phase("cap16 done")
    # 2c. macro level: #define/#undef/-D/-U histories with colliding names through -E
    trd = ctx.tmp("mtrace")
    replay_macros(ctx, tree, mb, trace_to=(trd, 200 if q else 100))
    ctx.sample(dict(kind="macro history", options=macro_case(mb[-1], "cmdline")[0], file=macro_case(mb[-1], "cmdline")[1][:200]))
    ctx.phase("macro done")
    nmt = replay_macrotable(ctx, tree, q, jobs)
    ctx.phase("macrotable done")
    nim = replay_incmemo(ctx, tree, q, jobs, trd)
    ctx.phase("incmemo done")
    # 3. trace validation of what the compiler's own tables did
    validate_traces(ctx, sorted(glob.glob(trd + "/*.trace")), "macro-histories")
    srcs = sorted(glob.glob(tree + "/test/*.c"))
    srcs = vt.subsample(srcs, ctx.seed, 6) if q else srcs + sorted(glob.glob(tree + "/*.c"))
    tfs = record_compile_traces(ctx, tree, srcs, "compile")
    for j in range(0, len(tfs), 4):
        validate_traces(ctx, tfs[j:j + 4], "compile-%d" % j)
    ctx.phase("traces done")
    ctx.assumptions += ["Level I model (HashMap.tla) is a hand transcription of hashmap.c; the replay and trace checks judge the real code",
                        "FNV-1 key pool (harness/data/fnv_names.json) realises home slots only for the tree's current hash function; a changed hash only makes the replay less targeted",
                        "dictionary values are compared as opaque pointer tags",
                        "replay sampling: every graph transition is replayed in both tiers; of the one-step extensions every 8th (quick) / 6th (thorough) and of the full-table transitions every 3rd / 2nd, chosen by VERIF_SEED; TLC checks the whole graph",
                        "MacroTable replay: the seven predefined static names used have the replacement list every x86-64 Linux compiler gives them; __TIMESTAMP__ is the ctime of the file's mtime in the local time zone; output is compared as a token stream (line division is C19's)",
                        "IncMemo replay: the including file's directory holds no header, so the quote form is decided by the search list as well; header names with // are not generated (6.4.7p3)"]
    return ctx.finish(
        rule="behaviour = one transition of HashMap.tla's complete state graph (shortest history + one more operation) or one prefix of a simulated long history, replayed on the real hashmap.c / through chibicc -E; or one history of MacroTable.tla's / IncMemo.tla's complete graph (+ one more operation; + simulated long include histories) replayed through chibicc -E; non-trivial = at least 2 operations; distinct = distinct (collision pattern / name assignment / file system, operation sequence, replay mode)",
        exhaustive=True,
        extra=dict(graph_transitions_replayed=nbeh, extended_transitions_replayed=npairs, long_history_prefixes=nsim, macro_histories=3 * len(mb), guarded_include_histories=nmt, include_memo_histories=nim, full_table_transitions=nfull))


def replay(ctx, path):
    c = json.load(open(os.path.join(path, "case.json")))
    tree = ctx.build()
    c = c.get("case") or c
    if c.get("kind") == "inproc":
        exe = build_hm_harness(ctx, tree, 4 if c["tag"].startswith("cap4") else 16)
        replay_inproc(ctx, exe, [c["beh"]], c["tag"])
    elif c.get("kind") == "macro":
        replay_macros(ctx, tree, [c["beh"]])
    elif c.get("kind") == "mtab":
        run_mt_cases(ctx, tree, tuple(c["shape"]), [(c["i"], (c["hist"], c["eout"], c["fin"]))])
    elif c.get("kind") == "incmemo":
        trd = ctx.tmp("rtrace")
        run_im_cases(ctx, tree, [c["beh"]], trd)
        if glob.glob(trd + "/*.trace"):
            validate_traces(ctx, sorted(glob.glob(trd + "/*.trace")), "macro-histories")
    elif c.get("kind") == "trace":
        print("trace replays are re-validated by: TRACE=%s/trace.ndjson tlc -workers 1 -config DictTrace.cfg DictTrace.tla" % path)
    elif c.get("kind") == "tlc":
        ctx.tlc_expect_ok(c["area"], c["module"], c["cfg"], "replayed model check", env=c.get("env"))
    return ctx.finish(rule="replay of one recorded case")
