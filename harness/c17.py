"""C17 — name tables behave as dictionaries under any history.

1. TLC, exhaustive: HashMap.tla (Level I, the repaired algorithm) refines the
   dictionary for every history over NK keys and every collision pattern.
   Sensitivity control: the same model with the pinned algorithm (FIXED=FALSE)
   must be rejected by TLC (else the invariants are vacuous -> exit 2).
2. Generate -> replay: every transition of the complete state graph is one
   behaviour; replayed (a) on hashmap.c of the tree under test linked into
   harness/c/hm_harness.c with INIT_SIZE = the model's InitCap (hook H6), real
   keys chosen so that their FNV-1 hashes realise the model's home slots,
   (b) as #define/#undef/-D/-U histories through `chibicc -E`.
   Longer histories across rehashes come from TLC -simulate at INIT_SIZE 16.
3. Trace validation: H1 events of real compiler runs against DictTrace.tla.
"""
import glob, json, os, subprocess
import vt
from vt import Infra

NAMES = json.load(open(os.path.join(vt.VERIF, "harness", "data", "fnv_names.json")))


def fnv(s):
    h = 0xcbf29ce484222325
    for c in s.encode():
        h = (h * 0x100000001b3) & ((1 << 64) - 1)
        h ^= c
    return h


def key_name(k, home):
    """real key for model key k (1-based) whose hash is `home` mod 2^16"""
    return NAMES[str(home)][k - 1]


def build_hm_harness(ctx, tree, init_size):
    exe = os.path.join(ctx.scratch, "hm_harness_%d" % init_size)
    cmd = ["cc", "-O1", "-w", "-I", tree, "-D" + vt.GUARD, "-DCHIBICC_VERIF_INIT_SIZE=%d" % init_size,
           "-o", exe, os.path.join(vt.VERIF, "harness/c/hm_harness.c"), tree + "/hashmap.c", tree + "/verif_trace.c"]
    r = vt.sh(cmd)
    if r.returncode:
        raise Infra("hm_harness build failed: " + r.stderr[-2000:])
    return exe


def hist_line(i, b):
    nk = len(b["h"])
    keys = [key_name(k + 1, b["h"][k]) for k in range(nk)]
    ops = [tuple(o) for o in b["hist"]] + [tuple(b["op"])]
    toks = [str(i), str(nk)] + keys + [str(len(ops))]
    for o in ops:
        toks.append("P%d:%d" % (o[1], o[2]) if o[0] == "put" else "D%d" % o[1])
    return " ".join(toks)


def classify(exp, got):
    for e, g in zip(exp, got):
        if e != g:
            if e == 0:
                return "stale-entry-after-delete"
            if g == 0:
                return "entry-lost"
            return "wrong-value"
    return None


def replay_inproc(ctx, exe, behaviours, tag):
    """Run all behaviours through the real hashmap.c; compare final gets with the spec."""
    lines = [hist_line(i, b) for i, b in enumerate(behaviours)]
    chunks = [list(range(j, min(j + 4000, len(lines)))) for j in range(0, len(lines), 4000)]

    def run_chunk(idx):
        res = {}
        todo = idx
        while todo:
            p = subprocess.run([exe], input="\n".join(lines[i] for i in todo) + "\n",
                               capture_output=True, text=True, timeout=300)
            done = 0
            for l in p.stdout.splitlines():
                f = l.split()
                if f and all(x.lstrip("-").isdigit() for x in f) and int(f[0]) == todo[done] \
                        and len(f) == len(behaviours[todo[done]]["h"]) + 3:
                    res[todo[done]] = [int(x) for x in f[1:]]
                    done += 1
                    if done == len(todo):
                        break
            if done < len(todo):               # the harness died on history todo[done]
                res[todo[done]] = ("abort", p.returncode, p.stdout[-200:] + p.stderr[-200:])
                todo = todo[done + 1:]
            else:
                todo = []
        return res

    allres = {}
    for r in vt.pmap(run_chunk, chunks):
        allres.update(r)
    for i, b in enumerate(behaviours):
        got = allres.get(i)
        ops = b["hist"] + [b["op"]]
        ctx.note_case("%s:%s:%s" % (tag, b["h"], ops), nontrivial=len(ops) >= 2)
        if isinstance(got, tuple):
            ctx.report("replay:%s:abort" % tag, "hashmap.c aborted on history %s (h=%s): %s" % (ops, b["h"], got[1:]),
                       case=dict(kind="inproc", tag=tag, beh=b, line=lines[i]))
            continue
        nk = len(b["h"])
        cls = classify(b["exp"], got[:nk])
        if cls:
            ctx.report("replay:%s:%s" % (tag, cls),
                       "history %s with home slots %s: spec gets %s, hashmap.c gets %s" % (ops, b["h"], b["exp"], got[:nk]),
                       case=dict(kind="inproc", tag=tag, beh=b, line=lines[i], got=got))
        elif got[nk] >= got[nk + 1] and got[nk + 1] > 0:
            ctx.report("replay:%s:no-empty-slot" % tag, "used=%d capacity=%d after %s" % (got[nk], got[nk + 1], ops),
                       case=dict(kind="inproc", tag=tag, beh=b, line=lines[i], got=got))
    ctx.cov["traces_validated_against_impl"] += len(behaviours)


# ------------------------------------------------------------ macro level
def macro_case(b, variant):
    """#define/#undef history as (argv options, file text, expected probe lines)."""
    nk = len(b["h"])
    base = 0
    names = [key_name(k + 1, (base + b["h"][k]) % 16) for k in range(nk)]
    ops = [tuple(o) for o in b["hist"]] + [tuple(b["op"])]
    ncmd = 0 if variant == "file" else len(ops) if variant == "allcmd" else (len(ops) + 1) // 2
    opts, txt = [], []
    for j, o in enumerate(ops):
        n = names[o[1] - 1]
        if j < ncmd:
            opts.append("-D%s=v%d" % (n, o[2]) if o[0] == "put" else "-U" + n)
        else:
            txt.append("#define %s v%d" % (n, o[2]) if o[0] == "put" else "#undef " + n)
    exp = []
    for k in range(nk):
        txt += ["#ifdef " + names[k], "P%d %s" % (k + 1, names[k]), "#else", "P%d undef" % (k + 1), "#endif",
                "#if defined(%s)" % names[k], "Q%d 1" % (k + 1), "#else", "Q%d 0" % (k + 1), "#endif"]
        v = b["exp"][k]
        exp += ["P%d %s" % (k + 1, "v%d" % v if v else "undef"), "Q%d %d" % (k + 1, 1 if v else 0)]
    return opts, "\n".join(txt) + "\n", exp


def replay_macros(ctx, tree, behaviours, trace_to=None):
    d = ctx.tmp("macro")
    cc = tree + "/chibicc"

    def one(t):
        i, b, variant = t
        opts, txt, exp = macro_case(b, variant)
        f = "%s/m%d_%s.c" % (d, i, variant)
        open(f, "w").write(txt)
        env = dict(os.environ)
        if trace_to and i % trace_to[1] == 0:
            env["CHIBICC_VERIF_TRACE"] = "%s/m%d_%s.trace" % (trace_to[0], i, variant)
        p = subprocess.run([cc, "-E"] + opts + [f], capture_output=True, text=True, timeout=20, env=env)
        got = [" ".join(l.split()) for l in p.stdout.splitlines() if l.strip() and not l.startswith("#")]
        os.unlink(f)
        return i, b, variant, opts, txt, exp, p.returncode, got, p.stderr[-300:]

    work = [(i, b, v) for i, b in enumerate(behaviours) for v in ("file", "cmdline", "allcmd")]
    for i, b, variant, opts, txt, exp, rc, got, err in vt.pmap(one, work):
        ops = b["hist"] + [b["op"]]
        ctx.note_case("macro:%s:%s:%s" % (variant, b["h"], ops), nontrivial=len(ops) >= 2)
        if rc != 0:
            ctx.report("macro:%s:failed" % variant, "chibicc -E rc=%s on history %s: %s" % (rc, ops, err),
                       case=dict(kind="macro", variant=variant, beh=b, opts=opts, text=txt))
        elif got != exp:
            bad = [(e, g) for e, g in zip(exp, got) if e != g]
            cls = "defined-after-undef" if any(e.endswith(("undef", " 0")) for e, g in bad) else "definition-lost-or-stale"
            ctx.report("macro:%s:%s" % (variant, cls), "history %s: expected %s got %s" % (ops, exp, got),
                       case=dict(kind="macro", variant=variant, beh=b, opts=opts, text=txt, exp=exp, got=got))
    ctx.cov["traces_validated_against_impl"] += len(work)


# ------------------------------------------- macro table with guarded headers
FDEF = {4: "(a,b) a - b", 5: "(b,a) a - b", 6: "(a,b) b - a"}
PROBE = {0: "undef", 1: "v1(5,3)", 2: "v2(5,3)", 3: "v3(5,3)", 4: "5-3", 5: "3-5", 6: "3-5"}


def defline(n, v):
    return "#define %s%s" % (n, FDEF[v]) if v in FDEF else "#define %s v%d" % (n, v)


def replay_macrotable(ctx, tree, q):
    """MacroTable.tla: #define / #undef / #include of guarded headers; the re-inclusion shortcut (guard memo +
    macro table) must never change the emitted text or the final macro table."""
    cfg = ctx.cfg("hash", "MacroTable.cfg", NK=2 if q else 3)
    ctx.tlc_expect_ok("hash", "MacroTable", cfg, "include-guard shortcut changes the text of a define/undef/include history", workers=2, heap="2g")
    ctl = ctx.tlc("hash", "MacroTable", ctx.cfg("hash", "MacroTable.cfg", StaleGuard=True), workers=2, count=False, heap="2g")
    if ctl.ok:
        raise Infra("sensitivity control failed: TLC accepts a guard shortcut that trusts an #undef'd guard")
    out = os.path.join(ctx.scratch, "mt.ndjson")
    g = ctx.tlc("hash", "MacroTable", ctx.cfg("hash", "MacroTable.cfg", NK=2 if q else 3, Emit=True), env=dict(OUT=out), workers=2, heap="2g")
    rows = vt.read_ndjson(out)
    cases = []
    for r in rows:
        cases.append((r["hist"], r["out"], r["fin"]))
        for n in r["nx"]:
            cases.append((r["hist"] + [n["op"]], n["out"], n["fin"]))
    seen, uniq = set(), []
    for c in cases:
        k = json.dumps(c[0])
        if k not in seen:
            seen.add(k)
            uniq.append(c)
    if len(uniq) < 50:
        raise Infra("MacroTable generator wrote only %d histories" % len(uniq))
    uniq = vt.subsample(uniq, ctx.seed, 24 if q else 2)
    d = ctx.tmp("mtab")
    nk = len(uniq[0][2])
    names = [key_name(k + 1, 5) for k in range(nk)]          # colliding names again
    for k in range(nk):
        open("%s/h%d.h" % (d, k + 1), "w").write("#ifndef %s\n#define %s v3\nG%d\n#endif\n" % (names[k], names[k], k + 1))

    def one(t):
        i, (hist, eout, fin) = t
        lines = []
        for o in hist:
            n = names[o[1] - 1]
            lines.append(defline(n, o[2]) if o[0] == "def" else "#undef " + n if o[0] == "undef"
                         else '#include "h%d.h"' % o[1])
        exp = ["G%d" % k for k in eout]
        for k in range(nk):
            lines += ["#ifdef " + names[k], "P%d %s(5,3)" % (k + 1, names[k]), "#else", "P%d undef" % (k + 1), "#endif"]
            exp.append("P%d%s" % (k + 1, PROBE[fin[k]]))
        f = "%s/t%d.c" % (d, i)
        open(f, "w").write("\n".join(lines) + "\n")
        p = vt.run_limited([tree + "/chibicc", "-E", f], timeout=20)
        got = ["".join(l.split()) for l in p.stdout.splitlines() if l.strip() and not l.startswith("#")]
        os.unlink(f)
        return hist, exp, got, p.returncode, "\n".join(lines)

    for hist, exp, got, rc, txt in vt.pmap(one, list(enumerate(uniq))):
        ctx.note_case("mtab:%s" % hist, nontrivial=len(hist) >= 2)
        if rc != 0 or got != exp:
            kinds = "+".join(sorted(set(o[0] for o in hist)))
            ctx.report("macrotable:%s:%s" % (kinds, "text" if [x for x in got if x.startswith("G")] != [x for x in exp if x.startswith("G")] else "table"),
                       "history %s: expected %s got %s (rc=%s)" % (hist, exp, got, rc),
                       case=dict(kind="mtab", hist=hist, exp=exp, got=got, text=txt))
    ctx.cov["traces_validated_against_impl"] += len(uniq)
    ctx.sample(dict(kind="define/undef/include history", history=uniq[len(uniq) // 2][0], expected_text=uniq[len(uniq) // 2][1]))
    return len(uniq)


# -------------------------------------------------------- trace validation
def validate_traces(ctx, files, label):
    """Concatenate per-process H1 event streams and let TLC check them against DictTrace."""
    evs, nproc = [], 0
    for f in files:
        rows = vt.read_ndjson(f)
        bypid = {}
        for r in rows:
            if r.get("e") == "hm":
                bypid.setdefault(r["pid"], []).append(r)
        for pid in sorted(bypid):
            rs = sorted(bypid[pid], key=lambda r: r["seq"])
            evs.append(dict(e="reset", src=os.path.basename(f), pid=pid))
            evs += [dict(e="hm", op=r["op"], m=r["m"], k=r["k"], r=r["r"], used=r["used"], cap=r["cap"]) for r in rs]
            nproc += 1
    if not evs:
        raise Infra("no H1 events recorded (%s)" % label)
    tf = os.path.join(ctx.scratch, "trace-%s.ndjson" % label)
    vt.write_ndjson(tf, evs)
    res = ctx.tlc("hash", "DictTrace", "DictTrace.cfg", env=dict(TRACE=tf), workers=1, timeout=1200)
    accepted = res.ok and res.depth == len(evs) + 1
    if not accepted:          # a rejection must repeat (DESIGN 4.6)
        res2 = ctx.tlc("hash", "DictTrace", "DictTrace.cfg", env=dict(TRACE=tf), workers=1, timeout=1200, count=False)
        if res2.depth != res.depth:
            raise Infra("trace validation not reproducible (%d vs %d)" % (res.depth, res2.depth))
        bad = evs[res.depth - 1] if res.depth - 1 < len(evs) else None
        p = ctx.replay_dir("trace-" + label)
        os.replace(tf, p + "/trace.ndjson")
        json.dump(dict(kind="trace", matched=res.depth - 1, rejected_event=bad), open(p + "/case.json", "w"), indent=1)
        ctx.report("trace:%s:lookup-disagrees-with-dictionary" % label,
                   "event %d of %d not explained by the dictionary: %s" % (res.depth, len(evs), bad), p)
    ctx.cov["traces_validated_against_impl"] += nproc
    ctx.cov.setdefault("trace_events", 0)
    ctx.cov["trace_events"] += len(evs)
    return accepted


def record_compile_traces(ctx, tree, sources, label):
    d = ctx.tmp("tr-" + label)

    def one(src):
        tf = "%s/%s.trace" % (d, os.path.basename(src))
        env = dict(os.environ, CHIBICC_VERIF_TRACE=tf)
        p = subprocess.run([tree + "/chibicc", "-I" + tree + "/include", "-I" + tree + "/test", "-I" + tree,
                            "-c", "-o", "/dev/null", src], capture_output=True, text=True, env=env, timeout=120)
        return tf if os.path.exists(tf) else None
    return [t for t in vt.pmap(one, sources) if t]


# -------------------------------------------------------------------- run
def run(ctx):
    q = ctx.quick
    tree = ctx.build()
    ctx.phase("build done")
    # 1. exhaustive refinement check of the design
    for (nk, hmod) in ([] if q else [(3, 8), (4, 4)]):      # quick: the generation run below checks the same invariants
        cfg = ctx.cfg("hash", "HashMap_mc.cfg", NK=nk, HMod=hmod, MaxCap=16 if nk < 4 else 32)
        ctx.tlc_expect_ok("hash", "HashMap", cfg, "hash table design does not refine the dictionary", workers=8, heap="8g")
    cfg = ctx.cfg("hash", "HashMap_mc.cfg", NK=3, HMod=4, FIXED=False)
    ctl = ctx.tlc("hash", "HashMap", cfg, workers=4, count=False)
    if ctl.ok:
        raise Infra("sensitivity control failed: TLC accepts the pinned (tombstone-reusing) algorithm")
    ctx.phase("mc done")
    # 2a. every transition of the complete graph -> real hashmap.c at INIT_SIZE = 4
    out = os.path.join(ctx.scratch, "beh.ndjson")
    cfg = ctx.cfg("hash", "HashMap_gen.cfg", NK=3, HMod=4 if q else 8)
    g = ctx.tlc("hash", "HashMap", cfg, env=dict(OUT=out), workers=8, heap="8g")
    if not g.ok:
        p = ctx.replay_dir("tlc-HashMap-gen")
        open(p + "/counterexample.txt", "w").write(g.trace_text())
        ctx.report("tlc:HashMap:gen:%s" % g.violated, "hash table design does not refine the dictionary", p)
    beh = vt.read_ndjson(out)
    if len(beh) < 1000:
        raise Infra("generator wrote only %d behaviours" % len(beh))
    ctx.sample(dict(kind="graph transition", h=beh[len(beh) // 2]["h"], history=beh[len(beh) // 2]["hist"],
                    op=beh[len(beh) // 2]["op"], expected_gets=beh[len(beh) // 2]["exp"]))
    ctx.phase("gen done")
    exe4 = build_hm_harness(ctx, tree, 4)
    replay_inproc(ctx, exe4, beh, "cap4")
    # ... and each transition extended by every further single operation (the implementation's
    # hidden state after a model no-op / a state reached by another history is exercised too)
    pairs = [dict(h=b["h"], hist=b["hist"] + [b["op"]], op=n["op"], exp=n["exp"])
             for b in beh if b["fail"] == "none" for n in b["nx"]]
    pairs = vt.subsample(pairs, ctx.seed, 8 if q else 1)
    replay_inproc(ctx, exe4, pairs, "cap4x")
    # the macro-level sample (2c) is drawn now so that the large lists can be released
    mb = vt.subsample(beh, ctx.seed, 80 if q else 4) + vt.subsample(pairs, ctx.seed + 1, 800 if q else 40)
    nbeh, npairs = len(beh), len(pairs)
    del beh, pairs
    # as many keys as (and more than) initial slots: histories that leave no never-used slot
    # (put/delete of every key) - the table must purge tombstones instead of probing forever
    outf = os.path.join(ctx.scratch, "full.ndjson")
    for nk, hmod in ((4, 2),) if q else ((4, 4), (5, 2)):
        cfgf = ctx.cfg("hash", "HashMap_gen.cfg", NK=nk, HMod=hmod, Look=False, MaxCap=32)
        gf = ctx.tlc("hash", "HashMap", cfgf, env=dict(OUT=outf), workers=8, heap="8g")
        if not gf.ok:
            p = ctx.replay_dir("tlc-HashMap-full")
            open(p + "/counterexample.txt", "w").write(gf.trace_text())
            ctx.report("tlc:HashMap:full:%s" % gf.violated, "hash table design does not refine the dictionary", p)
    full = vt.subsample(vt.read_ndjson(outf), ctx.seed, 3 if q else 1)
    replay_inproc(ctx, exe4, full, "cap4full")
    nfull = len(full)
    del full
    ctx.phase("cap4 done")
    # 2b. long histories over 16 keys at the real INIT_SIZE, across 16->32(->64) growth
    out2 = os.path.join(ctx.scratch, "sim.ndjson")
    cfg = ctx.cfg("hash", "HashMap_sim.cfg", NK=28, NV=2, InitCap=16, HMod=16, MaxCap=128)
    s = ctx.tlc("hash", "HashMap", cfg, env=dict(OUT=out2), workers=4, simulate=30 if q else 400, depth=120,
                extra=["-seed", str(ctx.seed + 1)], count=False)
    if not s.ok:
        ctx.report("tlc:HashMap:simulate:%s" % s.violated, "simulation of long histories violated " + str(s.violated),
                   case=dict(out=s.trace_text()[:3000]))
    sim = vt.read_ndjson(out2)
    ctx.sample(dict(kind="long history", h=sim[-1]["h"], ops=len(sim[-1]["hist"]) + 1, cap=sim[-1]["cap"]))
    replay_inproc(ctx, build_hm_harness(ctx, tree, 16), sim, "cap16")
    nsim = len(sim)
    del sim
    ctx.phase("cap16 done")
    # 2c. macro level: #define/#undef/-D/-U histories with colliding names through -E
    trd = ctx.tmp("mtrace")
    replay_macros(ctx, tree, mb, trace_to=(trd, 200 if q else 100))
    ctx.sample(dict(kind="macro history", options=macro_case(mb[-1], "cmdline")[0], file=macro_case(mb[-1], "cmdline")[1][:200]))
    ctx.phase("macro done")
    nmt = replay_macrotable(ctx, tree, q)
    ctx.phase("macrotable done")
    # 3. trace validation of what the compiler's own tables did
    validate_traces(ctx, sorted(glob.glob(trd + "/*.trace")), "macro-histories")
    srcs = sorted(glob.glob(tree + "/test/*.c"))
    srcs = vt.subsample(srcs, ctx.seed, 6) if q else srcs + sorted(glob.glob(tree + "/*.c"))
    tfs = record_compile_traces(ctx, tree, srcs, "compile")
    for j in range(0, len(tfs), 4):
        validate_traces(ctx, tfs[j:j + 4], "compile-%d" % j)
    ctx.phase("traces done")
    ctx.assumptions += ["Level I model (HashMap.tla) is a hand transcription of hashmap.c; the replay and trace checks judge the real code",
                        "FNV-1 key pool (harness/data/fnv_names.json) realises home slots only for the tree's current hash function; a changed hash only makes the replay less targeted",
                        "dictionary values are compared as opaque pointer tags"]
    return ctx.finish(
        rule="behaviour = one transition of HashMap.tla's complete state graph (shortest history + one more operation) or one prefix of a simulated long history, replayed on the real hashmap.c / through chibicc -E; non-trivial = at least 2 operations; distinct = distinct (collision pattern, operation sequence, replay mode)",
        exhaustive=True,
        extra=dict(graph_transitions_replayed=nbeh, extended_transitions_replayed=npairs, long_history_prefixes=nsim, macro_histories=3 * len(mb), guarded_include_histories=nmt, full_table_transitions=nfull))


def replay(ctx, path):
    c = json.load(open(os.path.join(path, "case.json")))
    tree = ctx.build()
    c = c.get("case") or c
    if c.get("kind") == "inproc":
        exe = build_hm_harness(ctx, tree, 4 if c["tag"].startswith("cap4") else 16)
        replay_inproc(ctx, exe, [c["beh"]], c["tag"])
    elif c.get("kind") == "macro":
        replay_macros(ctx, tree, [c["beh"]])
    elif c.get("kind") == "trace":
        print("trace replays are re-validated by: TRACE=%s/trace.ndjson tlc -workers 1 -config DictTrace.cfg DictTrace.tla" % path)
    elif c.get("kind") == "tlc":
        ctx.tlc_expect_ok(c["area"], c["module"], c["cfg"], "replayed model check", env=c.get("env"))
    return ctx.finish(rule="replay of one recorded case")
