#!/usr/bin/env python3
"""One-off generator of data/fnv_names.json: identifier-shaped keys whose FNV-1
hash (hashmap.c) is congruent to r modulo 2^16, for r = 0..15, 32 names per
residue.  Equal residues collide at every power-of-two capacity <= 65536."""
import json, sys
M = (1 << 64) - 1
def fnv(s):
    h = 0xcbf29ce484222325
    for c in s.encode():
        h = (h * 0x100000001b3) & M
        h ^= c
    return h
if __name__ == "__main__":
    pool = {r: [] for r in range(16)}
    n = 0
    while any(len(v) < 32 for v in pool.values()):
        s = "K%x" % n
        r = fnv(s) & 0xffff
        if r in pool and len(pool[r]) < 32:
            pool[r].append(s)
        n += 1
    json.dump({str(k): v for k, v in pool.items()}, open(sys.argv[1], "w"), indent=0)
    print(n, "candidates")
