"""Parser for the AT&T assembly text that `chibicc -S` writes (shared by C16 and C20).

The emitted text is the object both checks judge: it is parsed here into
functions = lists of instructions with resolved jump targets, plus the data
symbols of the translation unit, and then handed to TLC either as

  * x86_program(...)   full operands for the interpreter  tla/atomic/X86.tla
  * stack_program(...) one effect class per instruction for tla/stack/StackDisc.tla

Nothing is guessed: a mnemonic or operand shape that the consumer does not
know raises Unknown (the checks turn that into exit 2, never into a no-op).
"""
import re


class Unknown(Exception):
    pass


R64 = {}
for _n, _fam in (("a", "rax"), ("b", "rbx"), ("c", "rcx"), ("d", "rdx")):
    R64["r%sx" % _n] = (_fam, 8); R64["e%sx" % _n] = (_fam, 4); R64["%sx" % _n] = (_fam, 2); R64["%sl" % _n] = (_fam, 1)
for _n in ("si", "di", "bp", "sp"):
    R64["r" + _n] = ("r" + _n, 8); R64["e" + _n] = ("r" + _n, 4); R64[_n] = ("r" + _n, 2); R64[_n + "l"] = ("r" + _n, 1)
for _i in range(8, 16):
    R64["r%d" % _i] = ("r%d" % _i, 8); R64["r%dd" % _i] = ("r%d" % _i, 4)
    R64["r%dw" % _i] = ("r%d" % _i, 2); R64["r%db" % _i] = ("r%d" % _i, 1)

JCC = {"je", "jne", "jz", "jnz", "js", "jns", "jb", "jbe", "ja", "jae", "jl", "jle", "jg", "jge", "jp", "jnp", "jc", "jnc", "jo", "jno"}


class Ins:
    __slots__ = ("op", "args", "lock", "rep", "line", "target", "raw")

    def __init__(self, op, args, lock=False, rep=False, line=0, raw=""):
        self.op, self.args, self.lock, self.rep, self.line, self.raw = op, args, lock, rep, line, raw
        self.target = None

    def __repr__(self):
        return ("lock " if self.lock else "") + self.op + " " + ", ".join(self.args)


class Func:
    def __init__(self, name):
        self.name = name
        self.ins = []          # Ins; pseudo ops: "label" (args=[name]), "V" (args = marker words)
        self.labels = {}       # label -> [indices (0-based) of the label pseudo-instruction]
        self.taken = []        # indices of labels whose address is taken (lea .L(%rip))


class Unit:
    def __init__(self):
        self.funcs = {}        # name -> Func (insertion order = file order)
        self.data = {}         # symbol -> dict(size=, align=, init=[bytes] or None, section=)
        self.order = []


def split_args(s):
    out, depth, cur = [], 0, ""
    for ch in s:
        if ch == "(":
            depth += 1
        elif ch == ")":
            depth -= 1
        if ch == "," and depth == 0:
            out.append(cur.strip()); cur = ""
        else:
            cur += ch
    if cur.strip():
        out.append(cur.strip())
    return out


def _strip_comment(l):
    """returns (code, marker) -- marker = words of a `# V:...` comment, else None"""
    i = l.find("#")
    if i < 0:
        return l, None
    # '#' inside a string literal (.ascii/.string) is data, not a comment
    if '"' in l[:i] and l[:i].count('"') % 2 == 1:
        return l, None
    c = l[i + 1:].strip()
    if c.startswith("V:"):
        return l[:i], c[2:].split()
    return l[:i], None


def parse(text):
    u = Unit()
    section, cur, cursym = None, None, None
    lineno = 0
    for raw in text.split("\n"):
        lineno += 1
        code, marker = _strip_comment(raw)
        if marker is not None and cur is not None and section == "text":
            cur.ins.append(Ins("V", marker, line=lineno, raw=raw.strip()))
        elif marker is not None and marker and marker[0] == "fn":
            u.pending_fn = marker          # `# V:fn` may precede the label
        parts = [code] if '"' in code else code.split(";")
        for part in parts:
            part = part.strip()
            while True:
                m = re.match(r"^([.\w$]+):\s*(.*)$", part)
                if not m:
                    break
                name, part = m.group(1), m.group(2).strip()
                if section == "text":
                    if not name.startswith(".L") and not name.isdigit():
                        cur = Func(name); u.funcs[name] = cur
                    elif cur is not None:
                        cur.labels.setdefault(name, []).append(len(cur.ins))
                        cur.ins.append(Ins("label", [name], line=lineno, raw=name + ":"))
                else:
                    cursym = name
                    u.data.setdefault(name, dict(size=0, align=1, init=[], section=section))
            if not part:
                continue
            if part.startswith("."):
                f = part.split(None, 1)
                d, rest = f[0], (f[1] if len(f) > 1 else "")
                if d in (".text",):
                    section = "text"
                elif d in (".data", ".bss", ".tbss", ".tdata"):
                    section, cur = d[1:], None
                elif d == ".section":
                    section, cur = ("text" if rest.startswith(".text") else rest.split(",")[0]), None
                elif d == ".comm":
                    a = [x.strip() for x in rest.split(",")]
                    u.data[a[0]] = dict(size=int(a[1]), align=int(a[2]) if len(a) > 2 else 1, init=None, section="comm")
                elif d == ".size" and section != "text":
                    a = [x.strip() for x in rest.split(",")]
                    if a[0] in u.data and a[1].isdigit():
                        u.data[a[0]]["size"] = int(a[1])
                elif d == ".align" and cursym is None:
                    pass
                elif d in (".byte", ".short", ".long", ".quad", ".zero", ".ascii", ".string") and section != "text" and cursym:
                    s = u.data[cursym]
                    if s["init"] is not None:
                        if d == ".zero":
                            s["init"] += [0] * int(rest)
                        elif d in (".ascii", ".string"):
                            s["init"] += [None]            # contents not needed by any consumer
                        else:
                            w = {".byte": 1, ".short": 2, ".long": 4, ".quad": 8}[d]
                            try:
                                v = int(rest, 0)
                                s["init"] += [(v >> (8 * i)) & 255 for i in range(w)]
                            except ValueError:
                                s["init"] += [None] * w    # relocation
                continue
            if cur is None or section != "text":
                raise Unknown("instruction outside a function at line %d: %s" % (lineno, part))
            lock = rep = False
            while True:
                f = part.split(None, 1)
                if f[0] == "lock":
                    lock, part = True, f[1]
                elif f[0] in ("rep", "repz", "repe", "repne"):
                    rep, part = True, f[1]
                else:
                    break
            f = part.split(None, 1)
            cur.ins.append(Ins(f[0], split_args(f[1]) if len(f) > 1 else [], lock, rep, lineno, part))
    for fn in u.funcs.values():
        _resolve(fn)
    return u


def _resolve(fn):
    for i, x in enumerate(fn.ins):
        if x.op == "jmp" or x.op in JCC:
            t = x.args[0]
            if t.startswith("*"):
                continue
            m = re.match(r"^(\d+)([fb])$", t)
            if m:
                c = fn.labels.get(m.group(1), [])
                c = [p for p in c if p > i] if m.group(2) == "f" else [p for p in c if p < i]
                if not c:
                    raise Unknown("%s: unresolved local label %s" % (fn.name, t))
                x.target = min(c) if m.group(2) == "f" else max(c)
            elif t in fn.labels:
                x.target = fn.labels[t][0]
            else:
                raise Unknown("%s: jump to a label outside the function: %s" % (fn.name, t))
        elif x.op == "lea":
            m = re.match(r"^(\.L[\w.$]*)\(%rip\)$", x.args[0])
            if m and m.group(1) in fn.labels:
                fn.taken.append(fn.labels[m.group(1)][0])


# ----------------------------------------------------------------- operands
NONE = dict(k="none", r="", w=0, base="", idx="", sc=0, d=0)


def operand(s, symaddr):
    """-> dict(k, r, w, base, idx, sc, d); symbols are resolved through symaddr (name -> address)."""
    s = s.strip()
    m = re.match(r"^\$(-?(?:0x[0-9a-fA-F]+|\d+))$", s)
    if m:
        v = int(m.group(1), 0)
        if v >= 2 ** 31 and v < 2 ** 32:
            v = v                     # kept; the interpreter's range check decides
        return dict(NONE, k="imm", d=v)
    m = re.match(r"^%(\w+)$", s)
    if m:
        if m.group(1) not in R64:
            raise Unknown("register " + s)
        r, w = R64[m.group(1)]
        return dict(NONE, k="reg", r=r, w=w)
    m = re.match(r"^([\w.$]+)?([+-]\d+)?\((%\w+)?(?:,(%\w+)(?:,(\d))?)?\)$", s.replace(" ", ""))
    if m:
        sym, off, base, idx, sc = m.groups()
        d = 0
        if sym:
            if re.match(r"^-?\d+$", sym):
                d = int(sym)
            elif sym in symaddr:
                d = symaddr[sym]
            else:
                raise Unknown("symbol " + sym)
        elif off is None and s.startswith("-"):
            pass
        if off:
            d += int(off)
        b = ""
        if base and base != "%rip":
            if base[1:] not in R64 or R64[base[1:]][1] != 8:
                raise Unknown("base register " + s)
            b = R64[base[1:]][0]
        elif base == "%rip" and not (sym and sym in symaddr):
            raise Unknown("rip-relative operand " + s)
        ix = ""
        if idx:
            ix = R64[idx[1:]][0]
        return dict(NONE, k="mem", base=b, idx=ix, sc=int(sc or 1) if idx else 0, d=d)
    m = re.match(r"^(-\d+)\((%\w+)\)$", s)
    raise Unknown("operand " + s)


# --------------------------------------------------- X86 interpreter program
X86_ALU = {"add", "sub", "and", "or", "xor", "imul", "shl", "sal", "shr", "sar", "cmp", "test", "mov", "lea",
           "neg", "not", "inc", "dec", "xchg", "cmpxchg", "push", "pop", "idiv", "div"}
X86_SET = {"sete", "setne", "setl", "setle", "setg", "setge", "setb", "setbe", "seta", "setae", "sets", "setns", "setz", "setnz"}
X86_MOVX = {"movsbl": (1, 4, 1), "movsbw": (1, 2, 1), "movsbq": (1, 8, 1), "movswl": (2, 4, 1), "movswq": (2, 8, 1),
            "movslq": (4, 8, 1), "movsxd": (4, 8, 1), "movzbl": (1, 4, 0), "movzbw": (1, 2, 0), "movzbq": (1, 8, 0),
            "movzwl": (2, 4, 0), "movzwq": (2, 8, 0)}
SUFFIX = {"b": 1, "w": 2, "l": 4, "q": 8}
# scalar SSE vocabulary of X86.tla (floats / doubles with small integer values): mnemonic -> (record op, GP operand width)
X86_SSE = {"movss": ("movss", 0), "movsd": ("movsd", 0), "movd": ("movdq", 4),
           "cvtsi2ssl": ("cvtsi2ss", 4), "cvtsi2ssq": ("cvtsi2ss", 8), "cvtsi2sdl": ("cvtsi2sd", 4), "cvtsi2sdq": ("cvtsi2sd", 8),
           "cvttss2sil": ("cvttss2si", 4), "cvttss2siq": ("cvttss2si", 8), "cvttsd2sil": ("cvttsd2si", 4), "cvttsd2siq": ("cvttsd2si", 8),
           "cvtss2sd": ("cvtss2sd", 0), "cvtsd2ss": ("cvtsd2ss", 0),
           "addss": ("addss", 0), "subss": ("subss", 0), "mulss": ("mulss", 0), "divss": ("divss", 0),
           "addsd": ("addsd", 0), "subsd": ("subsd", 0), "mulsd": ("mulsd", 0), "divsd": ("divsd", 0)}


def sse_operand(a, symaddr):
    m = re.match(r"^%(xmm\d+)$", a.strip())
    if m:
        if m.group(1) not in ("xmm0", "xmm1"):
            raise Unknown("register %" + m.group(1))
        return dict(NONE, k="xmm", r=m.group(1), w=16)
    return operand(a, symaddr)


def x86_function(fn, symaddr):
    """Instruction records for tla/atomic/X86.tla (labels become nops; targets 1-based)."""
    out = []
    for i, x in enumerate(fn.ins):
        rec = dict(op="nop", w=0, sw=0, sx=0, lock=1 if x.lock else 0, a=NONE, b=NONE, t=0, s=x.raw[:60])
        op = x.op
        if op in ("label", "V"):
            out.append(rec); continue
        if x.rep:
            if op in ("stosb", "movsb") and not x.args:
                rec["op"] = "rep" + op               # modelled on private memory only (X86.tla)
                out.append(rec); continue
            raise Unknown("%s: rep prefix not modelled: %s" % (fn.name, x.raw))
        if op == "jmp" or op in JCC:
            if x.target is None:
                raise Unknown("%s: indirect jump not modelled: %s" % (fn.name, x.raw))
            rec.update(op={"jz": "je", "jnz": "jne"}.get(op, op), t=x.target + 1)
            out.append(rec); continue
        if op in ("ret", "nop", "mfence", "pause", "cqo", "cqto", "cdq", "cltd"):
            rec["op"] = {"cqto": "cqo", "cltd": "cdq"}.get(op, op)
            out.append(rec); continue
        if len(x.args) == 2 and (op in X86_SSE or (op == "movq" and any(a.strip().startswith("%xmm") for a in x.args))):
            sop, w = X86_SSE.get(op, ("movdq", 8))
            ops = [sse_operand(a, symaddr) for a in x.args]
            if sum(1 for o in ops if o["k"] == "xmm") == 0 or any(o["k"] == "reg" and w and o["w"] != w for o in ops) \
               or any(o["k"] == "imm" for o in ops):
                raise Unknown("%s: SSE operand form not modelled: %s" % (fn.name, x.raw))
            rec.update(op=sop, w=w, a=ops[0], b=ops[1])
            out.append(rec); continue
        ops = [operand(a, symaddr) for a in x.args]
        if op in X86_MOVX:
            sw, dw, sx = X86_MOVX[op]
            if sw == 4 and ops[0]["k"] == "reg":
                pass
            rec.update(op="movx", sw=sw, w=dw, sx=sx, a=ops[0], b=ops[1])
            if ops[1]["k"] != "reg" or ops[1]["w"] != dw:
                raise Unknown("%s: %s" % (fn.name, x.raw))
            out.append(rec); continue
        if op in ("movzx", "movsx", "movzb", "movzw", "movsb", "movsw", "movsl") and len(ops) == 2:
            if ops[0]["k"] != "reg" or ops[1]["k"] != "reg" or ops[0]["w"] >= ops[1]["w"] or \
               (len(op) == 5 and op[4] != "x" and SUFFIX[op[4]] != ops[0]["w"]):
                raise Unknown("%s: %s" % (fn.name, x.raw))
            rec.update(op="movx", sw=ops[0]["w"], w=ops[1]["w"], sx=1 if op[3] == "s" else 0, a=ops[0], b=ops[1])
            out.append(rec); continue
        base = op
        w = 0
        if base not in X86_ALU and base not in X86_SET and base[:-1] in X86_ALU and base[-1] in SUFFIX:
            w, base = SUFFIX[base[-1]], base[:-1]
        if base in X86_SET:
            rec.update(op={"setz": "sete", "setnz": "setne"}.get(base, base), w=1, a=ops[0])
            out.append(rec); continue
        if base not in X86_ALU:
            raise Unknown("%s: mnemonic not in the modelled vocabulary: %s" % (fn.name, x.raw))
        if base == "sal":
            base = "shl"
        regw = [o["w"] for o in ops if o["k"] == "reg"]
        if base in ("push", "pop"):
            w = 8
        elif base == "lea":
            w = ops[1]["w"]
        elif base in ("shl", "shr", "sar") and len(ops) == 2:
            w = ops[1]["w"] if ops[1]["k"] == "reg" else w          # count register %cl does not give the width
        elif regw:
            if w and w != regw[-1] and not (base in ("shl", "shr", "sar")):
                raise Unknown("%s: suffix/register width mismatch: %s" % (fn.name, x.raw))
            w = regw[-1] if not (len(regw) == 2 and regw[0] != regw[1]) else 0
        if not w:
            raise Unknown("%s: cannot determine operand width: %s" % (fn.name, x.raw))
        if base in ("shl", "shr", "sar") and len(ops) == 1:
            ops = [dict(NONE, k="imm", d=1)] + ops
        if base == "imul" and len(ops) == 3:
            raise Unknown("%s: three-operand imul not modelled: %s" % (fn.name, x.raw))
        rec.update(op=base, w=w, a=ops[0] if ops else NONE, b=ops[1] if len(ops) > 1 else NONE)
        if base in ("neg", "not", "inc", "dec", "pop", "push", "idiv", "div"):
            rec.update(a=ops[0], b=ops[0])
        out.append(rec)
    return out


# ------------------------------------------------- stack-discipline program
# The x87 component of the machine is the displacement of the TOP-of-stack pointer (not register occupancy):
# fld*/fild*/fdecstp move it down (+1), fstp*/f*p/ffreep/fincstp move it up (-1), ffree only changes a tag (0).
X87_PUSH = {"fld", "flds", "fldl", "fldt", "fild", "filds", "fildl", "fildq", "fildll", "fldz", "fld1",
            "fldpi", "fldl2e", "fldl2t", "fldlg2", "fldln2", "fdecstp"}
X87_POP = {"fstp", "fstps", "fstpl", "fstpt", "fistp", "fistps", "fistpl", "fistpq", "fistpll", "faddp", "fsubp", "fsubrp",
           "fmulp", "fdivp", "fdivrp", "fcomip", "fucomip", "fisttp", "fisttpl", "fisttpq", "fisttpll",
           "ffreep", "fincstp", "fcomp", "fucomp", "fcomps", "fcompl"}
X87_NONE = {"ffree", "fnop", "ftst", "fxam", "fcom", "fucom", "frndint", "fscale", "fprem", "fprem1", "fchs", "fabs", "fnstcw", "fldcw", "fnstsw", "fxch", "fst", "fsts", "fstl", "fwait", "fnstenv", "fldenv", "fnclex",
            "fadd", "fsub", "fmul", "fdiv", "fsubr", "fdivr", "fucomi", "fcomi", "fsqrt",
            "fist", "fists", "fistl", "fadds", "faddl", "fsubs", "fsubl", "fmuls", "fmull", "fdivs", "fdivl", "fsubrs", "fsubrl", "fdivrs", "fdivrl"}
X87_INIT = {"fninit", "finit"}
# instructions without any effect on rsp or the x87 stack (unless rsp is an explicit destination, checked below)
PLAIN = {"mov", "movb", "movw", "movl", "movq", "movabs", "movabsq", "lea", "add", "sub", "and", "or", "xor", "imul", "mul", "div", "idiv",
         "cqo", "cdq", "cwd", "cltq", "cqto", "cltd", "neg", "not", "inc", "dec", "shl", "shr", "sar", "sal", "cmp", "test", "xchg", "cmpxchg",
         "movsbl", "movsbw", "movsbq", "movswl", "movswq", "movslq", "movsxd", "movzbl", "movzbw", "movzbq", "movzwl", "movzwq", "movzx", "movsx",
         "movss", "movsd", "movd", "movaps", "movups", "movapd", "movdqa", "movdqu",
         "addss", "addsd", "subss", "subsd", "mulss", "mulsd", "divss", "divsd", "ucomiss", "ucomisd", "comiss", "comisd",
         "xorps", "xorpd", "pxor", "andps", "andpd", "sqrtsd", "sqrtss",
         "cvtsi2ss", "cvtsi2sd", "cvtsi2ssl", "cvtsi2sdl", "cvtsi2ssq", "cvtsi2sdq", "cvttss2si", "cvttsd2si", "cvttss2sil", "cvttsd2sil",
         "cvttss2siq", "cvttsd2siq", "cvtss2sd", "cvtsd2ss", "cvtss2si", "cvtsd2si",
         "stosb", "stosq", "movsb", "movsq", "nop", "pause", "mfence", "lfence", "sfence", "ud2", "hlt", "cld", "std",
         "cmove", "cmovne", "cmovl", "cmovg", "cmovle", "cmovge", "cmovb", "cmova", "cmovbe", "cmovae", "bswap", "cpuid", "syscall", "popcnt", "lzcnt", "tzcnt", "bt", "bts", "btr", "btc", "bsf", "bsr", "rol", "ror", "rcl", "rcr", "shld", "shrd", "adc", "sbb", "xadd"} | X86_SET

# mnemonic prefixes with an implicit effect on rsp or on control flow: never inferred to be effect-free
STACK_FAMILY = ("push", "pop", "call", "lcall", "ret", "lret", "iret", "enter", "leave", "int", "into", "sysenter", "sysexit", "sysret",
                "loop", "j", "ljmp", "xbegin", "xabort", "xend", "ud", "hlt", "rsm", "vmcall", "vmlaunch", "vmresume")

RETCLS = ("int", "sse", "x87", "mem", "void", "unk")


def _dest_is_rsp(x):
    return bool(x.args) and x.args[-1].replace(" ", "") in ("%rsp", "%esp", "%sp")


def _r10_callee(ins, i):
    """unhooked trees: the symbol chibicc loaded into rax before `mov %rax, %r10; ...; call *%r10`, else None"""
    j = i - 1
    while j >= 0 and not (ins[j].op == "mov" and [a.replace(" ", "") for a in ins[j].args] == ["%rax", "%r10"]):
        if ins[j].op in ("label", "call") or ins[j].op in JCC or ins[j].op == "jmp":
            return None
        j -= 1
    j -= 1
    while j >= 0 and ins[j].op in ("pop", "movsd", "movss", "V") and not (ins[j].args and ins[j].args[-1].replace(" ", "") == "%rax"):
        j -= 1
    if j >= 0 and ins[j].op in ("lea", "mov") and ins[j].args[-1].replace(" ", "") == "%rax":
        m = re.match(r"^([A-Za-z_][\w.$]*)(@GOTPCREL)?\(%rip\)$", ins[j].args[0].replace(" ", ""))
        if m and (ins[j].op == "lea") != bool(m.group(2)):
            return m.group(1)
    return None


def stack_function(fn, ldcallees=None, hooked=None):
    """One effect record per instruction for tla/stack/StackDisc.tla:
       k: nop | d (rsp8 += n) | x (x87 += n) | xinit | base | reset | jmp | jcc | ijmp | ret | call (x87 += n, parity check)
          | stmt+ / stmt- (n = id, m = logged depth) | alloca+ / alloca-
       t: jump targets (1-based).  `ret` carries n = expected x87 depth (0/1, or -1 unknown).
       hooked: True if the unit carries H5 markers (then markers are authoritative)."""
    ins = fn.ins
    has_v = any(x.op == "V" for x in ins) if hooked is None else hooked
    retcls = "unk"
    out = []
    n = len(ins)
    # frame set-up: everything before the anchor is class "nop"; the anchor is the `# V:fn` marker when
    # present, else the first `sub $N, %rsp` after `mov %rsp, %rbp`.
    anchor = None
    for i, x in enumerate(ins):
        if x.op == "V" and x.args and x.args[0] == "fn":
            anchor = i
            for a in x.args[2:]:
                if a.startswith("ret="):
                    retcls = a[4:]
            break
    if anchor is None:
        seen_fp = False
        for i, x in enumerate(ins[:8]):
            if x.op == "mov" and [a.replace(" ", "") for a in x.args] == ["%rsp", "%rbp"]:
                seen_fp = True
            elif seen_fp and x.op == "sub" and _dest_is_rsp(x) and x.args[0].startswith("$"):
                anchor = i
                break
    if anchor is None:
        raise Unknown("%s: frame set-up not recognised" % fn.name)
    frame = None
    for x in ins[:anchor + 1]:
        if x.op == "sub" and _dest_is_rsp(x) and x.args[0].startswith("$"):
            frame = int(x.args[0][1:], 0)
    in_alloca = False
    # chibicc's common return point.  `return e` jumps to it; control that reaches the closing brace of the body
    # falls into it.  For the latter the function's value is indeterminate (6.9.1p12: e.g. after a call that
    # does not return), so no x87 requirement holds at that `ret`: the label record becomes "falloff" (x87
    # unknown from here) and the jumps are sent to the instruction behind it.
    idx_ret = (fn.labels.get(".L.return." + fn.name) or [None])[0]
    for i, x in enumerate(ins):
        rec = dict(k="nop", n=0, m=0, t=[], s=x.raw[:48], ln=x.line)
        op = x.op
        if i <= anchor:
            if i == anchor:
                rec.update(k="base", n=frame if frame is not None else -1)
            elif op not in ("push", "mov", "sub", "label", "V"):
                raise Unknown("%s: unexpected instruction in the frame set-up: %s" % (fn.name, x.raw))
            out.append(rec); continue
        if op == "label":
            if i == idx_ret:
                rec.update(k="falloff")
            out.append(rec); continue
        if op == "V":
            a = x.args
            if a[0] in ("stmt+", "stmt-"):
                rec.update(k=a[0], n=int(a[1]), m=int(a[2]))
            elif a[0] == "call":
                pass                                    # consumed by the call that precedes it
            elif a[0] == "alloca":
                in_alloca = not in_alloca
                rec.update(k="alloca+" if in_alloca else "alloca-")
            elif a[0] == "fn":
                pass
            else:
                raise Unknown("%s: unknown marker %s" % (fn.name, x.raw))
            out.append(rec); continue
        if op == "jmp" or op in JCC:
            if x.target is None:
                rec.update(k="ijmp", t=[p + 1 for p in sorted(set(fn.taken))])
                if not rec["t"]:
                    raise Unknown("%s: indirect jump but no address-taken label" % fn.name)
            else:
                rec.update(k="jmp" if op == "jmp" else "jcc", t=[x.target + 2 if x.target == idx_ret else x.target + 1])
            out.append(rec); continue
        if op == "ret":
            want = {"x87": 1, "unk": -1}.get(retcls, 0)
            rec.update(k="ret", n=want)
            out.append(rec); continue
        if op == "call":
            cls = None
            j = i + 1
            while j < n and ins[j].op == "V" and ins[j].args[0] != "call":
                j += 1
            if j < n and ins[j].op == "V" and ins[j].args[0] == "call":
                for a in ins[j].args[1:]:
                    if a.startswith("ret="):
                        cls = a[4:]
            if cls is None:
                if has_v and not in_alloca and False:
                    raise Unknown("%s: call without a V:call marker" % fn.name)
                callee = x.args[0]
                if callee.replace(" ", "") == "*%r10":
                    callee = _r10_callee(ins, i) or callee      # chibicc: lea f(%rip),%rax ... mov %rax,%r10 ; call *%r10
                if callee.startswith("*"):
                    cls = "unk"
                else:
                    cls = "x87" if (ldcallees is not None and callee in ldcallees) else ("int" if ldcallees is not None else "unk")
            rec.update(k="call", n=1 if cls == "x87" else 0, m=1 if cls == "unk" else 0)
            out.append(rec); continue
        if op in ("push", "pushq"):
            rec.update(k="d", n=-1)
        elif op in ("pop", "popq"):
            if x.args and x.args[0].replace(" ", "") == "%rbp" and i > 0 and out and out[-1]["k"] == "reset":
                rec.update(k="nop")
            else:
                rec.update(k="d", n=1)
        elif op in ("pushf", "pushfq"):
            rec.update(k="d", n=-1)
        elif op in ("popf", "popfq"):
            rec.update(k="d", n=1)
        elif op in ("leave",):
            rec.update(k="reset")
        elif _dest_is_rsp(x) and op not in ("cmp", "test"):
            a0 = x.args[0].replace(" ", "")
            m = re.match(r"^\$(-?(?:0x[0-9a-fA-F]+|\d+))$", a0)
            if op in ("add", "sub", "addq", "subq") and m:
                v = int(m.group(1), 0)
                if v % 8:
                    raise Unknown("%s: rsp adjusted by %d (not a multiple of 8)" % (fn.name, v))
                rec.update(k="d", n=(v // 8) * (1 if op.startswith("add") else -1))
            elif op in ("and", "andq") and m and int(m.group(1), 0) in (-16, 0xfffffffffffffff0):
                rec.update(k="align16")                 # rsp8' = rsp8 if even else rsp8 - 1 (StackDisc.tla)
            elif op == "mov" and a0 == "%rbp":
                rec.update(k="reset")
            elif in_alloca:
                rec.update(k="nop")
            elif op == "sub" and a0 == "%rdi" and not has_v:
                rec.update(k="alloca")                  # unhooked tree: chibicc's builtin_alloca signature
            else:
                raise Unknown("%s: unmodelled write to rsp: %s" % (fn.name, x.raw))
        elif op in X87_PUSH:
            rec.update(k="x", n=1)
        elif op in X87_POP:
            rec.update(k="x", n=-1)
        elif op in X87_INIT:
            rec.update(k="xinit")
        elif op in X87_NONE:
            pass
        elif op in PLAIN or (op[:-1] in PLAIN and op[-1] in SUFFIX) or re.match(r"^(mov[sz][bwl][wlq]?|set[a-z]{1,3}|cmov[a-z]{1,3})$", op):
            pass
        elif op.startswith("f") or op == "emms" or any(re.search(r"%mm\d", a) for a in x.args):
            raise Unknown("%s: x87 instruction with unknown stack effect: %s" % (fn.name, x.raw))
        elif op.startswith(STACK_FAMILY):
            raise Unknown("%s: stack/control instruction with unmodelled effect: %s" % (fn.name, x.raw))
        elif op.startswith(("xchg", "xadd")) and any(a.replace(" ", "") in ("%rsp", "%esp", "%sp", "%spl") for a in x.args):
            raise Unknown("%s: unmodelled write to rsp: %s" % (fn.name, x.raw))
        else:
            # Inferred: not an x87 instruction, not in the stack/control family, %rsp is not its destination
            # (checked above) and it has no implicit rsp effect: effect 0 on (rsp8, x87).  A legitimate codegen
            # change that merely uses another general-purpose / SSE instruction must not stop the check.
            pass
        out.append(rec)
    return out
