"""Shared machinery for every check: scratch build of the tree under test,
TLC runner, behaviour ingest, evidence writer, known-findings matcher.

Exit status convention (DESIGN 4.6):  0 property held on everything explored,
1 violation (line "VIOLATION property=<id> replay=<path>"), 2 infrastructure.
"""
import atexit, concurrent.futures, glob, hashlib, json, os, re, shutil, signal
import subprocess, sys, tempfile, time

VERIF = os.path.dirname(os.path.dirname(os.path.dirname(os.path.abspath(__file__))))
REPO = os.environ.get("VERIF_REPO", "/repo")
TLA = os.path.join(VERIF, "tla")
# where evidence and replay material go: /verif/evidence for the registered commands; development runs against
# scratch copies (seeded changes, mutants) set VERIF_EVIDENCE so that they neither overwrite it nor collide
EVID = os.environ.get("VERIF_EVIDENCE", os.path.join(VERIF, "evidence"))
GUARD = "CHIBICC_VERIF"
NCPU = os.cpu_count() or 4


class Infra(Exception):
    """Infrastructure failure: never a violation (exit 2)."""


def sh(cmd, timeout=600, **kw):
    return subprocess.run(cmd, capture_output=True, text=True, timeout=timeout, **kw)


PRLIMIT = shutil.which("prlimit") or "/usr/bin/prlimit"


def run_limited(cmd, timeout=60, mem_gb=4, cpu_s=None, **kw):
    """subprocess.run for anything that executes the compiler under test or code it produced: own
    process group (the driver's cc1 child dies with it), address-space and CPU rlimits, so a
    non-terminating or memory-eating mutant cannot take the machine down.  Returns a
    CompletedProcess; on timeout returncode is -999."""
    # No preexec_fn: with one, Python must fork() instead of vfork()/posix_spawn(), which costs ~30 ms per
    # process from a parent with a large heap (measured: 300 runs 9.4 s against 1.3 s).  The limits are set by
    # prlimit(1), the session (= process group) by start_new_session.
    c = int(cpu_s or timeout + 5)
    cmd = [PRLIMIT, "--as=%d" % int(mem_gb * (1 << 30)), "--cpu=%d:%d" % (c, c + 1), "--core=0", "--"] + list(cmd)
    kw.setdefault("capture_output", True)
    kw.setdefault("text", True)
    if kw.get("capture_output"):
        kw.pop("capture_output")
        kw["stdout"] = subprocess.PIPE
        kw["stderr"] = subprocess.PIPE
    inp = kw.pop("input", None)
    if inp is not None:
        kw["stdin"] = subprocess.PIPE
    p = subprocess.Popen(cmd, start_new_session=True, **kw)
    try:
        out, err = p.communicate(inp, timeout=timeout)
        return subprocess.CompletedProcess(cmd, p.returncode, out, err)
    except subprocess.TimeoutExpired:
        try:
            os.killpg(p.pid, signal.SIGKILL)
        except ProcessLookupError:
            pass
        out, err = p.communicate()
        return subprocess.CompletedProcess(cmd, -999, out, err)


class TLCResult:
    def __init__(self, rc, out, wall):
        self.rc, self.out, self.wall = rc, out, wall
        m = re.search(r"(\d+) states generated, (\d+) distinct states found, (\d+) states left", out)
        self.generated = int(m.group(1)) if m else 0
        self.distinct = int(m.group(2)) if m else 0
        self.left = int(m.group(3)) if m else 0
        m = re.search(r"depth of the complete state graph search is (\d+)", out)
        self.depth = int(m.group(1)) if m else 0
        m = re.search(r"Invariant (\S+) is violated", out)
        self.violated = m.group(1) if m else None
        if not self.violated:
            m = re.search(r"(Temporal properties were violated|Deadlock reached|Action property \S+ is violated|Assumption .* is false|POSTCONDITION\S* .*violated|evaluated to FALSE)", out, re.I)
            self.violated = m.group(1) if m else None
        self.ok = rc == 0

    @property
    def is_violation(self):
        return self.rc in (12, 13) or (self.rc == 11 and False)

    def trace_text(self):
        i = self.out.find("Error:")
        return self.out[i:] if i >= 0 else self.out[-4000:]


class Ctx:
    def __init__(self, prop, tier="quick", seed=0, level="model_checking"):
        self.prop, self.tier, self.seed, self.level = prop, tier, seed, level
        self.t0 = time.time()
        self.scratch = tempfile.mkdtemp(prefix="vt-%s-" % prop)
        atexit.register(self.cleanup)
        self.cov = dict(states=0, transitions=0, traces_validated_against_impl=0,
                        evaluations=0, distinct_nontrivial=0, samples=[], tlc_runs=[])
        self.assumptions = []
        self.violations = []       # (sig, replay path)
        self.known_hit = {}        # finding id -> count
        self.oracle_disagreements = 0
        self._distinct = set()
        self.findings = load_findings(prop)
        self._bin = None
        self.quick = tier == "quick"

    # ---------------------------------------------------------------- build
    def cleanup(self):
        shutil.rmtree(self.scratch, ignore_errors=True)

    def tmp(self, name):
        p = os.path.join(self.scratch, name)
        os.makedirs(p, exist_ok=True)
        return p

    def build(self, hooks=True, extra_defs=(), name="tree"):
        """Copy /repo's working tree sources to scratch and build chibicc.
        Returns the directory (binary at <dir>/chibicc)."""
        if name == "tree" and self._bin and hooks:
            return self._bin
        d = os.path.join(self.scratch, name)
        copy_tree(REPO, d)
        cc = "cc" + (" -D%s" % GUARD if hooks else "") + "".join(" -D" + x for x in extra_defs)
        r = sh(["make", "-s", "-j%d" % NCPU, "CC=" + cc, "chibicc"], cwd=d, timeout=300)
        if r.returncode != 0 or not os.path.exists(d + "/chibicc"):
            raise Infra("build of tree under test failed:\n" + r.stdout[-2000:] + r.stderr[-4000:])
        if name == "tree" and hooks:
            self._bin = d
        return d

    # ------------------------------------------------------------------ TLC
    def tlc(self, area, module, cfg, env=None, workers=None, timeout=900, simulate=None,
            depth=None, extra=(), count=True, heap=None, deque=False):
        """Run TLC on tla/<area>/<module>.tla with config <cfg>; returns TLCResult.
        rc 0 = no error, 12/13 = safety/liveness violation, other = Infra."""
        tladir = os.path.join(TLA, area)
        meta = tempfile.mkdtemp(prefix="meta-", dir=self.scratch)
        w = workers or NCPU
        cmd = ["java", "-XX:+UseParallelGC", "-Djava.io.tmpdir=" + self.scratch]    # TLC leaves tlc-<n> directories behind
        if heap:
            cmd.append("-Xmx" + heap)
        if deque:
            cmd.append("-Dtlc2.tool.queue.IStateQueue=StateDeque")
        cmd += ["-cp", "/opt/veriftools/tla/tla2tools.jar:/opt/veriftools/tla/CommunityModules-deps.jar:" + os.path.join(TLA, "lib"),
                "-DTLA-Library=" + os.path.join(TLA, "lib"),
                "tlc2.TLC", "-workers", str(w), "-metadir", meta, "-noGenerateSpecTE",
                "-config", cfg if os.path.isabs(cfg) else os.path.join(tladir, cfg)]
        if simulate:
            cmd += ["-simulate", "num=%d" % simulate]
            if depth:
                cmd += ["-depth", str(depth)]
        cmd += list(extra) + [module + ".tla"]
        e = dict(os.environ)
        e.pop("JAVA_TOOL_OPTIONS", None)
        if env:
            e.update({k: str(v) for k, v in env.items()})
        t = time.time()
        try:
            r = subprocess.run(cmd, cwd=tladir, env=e, capture_output=True, text=True, timeout=timeout)
        except subprocess.TimeoutExpired:
            raise Infra("TLC timeout (%ss) on %s/%s %s" % (timeout, area, module, cfg))
        finally:
            shutil.rmtree(meta, ignore_errors=True)
        res = TLCResult(r.returncode, r.stdout + r.stderr, time.time() - t)
        if res.rc not in (0, 12, 13):
            raise Infra("TLC rc=%d on %s/%s %s:\n%s" % (res.rc, area, module, cfg, res.out[-6000:]))
        if count:
            self.cov["states"] += res.distinct
            self.cov["transitions"] += res.generated
        self.cov["tlc_runs"].append(dict(spec="%s/%s" % (area, module), cfg=os.path.basename(cfg),
                                         rc=res.rc, generated=res.generated, distinct=res.distinct,
                                         depth=res.depth, wall_s=round(res.wall, 1),
                                         env={k: str(v)[:80] for k, v in (env or {}).items()}))
        return res

    def cfg(self, area, base, name=None, **consts):
        """Copy tla/<area>/<base> to scratch with CONSTANT values overridden."""
        txt = open(os.path.join(TLA, area, base)).read()
        for k, v in consts.items():
            if isinstance(v, bool):
                v = "TRUE" if v else "FALSE"
            txt, n = re.subn(r"(?m)(^|\s)(%s\s*=\s*)\S+" % re.escape(k), lambda m: m.group(1) + m.group(2) + str(v), txt)
            if n != 1:
                raise Infra("constant %s not found once in %s" % (k, base))
        self._ncfg = getattr(self, "_ncfg", 0) + 1
        p = os.path.join(self.scratch, "%s-%d.cfg" % (name or base[:-4], self._ncfg))
        open(p, "w").write(txt)
        return p

    def tlc_expect_ok(self, area, module, cfg, what, **kw):
        """Model check; a TLC counterexample is a violation of the property's design."""
        res = self.tlc(area, module, cfg, **kw)
        if not res.ok:
            p = self.replay_dir("tlc-%s-%s" % (module, os.path.basename(cfg)))
            open(p + "/counterexample.txt", "w").write(res.trace_text())
            json.dump(dict(kind="tlc", area=area, module=module, cfg=cfg, env=kw.get("env")),
                      open(p + "/case.json", "w"))
            self.report("tlc:%s:%s:%s" % (module, os.path.basename(cfg), res.violated), what, p)
        return res

    # ------------------------------------------------------- violations
    def replay_dir(self, name):
        name = re.sub(r"[^A-Za-z0-9_.-]", "_", name)[:80]
        p = os.path.join(EVID, "replays", self.prop, name)
        shutil.rmtree(p, ignore_errors=True)
        os.makedirs(p, exist_ok=True)
        return p

    def report(self, sig, what, replay=None, case=None):
        """A discrepancy between the tree under test and the specification.
        sig: classification string matched against known_findings.json."""
        f = match_finding(self.findings, sig)
        if f:
            self.known_hit.setdefault(f["id"], [f, 0])[1] += 1
            return False
        if len([1 for x, _ in self.violations if x == sig]) >= 3:
            self.violations.append((sig, None))      # same class already reported 3 times
            return True
        if replay is None:
            replay = self.replay_dir(sig + "-" + hashlib.sha1(json.dumps(case, sort_keys=True, default=str).encode()).hexdigest()[:8])
            json.dump(dict(sig=sig, what=what, case=case), open(replay + "/case.json", "w"), indent=1, default=str)
        self.violations.append((sig, replay))
        print("VIOLATION property=%s replay=%s  # %s: %s" % (self.prop, replay, sig, what[:300]), flush=True)
        return True

    def phase(self, name):
        now = time.time()
        self.cov.setdefault("phases", []).append([name, round(now - self.t0, 1)])
        if os.environ.get("VERIF_VERBOSE"):
            print("[%6.1fs] %s" % (now - self.t0, name), file=sys.stderr, flush=True)

    def note_case(self, key, nontrivial=True):
        self.cov["evaluations"] += 1
        if nontrivial:
            self._distinct.add(key if isinstance(key, (str, int, tuple)) else json.dumps(key, sort_keys=True))

    def sample(self, s, cap=6):
        if len(self.cov["samples"]) < cap:
            self.cov["samples"].append(s)

    # ---------------------------------------------------------- evidence
    def finish(self, rule, explanation=None, exhaustive=None, extra=None):
        for fid, (f, n) in sorted(self.known_hit.items()):
            print("KNOWN-FINDING: property=%s %s  [%s, %d cases this run]" % (self.prop, f["what"], fid, n))
        cov = self.cov
        cov["distinct_nontrivial"] = len(self._distinct)
        cov["rule"] = rule
        if explanation:
            cov["explanation"] = explanation
        if exhaustive is not None:
            cov["exhaustive"] = bool(exhaustive)
        cov["oracle_disagreements"] = self.oracle_disagreements
        cov["known_findings_hit"] = {k: v[1] for k, v in self.known_hit.items()}
        cov["tree"] = REPO
        if extra:
            cov.update(extra)
        ev = dict(property_id=self.prop, tier=self.tier, seed=self.seed, level=self.level,
                  coverage=cov, assumptions=self.assumptions,
                  wall_s=round(time.time() - self.t0, 1), violations=len(self.violations))
        os.makedirs(EVID, exist_ok=True)
        p = os.path.join(EVID, self.prop + ".json")
        json.dump(ev, open(p + ".tmp", "w"), indent=1, default=str)
        os.replace(p + ".tmp", p)
        print("%s %s tier=%s seed=%d: states=%d transitions=%d evaluations=%d distinct=%d traces=%d violations=%d known=%d wall=%.1fs" % (
            "FAIL" if self.violations else "PASS", self.prop, self.tier, self.seed, cov["states"], cov["transitions"],
            cov["evaluations"], cov["distinct_nontrivial"], cov["traces_validated_against_impl"],
            len(self.violations), len(self.known_hit), time.time() - self.t0))
        return 1 if self.violations else 0


# --------------------------------------------------------------------- misc
def copy_tree(src, dst):
    os.makedirs(dst, exist_ok=True)
    for f in glob.glob(src + "/*.c") + glob.glob(src + "/*.h") + [src + "/Makefile"]:
        shutil.copy2(f, dst)
    shutil.copytree(src + "/include", dst + "/include", dirs_exist_ok=True)
    os.makedirs(dst + "/test", exist_ok=True)
    for f in glob.glob(src + "/test/*"):
        if os.path.isfile(f) and not f.endswith((".exe", ".o", ".s")):
            shutil.copy2(f, dst + "/test")


def load_findings(prop):
    out = []
    # VERIF_FINDINGS_EXTRA is a development aid only (proposed entries not merged yet); registered
    # commands never set it.
    for p in [os.path.join(VERIF, "known_findings.json")] + [x for x in os.environ.get("VERIF_FINDINGS_EXTRA", "").split(":") if x]:
        if os.path.exists(p):
            d = json.load(open(p))
            out += [f for f in d.get("findings", []) if prop in f.get("properties", []) and f.get("status") == "open"]
    return out


def match_finding(findings, sig):
    for f in findings:
        for pat in f.get("signatures", []):
            if re.fullmatch(pat, sig):
                return f
    return None


def pmap(fn, items, workers=None):
    with concurrent.futures.ThreadPoolExecutor(workers or NCPU) as ex:
        return list(ex.map(fn, items))


def read_ndjson(path, double=False):
    """Lines written by TLC's CSVWrite("%1$s", <<ToJson(x)>>, file) are JSON values;
    ToJson of a record is a JSON object (not double-encoded) in this TLC."""
    out = []
    if not os.path.exists(path):
        return out
    for l in open(path):
        l = l.strip()
        if not l:
            continue
        v = json.loads(l)
        if isinstance(v, str) and (double or v[:1] in "[{"):
            try:
                v = json.loads(v)
            except ValueError:
                pass
        out.append(v)
    return out


def write_ndjson(path, rows):
    with open(path, "w") as f:
        for r in rows:
            f.write(json.dumps(r, separators=(",", ":")) + "\n")


def subsample(items, seed, stride):
    """Deterministic seed-dependent subsample of an enumerated closed domain."""
    if stride <= 1:
        return list(items)
    return [x for i, x in enumerate(items) if (i * 7919 + seed) % stride == 0]


def main(prop, run, replay=None, level="model_checking"):
    import argparse
    ap = argparse.ArgumentParser()
    ap.add_argument("--tier", default=os.environ.get("VERIF_TIER", "quick"))
    ap.add_argument("--replay")
    a = ap.parse_args(sys.argv[2:])
    tier = a.tier if a.tier in ("quick", "thorough") else "quick"
    seed = int(os.environ.get("VERIF_SEED", "0") or 0)
    ctx = Ctx(prop, tier, seed, level)
    try:
        if a.replay:
            if not replay:
                raise Infra("no replay support for " + prop)
            rc = replay(ctx, a.replay)
        else:
            rc = run(ctx)
    except Infra as e:
        print("INFRASTRUCTURE-ERROR %s: %s" % (prop, e), file=sys.stderr)
        rc = 2
    except subprocess.TimeoutExpired as e:
        print("INFRASTRUCTURE-ERROR %s: timeout %s" % (prop, e), file=sys.stderr)
        rc = 2
    ctx.cleanup()
    sys.exit(rc)
