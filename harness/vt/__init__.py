from .core import *
