"""C16 — atomic read-modify-write operations are indivisible.

The program TLC runs is the `-S` output of the chibicc built from the tree
under test: for every case of the generation domain
    (width, signedness, operation, object kind, threads x repetitions)
a small C function is generated, compiled with `<tree>/chibicc -S`, parsed by
harness/asmparse.py and loaded into tla/atomic/Atomic.tla (X86.tla is the
instruction interpreter, AtomicSem.tla the Level A semantics).  TLC explores
every interleaving; the verdict of every quiescent state is judged against the
set of linearizations.  Supplement: pthread stress runs (final value only).
"""
import itertools, json, os, re, struct, subprocess
import vt, asmparse
from vt import Infra

WIDTHS = {1: ("signed char", "unsigned char"), 2: ("short", "unsigned short"), 4: ("int", "unsigned int"), 8: ("long", "unsigned long")}
OPS_ASSIGN = {"add": "+=", "sub": "-=", "mul": "*=", "div": "/=", "mod": "%=", "and": "&=", "or": "|=", "xor": "^=", "shl": "<<=", "shr": ">>="}
# mixed cases: thread 0 performs `x op= v`, the other threads `x += v'` with operands that flip the sign of a
# negative initial value (signed objects only): (initial value, operand of op=, operands of the += threads)
MIX = {"sub": (-8, 3, (72, -70)), "mul": (-8, 2, (72, -70)), "div": (-8, 2, (72, -70)), "mod": (-7, 3, (72, -70)),
       "and": (-8, 124, (72, -70)), "or": (-8, 3, (72, -70)), "xor": (-8, 5, (72, -70)), "shl": (8, 1, (16, -4)), "shr": (-8, 1, (72, -70))}
MIX_SHAPES = [(2, 1), (3, 1)]
OPS_INCDEC = {"preinc": "++%s", "predec": "--%s", "postinc": "%s++", "postdec": "%s--"}
OPS_FETCH = {"fadd": "atomic_fetch_add", "fsub": "atomic_fetch_sub", "for": "atomic_fetch_or", "fxor": "atomic_fetch_xor", "fand": "atomic_fetch_and"}
OPS_OTHER = ["xchg", "cas", "casw", "casinc", "lock", "casx", "casro", "xchgw"]
# xchgw: exchange whose old value has the object's top bit set and whose new-value operand (a long) is outside the
#        object's range (1-/2-byte objects) or negative: the result is the old value converted to the object's type,
#        whatever the operand was (C11 7.17.7.3).
# type classes: (w, sg) with sg = True / False (signed / unsigned integer type), BOOL (= 2: _Bool, w = 1) or
# FLT (= 3: w = 4 float, w = 8 double; the operands of the signed integer types, all results integers < 2^20)
BOOL = 2
FLT = 3
FLOAT_OPS = ["add", "sub", "mul", "div", "preinc", "predec", "postinc", "postdec", "xchg", "cas", "casw", "casinc", "casro"]
BOOL_INIT = dict(add=0, sub=0, mul=1, div=1, mod=1, shl=1, shr=1, preinc=0, postinc=0, predec=0, postdec=0, xchg=0, xchgw=1,
                 cas=1, casw=1, casinc=0, lock=0, casx=0, casro=1, **{"and": 1, "or": 0, "xor": 1})


def ctype(w, sg):
    return "_Bool" if sg == BOOL else ("float" if w == 4 else "double") if sg == FLT else WIDTHS[w][0 if sg else 1]


def sgcode(sg):
    return 2 if sg == BOOL else 3 if sg == FLT else 1 if sg else 0


def tname(w, sg):
    return "w%d%s" % (w, "b" if sg == BOOL else "f" if sg == FLT else "s" if sg else "u")


def ops_of(sg):
    return FLOAT_OPS if sg == FLT else ALL_OPS


def obj_bytes(x, w, sg):
    """object representation of the value x of the type class (w, sg)"""
    if sg == FLT:
        return list(struct.pack("<f" if w == 4 else "<d", x))
    return le_bytes(x, w)
# casx : compare-exchange whose `expected` is a SHARED object (xe): thread 0 hands the object over with
#        CAS(&x, &xe, v); thread 1, once it sees the new value, takes xe over and stores into it.  2 x 1 only.
# casro: compare-exchange that can only succeed (object = expected = new value) with `expected` (roe) in
#        memory no store may touch: a store on the success path is a violation even if it stores the same value.
ALL_OPS = list(OPS_ASSIGN) + list(OPS_INCDEC) + list(OPS_FETCH) + OPS_OTHER
KINDS = ["global", "ptr", "member", "pmember", "elem"]
SHAPES = [(2, 1), (2, 2), (3, 1)]           # threads x repetitions
HEAP = 2000                                   # address of the heap / escaped-local object


# --------------------------------------------------------------- C source
def lvalue(kind):
    return dict(global_="g", ptr="(*p)", member="s.x", pmember="p->x", elem="arr[2]")[kind if kind != "global" else "global_"]


def c_unit(w, sg, kind):
    """One translation unit: every operation on one (width, signedness, object kind)."""
    T = ctype(w, sg)
    lv = lvalue(kind)
    ptype = "struct S *" if kind == "pmember" else "_Atomic T *"
    src = ["#include <stdatomic.h>", "typedef %s T;" % T,
           "struct S { char pad; _Atomic T x; T after; };",
           "_Atomic T g; struct S s; _Atomic T arr[4]; T cnt; T xe; T roe;"]
    # sensitivity control: the same update through a non-atomic lvalue (must lose updates)
    src.append("long f_ctl(%sp, long v, long e) { T *q; q = (T *)&g; *q += v; return 0; }" % ptype)
    for op in ops_of(sg):
        head = "long f_%s(%sp, long v, long e) {" % (op, ptype)
        if op in OPS_ASSIGN:
            body = "return %s %s v;" % (lv, OPS_ASSIGN[op])
        elif op in OPS_INCDEC:
            body = "return %s;" % (OPS_INCDEC[op] % lv)
        elif op in OPS_FETCH:
            body = "return %s(&%s, v);" % (OPS_FETCH[op], lv)
        elif op in ("xchg", "xchgw"):
            body = "return atomic_exchange(&%s, v);" % lv
        elif op in ("cas", "casw"):
            body = "T ee; int r; ee = e; r = atomic_compare_exchange_%s(&%s, &ee, v); return (long)ee * 2 + r;" % (
                "strong" if op == "cas" else "weak", lv)
        elif op == "casinc":
            body = "T o; T n; o = %s; do { n = o + v; } while (!atomic_compare_exchange_weak(&%s, &o, n)); return 0;" % (lv, lv)
        elif op == "casx":
            body = "if (e) { if (%s == (T)e) { xe = v; return 1; } return 0; } return atomic_compare_exchange_strong(&%s, &xe, v);" % (lv, lv)
        elif op == "casro":
            body = "int r; r = atomic_compare_exchange_strong(&%s, &roe, v); return (long)roe * 2 + r;" % lv
        elif op == "lock":
            body = "while (atomic_exchange(&%s, 1)) ; cnt = cnt + v; %s = 0; return 0;" % (lv, lv)
        src.append(head + " " + body + " }")
    for op in (MIX if sg != FLT else ()):
        src.append("long f_mix_%s(%sp, long v, long e) { if (e) return %s += v; return %s %s v; }" % (op, ptype, lv, lv, OPS_ASSIGN[op]))
    return "\n".join(src) + "\n"


# ------------------------------------------------------------- the domain
def op_values(op, w, sg, nt, reps):
    """(initial object value, args[t][k] = (v, e)) -- small, defined behaviour only."""
    if op.startswith("mix_"):
        init, vx, adds = MIX[op[4:]]
        V = {(t, k): (vx if t == 0 else adds[(t - 1 + k) % len(adds)]) for t in range(nt) for k in range(reps)}
        E = {(t, k): (0 if t == 0 else 1) for t in range(nt) for k in range(reps)}
        return init, V, E
    idx = lambda t, k: (t * reps + k)
    base = op[1:] if op in OPS_FETCH else op
    V = {}
    for t in range(nt):
        for k in range(reps):
            i = idx(t, k)
            # `+=` gets operands of both signs so that the object can return to an earlier value (ABA)
            V[t, k] = dict(add=(i // 2 + 1) * (1 if i % 2 == 0 else -1) if base == op else i + 1, sub=i + 1, mul=i + 2, div=i + 2, mod=i + 7, **{"and": 127 - (1 << i), "or": 1 << i, "xor": 1 << i},
                           shl=1, shr=1, preinc=1, predec=1, postinc=1, postdec=1, xchg=10 + i, cas=10 + i, casw=10 + i,
                           casinc=i + 1, lock=i + 1, casx=0, casro=7,
                           xchgw=(0x1230 + i if w == 1 else 0x12340010 + i if w == 2 or not sg or sg == BOOL else -(10 + i)))[base]
    unsigned_small = (not sg) and w <= 2
    top = 250 if w == 1 else 65530
    init = dict(add=top if unsigned_small else 5, sub=3 if unsigned_small else (2 if sg else 100), mul=3, div=120, mod=100,
                **{"and": 127, "or": 0, "xor": 85}, shl=1, shr=64,
                preinc=(top + 4 if w == 1 else 65534) if unsigned_small else 5, postinc=5,
                predec=1 if unsigned_small else (1 if sg else 100), postdec=50,
                xchg=7, cas=7, casw=7, casinc=5, lock=0, casx=7, casro=7,
                xchgw=-3 if sg else 253 if w == 1 else 65533 if w == 2 else 1000000)[base]
    E = {}
    for t in range(nt):
        for k in range(reps):
            E[t, k] = 7 if k == 0 else V[t, 0]
    if op == "lock":
        init = 0
    if sg == BOOL:               # a _Bool object holds 0 or 1; the operands keep their values (they are converted)
        init = BOOL_INIT[base]
    if op == "casx":             # thread 0: producer (e = 0) publishes 10; thread 1: consumer waits for 10, stores 99 into xe
        V = {(t, k): (10 if t == 0 else 99) for t in range(nt) for k in range(reps)}
        E = {(t, k): (0 if t == 0 else 10) for t in range(nt) for k in range(reps)}
        init = 0 if sg == BOOL else 7
    if op == "casro":            # object = expected = new value = 7: every compare-exchange succeeds
        V = {(t, k): 7 for t in range(nt) for k in range(reps)}
        E = {(t, k): 7 for t in range(nt) for k in range(reps)}
        init = 1 if sg == BOOL else 7
    return init, V, E


def opk_of(op):
    return {"casw": "cas", "casro": "cas", "xchgw": "xchg"}.get(op, op[4:] if op.startswith("mix_") else op)


def canon(w, x, sg=None):
    if sg == BOOL:
        return 1 if x else 0
    return x % 256 if w == 1 else x % 65536 if w == 2 else x


def le_bytes(x, n):
    return [(x >> (8 * i)) & 255 for i in range(n)]


def build_case(unit, fname, w, sg, kind, op, nt, reps):
    """-> case record for Atomic.tla (raises asmparse.Unknown if the code leaves the modelled vocabulary)."""
    # data symbols -> shared addresses (16 bytes apart at least, every byte of every symbol is shared)
    symaddr, shared, a = {}, {}, 1000
    for name, d in unit.data.items():
        if name.startswith(".L"):
            continue
        symaddr[name] = a
        for i in range(d["size"]):
            shared[a + i] = 0xA5
        a += ((d["size"] + 15) // 16) * 16 + 16
    for i in range(32):
        shared[HEAP + i] = 0xA5
    code = asmparse.x86_function(unit.funcs[fname], symaddr)
    for ins in code:
        for o in (ins["a"], ins["b"]):
            if abs(o["d"]) >= 2 ** 30:
                raise asmparse.Unknown("%s: constant outside the modelled range: %s" % (fname, ins["s"]))
    frame = 0
    for x in unit.funcs[fname].ins[:6]:
        if x.op == "sub" and x.args[-1].replace(" ", "") == "%rsp":
            frame = int(x.args[0][1:], 0)
    off = {1: 1, 2: 2, 4: 4, 8: 8}[w]           # offset of member x in struct S (char pad; T x)
    objaddr = dict(global_=symaddr["g"], ptr=HEAP + 8, member=symaddr["s"] + off, pmember=symaddr["s"] + off,
                   elem=symaddr["arr"] + 2 * w)[kind if kind != "global" else "global_"]
    rdi = dict(ptr=HEAP + 8, pmember=symaddr["s"]).get(kind, 0)
    init, V, E = op_values(op, w, sg, nt, reps)
    obj, keep = objaddr, []
    init = canon(w, init, sg) if sg == BOOL else init
    for i, b in enumerate(obj_bytes(init, w, sg)):
        shared[objaddr + i] = b
    if op == "lock":                            # the judged object is the plain counter; the lock word must end up 0
        obj = symaddr["cnt"]
        for i in range(w):
            shared[obj + i] = 0
        keep += [[objaddr + i, 0] for i in range(w)]
    aux, ro, tinit = 0, [], canon(w, init, sg)
    if op == "casx":                            # the shared expected object starts equal to the atomic object
        aux = symaddr["xe"]
        for i, b in enumerate(le_bytes(init, w)):
            shared[aux + i] = b
        tinit = dict(m=canon(w, init, sg), x=canon(w, init, sg))
    if op == "casro":
        aux = symaddr["roe"]
        for i, b in enumerate(obj_bytes(init, w, sg)):
            shared[aux + i] = b
        ro = list(range(aux, aux + w))
    touched = set(range(objaddr, objaddr + w)) | set(range(obj, obj + w)) | (set(range(aux, aux + w)) if op == "casx" else set())
    keep += [[x, v] for x, v in sorted(shared.items()) if x not in touched]      # every other byte keeps its value
    name = "%s-%s-%s-%dx%d" % (tname(w, sg), kind, op, nt, reps)
    return dict(name=name, code=code, nt=nt, reps=reps, ss=frame + 96,
                args=[[[rdi, V[t, k], E[t, k]] for k in range(reps)] for t in range(nt)],
                shared=[[x, v] for x, v in sorted(shared.items())], obj=obj, w=w, sg=sgcode(sg),
                opk=opk_of(op), mix=1 if op.startswith("mix_") else 0, init=tinit, keep=keep, aux=aux, ro=ro)


def compile_units(ctx, tree, keys):
    """keys: set of (w, sg, kind) -> {key: (source, asm text, asmparse.Unit)}"""
    d = ctx.tmp("c16-src")

    def one(key):
        w, sg, kind = key
        src = c_unit(w, sg, kind)
        f = "%s/u_%s_%s.c" % (d, tname(w, sg), kind)
        open(f, "w").write(src)
        r = vt.sh([tree + "/chibicc", "-I" + tree + "/include", "-S", "-o", f[:-2] + ".s", f], timeout=60)
        if r.returncode != 0:
            raise Infra("chibicc -S failed on %s: %s" % (f, r.stderr[-500:]))
        asm = open(f[:-2] + ".s").read()
        return key, (src, asm, asmparse.parse(asm))
    return dict(vt.pmap(one, sorted(keys)))


def domain(tier):
    out = []
    for w, sg in [(w, sg) for w in (1, 2, 4, 8) for sg in (True, False)] + [(1, BOOL), (4, FLT), (8, FLT)]:
        if True:
            for kind in KINDS:
                for op in ops_of(sg):
                    for nt, reps in SHAPES:
                        if op == "casx" and (nt, reps) != (2, 1):
                            continue
                        out.append((w, sg, kind, op, nt, reps))
                if sg is True:
                    for op in MIX:
                        for nt, reps in MIX_SHAPES:
                            out.append((w, sg, kind, "mix_" + op, nt, reps))
    return out


def always(dom):
    """small family every quick run includes completely: signed 1/2-byte objects, every op= against a sign-flipping +="""
    return [c for c in dom if (c[0] <= 2 and c[2] == "global" and c[3].startswith("mix_"))
            or (c[3] in ("casx", "casro") and c[1] is True and c[2] in ("global", "ptr") and c[5] == 1 and c[4] == 2)
            or (c[3] == "xchgw" and c[0] <= 2 and c[1] is True and c[2] == "global" and (c[4], c[5]) == (2, 1))
            or (c[1] == BOOL and c[3] in ("postinc", "postdec", "xchg") and c[2] == "global" and (c[4], c[5]) == (2, 1))
            or (c[1] == FLT and c[3] in ("postinc", "add") and c[2] == "global" and (c[4], c[5]) == (2, 1))]


# ------------------------------------------------------------------ TLC
def run_batch(ctx, cases, tso, label, workers):
    pf = os.path.join(ctx.scratch, "prog-%s.json" % label)
    out = os.path.join(ctx.scratch, "verdicts-%s.ndjson" % label)
    json.dump(cases, open(pf, "w"))
    cfg = ctx.cfg("atomic", "Atomic_batch.cfg", TSO=tso)
    res = ctx.tlc("atomic", "Atomic", cfg, env=dict(PROG=pf, OUT=out), workers=workers, timeout=1500, heap="6g")
    if not res.ok:
        raise Infra("TLC stopped on the batch %s: %s" % (label, res.trace_text()[:1500]))
    by = {}
    for v in vt.read_ndjson(out):
        by.setdefault(v["c"], []).append(v)
    return by


def counterexample(ctx, case, tso):
    pf = os.path.join(ctx.scratch, "one-%s.json" % case["name"])
    json.dump([case], open(pf, "w"))
    cfg = ctx.cfg("atomic", "Atomic_one.cfg", TSO=tso)
    res = ctx.tlc("atomic", "Atomic", cfg, env=dict(PROG=pf), workers=1, timeout=600, count=False)
    return res


def strip_trace(txt):
    """TLC prints whole thread records; keep the counterexample readable."""
    txt = re.sub(r"stk \|-> <<[^>]*>>", "stk |-> <<...>>", txt)
    return txt


def judge(ctx, cases, meta, by, tso, label):
    bad = []
    for ci, case in enumerate(cases, 1):
        vs = by.get(ci, [])
        key = case["name"] + (":tso" if tso else "")
        ctx.note_case(key, nontrivial=True)
        verdicts = sorted({v["verdict"] for v in vs})
        if not vs:
            bad.append((case, meta[ci - 1], "never-quiescent", []))
        elif "returns-new-value" in verdicts and set(verdicts) <= {"ok", "returns-new-value"}:
            ex = [v for v in vs if v["verdict"] == "returns-new-value"][0]
            ctx.report("atomic:fetch:returns-new-value",
                       "%s: the values returned are those AFTER the operation (e.g. object %s, results %s); C11 7.17.7.5: the value before"
                       % (case["name"], ex["mem"], ex["rets"]), case=dict(kind="case", coord=meta[ci - 1]["coord"], tso=tso))
        elif verdicts != ["ok"]:
            merr = [v for v in verdicts if v.startswith("model:")]
            if merr and len(merr) == len([v for v in verdicts if v not in ("ok", "returns-new-value")]):
                raise Infra("interpreter left its modelled range on %s: %s" % (case["name"], merr[0]))
            worst = [v for v in verdicts if v not in ("ok", "returns-new-value") and not v.startswith("model:")][0]
            bad.append((case, meta[ci - 1], worst, [v for v in vs if v["verdict"] not in ("ok", "returns-new-value")][:3]))
    ctx.cov["traces_validated_against_impl"] += len(cases)

    def sig_of(m, verdict):
        w, sg, kind, op, nt, reps = m["coord"]
        opc = ("cas" if op in ("casx", "casro") and verdict == "expected-written-on-success" else "fetch" if op in OPS_FETCH
               else "incdec" if sg in (BOOL, FLT) and op in OPS_INCDEC else "op=" if (op in OPS_ASSIGN or op in OPS_INCDEC or op.startswith("mix_")) else op)
        return "atomic:%s:%s%s:%s" % (kind, "bool-" if sg == BOOL else "float-" if sg == FLT else "", opc, verdict)

    def report(t):                  # the schedule (a separate TLC run) only for what is not a known finding
        case, m, verdict, examples = t
        res = None if vt.match_finding(ctx.findings, sig_of(m, verdict)) else counterexample(ctx, case, tso)
        return t, res
    for (case, m, verdict, examples), res in vt.pmap(report, bad, workers=4):
        w, sg, kind, op, nt, reps = m["coord"]
        sig = sig_of(m, verdict)
        f = vt.match_finding(ctx.findings, sig)
        p = None
        if not f:
            p = ctx.replay_dir("%s-%s" % (case["name"], "tso" if tso else "sc"))
            open(p + "/unit.c", "w").write(m["src"])
            open(p + "/unit.s", "w").write(m["asm"])
            open(p + "/counterexample.txt", "w").write(strip_trace(res.trace_text()))
            json.dump(dict(kind="case", coord=m["coord"], tso=tso, function=m["fname"], verdict=verdict, examples=examples,
                           expected="outcome must be a linearization (AtomicSem!Lin) of the %d operations" % (nt * reps)),
                      open(p + "/case.json", "w"), indent=1)
        ctx.report(sig, "%s: %s (%d threads x %d): TLC finds a schedule of the emitted code whose outcome %s is not a linearization"
                   % (case["name"], verdict, nt, reps, examples[:1]), p)
    return bad


def make_cases(ctx, units, coords):
    cases, meta = [], []
    for (w, sg, kind, op, nt, reps) in coords:
        src, asm, unit = units[(w, sg, kind)]
        fname = "f_" + op
        try:
            case = build_case(unit, fname, w, sg, kind, op, nt, reps)
        except asmparse.Unknown as e:
            raise Infra("emitted code outside the modelled vocabulary: %s" % e)
        cases.append(case)
        meta.append(dict(coord=[w, sg, kind, op, nt, reps], src=src, asm=asm, fname=fname))
    return cases, meta


def stress_source(w, kinds, iters):
    """pthread stress program: 4 threads x iters iterations per (kind, op); prints `kind op final expected ok`."""
    T = WIDTHS[w][1]
    lv = dict(global_="g", ptr="(*hp)", local="(*lp)", member="s.x", elem="arr[2]")
    src = ["#include <stdatomic.h>", "int printf(const char *, ...); void *malloc(unsigned long);",
           "typedef unsigned long pthread_t;",
           "int pthread_create(pthread_t *, void *, void *(*)(void *), void *); int pthread_join(pthread_t, void **);",
           "typedef %s T;" % T, "struct S { char pad; _Atomic T x; T after; };",
           "_Atomic T g; struct S s; _Atomic T arr[4]; _Atomic T *hp; _Atomic T *lp; unsigned long cnt; _Atomic unsigned long ret_sum;",
           "#define N %dL" % iters]
    tests = []
    for kind in kinds:
        L = lv[kind if kind != "global" else "global_"]
        bodies = dict(add="%s += 1;" % L, postinc="%s++;" % L, predec="--%s;" % L, xor="%s ^= (T)(1 << id);" % L,
                      fsub="atomic_fetch_sub(&%s, 1);" % L, casinc="T o; T n; o = %s; do { n = o + 1; } while (!atomic_compare_exchange_weak(&%s, &o, n));" % (L, L),
                      lock="while (atomic_exchange(&%s, 1)) ; cnt = cnt + 1; %s = 0;" % (L, L),
                      xchg="mine += atomic_exchange(&%s, (T)(id + 1));" % L)
        for op, body in bodies.items():
            fn = "t_%s_%s" % (kind, op)
            src.append("void *%s(void *a) { long id = (long)a; unsigned long mine = 0; for (long i = 0; i < N; i++) { %s } ret_sum += mine; return 0; }" % (fn, body))
            tests.append((kind, op, fn, L))
    src.append("static void run4(void *(*f)(void *)) { pthread_t th[4]; for (long i = 0; i < 4; i++) pthread_create(&th[i], 0, f, (void *)i); for (int i = 0; i < 4; i++) pthread_join(th[i], 0); }")
    main = ["int main(void) { _Atomic T loc; hp = malloc(sizeof(T)); lp = &loc;"]
    for kind, op, fn, L in tests:
        init = {"add": 5, "postinc": 5, "predec": 5, "xor": 85, "fsub": 5, "casinc": 5, "lock": 0, "xchg": 7}[op]
        main.append(" %s = %d; cnt = 0; ret_sum = 0; run4(%s);" % (L, init, fn))
        if op == "lock":
            main.append(' printf("%s %s %%lu %%lu %%d\\n", cnt, 4 * N, (int)%s);' % (kind, op, L))
        elif op == "xchg":      # every value written is returned exactly once or is the final one
            main.append(' printf("%s %s %%lu %%lu 0\\n", (unsigned long)ret_sum + (unsigned long)%s, %dUL + N * (1UL + 2 + 3 + 4));' % (kind, op, L, init))
        else:
            delta = {"add": "+ 4 * N", "postinc": "+ 4 * N", "casinc": "+ 4 * N", "predec": "- 4 * N", "fsub": "- 4 * N", "xor": ""}[op]
            main.append(' printf("%s %s %%lu %%lu 0\\n", (unsigned long)%s, (unsigned long)(T)(%dUL %s));' % (kind, op, L, init, delta))
    main.append(" return 0; }")
    return "\n".join(src) + "\n" + "".join(main) + "\n"


def stress(ctx, tree, q):
    d = ctx.tmp("c16-stress")
    kinds = ["global", "ptr", "local", "member", "elem"]
    if q:
        kinds = [kinds[ctx.seed % 5], "member" if ctx.seed % 5 != 3 else "global"]
    iters = 100000 if q else 300000

    def one(w):
        f = "%s/stress%d.c" % (d, w)
        src = stress_source(w, kinds, iters)
        open(f, "w").write(src)
        r = vt.sh([tree + "/chibicc", "-I" + tree + "/include", "-c", "-o", f[:-2] + ".o", f], timeout=120)
        if r.returncode:
            raise Infra("chibicc failed on the stress program: " + r.stderr[-600:])
        r = vt.sh(["cc", "-pthread", "-o", f[:-2] + ".exe", f[:-2] + ".o"], timeout=60)
        if r.returncode:
            raise Infra("link of the stress program failed: " + r.stderr[-600:])
        try:
            p = subprocess.run([f[:-2] + ".exe"], capture_output=True, text=True, timeout=150 if q else 600)
        except subprocess.TimeoutExpired as e:
            done = (e.stdout or b"").decode() if isinstance(e.stdout, bytes) else (e.stdout or "")
            return w, src, [l.split() for l in done.splitlines() if len(l.split()) == 5] + [["?", "hang", "-", "-", "0"]]
        if p.returncode:
            raise Infra("stress program exited with %s" % p.returncode)
        return w, src, [l.split() for l in p.stdout.splitlines()]
    n = 0
    for w, src, rows in vt.pmap(one, [1, 2, 4, 8], workers=4):
        for kind, op, got, exp, lockword in rows:
            n += 1
            ctx.note_case("stress:w%d:%s:%s" % (w, kind, op), nontrivial=True)
            if op == "hang":
                ctx.report("stress:hang", "the %d-byte stress program did not finish (a retry loop that never succeeds)" % w,
                           case=dict(kind="stress", w=w, kinds=kinds, iters=iters, source=src))
                continue
            if got != exp or lockword != "0":
                ctx.report("stress:%s:%s:%s" % (kind, "op=" if op in ("add", "postinc", "predec", "xor", "fsub") else op,
                                                 "lost-update" if got != exp else "lock-word-not-released"),
                           "4 threads x %d iterations of %s on a %d-byte %s object: final value %s, expected %s" % (iters, op, w, kind, got, exp),
                           case=dict(kind="stress", w=w, kinds=kinds, iters=iters, source=src, observed=got, expected=exp))
    ctx.cov["traces_validated_against_impl"] += n
    ctx.cov["stress_runs"] = n


# ------------------------------------------------------------------------------------------------
# CasOperands.tla: one compare-exchange with non-trivial operand expressions, replayed on the real compiler
GV = 85


def casops_source(w, sg, cases):
    T = WIDTHS[w][0 if sg else 1]
    des = dict(plain="21", call5="call5(1, 2, 3, 4, 21)", ext5="ext5(1, 2, 3, 4, 21)", nfetch="atomic_fetch_add(&h, 1) + 16",
               ncas="(atomic_compare_exchange_strong(&h, &he, 6), 21)", scopy="(s2 = s1, 21)", bitf="(bf.f = 3) + 18",
               isub="i1 - i2", scneg="sc", iwide="0x1234" if w == 1 else "0x12345678")
    exp = dict(plain="&E.e", call5="(T *)call5(1, 2, 3, 4, (long)&E.e)")
    obj = dict(plain="&O.x", call5="(_Atomic T *)call5(1, 2, 3, 4, (long)&O.x)")
    src = ["#include <stdatomic.h>", "int printf(const char *, ...); int fflush(void *); int atoi(const char *);", "typedef %s T;" % T,
           "struct OB { T g1; _Atomic T x; T g2; }; struct EB { T g1; T e; T g2; }; struct S2 { long a; long b; }; struct BF { int f : 4; int g : 4; };",
           "static struct OB O; static struct EB E; static _Atomic long h; static long he; static struct S2 s1, s2; static struct BF bf;",
           "static int i1 = 2; static int i2 = 3; static signed char sc = -1;",
           "static long call5(long a, long b, long c, long d, long v) { return v; }", "long ext5(long a, long b, long c, long d, long v);",
           "static void reset(long e0) { O.g1 = %d; O.x = 7; O.g2 = %d; E.g1 = %d; E.e = e0; E.g2 = %d; h = 5; he = 5; s1.a = 33; s1.b = 44; s2.a = 0; s2.b = 0; bf.f = 0; bf.g = 5; }" % (GV, GV, GV, GV),
           "static void show(int idx, int r) { int ok = O.g1 == %d && O.g2 == %d && E.g1 == %d && E.g2 == %d && bf.g == 5 && s1.a == 33 && s1.b == 44;"
           " printf(\"%%d %%d %%ld %%ld %%ld %%ld %%d %%d\\n\", idx, r, (long)O.x, (long)E.e, (long)h, s2.a, (int)bf.f, ok); fflush(0); }" % (GV, GV, GV, GV)]
    for cs in cases:
        src.append("static void t_%d(void) { int r; reset(%d); r = atomic_compare_exchange_%s(%s, %s, %s); show(%d, r); }"
                   % (cs["idx"], cs["e0"], cs["strength"], obj[cs["obj"]], exp[cs["exp"]], des[cs["des"]], cs["idx"]))
    src.append("static void (*tab[])(void) = {%s};" % ", ".join("t_%d" % cs["idx"] for cs in cases))
    src.append("int main(int argc, char **argv) { for (int i = argc > 1 ? atoi(argv[1]) : 0; i < %d; i++) tab[i](); return 0; }" % len(cases))
    return "\n".join(src) + "\n"


def casops(ctx, tree, q):
    out = os.path.join(ctx.scratch, "casops.ndjson")
    stride = 4 if q else 1
    cfg = ctx.cfg("atomic", "CasOperands.cfg", Seed=ctx.seed % stride, Stride=stride)
    res = ctx.tlc("atomic", "CasOperands", cfg, env=dict(OUT=out), workers=2, timeout=300)
    cases = sorted(vt.read_ndjson(out), key=lambda c: c["idx"])
    if not res.ok or not cases:
        raise Infra("CasOperands.tla generated nothing: " + res.trace_text()[:300])
    d = ctx.tmp("c16-casops")
    ext = os.path.join(d, "ext.o")
    r = vt.sh(["cc", "-O1", "-c", "-o", ext, os.path.join(vt.VERIF, "harness/c/c16_ext.c")])
    if r.returncode:
        raise Infra("c16_ext.c: " + r.stderr[-300:])
    groups = {}
    for cs in cases:
        groups.setdefault((cs["w"], cs["sg"]), []).append(cs)

    def run_exe(exe, cl):
        """-> {position: tuple or 'died'}; a case that kills the program is recorded and the rest is resumed"""
        got, start = {}, 0
        while start < len(cl):
            p = subprocess.run([exe, str(start)], capture_output=True, text=True, timeout=120)
            lines = [l.split() for l in p.stdout.splitlines() if len(l.split()) == 8]
            for f in lines:
                got[int(f[0])] = tuple(int(x) for x in f[1:])
            nxt = start + len(lines)
            if nxt < len(cl):
                got[cl[nxt]["idx"]] = ("died", p.returncode)
                nxt += 1
            start = nxt
        return got

    def one(item):
        (w, sg), cl = item
        f = "%s/casops_%d%s.c" % (d, w, "s" if sg else "u")
        src = casops_source(w, sg, cl)
        open(f, "w").write(src)
        r = vt.sh([tree + "/chibicc", "-I" + tree + "/include", "-c", "-o", f[:-2] + ".o", f], timeout=120)
        if r.returncode:
            raise Infra("chibicc failed on %s: %s" % (f, r.stderr[-500:]))
        r = vt.sh(["cc", "-o", f[:-2] + ".exe", f[:-2] + ".o", ext], timeout=60)
        if r.returncode:
            raise Infra("link failed on %s: %s" % (f, r.stderr[-500:]))
        got = run_exe(f[:-2] + ".exe", cl)
        want = {cs["idx"]: (cs["want"]["r"], cs["want"]["x"], cs["want"]["e"], cs["want"]["h"], cs["want"]["s2a"], cs["want"]["bff"], 1) for cs in cl}
        ggot = {}
        if any(got.get(i) != want[i] for i in want):           # tie-break: what does the reference compiler say?
            r = vt.sh(["cc", "-w", "-O0", "-o", f[:-2] + ".gcc", f, ext], timeout=120)
            if r.returncode == 0:
                ggot = run_exe(f[:-2] + ".gcc", cl)
        return (w, sg), src, got, want, ggot
    n = 0
    for (w, sg), src, got, want, ggot in vt.pmap(one, sorted(groups.items()), workers=8):
        for cs in groups[(w, sg)]:
            n += 1
            i = cs["idx"]
            ctx.note_case("casops:%d" % i, nontrivial=True)
            g, wt = got.get(i), want[i]
            if g == wt:
                continue
            if ggot.get(i) != wt:
                ctx.oracle_disagreements += 1
                continue
            if g is None or g[0] == "died":
                what = "program-died"
            else:
                what = ("result-wrong" if g[0] != wt[0] else "object-wrong" if g[1] != wt[1] else "expected-not-updated" if g[2] != wt[2]
                        else "neighbour-clobbered" if g[6] != 1 else "side-object-wrong")
            ctx.report("casops:%s:%s:%s:%s:%s" % (cs["des"], cs["exp"], cs["obj"], cs["path"], what),
                       "atomic_compare_exchange_%s on a %d-byte %s object, desired = %s, expected pointer %s, object address %s, exchange %s: "
                       "Level A (and gcc) give (result, object, *expected, h, s2.a, bf.f, guards intact) = %s, the tree's chibicc gives %s"
                       % (cs["strength"], w, "signed" if sg else "unsigned", cs["des"], cs["exp"], cs["obj"], cs["path"], wt, g),
                       case=dict(kind="casops", case=cs, source=src, expected=wt, observed=g))
    ctx.cov["traces_validated_against_impl"] += n
    ctx.cov["casops_cases"] = n
    ctx.sample(dict(kind="compare-exchange with operand expressions", case=cases[len(cases) // 2]))


# ------------------------------------------------------------------------------------------------
# XchgOperands.tla: one atomic_exchange over object type class x operand type/range x old value class
XOPS = dict(same="nv", ineg="-1", iwide="%(wide)s", lvar="lv", scneg="sc", isub="i1 - i2", uc200="uc", i256="256", izero="0",
            call5="call5(1, 2, 3, 4, 10)", pvar="pv", nullc="(long *)0", zero="0", addr="&pool[3]",
            pcall="(long *)call5(1, 2, 3, 4, (long)&pool[1])")


def xchgops_source(w, sg, tc, cases):
    T = "long *" if tc == "ptr" else "_Bool" if tc == "bool" else ("float" if w == 4 else "double") if tc == "flt" else WIDTHS[w][0 if sg else 1]
    wide = "0x1234" if w == 1 or tc == "flt" else "0x12345678"
    gv = "(T)%d" % GV
    src = ["#include <stdatomic.h>", "int printf(const char *, ...); int fflush(void *); int atoi(const char *); void *malloc(unsigned long);",
           "typedef %s T;" % T, "struct OB { T g1; _Atomic T x; T g2; };", "static struct OB O; static long spool[4]; static long *hpool;",
           "static long call5(long a, long b, long c, long d, long v) { return v; }",
           "static long pidx(long *pool, long *p) { if (!p) return 0; if (p >= pool && p < pool + 4) return p - pool; return -1; }",
           'static void show(int idx, long r, long x, int ok) { printf("%d %ld %ld %d\\n", idx, r, x, ok); fflush(0); }']
    for cs in cases:
        o = "(&O)" if cs["obj"] != "auto" else "(&A)"
        objx = "&%s->x" % o if cs["obj"] != "call5" else "(_Atomic T *)call5(1, 2, 3, 4, (long)&%s->x)" % o
        val = XOPS[cs["opn"]] % dict(wide=wide)
        b = ["static void t_%d(void) { struct OB A; long apool[4]; long *pool = %s; long r; long x;" % (cs["idx"], dict(static="spool", auto="apool", heap="hpool")[cs["pool"]])]
        if tc == "ptr":
            b.append("T pv = &pool[1]; %s->g1 = %s; %s->x = %s; %s->g2 = %s;" % (o, gv, o, "&pool[%d]" % cs["old"] if cs["old"] else "0", o, gv))
            b.append("r = pidx(pool, atomic_exchange(%s, %s)); x = pidx(pool, %s->x);" % (objx, val, o))
        else:
            b.append("T nv = %d; long lv = %s; signed char sc = -1; unsigned char uc = 200; int i1 = 2; int i2 = 3;" % (1 if tc == "bool" else 10, wide))
            b.append("%s->g1 = %s; %s->x = %d; %s->g2 = %s;" % (o, gv, o, cs["old"], o, gv))
            b.append("r = atomic_exchange(%s, %s);" % (objx, val))
            b.append("x = *(unsigned char *)&%s->x;" % o if tc == "bool" else "x = %s->x;" % o)     # _Bool: the byte stored, not what a load makes of it
        b.append("show(%d, r, x, %s->g1 == %s && %s->g2 == %s); }" % (cs["idx"], o, gv, o, gv))
        src.append(" ".join(b))
    src.append("static void (*tab[])(void) = {%s};" % ", ".join("t_%d" % cs["idx"] for cs in cases))
    src.append("int main(int argc, char **argv) { hpool = malloc(1 << 20); for (int i = argc > 1 ? atoi(argv[1]) : 0; i < %d; i++) tab[i](); return 0; }" % len(cases))
    return "\n".join(src) + "\n"


def xchgops(ctx, tree, q):
    out = os.path.join(ctx.scratch, "xchgops.ndjson")
    stride = 3 if q else 1
    cfg = ctx.cfg("atomic", "XchgOperands.cfg", Seed=ctx.seed % stride, Stride=stride)
    res = ctx.tlc("atomic", "XchgOperands", cfg, env=dict(OUT=out), workers=2, timeout=300)
    if not res.ok and res.violated:
        ctx.report("xchgops:level-a:%s" % res.violated, "the reference semantics of atomic_exchange violates its own invariant %s" % res.violated)
    cases = sorted(vt.read_ndjson(out), key=lambda c: c["idx"])
    if not cases:
        raise Infra("XchgOperands.tla generated nothing: " + res.trace_text()[:300])
    d = ctx.tmp("c16-xchgops")
    groups = {}
    for cs in cases:
        groups.setdefault((cs["w"], cs["sg"], cs["tc"]), []).append(cs)

    def run_exe(exe, cl):
        got, start = {}, 0
        while start < len(cl):
            p = vt.run_limited([exe, str(start)], timeout=120, capture_output=True, text=True)
            lines = [l.split() for l in p.stdout.splitlines() if len(l.split()) == 4]
            for f in lines:
                got[int(f[0])] = tuple(int(x) for x in f[1:])
            nxt = start + len(lines)
            if nxt < len(cl):
                got[cl[nxt]["idx"]] = ("died", p.returncode)
                nxt += 1
            start = nxt
        return got

    def one(item):
        (w, sg, tc), cl = item
        f = "%s/xchgops_%d_%d_%s.c" % (d, w, sg, tc)
        src = xchgops_source(w, sg, tc, cl)
        open(f, "w").write(src)
        r = vt.run_limited([tree + "/chibicc", "-I" + tree + "/include", "-c", "-o", f[:-2] + ".o", f], timeout=120, capture_output=True, text=True)
        if r.returncode:
            raise Infra("chibicc failed on %s: %s" % (f, r.stderr[-500:]))
        r = vt.sh(["cc", "-o", f[:-2] + ".exe", f[:-2] + ".o"], timeout=60)
        if r.returncode:
            raise Infra("link failed on %s: %s" % (f, r.stderr[-500:]))
        got = run_exe(f[:-2] + ".exe", cl)
        want = {cs["idx"]: (cs["want"]["r"], cs["want"]["x"], 1) for cs in cl}
        ggot = {}
        if any(got.get(i) != want[i] for i in want):           # tie-break: what does the reference compiler say?
            r = vt.sh(["cc", "-w", "-O0", "-o", f[:-2] + ".gcc", f], timeout=120)
            if r.returncode == 0:
                ggot = run_exe(f[:-2] + ".gcc", cl)
        return (w, sg, tc), src, got, want, ggot
    n = 0
    for (w, sg, tc), src, got, want, ggot in vt.pmap(one, sorted(groups.items()), workers=4):
        tn = "ptr" if tc == "ptr" else "bool" if tc == "bool" else "f%d" % w if tc == "flt" else "%s%d" % ("s" if sg else "u", w)
        for cs in groups[(w, sg, tc)]:
            n += 1
            i = cs["idx"]
            ctx.note_case("xchgops:%d" % i, nontrivial=True)
            g, wt = got.get(i), want[i]
            if g == wt:
                continue
            if ggot.get(i) != wt:
                ctx.oracle_disagreements += 1
                continue
            if g is None or g[0] == "died":
                what = "program-died"
            else:
                what = ("result-wrong" if g[0] != wt[0] else "object-wrong" if g[1] != wt[1] else "neighbour-clobbered")
            ctx.report("xchgops:%s:%s:%s:%s" % (tn, cs["opn"], "old-top" if cs["oldc"] == 2 and tc == "int" else "old%d" % cs["oldc"], what),
                       "atomic_exchange on a %s object (%s storage%s), old value %s, new-value operand %s (= %s before conversion): "
                       "Level A (and gcc) give (result, object, guards intact) = %s, the tree's chibicc gives %s"
                       % (tn, cs["obj"], ", pointee in %s storage" % cs["pool"] if tc == "ptr" else "", cs["old"], cs["opn"], cs["v"], wt, g),
                       case=dict(kind="xchgops", case=cs, source=src, expected=wt, observed=g))
    ctx.cov["traces_validated_against_impl"] += n
    ctx.cov["xchgops_cases"] = n
    ctx.sample(dict(kind="exchange over type class / operand type", case=cases[len(cases) // 2]))


# ------------------------------------------------------------------ atomic typedefs (AtomicTypes.tla)
HDR_KW = {"_Bool", "char", "short", "int", "long", "signed", "unsigned"}


def typedefs(ctx, tree):
    """<stdatomic.h> of the tree: (a) its typedef table is validated by TLC against C11 7.17.6 + psABI
    (AtomicTypes.tla, one action per typedef); (b) sizeof/_Alignof/signedness of every atomic_X and of
    _Atomic X, as the tree's compiler sees them, are compared with the table TLC emits."""
    out = os.path.join(ctx.scratch, "atomictypes.ndjson")
    hdr = os.path.join(ctx.scratch, "hdr.ndjson")
    rows = []
    for m in re.finditer(r"^\s*typedef\s+_Atomic\s+([A-Za-z_ ]+?)\s+(atomic_\w+)\s*;", open(tree + "/include/stdatomic.h").read(), re.M):
        kws = m.group(1).split()
        if all(k in HDR_KW for k in kws):
            rows.append(dict(name=m.group(2), kw=kws))
    vt.write_ndjson(hdr, rows)
    cfg = ctx.cfg("atomic", "AtomicTypes.cfg", Emit=True)
    g = ctx.tlc("atomic", "AtomicTypes", cfg, env=dict(OUT=out, HDR=hdr), workers=1)
    ctl = ctx.tlc("atomic", "AtomicTypes", ctx.cfg("atomic", "AtomicTypes.cfg", Wrong='"atomic_int"'), env=dict(HDR=hdr), workers=1, count=False)
    table = list({r["name"]: r for r in vt.read_ndjson(out) if "name" in r}.values())     # TLC evaluates Init more than once
    if len(table) != 37:
        raise Infra("AtomicTypes.tla emitted %d rows" % len(table))
    if ctl.ok and any(r["name"] == "atomic_int" for r in rows):
        raise Infra("sensitivity control failed: TLC accepts a wrong Level A entry for atomic_int")
    if not g.ok:
        p = ctx.replay_dir("tlc-AtomicTypes")
        open(p + "/counterexample.txt", "w").write(g.trace_text())
        json.dump(dict(kind="typedefs"), open(p + "/case.json", "w"))
        bad = sorted(set(re.findall(r'"(atomic_\w+)"', g.trace_text().split("bad =")[-1]))) if "bad =" in g.trace_text() else []
        ctx.report("atomic:typedef:header:%s" % (g.violated or "?"),
                   "stdatomic.h declares %s with a type whose size/signedness is not that of the direct type of C11 7.17.6" % (", ".join(bad) or "an atomic typedef"), p)
    # (b) what the compiler makes of them
    src = ["#include <stdatomic.h>", "#include <stdint.h>", "#include <stddef.h>", "#include <uchar.h>", "#include <wchar.h>",
           "int printf(const char *, ...);", "int main(void) {"]
    for k, r in enumerate(table):
        for tag, ty in (("T", r["name"]), ("D", "_Atomic %s" % r["direct"])):
            src.append('  printf("%s %d %%d %%d %%d\\n", (int)sizeof(%s), (int)_Alignof(%s), (%s)-1 < (%s)0);' % (tag, k, ty, ty, ty, ty))
    src.append('  printf("F %d\\n", (int)sizeof(atomic_flag)); return 0; }')
    d = ctx.tmp("typedefs")
    open(d + "/t.c", "w").write("\n".join(src) + "\n")
    r_ = vt.run_limited([tree + "/chibicc", "-I" + tree + "/include", "-o", d + "/t", d + "/t.c"], timeout=120, mem_gb=4, capture_output=True, text=True)
    if r_.returncode == -999:
        raise Infra("typedef probe: compiler timeout")
    if r_.returncode != 0:
        ctx.report("atomic:typedef:rejected", "a program naming every atomic typedef of 7.17.6 is rejected: %s" % r_.stderr[-300:],
                   case=dict(kind="typedefs"))
        return
    r_ = vt.run_limited([d + "/t"], timeout=60, capture_output=True, text=True)
    if r_.returncode != 0:
        raise Infra("typedef probe failed to run: rc=%s %s" % (r_.returncode, r_.stderr[-200:]))
    o = r_.stdout
    got = {(l.split()[0], int(l.split()[1])): tuple(int(x) for x in l.split()[2:]) for l in o.splitlines() if l[:1] in "TD"}
    for k, r in enumerate(table):
        want = (r["sz"], r["sz"], 1 if r["sg"] else 0)
        ctx.note_case("typedef:" + r["name"])
        ctx.cov["traces_validated_against_impl"] += 1
        if got.get(("D", k)) != want:
            # the direct type itself is not what the ABI says: that is C08's business (or glibc's); do not judge the typedef by it
            ctx.oracle_disagreements += 1
            continue
        if got.get(("T", k)) != want:
            ctx.report("atomic:typedef:%s" % r["name"], "%s has size/align/signedness %s, its direct type _Atomic %s has %s (C11 7.17.6)"
                       % (r["name"], got.get(("T", k)), r["direct"], want), case=dict(kind="typedefs"))


def run(ctx):
    q = ctx.quick
    tree = ctx.build()
    ctx.phase("build")
    dom = domain(ctx.tier)
    units = compile_units(ctx, tree, {(w, sg, kind) for (w, sg, kind, _, _, _) in dom})
    ctx.phase("compiled %d units" % len(units))
    # 0. sensitivity control: a non-atomic update of the same object must be caught by the same machinery
    ctl = [build_case(units[(4, True, "global")][2], "f_ctl", 4, True, "global", "fadd", 2, 1)]
    by = run_batch(ctx, ctl, False, "control", workers=2)
    if "lost-update" not in {v["verdict"] for v in by.get(1, [])}:
        raise Infra("sensitivity control failed: TLC finds no lost update in a plain (non-atomic) `+=`")
    # 1. Level A on the generated domain (AtomicObj.tla: Lin is exactly its set of terminal states)
    # quick: every 13th case of the integer type classes, every 41st of the _Bool / floating ones, and the `always` family
    sc = dom if not q else sorted(set(vt.subsample([c for c in dom if c[1] not in (BOOL, FLT)], ctx.seed, 13))
                                  | set(vt.subsample([c for c in dom if c[1] in (BOOL, FLT)], ctx.seed, 41)) | set(always(dom)),
                                  key=lambda c: (c[0], sgcode(c[1])) + tuple(c[2:]))
    cases, meta = make_cases(ctx, units, sc)
    ctx.phase("parsed %d cases" % len(cases))
    pf = os.path.join(ctx.scratch, "prog-levelA.json")
    json.dump([dict(c, code=[]) for c in cases], open(pf, "w"))
    ctx.tlc_expect_ok("atomic", "AtomicObj", "AtomicObj.cfg", "Level A (atomic object) violates its own invariants", env=dict(PROG=pf), workers=4)
    ctx.phase("level A")
    # 2. every interleaving of the emitted code, sequentially consistent memory
    by = run_batch(ctx, cases, False, "sc", workers=6 if q else 8)
    judge(ctx, cases, meta, by, False, "sc")
    ctx.sample(dict(kind="case", name=cases[len(cases) // 2]["name"], instructions=len(cases[len(cases) // 2]["code"]),
                    quiescent_outcomes=[(v["mem"], v["rets"]) for v in by.get(len(cases) // 2 + 1, [])][:4]))
    ctx.phase("sc batch")
    # 3. the same under x86-TSO store buffers
    tso = dom if not q else vt.subsample([c for c in dom if c[3] in ("add", "postinc", "xchg", "cas", "casinc", "lock", "fxor")], ctx.seed + 3, 37)
    tcases, tmeta = make_cases(ctx, units, tso)
    by = run_batch(ctx, tcases, True, "tso", workers=6 if q else 8)
    judge(ctx, tcases, tmeta, by, True, "tso")
    ctx.phase("tso batch (%d cases)" % len(tcases))
    # 4. retry loops terminate under weak fairness
    w = (1, 2, 4, 8)[ctx.seed % 4]
    live = [(w, True, ("global", "ptr", "elem")[ctx.seed % 3], op, 2, 2) for op in ("add", "casinc", "lock", "cas", "for")]
    if not q:
        live = [(w, True, k, op, nt, r) for w in (1, 2, 4, 8) for k in ("global", "member") for op in ("add", "postdec", "casinc", "lock", "cas", "xchg", "fadd", "fand")
                for nt, r in ((2, 2), (3, 1))]
    lcases, lmeta = make_cases(ctx, units, live)
    pf = os.path.join(ctx.scratch, "prog-live.json")
    json.dump(lcases, open(pf, "w"))
    res = ctx.tlc("atomic", "Atomic", "Atomic_live.cfg", env=dict(PROG=pf), workers=4, timeout=1200)
    if not res.ok:
        p = ctx.replay_dir("liveness")
        open(p + "/counterexample.txt", "w").write(strip_trace(res.trace_text()))
        json.dump(dict(kind="live", coords=live), open(p + "/case.json", "w"))
        ctx.report("atomic:liveness:retry-loop-does-not-terminate", "under weak fairness some thread never finishes its operation", p)
    for c in lcases:
        ctx.note_case(c["name"] + ":live")
    ctx.phase("liveness (%d cases)" % len(lcases))
    # 4b. one compare-exchange with non-trivial operand expressions (CasOperands.tla), replayed on the compiler
    casops(ctx, tree, q)
    ctx.phase("casops")
    # 4b'. one exchange over object type class x operand type/range x old value class (XchgOperands.tla)
    xchgops(ctx, tree, q)
    ctx.phase("xchgops")
    # 4c. the types of <stdatomic.h>
    typedefs(ctx, tree)
    ctx.phase("typedefs")
    # 5. supplement: pthread stress runs, judged on final values only
    stress(ctx, tree, q)
    ctx.phase("stress")
    ctx.assumptions += ["values are kept small (|v| < 2^30); a register is modelled as a 32-bit signed value plus a zero-/sign-extension flag",
                        "an instruction is one atomic step, except unlocked read-modify-writes of shared memory, which are split into load and store",
                        "the values returned by atomic_fetch_* are judged: the vector of results of an execution must be explained by one serial order, under the C11 convention (value before) or - reported as atomic:fetch:returns-new-value - the value-after convention",
                        "stress runs do not control the schedule; they are judged on final values only"]
    return ctx.finish(rule="case = (width, signedness, object kind, operation, threads x repetitions, memory model); TLC explores every interleaving of the emitted instruction sequences; distinct = distinct case name",
                      exhaustive=not q, extra=dict(sc_cases=len(cases), tso_cases=len(tcases), liveness_cases=len(lcases)))
def replay(ctx, path):
    c = json.load(open(os.path.join(path, "case.json")))
    c = c.get("case") or c
    tree = ctx.build()
    if c.get("kind") == "casops":
        casops(ctx, tree, False)
        return ctx.finish(rule="replay of the CasOperands family")
    if c.get("kind") == "xchgops":
        xchgops(ctx, tree, False)
        return ctx.finish(rule="replay of the XchgOperands family")
    if c.get("kind") == "typedefs":
        typedefs(ctx, tree)
        return ctx.finish(rule="replay of the <stdatomic.h> typedef table")
    if c.get("kind") == "stress":
        stress(ctx, tree, c.get("iters", 100000) <= 100000)
        return ctx.finish(rule="replay of the stress supplement")
    if c.get("kind") == "live":
        units = compile_units(ctx, tree, {(x[0], x[1], x[2]) for x in c["coords"]})
        lcases, _ = make_cases(ctx, units, [tuple(x) for x in c["coords"]])
        pf = os.path.join(ctx.scratch, "prog-live.json")
        json.dump(lcases, open(pf, "w"))
        ctx.tlc_expect_ok("atomic", "Atomic", "Atomic_live.cfg", "retry loop does not terminate under weak fairness", env=dict(PROG=pf), workers=4)
        return ctx.finish(rule="replay of the liveness check")
    w, sg, kind, op, nt, reps = c["coord"]
    units = compile_units(ctx, tree, {(w, sg, kind)})
    cases, meta = make_cases(ctx, units, [(w, sg, kind, op, nt, reps)])
    by = run_batch(ctx, cases, c.get("tso", False), "replay", workers=2)
    judge(ctx, cases, meta, by, c.get("tso", False), "replay")
    return ctx.finish(rule="replay of one recorded case")
