"""C16 — atomic read-modify-write operations are indivisible.

The program TLC runs is the `-S` output of the chibicc built from the tree
under test: for every case of the generation domain
    (width, signedness, operation, object kind, threads x repetitions)
a small C function is generated, compiled with `<tree>/chibicc -S`, parsed by
harness/asmparse.py and loaded into tla/atomic/Atomic.tla (X86.tla is the
instruction interpreter, AtomicSem.tla the Level A semantics).  TLC explores
every interleaving; the verdict of every quiescent state is judged against the
set of linearizations.  Supplement: pthread stress runs (final value only).
"""
import itertools, json, os, re, subprocess
import vt, asmparse
from vt import Infra

WIDTHS = {1: ("signed char", "unsigned char"), 2: ("short", "unsigned short"), 4: ("int", "unsigned int"), 8: ("long", "unsigned long")}
OPS_ASSIGN = {"add": "+=", "sub": "-=", "mul": "*=", "div": "/=", "mod": "%=", "and": "&=", "or": "|=", "xor": "^=", "shl": "<<=", "shr": ">>="}
# mixed cases: thread 0 performs `x op= v`, the other threads `x += v'` with operands that flip the sign of a
# negative initial value (signed objects only): (initial value, operand of op=, operands of the += threads)
MIX = {"sub": (-8, 3, (72, -70)), "mul": (-8, 2, (72, -70)), "div": (-8, 2, (72, -70)), "mod": (-7, 3, (72, -70)),
       "and": (-8, 124, (72, -70)), "or": (-8, 3, (72, -70)), "xor": (-8, 5, (72, -70)), "shl": (8, 1, (16, -4)), "shr": (-8, 1, (72, -70))}
MIX_SHAPES = [(2, 1), (3, 1)]
OPS_INCDEC = {"preinc": "++%s", "predec": "--%s", "postinc": "%s++", "postdec": "%s--"}
OPS_FETCH = {"fadd": "atomic_fetch_add", "fsub": "atomic_fetch_sub", "for": "atomic_fetch_or", "fxor": "atomic_fetch_xor", "fand": "atomic_fetch_and"}
OPS_OTHER = ["xchg", "cas", "casw", "casinc", "lock", "casx", "casro"]
# casx : compare-exchange whose `expected` is a SHARED object (xe): thread 0 hands the object over with
#        CAS(&x, &xe, v); thread 1, once it sees the new value, takes xe over and stores into it.  2 x 1 only.
# casro: compare-exchange that can only succeed (object = expected = new value) with `expected` (roe) in
#        memory no store may touch: a store on the success path is a violation even if it stores the same value.
ALL_OPS = list(OPS_ASSIGN) + list(OPS_INCDEC) + list(OPS_FETCH) + OPS_OTHER
KINDS = ["global", "ptr", "member", "pmember", "elem"]
SHAPES = [(2, 1), (2, 2), (3, 1)]           # threads x repetitions
HEAP = 2000                                   # address of the heap / escaped-local object


# --------------------------------------------------------------- C source
def lvalue(kind):
    return dict(global_="g", ptr="(*p)", member="s.x", pmember="p->x", elem="arr[2]")[kind if kind != "global" else "global_"]


def c_unit(w, sg, kind):
    """One translation unit: every operation on one (width, signedness, object kind)."""
    T = WIDTHS[w][0 if sg else 1]
    lv = lvalue(kind)
    ptype = "struct S *" if kind == "pmember" else "_Atomic T *"
    src = ["#include <stdatomic.h>", "typedef %s T;" % T,
           "struct S { char pad; _Atomic T x; T after; };",
           "_Atomic T g; struct S s; _Atomic T arr[4]; T cnt; T xe; T roe;"]
    # sensitivity control: the same update through a non-atomic lvalue (must lose updates)
    src.append("long f_ctl(%sp, long v, long e) { T *q; q = (T *)&g; *q += v; return 0; }" % ptype)
    for op in ALL_OPS:
        head = "long f_%s(%sp, long v, long e) {" % (op, ptype)
        if op in OPS_ASSIGN:
            body = "return %s %s v;" % (lv, OPS_ASSIGN[op])
        elif op in OPS_INCDEC:
            body = "return %s;" % (OPS_INCDEC[op] % lv)
        elif op in OPS_FETCH:
            body = "return %s(&%s, v);" % (OPS_FETCH[op], lv)
        elif op == "xchg":
            body = "return atomic_exchange(&%s, v);" % lv
        elif op in ("cas", "casw"):
            body = "T ee; int r; ee = e; r = atomic_compare_exchange_%s(&%s, &ee, v); return (long)ee * 2 + r;" % (
                "strong" if op == "cas" else "weak", lv)
        elif op == "casinc":
            body = "T o; T n; o = %s; do { n = o + v; } while (!atomic_compare_exchange_weak(&%s, &o, n)); return 0;" % (lv, lv)
        elif op == "casx":
            body = "if (e) { if (%s == (T)e) { xe = v; return 1; } return 0; } return atomic_compare_exchange_strong(&%s, &xe, v);" % (lv, lv)
        elif op == "casro":
            body = "int r; r = atomic_compare_exchange_strong(&%s, &roe, v); return (long)roe * 2 + r;" % lv
        elif op == "lock":
            body = "while (atomic_exchange(&%s, 1)) ; cnt = cnt + v; %s = 0; return 0;" % (lv, lv)
        src.append(head + " " + body + " }")
    for op in MIX:
        src.append("long f_mix_%s(%sp, long v, long e) { if (e) return %s += v; return %s %s v; }" % (op, ptype, lv, lv, OPS_ASSIGN[op]))
    return "\n".join(src) + "\n"


# ------------------------------------------------------------- the domain
def op_values(op, w, sg, nt, reps):
    """(initial object value, args[t][k] = (v, e)) -- small, defined behaviour only."""
    if op.startswith("mix_"):
        init, vx, adds = MIX[op[4:]]
        V = {(t, k): (vx if t == 0 else adds[(t - 1 + k) % len(adds)]) for t in range(nt) for k in range(reps)}
        E = {(t, k): (0 if t == 0 else 1) for t in range(nt) for k in range(reps)}
        return init, V, E
    idx = lambda t, k: (t * reps + k)
    base = op[1:] if op in OPS_FETCH else op
    V = {}
    for t in range(nt):
        for k in range(reps):
            i = idx(t, k)
            # `+=` gets operands of both signs so that the object can return to an earlier value (ABA)
            V[t, k] = dict(add=(i // 2 + 1) * (1 if i % 2 == 0 else -1) if base == op else i + 1, sub=i + 1, mul=i + 2, div=i + 2, mod=i + 7, **{"and": 127 - (1 << i), "or": 1 << i, "xor": 1 << i},
                           shl=1, shr=1, preinc=1, predec=1, postinc=1, postdec=1, xchg=10 + i, cas=10 + i, casw=10 + i,
                           casinc=i + 1, lock=i + 1, casx=0, casro=7)[base]
    unsigned_small = (not sg) and w <= 2
    top = 250 if w == 1 else 65530
    init = dict(add=top if unsigned_small else 5, sub=3 if unsigned_small else (2 if sg else 100), mul=3, div=120, mod=100,
                **{"and": 127, "or": 0, "xor": 85}, shl=1, shr=64,
                preinc=(top + 4 if w == 1 else 65534) if unsigned_small else 5, postinc=5,
                predec=1 if unsigned_small else (1 if sg else 100), postdec=50,
                xchg=7, cas=7, casw=7, casinc=5, lock=0, casx=7, casro=7)[base]
    E = {}
    for t in range(nt):
        for k in range(reps):
            E[t, k] = 7 if k == 0 else V[t, 0]
    if op == "lock":
        init = 0
    if op == "casx":             # thread 0: producer (e = 0) publishes 10; thread 1: consumer waits for 10, stores 99 into xe
        V = {(t, k): (10 if t == 0 else 99) for t in range(nt) for k in range(reps)}
        E = {(t, k): (0 if t == 0 else 10) for t in range(nt) for k in range(reps)}
        init = 7
    if op == "casro":            # object = expected = new value = 7: every compare-exchange succeeds
        V = {(t, k): 7 for t in range(nt) for k in range(reps)}
        E = {(t, k): 7 for t in range(nt) for k in range(reps)}
        init = 7
    return init, V, E


def opk_of(op):
    return {"casw": "cas", "casro": "cas"}.get(op, op[4:] if op.startswith("mix_") else op)


def canon(w, x):
    return x % 256 if w == 1 else x % 65536 if w == 2 else x


def le_bytes(x, n):
    return [(x >> (8 * i)) & 255 for i in range(n)]


def build_case(unit, fname, w, sg, kind, op, nt, reps):
    """-> case record for Atomic.tla (raises asmparse.Unknown if the code leaves the modelled vocabulary)."""
    # data symbols -> shared addresses (16 bytes apart at least, every byte of every symbol is shared)
    symaddr, shared, a = {}, {}, 1000
    for name, d in unit.data.items():
        if name.startswith(".L"):
            continue
        symaddr[name] = a
        for i in range(d["size"]):
            shared[a + i] = 0xA5
        a += ((d["size"] + 15) // 16) * 16 + 16
    for i in range(32):
        shared[HEAP + i] = 0xA5
    code = asmparse.x86_function(unit.funcs[fname], symaddr)
    for ins in code:
        for o in (ins["a"], ins["b"]):
            if abs(o["d"]) >= 2 ** 30:
                raise asmparse.Unknown("%s: constant outside the modelled range: %s" % (fname, ins["s"]))
    frame = 0
    for x in unit.funcs[fname].ins[:6]:
        if x.op == "sub" and x.args[-1].replace(" ", "") == "%rsp":
            frame = int(x.args[0][1:], 0)
    off = {1: 1, 2: 2, 4: 4, 8: 8}[w]           # offset of member x in struct S (char pad; T x)
    objaddr = dict(global_=symaddr["g"], ptr=HEAP + 8, member=symaddr["s"] + off, pmember=symaddr["s"] + off,
                   elem=symaddr["arr"] + 2 * w)[kind if kind != "global" else "global_"]
    rdi = dict(ptr=HEAP + 8, pmember=symaddr["s"]).get(kind, 0)
    init, V, E = op_values(op, w, sg, nt, reps)
    obj, keep = objaddr, []
    for i, b in enumerate(le_bytes(init, w)):
        shared[objaddr + i] = b
    if op == "lock":                            # the judged object is the plain counter; the lock word must end up 0
        obj = symaddr["cnt"]
        for i in range(w):
            shared[obj + i] = 0
        keep += [[objaddr + i, 0] for i in range(w)]
    aux, ro, tinit = 0, [], canon(w, init)
    if op == "casx":                            # the shared expected object starts equal to the atomic object
        aux = symaddr["xe"]
        for i, b in enumerate(le_bytes(init, w)):
            shared[aux + i] = b
        tinit = dict(m=canon(w, init), x=canon(w, init))
    if op == "casro":
        aux = symaddr["roe"]
        for i, b in enumerate(le_bytes(init, w)):
            shared[aux + i] = b
        ro = list(range(aux, aux + w))
    touched = set(range(objaddr, objaddr + w)) | set(range(obj, obj + w)) | (set(range(aux, aux + w)) if op == "casx" else set())
    keep += [[x, v] for x, v in sorted(shared.items()) if x not in touched]      # every other byte keeps its value
    name = "w%d%s-%s-%s-%dx%d" % (w, "s" if sg else "u", kind, op, nt, reps)
    return dict(name=name, code=code, nt=nt, reps=reps, ss=frame + 96,
                args=[[[rdi, V[t, k], E[t, k]] for k in range(reps)] for t in range(nt)],
                shared=[[x, v] for x, v in sorted(shared.items())], obj=obj, w=w, sg=1 if sg else 0,
                opk=opk_of(op), mix=1 if op.startswith("mix_") else 0, init=tinit, keep=keep, aux=aux, ro=ro)


def compile_units(ctx, tree, keys):
    """keys: set of (w, sg, kind) -> {key: (source, asm text, asmparse.Unit)}"""
    d = ctx.tmp("c16-src")

    def one(key):
        w, sg, kind = key
        src = c_unit(w, sg, kind)
        f = "%s/u_%d%s_%s.c" % (d, w, "s" if sg else "u", kind)
        open(f, "w").write(src)
        r = vt.sh([tree + "/chibicc", "-I" + tree + "/include", "-S", "-o", f[:-2] + ".s", f], timeout=60)
        if r.returncode != 0:
            raise Infra("chibicc -S failed on %s: %s" % (f, r.stderr[-500:]))
        asm = open(f[:-2] + ".s").read()
        return key, (src, asm, asmparse.parse(asm))
    return dict(vt.pmap(one, sorted(keys)))


def domain(tier):
    out = []
    for w in (1, 2, 4, 8):
        for sg in (True, False):
            for kind in KINDS:
                for op in ALL_OPS:
                    for nt, reps in SHAPES:
                        if op == "casx" and (nt, reps) != (2, 1):
                            continue
                        out.append((w, sg, kind, op, nt, reps))
                if sg:
                    for op in MIX:
                        for nt, reps in MIX_SHAPES:
                            out.append((w, sg, kind, "mix_" + op, nt, reps))
    return out


def always(dom):
    """small family every quick run includes completely: signed 1/2-byte objects, every op= against a sign-flipping +="""
    return [c for c in dom if (c[0] <= 2 and c[2] == "global" and c[3].startswith("mix_"))
            or (c[3] in ("casx", "casro") and c[1] and c[2] in ("global", "ptr") and c[5] == 1 and c[4] == 2)]


# ------------------------------------------------------------------ TLC
def run_batch(ctx, cases, tso, label, workers):
    pf = os.path.join(ctx.scratch, "prog-%s.json" % label)
    out = os.path.join(ctx.scratch, "verdicts-%s.ndjson" % label)
    json.dump(cases, open(pf, "w"))
    cfg = ctx.cfg("atomic", "Atomic_batch.cfg", TSO=tso)
    res = ctx.tlc("atomic", "Atomic", cfg, env=dict(PROG=pf, OUT=out), workers=workers, timeout=1500, heap="6g")
    if not res.ok:
        raise Infra("TLC stopped on the batch %s: %s" % (label, res.trace_text()[:1500]))
    by = {}
    for v in vt.read_ndjson(out):
        by.setdefault(v["c"], []).append(v)
    return by


def counterexample(ctx, case, tso):
    pf = os.path.join(ctx.scratch, "one-%s.json" % case["name"])
    json.dump([case], open(pf, "w"))
    cfg = ctx.cfg("atomic", "Atomic_one.cfg", TSO=tso)
    res = ctx.tlc("atomic", "Atomic", cfg, env=dict(PROG=pf), workers=1, timeout=600, count=False)
    return res


def strip_trace(txt):
    """TLC prints whole thread records; keep the counterexample readable."""
    txt = re.sub(r"stk \|-> <<[^>]*>>", "stk |-> <<...>>", txt)
    return txt


def judge(ctx, cases, meta, by, tso, label):
    bad = []
    for ci, case in enumerate(cases, 1):
        vs = by.get(ci, [])
        key = case["name"] + (":tso" if tso else "")
        ctx.note_case(key, nontrivial=True)
        verdicts = sorted({v["verdict"] for v in vs})
        if not vs:
            bad.append((case, meta[ci - 1], "never-quiescent", []))
        elif "returns-new-value" in verdicts and set(verdicts) <= {"ok", "returns-new-value"}:
            ex = [v for v in vs if v["verdict"] == "returns-new-value"][0]
            ctx.report("atomic:fetch:returns-new-value",
                       "%s: the values returned are those AFTER the operation (e.g. object %s, results %s); C11 7.17.7.5: the value before"
                       % (case["name"], ex["mem"], ex["rets"]), case=dict(kind="case", coord=meta[ci - 1]["coord"], tso=tso))
        elif verdicts != ["ok"]:
            merr = [v for v in verdicts if v.startswith("model:")]
            if merr and len(merr) == len([v for v in verdicts if v not in ("ok", "returns-new-value")]):
                raise Infra("interpreter left its modelled range on %s: %s" % (case["name"], merr[0]))
            worst = [v for v in verdicts if v not in ("ok", "returns-new-value") and not v.startswith("model:")][0]
            bad.append((case, meta[ci - 1], worst, [v for v in vs if v["verdict"] not in ("ok", "returns-new-value")][:3]))
    ctx.cov["traces_validated_against_impl"] += len(cases)

    def report(t):
        case, m, verdict, examples = t
        res = counterexample(ctx, case, tso)
        return t, res
    for (case, m, verdict, examples), res in vt.pmap(report, bad, workers=4):
        w, sg, kind, op, nt, reps = m["coord"]
        sig = "atomic:%s:%s:%s" % (kind, "cas" if op in ("casx", "casro") and verdict == "expected-written-on-success" else "fetch" if op in OPS_FETCH else "op=" if (op in OPS_ASSIGN or op in OPS_INCDEC or op.startswith("mix_")) else op, verdict)
        f = vt.match_finding(ctx.findings, sig)
        p = None
        if not f:
            p = ctx.replay_dir("%s-%s" % (case["name"], "tso" if tso else "sc"))
            open(p + "/unit.c", "w").write(m["src"])
            open(p + "/unit.s", "w").write(m["asm"])
            open(p + "/counterexample.txt", "w").write(strip_trace(res.trace_text()))
            json.dump(dict(kind="case", coord=m["coord"], tso=tso, function=m["fname"], verdict=verdict, examples=examples,
                           expected="outcome must be a linearization (AtomicSem!Lin) of the %d operations" % (nt * reps)),
                      open(p + "/case.json", "w"), indent=1)
        ctx.report(sig, "%s: %s (%d threads x %d): TLC finds a schedule of the emitted code whose outcome %s is not a linearization"
                   % (case["name"], verdict, nt, reps, examples[:1]), p)
    return bad


def make_cases(ctx, units, coords):
    cases, meta = [], []
    for (w, sg, kind, op, nt, reps) in coords:
        src, asm, unit = units[(w, sg, kind)]
        fname = "f_" + op
        try:
            case = build_case(unit, fname, w, sg, kind, op, nt, reps)
        except asmparse.Unknown as e:
            raise Infra("emitted code outside the modelled vocabulary: %s" % e)
        cases.append(case)
        meta.append(dict(coord=[w, sg, kind, op, nt, reps], src=src, asm=asm, fname=fname))
    return cases, meta


def stress_source(w, kinds, iters):
    """pthread stress program: 4 threads x iters iterations per (kind, op); prints `kind op final expected ok`."""
    T = WIDTHS[w][1]
    lv = dict(global_="g", ptr="(*hp)", local="(*lp)", member="s.x", elem="arr[2]")
    src = ["#include <stdatomic.h>", "int printf(const char *, ...); void *malloc(unsigned long);",
           "typedef unsigned long pthread_t;",
           "int pthread_create(pthread_t *, void *, void *(*)(void *), void *); int pthread_join(pthread_t, void **);",
           "typedef %s T;" % T, "struct S { char pad; _Atomic T x; T after; };",
           "_Atomic T g; struct S s; _Atomic T arr[4]; _Atomic T *hp; _Atomic T *lp; unsigned long cnt; _Atomic unsigned long ret_sum;",
           "#define N %dL" % iters]
    tests = []
    for kind in kinds:
        L = lv[kind if kind != "global" else "global_"]
        bodies = dict(add="%s += 1;" % L, postinc="%s++;" % L, predec="--%s;" % L, xor="%s ^= (T)(1 << id);" % L,
                      fsub="atomic_fetch_sub(&%s, 1);" % L, casinc="T o; T n; o = %s; do { n = o + 1; } while (!atomic_compare_exchange_weak(&%s, &o, n));" % (L, L),
                      lock="while (atomic_exchange(&%s, 1)) ; cnt = cnt + 1; %s = 0;" % (L, L),
                      xchg="mine += atomic_exchange(&%s, (T)(id + 1));" % L)
        for op, body in bodies.items():
            fn = "t_%s_%s" % (kind, op)
            src.append("void *%s(void *a) { long id = (long)a; unsigned long mine = 0; for (long i = 0; i < N; i++) { %s } ret_sum += mine; return 0; }" % (fn, body))
            tests.append((kind, op, fn, L))
    src.append("static void run4(void *(*f)(void *)) { pthread_t th[4]; for (long i = 0; i < 4; i++) pthread_create(&th[i], 0, f, (void *)i); for (int i = 0; i < 4; i++) pthread_join(th[i], 0); }")
    main = ["int main(void) { _Atomic T loc; hp = malloc(sizeof(T)); lp = &loc;"]
    for kind, op, fn, L in tests:
        init = {"add": 5, "postinc": 5, "predec": 5, "xor": 85, "fsub": 5, "casinc": 5, "lock": 0, "xchg": 7}[op]
        main.append(" %s = %d; cnt = 0; ret_sum = 0; run4(%s);" % (L, init, fn))
        if op == "lock":
            main.append(' printf("%s %s %%lu %%lu %%d\\n", cnt, 4 * N, (int)%s);' % (kind, op, L))
        elif op == "xchg":      # every value written is returned exactly once or is the final one
            main.append(' printf("%s %s %%lu %%lu 0\\n", (unsigned long)ret_sum + (unsigned long)%s, %dUL + N * (1UL + 2 + 3 + 4));' % (kind, op, L, init))
        else:
            delta = {"add": "+ 4 * N", "postinc": "+ 4 * N", "casinc": "+ 4 * N", "predec": "- 4 * N", "fsub": "- 4 * N", "xor": ""}[op]
            main.append(' printf("%s %s %%lu %%lu 0\\n", (unsigned long)%s, (unsigned long)(T)(%dUL %s));' % (kind, op, L, init, delta))
    main.append(" return 0; }")
    return "\n".join(src) + "\n" + "".join(main) + "\n"


def stress(ctx, tree, q):
    d = ctx.tmp("c16-stress")
    kinds = ["global", "ptr", "local", "member", "elem"]
    if q:
        kinds = [kinds[ctx.seed % 5], "member" if ctx.seed % 5 != 3 else "global"]
    iters = 100000 if q else 300000

    def one(w):
        f = "%s/stress%d.c" % (d, w)
        src = stress_source(w, kinds, iters)
        open(f, "w").write(src)
        r = vt.sh([tree + "/chibicc", "-I" + tree + "/include", "-c", "-o", f[:-2] + ".o", f], timeout=120)
        if r.returncode:
            raise Infra("chibicc failed on the stress program: " + r.stderr[-600:])
        r = vt.sh(["cc", "-pthread", "-o", f[:-2] + ".exe", f[:-2] + ".o"], timeout=60)
        if r.returncode:
            raise Infra("link of the stress program failed: " + r.stderr[-600:])
        try:
            p = subprocess.run([f[:-2] + ".exe"], capture_output=True, text=True, timeout=150 if q else 600)
        except subprocess.TimeoutExpired as e:
            done = (e.stdout or b"").decode() if isinstance(e.stdout, bytes) else (e.stdout or "")
            return w, src, [l.split() for l in done.splitlines() if len(l.split()) == 5] + [["?", "hang", "-", "-", "0"]]
        if p.returncode:
            raise Infra("stress program exited with %s" % p.returncode)
        return w, src, [l.split() for l in p.stdout.splitlines()]
    n = 0
    for w, src, rows in vt.pmap(one, [1, 2, 4, 8], workers=4):
        for kind, op, got, exp, lockword in rows:
            n += 1
            ctx.note_case("stress:w%d:%s:%s" % (w, kind, op), nontrivial=True)
            if op == "hang":
                ctx.report("stress:hang", "the %d-byte stress program did not finish (a retry loop that never succeeds)" % w,
                           case=dict(kind="stress", w=w, kinds=kinds, iters=iters, source=src))
                continue
            if got != exp or lockword != "0":
                ctx.report("stress:%s:%s:%s" % (kind, "op=" if op in ("add", "postinc", "predec", "xor", "fsub") else op,
                                                 "lost-update" if got != exp else "lock-word-not-released"),
                           "4 threads x %d iterations of %s on a %d-byte %s object: final value %s, expected %s" % (iters, op, w, kind, got, exp),
                           case=dict(kind="stress", w=w, kinds=kinds, iters=iters, source=src, observed=got, expected=exp))
    ctx.cov["traces_validated_against_impl"] += n
    ctx.cov["stress_runs"] = n


# ------------------------------------------------------------------------------------------------
# CasOperands.tla: one compare-exchange with non-trivial operand expressions, replayed on the real compiler
GV = 85


def casops_source(w, sg, cases):
    T = WIDTHS[w][0 if sg else 1]
    des = dict(plain="21", call5="call5(1, 2, 3, 4, 21)", ext5="ext5(1, 2, 3, 4, 21)", nfetch="atomic_fetch_add(&h, 1) + 16",
               ncas="(atomic_compare_exchange_strong(&h, &he, 6), 21)", scopy="(s2 = s1, 21)", bitf="(bf.f = 3) + 18")
    exp = dict(plain="&E.e", call5="(T *)call5(1, 2, 3, 4, (long)&E.e)")
    obj = dict(plain="&O.x", call5="(_Atomic T *)call5(1, 2, 3, 4, (long)&O.x)")
    src = ["#include <stdatomic.h>", "int printf(const char *, ...); int fflush(void *); int atoi(const char *);", "typedef %s T;" % T,
           "struct OB { T g1; _Atomic T x; T g2; }; struct EB { T g1; T e; T g2; }; struct S2 { long a; long b; }; struct BF { int f : 4; int g : 4; };",
           "static struct OB O; static struct EB E; static _Atomic long h; static long he; static struct S2 s1, s2; static struct BF bf;",
           "static long call5(long a, long b, long c, long d, long v) { return v; }", "long ext5(long a, long b, long c, long d, long v);",
           "static void reset(long e0) { O.g1 = %d; O.x = 7; O.g2 = %d; E.g1 = %d; E.e = e0; E.g2 = %d; h = 5; he = 5; s1.a = 33; s1.b = 44; s2.a = 0; s2.b = 0; bf.f = 0; bf.g = 5; }" % (GV, GV, GV, GV),
           "static void show(int idx, int r) { int ok = O.g1 == %d && O.g2 == %d && E.g1 == %d && E.g2 == %d && bf.g == 5 && s1.a == 33 && s1.b == 44;"
           " printf(\"%%d %%d %%ld %%ld %%ld %%ld %%d %%d\\n\", idx, r, (long)O.x, (long)E.e, (long)h, s2.a, (int)bf.f, ok); fflush(0); }" % (GV, GV, GV, GV)]
    for cs in cases:
        src.append("static void t_%d(void) { int r; reset(%d); r = atomic_compare_exchange_%s(%s, %s, %s); show(%d, r); }"
                   % (cs["idx"], cs["e0"], cs["strength"], obj[cs["obj"]], exp[cs["exp"]], des[cs["des"]], cs["idx"]))
    src.append("static void (*tab[])(void) = {%s};" % ", ".join("t_%d" % cs["idx"] for cs in cases))
    src.append("int main(int argc, char **argv) { for (int i = argc > 1 ? atoi(argv[1]) : 0; i < %d; i++) tab[i](); return 0; }" % len(cases))
    return "\n".join(src) + "\n"


def casops(ctx, tree, q):
    out = os.path.join(ctx.scratch, "casops.ndjson")
    stride = 4 if q else 1
    cfg = ctx.cfg("atomic", "CasOperands.cfg", Seed=ctx.seed % stride, Stride=stride)
    res = ctx.tlc("atomic", "CasOperands", cfg, env=dict(OUT=out), workers=2, timeout=300)
    cases = sorted(vt.read_ndjson(out), key=lambda c: c["idx"])
    if not res.ok or not cases:
        raise Infra("CasOperands.tla generated nothing: " + res.trace_text()[:300])
    d = ctx.tmp("c16-casops")
    ext = os.path.join(d, "ext.o")
    r = vt.sh(["cc", "-O1", "-c", "-o", ext, os.path.join(vt.VERIF, "harness/c/c16_ext.c")])
    if r.returncode:
        raise Infra("c16_ext.c: " + r.stderr[-300:])
    groups = {}
    for cs in cases:
        groups.setdefault((cs["w"], cs["sg"]), []).append(cs)

    def run_exe(exe, cl):
        """-> {position: tuple or 'died'}; a case that kills the program is recorded and the rest is resumed"""
        got, start = {}, 0
        while start < len(cl):
            p = subprocess.run([exe, str(start)], capture_output=True, text=True, timeout=120)
            lines = [l.split() for l in p.stdout.splitlines() if len(l.split()) == 8]
            for f in lines:
                got[int(f[0])] = tuple(int(x) for x in f[1:])
            nxt = start + len(lines)
            if nxt < len(cl):
                got[cl[nxt]["idx"]] = ("died", p.returncode)
                nxt += 1
            start = nxt
        return got

    def one(item):
        (w, sg), cl = item
        f = "%s/casops_%d%s.c" % (d, w, "s" if sg else "u")
        src = casops_source(w, sg, cl)
        open(f, "w").write(src)
        r = vt.sh([tree + "/chibicc", "-I" + tree + "/include", "-c", "-o", f[:-2] + ".o", f], timeout=120)
        if r.returncode:
            raise Infra("chibicc failed on %s: %s" % (f, r.stderr[-500:]))
        r = vt.sh(["cc", "-o", f[:-2] + ".exe", f[:-2] + ".o", ext], timeout=60)
        if r.returncode:
            raise Infra("link failed on %s: %s" % (f, r.stderr[-500:]))
        got = run_exe(f[:-2] + ".exe", cl)
        want = {cs["idx"]: (cs["want"]["r"], cs["want"]["x"], cs["want"]["e"], cs["want"]["h"], cs["want"]["s2a"], cs["want"]["bff"], 1) for cs in cl}
        ggot = {}
        if any(got.get(i) != want[i] for i in want):           # tie-break: what does the reference compiler say?
            r = vt.sh(["cc", "-w", "-O0", "-o", f[:-2] + ".gcc", f, ext], timeout=120)
            if r.returncode == 0:
                ggot = run_exe(f[:-2] + ".gcc", cl)
        return (w, sg), src, got, want, ggot
    n = 0
    for (w, sg), src, got, want, ggot in vt.pmap(one, sorted(groups.items()), workers=8):
        for cs in groups[(w, sg)]:
            n += 1
            i = cs["idx"]
            ctx.note_case("casops:%d" % i, nontrivial=True)
            g, wt = got.get(i), want[i]
            if g == wt:
                continue
            if ggot.get(i) != wt:
                ctx.oracle_disagreements += 1
                continue
            if g is None or g[0] == "died":
                what = "program-died"
            else:
                what = ("result-wrong" if g[0] != wt[0] else "object-wrong" if g[1] != wt[1] else "expected-not-updated" if g[2] != wt[2]
                        else "neighbour-clobbered" if g[6] != 1 else "side-object-wrong")
            ctx.report("casops:%s:%s:%s:%s:%s" % (cs["des"], cs["exp"], cs["obj"], cs["path"], what),
                       "atomic_compare_exchange_%s on a %d-byte %s object, desired = %s, expected pointer %s, object address %s, exchange %s: "
                       "Level A (and gcc) give (result, object, *expected, h, s2.a, bf.f, guards intact) = %s, the tree's chibicc gives %s"
                       % (cs["strength"], w, "signed" if sg else "unsigned", cs["des"], cs["exp"], cs["obj"], cs["path"], wt, g),
                       case=dict(kind="casops", case=cs, source=src, expected=wt, observed=g))
    ctx.cov["traces_validated_against_impl"] += n
    ctx.cov["casops_cases"] = n
    ctx.sample(dict(kind="compare-exchange with operand expressions", case=cases[len(cases) // 2]))


def run(ctx):
    q = ctx.quick
    tree = ctx.build()
    ctx.phase("build")
    dom = domain(ctx.tier)
    units = compile_units(ctx, tree, {(w, sg, kind) for (w, sg, kind, _, _, _) in dom})
    ctx.phase("compiled %d units" % len(units))
    # 0. sensitivity control: a non-atomic update of the same object must be caught by the same machinery
    ctl = [build_case(units[(4, True, "global")][2], "f_ctl", 4, True, "global", "fadd", 2, 1)]
    by = run_batch(ctx, ctl, False, "control", workers=2)
    if "lost-update" not in {v["verdict"] for v in by.get(1, [])}:
        raise Infra("sensitivity control failed: TLC finds no lost update in a plain (non-atomic) `+=`")
    # 1. Level A on the generated domain (AtomicObj.tla: Lin is exactly its set of terminal states)
    sc = dom if not q else sorted(set(vt.subsample(dom, ctx.seed, 13)) | set(always(dom)))
    cases, meta = make_cases(ctx, units, sc)
    ctx.phase("parsed %d cases" % len(cases))
    pf = os.path.join(ctx.scratch, "prog-levelA.json")
    json.dump([dict(c, code=[]) for c in cases], open(pf, "w"))
    ctx.tlc_expect_ok("atomic", "AtomicObj", "AtomicObj.cfg", "Level A (atomic object) violates its own invariants", env=dict(PROG=pf), workers=4)
    ctx.phase("level A")
    # 2. every interleaving of the emitted code, sequentially consistent memory
    by = run_batch(ctx, cases, False, "sc", workers=6 if q else 8)
    judge(ctx, cases, meta, by, False, "sc")
    ctx.sample(dict(kind="case", name=cases[len(cases) // 2]["name"], instructions=len(cases[len(cases) // 2]["code"]),
                    quiescent_outcomes=[(v["mem"], v["rets"]) for v in by.get(len(cases) // 2 + 1, [])][:4]))
    ctx.phase("sc batch")
    # 3. the same under x86-TSO store buffers
    tso = dom if not q else vt.subsample([c for c in dom if c[3] in ("add", "postinc", "xchg", "cas", "casinc", "lock", "fxor")], ctx.seed + 3, 37)
    tcases, tmeta = make_cases(ctx, units, tso)
    by = run_batch(ctx, tcases, True, "tso", workers=6 if q else 8)
    judge(ctx, tcases, tmeta, by, True, "tso")
    ctx.phase("tso batch (%d cases)" % len(tcases))
    # 4. retry loops terminate under weak fairness
    w = (1, 2, 4, 8)[ctx.seed % 4]
    live = [(w, True, ("global", "ptr", "elem")[ctx.seed % 3], op, 2, 2) for op in ("add", "casinc", "lock", "cas", "for")]
    if not q:
        live = [(w, True, k, op, nt, r) for w in (1, 2, 4, 8) for k in ("global", "member") for op in ("add", "postdec", "casinc", "lock", "cas", "xchg", "fadd", "fand")
                for nt, r in ((2, 2), (3, 1))]
    lcases, lmeta = make_cases(ctx, units, live)
    pf = os.path.join(ctx.scratch, "prog-live.json")
    json.dump(lcases, open(pf, "w"))
    res = ctx.tlc("atomic", "Atomic", "Atomic_live.cfg", env=dict(PROG=pf), workers=4, timeout=1200)
    if not res.ok:
        p = ctx.replay_dir("liveness")
        open(p + "/counterexample.txt", "w").write(strip_trace(res.trace_text()))
        json.dump(dict(kind="live", coords=live), open(p + "/case.json", "w"))
        ctx.report("atomic:liveness:retry-loop-does-not-terminate", "under weak fairness some thread never finishes its operation", p)
    for c in lcases:
        ctx.note_case(c["name"] + ":live")
    ctx.phase("liveness (%d cases)" % len(lcases))
    # 4b. one compare-exchange with non-trivial operand expressions (CasOperands.tla), replayed on the compiler
    casops(ctx, tree, q)
    ctx.phase("casops")
    # 5. supplement: pthread stress runs, judged on final values only
    stress(ctx, tree, q)
    ctx.phase("stress")
    ctx.assumptions += ["values are kept small (|v| < 2^30); a register is modelled as a 32-bit signed value plus a zero-/sign-extension flag",
                        "an instruction is one atomic step, except unlocked read-modify-writes of shared memory, which are split into load and store",
                        "the values returned by atomic_fetch_* are judged: the vector of results of an execution must be explained by one serial order, under the C11 convention (value before) or - reported as atomic:fetch:returns-new-value - the value-after convention",
                        "stress runs do not control the schedule; they are judged on final values only"]
    return ctx.finish(rule="case = (width, signedness, object kind, operation, threads x repetitions, memory model); TLC explores every interleaving of the emitted instruction sequences; distinct = distinct case name",
                      exhaustive=not q, extra=dict(sc_cases=len(cases), tso_cases=len(tcases), liveness_cases=len(lcases)))
def replay(ctx, path):
    c = json.load(open(os.path.join(path, "case.json")))
    c = c.get("case") or c
    tree = ctx.build()
    if c.get("kind") == "casops":
        casops(ctx, tree, False)
        return ctx.finish(rule="replay of the CasOperands family")
    if c.get("kind") == "stress":
        stress(ctx, tree, c.get("iters", 100000) <= 100000)
        return ctx.finish(rule="replay of the stress supplement")
    if c.get("kind") == "live":
        units = compile_units(ctx, tree, {(x[0], x[1], x[2]) for x in c["coords"]})
        lcases, _ = make_cases(ctx, units, [tuple(x) for x in c["coords"]])
        pf = os.path.join(ctx.scratch, "prog-live.json")
        json.dump(lcases, open(pf, "w"))
        ctx.tlc_expect_ok("atomic", "Atomic", "Atomic_live.cfg", "retry loop does not terminate under weak fairness", env=dict(PROG=pf), workers=4)
        return ctx.finish(rule="replay of the liveness check")
    w, sg, kind, op, nt, reps = c["coord"]
    units = compile_units(ctx, tree, {(w, sg, kind)})
    cases, meta = make_cases(ctx, units, [(w, sg, kind, op, nt, reps)])
    by = run_batch(ctx, cases, c.get("tso", False), "replay", workers=2)
    judge(ctx, cases, meta, by, c.get("tso", False), "replay")
    return ctx.finish(rule="replay of one recorded case")
