/* C16, CasOperands replay: a callee compiled by gcc that really uses its right to change every
   caller-saved general-purpose register (System V: rdi rsi rdx rcx r8 r9 r10 r11). */
long ext5(long a, long b, long c, long d, long v) {
  long r = v;
  __asm__ volatile("mov $-1, %%r8\n\tmov $-1, %%r9\n\tmov $-1, %%r10\n\tmov $-1, %%r11\n\t"
                   "mov $-1, %%rcx\n\tmov $-1, %%rdx\n\tmov $-1, %%rsi\n\tmov $-1, %%rdi"
                   ::: "r8", "r9", "r10", "r11", "rcx", "rdx", "rsi", "rdi");
  return r;
}
