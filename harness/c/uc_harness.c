// C11 replay harness: links unicode.c of the tree under test.
// stdin: the table written by tla/lex/LitUtf.tla, one row per line:
//   <c> <n8> <b1> <b2> <b3> <b4> <n16> <u1> <u2> <idstart> <idcont>     a scalar value
//   X <n> <b1> .. <b5>                                                   an ill-formed byte sequence
// stdout: one line "M <what> ..." per disagreement with the table, then "DONE <rows>".
//   encode_utf8(c) must give exactly the n8 bytes; decode_utf8 of those bytes (followed by
//   other text) must give c and consume n8 bytes; is_ident1/is_ident2 must equal idstart/idcont;
//   decode_utf8 of an ill-formed sequence must call error_at.
#include "chibicc.h"
#include <setjmp.h>

static jmp_buf jb;
static int in_call;

void error_at(char *loc, char *fmt, ...) {
  if (in_call)
    longjmp(jb, 1);
  printf("\nABORT error_at outside a call\n");
  exit(3);
}

int main(void) {
  static char line[256];
  long rows = 0;
  while (fgets(line, sizeof line, stdin)) {
    if (line[0] == 'X') {
      int n, b[5];
      if (sscanf(line + 1, "%d %d %d %d %d %d", &n, &b[0], &b[1], &b[2], &b[3], &b[4]) != 6)
        continue;
      char buf[16];
      memset(buf, 'A', sizeof buf);
      for (int i = 0; i < n; i++) buf[i] = b[i];
      buf[n + 4] = 0;
      char *np = buf;
      in_call = 1;
      if (setjmp(jb) == 0) {
        uint32_t v = decode_utf8(&np, buf);
        in_call = 0;
        printf("M ill %d", n);
        for (int i = 0; i < n; i++) printf(" %d", b[i]);
        printf(" got %u %d\n", v, (int)(np - buf));
      }
      in_call = 0;
      rows++;
      continue;
    }
    long c; int n8, b[4], n16, u[2], i1, i2;
    if (sscanf(line, "%ld %d %d %d %d %d %d %d %d %d %d", &c, &n8, &b[0], &b[1], &b[2], &b[3], &n16, &u[0], &u[1], &i1, &i2) != 11)
      continue;
    rows++;
    char buf[16];
    memset(buf, 0x55, sizeof buf);
    int n = encode_utf8(buf, c);
    int bad = n != n8;
    for (int i = 0; i < n8 && !bad; i++) bad = (unsigned char)buf[i] != b[i];
    if (bad) {
      printf("M enc %ld got %d", c, n);
      for (int i = 0; i < n && i < 8; i++) printf(" %d", (unsigned char)buf[i]);
      printf("\n");
    }
    // decode the table's bytes (not what encode_utf8 wrote), followed by more text
    for (int ctx = 0; ctx < 2; ctx++) {
      memset(buf, ctx ? 0xC3 : 'A', sizeof buf);
      for (int i = 0; i < n8; i++) buf[i] = b[i];
      buf[12] = 0;
      char *np = buf;
      in_call = 1;
      if (setjmp(jb) == 0) {
        uint32_t v = decode_utf8(&np, buf);
        in_call = 0;
        if (v != c || np - buf != n8)
          printf("M dec %ld got %u %d\n", c, v, (int)(np - buf));
      } else {
        in_call = 0;
        printf("M dec %ld got error 0\n", c);
      }
    }
    if (!!is_ident1(c) != i1) printf("M id1 %ld got %d\n", c, !!is_ident1(c));
    if (!!is_ident2(c) != i2) printf("M id2 %ld got %d\n", c, !!is_ident2(c));
  }
  printf("DONE %ld\n", rows);
  return 0;
}
