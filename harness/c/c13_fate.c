/* C13 - how a child of the driver ends (tla/robust/Propagate.tla, harness/c13.py family "fate").
 *
 * Installed under three names in a private directory that is first on PATH:
 *   <dir>/as, <dir>/ld   found by the driver's execvp()
 *   <dir>/chibicc        the command that is run: without -cc1 it becomes the real driver
 *                        ($C13_REAL_CC) keeping argv[0] = <dir>/chibicc, and run_cc1() re-executes
 *                        argv[0] with -cc1, so the front end is started through this program too
 * The role is decided from basename(argv[0]) and -cc1.  Every child call appends "<role>\n" to
 * $C13_LOG.  $C13_FATE = "<role>:<how>:<n>:<when>" (how = exit | signal; when = before | after)
 * decides the end of that role's FIRST call: "before" ends at once, "after" lets the real tool do
 * all of its work first (so the output file is complete) and then ends in the given way whatever
 * the real tool's own status was.  Every other call execs the real tool ($C13_REAL_CC /
 * $C13_REAL_AS / $C13_REAL_LD).  chibicc itself is not modified.
 */
#include <fcntl.h>
#include <signal.h>
#include <stdio.h>
#include <stdlib.h>
#include <string.h>
#include <sys/resource.h>
#include <sys/wait.h>
#include <unistd.h>

static void end_as(const char *how, int n) {
  if (!strcmp(how, "exit"))
    _exit(n);
  struct rlimit rl = {0, 0};
  setrlimit(RLIMIT_CORE, &rl);
  sigset_t all;
  sigfillset(&all);
  sigprocmask(SIG_UNBLOCK, &all, NULL);
  signal(n, SIG_DFL);
  kill(getpid(), n);
  for (;;)
    pause();
}

int main(int argc, char **argv) {
  const char *base = strrchr(argv[0], '/');
  base = base ? base + 1 : argv[0];
  const char *role, *real;
  if (!strcmp(base, "as")) {
    role = "as";
    real = getenv("C13_REAL_AS");
  } else if (!strcmp(base, "ld")) {
    role = "ld";
    real = getenv("C13_REAL_LD");
  } else {
    role = "cc1";
    real = getenv("C13_REAL_CC");
    int has = 0;
    for (int i = 1; i < argc; i++)
      if (!strcmp(argv[i], "-cc1"))
        has = 1;
    if (!has) {
      if (real)
        execv(real, argv);
      fprintf(stderr, "c13_fate: cannot start the driver\n");
      return 98;
    }
  }
  const char *log = getenv("C13_LOG"), *fate = getenv("C13_FATE");
  if (!real || !log) {
    fprintf(stderr, "c13_fate: C13_REAL_* / C13_LOG not set\n");
    return 98;
  }
  int fd = open(log, O_WRONLY | O_APPEND | O_CREAT, 0600);
  if (fd < 0 || dprintf(fd, "%s\n", role) < 0) {
    fprintf(stderr, "c13_fate: cannot write the log\n");
    return 98;
  }
  /* the call number of this role = the number of its lines in the log so far (calls are sequential) */
  close(fd);
  int calls = 0;
  FILE *f = fopen(log, "r");
  char line[64];
  while (f && fgets(line, sizeof line, f))
    if (!strncmp(line, role, strlen(role)) && line[strlen(role)] == '\n')
      calls++;
  if (f)
    fclose(f);

  char frole[16], how[16], when[16];
  int n;
  if (fate && calls == 1 && sscanf(fate, "%15[^:]:%15[^:]:%d:%15s", frole, how, &n, when) == 4 && !strcmp(frole, role)) {
    if (!strcmp(when, "before"))
      end_as(how, n);
    pid_t pid = fork();
    if (pid < 0)
      return 98;
    if (pid == 0) {
      execv(real, argv);
      _exit(97);
    }
    int st;
    while (waitpid(pid, &st, 0) < 0)
      ;
    end_as(how, n);
  }
  execv(real, argv);
  fprintf(stderr, "c13_fate: cannot start %s\n", real);
  return 98;
}
