// C17 replay harness: links hashmap.c of the tree under test.
// stdin: one history per line:  <id> <nkeys> <key>... <nops> <op>...
//   op = P<i>:<v> (put key i value v) | D<i> (delete key i)
// stdout per history: "<id> <get(key1)> ... <get(keyn)> <used> <capacity>"
// Keys are passed with explicit lengths out of buffers that continue with
// junk, and looked up through a second copy, so that only (bytes,len) can
// identify a key.
#include "chibicc.h"

void error(char *fmt, ...) {
  va_list ap;
  va_start(ap, fmt);
  printf("\nABORT ");
  vfprintf(stdout, fmt, ap);
  printf("\n");
  fflush(stdout);
  _exit(3);
}
char *format(char *fmt, ...) {
  char *buf = malloc(256);
  va_list ap;
  va_start(ap, fmt);
  vsnprintf(buf, 256, fmt, ap);
  va_end(ap);
  return buf;
}

int main(void) {
  static char line[1 << 16];
  while (fgets(line, sizeof line, stdin)) {
    char *save, *tok = strtok_r(line, " \n", &save);
    if (!tok) continue;
    char *id = tok;
    int nk = atoi(strtok_r(NULL, " \n", &save));
    char *kput[64], *kget[64];
    int klen[64];
    for (int i = 0; i < nk; i++) {
      char *k = strtok_r(NULL, " \n", &save);
      klen[i] = strlen(k);
      kput[i] = malloc(klen[i] + 8);
      kget[i] = malloc(klen[i] + 8);
      sprintf(kput[i], "%s#put", k);
      sprintf(kget[i], "%sZget", k);
    }
    int nops = atoi(strtok_r(NULL, " \n", &save));
    HashMap *map = calloc(1, sizeof(HashMap));
    for (int j = 0; j < nops; j++) {
      char *op = strtok_r(NULL, " \n", &save);
      int i = atoi(op + 1) - 1;
      if (op[0] == 'P') {
        long v = atol(strchr(op, ':') + 1);
        hashmap_put2(map, kput[i], klen[i], (void *)v);
      } else {
        hashmap_delete2(map, kget[i], klen[i]);
      }
    }
    printf("%s", id);
    for (int i = 0; i < nk; i++)
      printf(" %ld", (long)hashmap_get2(map, kget[i], klen[i]));
    printf(" %d %d\n", map->used, map->capacity);
    fflush(stdout);
  }
  return 0;
}
