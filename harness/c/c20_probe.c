/* C20 replay probes (compiled by gcc, linked to code compiled by the chibicc under test).
   probe_rsp: the stack pointer at the call site (constant offset, the same for every call).
   probe_x87: the x87 tag word (0xffff = register stack empty).
   probe_reset: empty the x87 register stack again after a leak has been observed. */
long probe_rsp(void) {
  long r;
  __asm__ volatile("mov %%rsp, %0" : "=r"(r));
  return r;
}

int probe_x87(void) {
  unsigned short env[14];
  __asm__ volatile("fnstenv %0\n\tfldenv %0" : "+m"(env));
  return env[4];
}

void probe_reset(void) {
  __asm__ volatile("fninit");
}
