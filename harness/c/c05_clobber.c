/* C05: prior machine state for the replayed initializers.  Compiled by gcc (-O1) and linked into
   every generated program; called immediately before each automatic definition, so that the
   definition is reached with every caller-saved register holding a non-zero pattern in all eight
   bytes (the object value of 6.7.9 does not depend on what was computed before). */
long c05_clobber(void) {
  long r;
  __asm__ volatile(
      "movabs $0xA5A5A5A5A5A5A5A5, %%rax\n\t"
      "movabs $0xC1C2C3C4C5C6C7C8, %%rcx\n\t"
      "movabs $0xD1D2D3D4D5D6D7D8, %%rdx\n\t"
      "movabs $0xE1E2E3E4E5E6E7E8, %%rsi\n\t"
      "movabs $0xF1F2F3F4F5F6F7F8, %%rdi\n\t"
      "movabs $0x8182838485868788, %%r8\n\t"
      "movabs $0x9192939495969798, %%r9\n\t"
      "movabs $0xA1A2A3A4A5A6A7A8, %%r10\n\t"
      "movabs $0xB1B2B3B4B5B6B7B8, %%r11\n\t"
      "movq %%rax, %%xmm0\n\t"
      "movq %%rcx, %%xmm1\n\t"
      : "=a"(r)
      :
      : "rcx", "rdx", "rsi", "rdi", "r8", "r9", "r10", "r11", "xmm0", "xmm1", "cc");
  return r;
}
