/* C14 fault-injecting stand-in for the three children of the chibicc driver.
 *
 * Installed under three names in a private directory:
 *   <dir>/as, <dir>/ld   found by the driver's execvp() because <dir> is first on PATH
 *   <dir>/chibicc        the command that is run; without -cc1 it execs the real driver keeping
 *                        argv[0] = <dir>/chibicc; run_cc1() re-executes argv[0] with -cc1, so
 *                        the front end is started through this shim as well
 * The tool is decided from basename(argv[0]).  Every call appends one byte to
 * $C14_CNT/<tool>; the new size is the call number k.  If $C14_FAULT is
 * "<tool>:<k>:exit" the k-th call exits with status 3 before doing anything;
 * "<tool>:<k>:signal" makes it kill itself with SIGKILL.  Every other call
 * execs the real tool ($C14_REAL_CC / $C14_REAL_AS / $C14_REAL_LD) with the
 * same arguments.  "<tool>:<k>:noexec" makes the k-th call impossible to START: the
 * call before it (the driver-role invocation for k = 1) removes <dir>/<tool> ($C14_NOEXEC =
 * enoent) or replaces it by a file without x bits (eacces; root cannot execute that either), so the
 * driver's execvp fails.  $C14_SHIMDIR names <dir> (a private copy for such a run).
 * chibicc itself is not modified.
 */
#include <fcntl.h>
#include <signal.h>
#include <stdio.h>
#include <stdlib.h>
#include <string.h>
#include <sys/stat.h>
#include <unistd.h>

/* make <dir>/<tool's file> impossible to execute if the fault plan says that the call after
   the `done`-th one of that tool cannot be started */
static void maybe_break(const char *done_tool, long done) {
  const char *f = getenv("C14_FAULT"), *dir = getenv("C14_SHIMDIR"), *fl = getenv("C14_NOEXEC");
  char ft[16], how[16], path[4096];
  long fk;
  if (!f || !dir || sscanf(f, "%15[^:]:%ld:%15s", ft, &fk, how) != 3 || strcmp(how, "noexec"))
    return;
  if (done_tool ? (strcmp(ft, done_tool) || fk != done + 1) : fk != 1)
    return;
  snprintf(path, sizeof path, "%s/%s", dir, !strcmp(ft, "cc1") ? "chibicc" : ft);
  unlink(path);                                   /* (a hard link: the other runs keep theirs) */
  if (fl && !strcmp(fl, "eacces")) {              /* present, but not executable */
    int fd = open(path, O_WRONLY | O_CREAT | O_EXCL, 0644);
    if (fd >= 0)
      close(fd);
  }
}

int main(int argc, char **argv) {
  const char *base = strrchr(argv[0], '/');
  base = base ? base + 1 : argv[0];
  const char *tool, *real;
  if (!strcmp(base, "as")) {
    tool = "as";
    real = getenv("C14_REAL_AS");
  } else if (!strcmp(base, "ld")) {
    tool = "ld";
    real = getenv("C14_REAL_LD");
  } else {
    tool = "cc1";
    real = getenv("C14_REAL_CC");
    int has = 0;
    for (int i = 1; i < argc; i++)
      if (!strcmp(argv[i], "-cc1"))
        has = 1;
    if (!has) {
      /* started as the driver: become the real driver, but keep argv[0] = this shim, so that
         run_cc1() (which re-executes argv[0] with -cc1) starts the front end through the shim */
      maybe_break(NULL, 0);
      if (real)
        execv(real, argv);
      fprintf(stderr, "c14_shim: cannot start the driver\n");
      return 98;
    }
  }
  const char *cnt = getenv("C14_CNT");
  if (!real || !cnt) {
    fprintf(stderr, "c14_shim: C14_REAL_* / C14_CNT not set\n");
    return 98;
  }
  char path[4096];
  snprintf(path, sizeof path, "%s/%s", cnt, tool);
  int fd = open(path, O_WRONLY | O_APPEND | O_CREAT, 0600);
  struct stat st;
  if (fd < 0 || write(fd, "x", 1) != 1 || fstat(fd, &st) != 0) {
    fprintf(stderr, "c14_shim: cannot count in %s\n", path);
    return 98;
  }
  close(fd);
  long k = (long)st.st_size;

  const char *f = getenv("C14_FAULT");
  if (f && *f) {
    char ft[16], how[16];
    long fk;
    if (sscanf(f, "%15[^:]:%ld:%15s", ft, &fk, how) == 3 && !strcmp(ft, tool) && fk == k) {
      if (!strcmp(how, "signal")) {
        kill(getpid(), SIGKILL);
        pause();
      }
      _exit(3);
    }
  }
  maybe_break(tool, k);
  argv[0] = (char *)real;
  execv(real, argv);
  fprintf(stderr, "c14_shim: exec %s failed\n", real);
  return 98;
}
