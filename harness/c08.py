"""C08 — type sizes, alignments and layouts equal the psABI.

1. TLC, exhaustive: Layout.tla — chibicc's struct_decl/union_decl loops (Level I)
   equal the psABI layout (Level A) on size, alignment and the bits of every
   member, for every member sequence up to the bound over the member alphabet x
   attribute sets; DeclSpec.tla — the additive specifier counter equals the
   6.7.2p2 table for every keyword sequence; Declarator.tla — the token-level
   declarator parser gives every declarator parse tree (derivations and
   parentheses, required or redundant) the type the grammar gives it.  Sensitivity control: Level I of the pinned tree
   (Pinned = TRUE) must be rejected.
2. Generate -> replay: every state of those graphs is a declaration; programs
   print sizeof/_Alignof/offsets/bit images under the chibicc built from the
   tree under test and are compared with Level A.  gcc is the tie-break.
"""
import json, os, subprocess
import vt
from vt import Infra

FLEX = {"flex_char": ("char", 1, "{1, 2, 3}"), "flex_int": ("int", 4, "{1, 2, 3}"), "flex_long": ("long", 8, "{1, 2, 3}"),
        "flex_sci": ("struct {char a; int b;}", 8, "{{1, 2}, {3, 4}, {5, 6}}")}
BFT = {"char": "char", "short": "short", "int": "int", "uint": "unsigned", "long": "long"}
PRELUDE = r'''
int printf(const char *, ...);
void *memset(void *, int, unsigned long);
#define OFF(T, m) ((int)(unsigned long)&(((T *)0)->m))
struct P16 { long a, b; };
static void img(void *p, int n, int *first, int *cnt, int *last) {
  unsigned char *b = p; *first = -1; *cnt = 0; *last = -1;
  for (int i = 0; i < n * 8; i++)
    if ((b[i / 8] >> (i % 8)) & 1) { if (*first < 0) *first = i; (*cnt)++; *last = i; }
}
'''


def member_decl(mid, j, i):
    n = "m%d" % j
    if mid.startswith("flex_") and i % 2:
        return "FT%d %s;" % (i, n)           # the incomplete array type comes from a typedef (see render_layout_case)
    simple = dict(char="char %s;", short="short %s;", int="int %s;", long="long %s;", float="float %s;",
                  double="double %s;", ldouble="long double %s;", ptr="void *%s;", char3="char %s[3];",
                  int2="int %s[2];", s_ci="struct {char a; int b;} %s;", s_c3="struct {char a[3];} %s;",
                  u_lc="union {long a; char b;} %s;", sp_ci="struct __attribute__((packed)) {char a; int b;} %s;",
                  s16_i="struct __attribute__((aligned(16))) {int a;} %s;", al8_char="_Alignas(8) char %s;",
                  alS_char="_Alignas(struct P16) char %s;", alI2_char="_Alignas(int[2]) char %s;",
                  al28_char="_Alignas(2) _Alignas(8) char %s;", al82_char="_Alignas(8) _Alignas(2) char %s;",
                  flex_char="char %s[];", flex_int="int %s[];", flex_long="long %s[];",
                  flex_sci="struct {char a; int b;} %s[];")
    if mid in simple:
        return simple[mid] % n
    if mid == "anon_cs":
        return "struct {char x%d; short y%d;};" % (j, j)
    k, t, w = mid.split("_")
    return "%s %s:%s;" % (BFT[t], n if k == "bf" else "", w)


def render_layout_case(i, c):
    kw = "union" if c["union"] else "struct"
    at = []
    if c["packed"]:
        at.append("packed")
    if c["aln"]:
        at.append("aligned(%d)" % c["aln"])
    a = " __attribute__((%s))" % ", ".join(at) if at else ""
    body = " ".join(member_decl(m, j, i) for j, m in enumerate(c["ms"]))
    if i % 2:
        decl = "%s%s S%d { %s };" % (kw, a, i, body)
    else:
        decl = "%s S%d { %s }%s;" % (kw, i, body, a)
    T = "%s S%d" % (kw, i)
    flex = [m for m in c["ms"] if m.startswith("flex_")]
    tail = ""
    if flex and i % 2:
        # an incomplete array type reached through a typedef, used as the flexible array member and, afterwards,
        # for an array whose size comes from its initializer: the member must not change the typedef's type
        el, esz, init = FLEX[flex[0]]
        decl = "typedef %s FT%d[];\n%s\nstatic FT%d fa%d = %s;" % (el, i, decl, i, i, init)
        tail = ' printf(" t%%d", (int)sizeof(fa%d));' % i
    # declaration form (independent of the layout): the tag may already be known, still incomplete, when the
    # definition (with its leading or trailing attribute list) is reached
    form = (i // 2) % 4
    if form == 1:
        decl = "%s S%d;\n%s" % (kw, i, decl)                                   # forward declaration
    elif form == 2:
        decl = "typedef %s S%d TS%d;\n%s" % (kw, i, i, decl)                   # typedef of the incomplete type
        T = "TS%d" % i
    elif form == 3:
        decl = "extern %s S%d *fwd%d(%s S%d *);\n%s" % (kw, i, i, kw, i, decl)  # used in a prototype first
    f = ["static void f%d(void) { %s s; int a, b, c;" % (i, T),
         ' printf("C %d %%d %%d", (int)sizeof(%s), (int)_Alignof(%s));' % (i, T, T)]
    for j, m in enumerate(c["ms"]):
        if m == "anon_cs":
            f.append(' printf(" o%d:%%d:%%d", OFF(%s, x%d), OFF(%s, y%d));' % (j, T, j, T, j))
        elif m.startswith("ubf_"):
            continue
        elif m.startswith("flex_"):
            f.append(' printf(" o%d:%%d", OFF(%s, m%d));' % (j, T, j))
        elif m.startswith("bf_"):
            f.append(' memset(&s, 0, sizeof s); s.m%d = -1; img(&s, sizeof s, &a, &b, &c); printf(" b%d:%%d:%%d:%%d", a, b, c);' % (j, j))
        else:
            f.append(' memset(&s, 0, sizeof s); memset(&s.m%d, 255, sizeof s.m%d); img(&s, sizeof s, &a, &b, &c);'
                     ' printf(" o%d:%%d:%%d:%%d:%%d", OFF(%s, m%d), a, b, c);' % (j, j, j, T, j))
    if tail:
        f.append(tail)
    f.append(' printf("\\n"); }')
    return decl + "\n" + "\n".join(f) + "\n"


def expect_layout(i, c):
    out = ["C", str(i), str(c["size"]), str(c["align"])]
    for j, m in enumerate(c["ms"]):
        p = c["pl"][j]
        if m == "anon_cs":
            out.append("o%d:%d:%d" % (j, p["pos"] // 8, p["pos"] // 8 + 2))
        elif m.startswith("ubf_"):
            continue
        elif m.startswith("flex_"):
            out.append("o%d:%d" % (j, p["pos"] // 8))
        elif m.startswith("bf_"):
            out.append("b%d:%d:%d:%d" % (j, p["pos"], p["w"], p["pos"] + p["w"] - 1))
        else:
            # interior padding of nested aggregates is not set by memset of the member? it is: memset fills all bytes
            out.append("o%d:%d:%d:%d:%d" % (j, p["pos"] // 8, p["pos"], p["w"], p["pos"] + p["w"] - 1))
    flex = [m for m in c["ms"] if m.startswith("flex_")]
    if flex and i % 2:
        out.append("t%d" % (3 * FLEX[flex[0]][1]))
    return " ".join(out)


def run_batches(ctx, compiler, tree, cases, render, tag, per=250, prelude_extra=""):
    """Compile batches of cases with `compiler` ("chibicc" from tree, or "gcc"); returns {index: line}."""
    d = ctx.tmp("prog-%s-%s" % (tag, compiler))
    batches = [cases[k:k + per] for k in range(0, len(cases), per)]

    def one(t):
        bi, batch = t
        src = "%s/b%d.c" % (d, bi)
        with open(src, "w") as f:
            f.write(prelude_extra + PRELUDE)
            for i, c in batch:
                f.write(render(i, c))
            f.write("int main(void) {\n" + "".join(" f%d();\n" % i for i, _ in batch) + " return 0; }\n")
        exe = src[:-2] + ".exe"
        if compiler == "gcc":
            cmd = ["gcc", "-w", "-std=gnu11", "-o", exe, src]
        else:
            cmd = [tree + "/chibicc", "-I" + tree + "/include", "-o", exe, src]
        p = vt.run_limited(cmd, timeout=120)
        if p.returncode != 0:
            return bi, batch, ("compile", p.returncode, p.stderr[-600:]), src
        r = vt.run_limited([exe], timeout=60, mem_gb=1)
        os.unlink(exe)
        return bi, batch, ("run", r.returncode, r.stdout), src

    res, failed = {}, []
    for bi, batch, (st, rc, out), src in vt.pmap(one, list(enumerate(batches))):
        if st == "compile" or rc != 0:
            failed.append((bi, batch, st, rc, out, src))
            continue
        for l in out.splitlines():
            f = l.split()
            if len(f) >= 2 and f[0] == "C":
                res[int(f[1])] = l.strip()
    return res, failed


def bisect_failed(ctx, compiler, tree, failed, render, tag, limit=3, prelude_extra=""):
    """Batches that do not compile/run: the other cases still have to be judged, and the culprit has
    to be named.  Halve recursively; give up naming culprits after `limit` of them."""
    res, bad = {}, []

    def rec(batch, depth):
        r, f = run_batches(ctx, compiler, tree, batch, render, "%s-bis%d-%d" % (tag, batch[0][0], depth), per=len(batch),
                           prelude_extra=prelude_extra)
        if not f:
            res.update(r)
            return
        if len(batch) == 1:
            _, b1, st1, rc1, out1, _ = f[0]
            bad.append((b1[0], st1, rc1, out1))
            return
        if len(bad) >= limit:
            return
        h = len(batch) // 2
        rec(batch[:h], depth + 1)
        rec(batch[h:], depth + 1)
    for bi, batch, st, rc, out, src in failed:
        if len(bad) >= limit:
            break
        rec(batch, 0)
    return res, bad


BFSZ = {"char": 1, "short": 2, "int": 4, "uint": 4, "long": 8}


def crosses_unit(c):
    """Layout.tla's CrossesUnit: a packed struct in which gcc lets a bit-field cross a storage unit of its type."""
    if not c["packed"] or c["union"]:
        return False
    for m, p in zip(c["ms"], c["pl"]):
        if "bf_" in m and p["w"] > 0:
            u = BFSZ[m.split("_")[1]] * 8
            if p["pos"] % u + p["w"] > u:
                return True
    return False


def layout_sig(c, exp, got):
    if crosses_unit(c):
        return "layout:packed-bitfield-crossing-unit"
    e, g = exp.split(), got.split()
    kinds = set(m.split("_")[0] if "_" in m else "obj" for m in c["ms"])
    what = "size-align" if e[2:4] != g[2:4] else "placement"
    return "layout:%s:%s%s%s" % (what, "union" if c["union"] else "struct", ":packed" if c["packed"] else "",
                                 ":bitfield" if kinds & {"bf", "ubf"} else "")


def compare(ctx, tree, cases, render, expect, tag, sigfn, first=0, prelude_extra="", per=250, rejsig=None):
    idx = [(first + k, c) for k, c in enumerate(cases)]
    res, failed = run_batches(ctx, "chibicc", tree, idx, render, tag, per=per, prelude_extra=prelude_extra)
    if failed:
        r2, bad = bisect_failed(ctx, "chibicc", tree, failed, render, tag, prelude_extra=prelude_extra)
        res.update(r2)
        for (i, c), st, rc, out in bad:
            # does gcc accept it?  if not, the case is outside the language and our generator is wrong
            g, gf = run_batches(ctx, "gcc", tree, [(i, c)], render, tag + "-g%d" % i, per=1, prelude_extra=prelude_extra)
            if gf:
                ctx.oracle_disagreements += 1
                continue
            ctx.report(rejsig(c) if rejsig else "%s:rejected-or-crashed" % tag, "chibicc %s rc=%s on %s: %s" % (st, rc, json.dumps(c)[:300], out[-300:]),
                       case=dict(kind=tag, case=c, index=i, source=prelude_extra + PRELUDE + render(i, c)))
    bad = []
    for i, c in idx:
        ctx.note_case("%s:%s" % (tag, json.dumps(c, sort_keys=True)), nontrivial=len(c.get("ms", c.get("kw", c.get("s", [0, 0])))) >= 2)
        if i not in res:
            continue
        exp = expect(i, c)
        if res[i] != exp:
            bad.append((i, c, exp, res[i]))
    if bad:
        gres, gf = run_batches(ctx, "gcc", tree, [(i, c) for i, c, _, _ in bad], render, tag + "-gcc", prelude_extra=prelude_extra)
        for i, c, exp, got in bad:
            if gres.get(i) != exp:
                ctx.oracle_disagreements += 1        # the spec disagrees with the reference compiler: not chibicc's fault
                continue
            ctx.report(sigfn(c, exp, got), "%s: spec (=gcc) %s, chibicc %s" % (json.dumps(c)[:300], exp, got),
                       case=dict(kind=tag, case=c, index=i, expected=exp, got=got, source=prelude_extra + PRELUDE + render(i, c)))
    ctx.cov["traces_validated_against_impl"] += len(res)
    return res


def gen(ctx, area, module, cfgbase, out, **consts):
    cfg = ctx.cfg(area, cfgbase, **consts)
    g = ctx.tlc(area, module, cfg, env=dict(OUT=out), workers=8, heap="8g")
    return g


def run(ctx):
    q = ctx.quick
    tree = ctx.build()
    # ---- layout: exhaustive Level I = Level A, generation of every state
    out = os.path.join(ctx.scratch, "layout.ndjson")
    g = gen(ctx, "layout", "Layout", "Layout_mc.cfg", out, MaxLen=2 if q else 3, Small=False, Emit=True)
    if not g.ok:
        p = ctx.replay_dir("tlc-Layout")
        open(p + "/counterexample.txt", "w").write(g.trace_text())
        ctx.report("tlc:Layout:%s" % g.violated, "chibicc's layout loop (Level I) differs from the psABI (Level A)", p)
    out2 = os.path.join(ctx.scratch, "layout2.ndjson")
    g2 = gen(ctx, "layout", "Layout", "Layout_mc.cfg", out2, MaxLen=3 if q else 4, Small=True, Emit=True)
    if not g2.ok:
        p = ctx.replay_dir("tlc-Layout-small")
        open(p + "/counterexample.txt", "w").write(g2.trace_text())
        ctx.report("tlc:Layout:%s" % g2.violated, "chibicc's layout loop (Level I) differs from the psABI (Level A)", p)
    ctl = ctx.tlc("layout", "Layout", ctx.cfg("layout", "Layout_mc.cfg", Pinned=True), workers=4, count=False)
    if ctl.ok:
        raise Infra("sensitivity control failed: TLC accepts the pinned layout algorithm")
    ctx.phase("layout model")
    cases = vt.read_ndjson(out) + vt.read_ndjson(out2)
    seen, uniq = set(), []
    for c in cases:
        k = json.dumps(c, sort_keys=True)
        if k not in seen:
            seen.add(k)
            uniq.append(c)
    if len(uniq) < 1000:
        raise Infra("layout generator wrote only %d cases" % len(uniq))
    sel = vt.subsample(uniq, ctx.seed, 6 if q else 8)   # thorough: every state is model-checked, 1/8 (seed-selected) replayed
    ctx.sample(dict(kind="layout", case=sel[len(sel) // 2], c_source=render_layout_case(0, sel[len(sel) // 2]),
                    expected=expect_layout(0, sel[len(sel) // 2])))
    compare(ctx, tree, sel, render_layout_case, expect_layout, "layout", layout_sig)
    ctx.phase("layout replay")
    import c08_decl
    c08_decl.run_decl(ctx, tree)
    ctx.assumptions += ["Level A layout rules were validated against gcc 12 on the whole generated domain at development time; at check time gcc is consulted only to discard vectors on which it disagrees with the spec",
                        "excluded from the domain: zero-width bit-fields in packed aggregates and unions, _Alignas members in packed aggregates, _Alignas on bit-fields"]
    return ctx.finish(
        rule="case = one state of Layout.tla / DeclSpec.tla / Declarator.tla (one aggregate, specifier sequence or declarator parse tree) compiled by the tree's chibicc and compared on sizeof/_Alignof/offsets/bit images/signedness; non-trivial = at least two members / keywords / declarator operators; distinct = distinct case record",
        exhaustive=False, extra=dict(layout_cases=len(uniq), layout_replayed=len(sel)))


def replay(ctx, path):
    c = json.load(open(os.path.join(path, "case.json")))
    c = c.get("case") or c
    tree = ctx.build()
    if c.get("kind") == "layout":
        compare(ctx, tree, [c["case"]], render_layout_case, expect_layout, "layout", layout_sig, first=c.get("index", 0))
    elif c.get("kind") in ("declspec", "stddef", "declarator", "declarator-plf", "declarator-addr", "declarator-arrq"):
        import c08_decl
        c08_decl.replay_one(ctx, tree, c)
    return ctx.finish(rule="replay of one recorded case")
