"""C20 — evaluation leaves no residue on the machine stack or the x87 stack.

The program TLC runs is the `-S` output of the chibicc built from the tree
under test (harness/asmparse.py -> tla/stack/StackDisc.tla):
  corpus = programs enumerated by the builder spec tla/stack/Discard.tla
           (expression form x result type x discarding/consuming context)
         + test/*.c + the compiler's own sources.
Per function and per statement (hook H5 markers `# V:...`) TLC follows every
control-flow edge.  Replay in the other direction: every Discard program is
also run with N in {1, 9, 100000} repetitions of the construct, with rsp and
x87 tag-word probes and a long double computation afterwards.
"""
import glob, json, os, re, subprocess
import vt, asmparse
from vt import Infra

NS = (1, 9, 100000)

TYPES = {
    "int": dict(T="int", init="3", lit="7"),
    "long": dict(T="long", init="3L", lit="7L"),
    "ptr": dict(T="int *", init="gia + 1", lit=None),
    "float": dict(T="float", init="1.5f", lit="2.5f"),
    "double": dict(T="double", init="1.5", lit="2.5"),
    "ldouble": dict(T="long double", init="1.5L", lit="2.5L"),
    "small": dict(T="struct Sm", init="{1, 2}", lit=None),
    "big": dict(T="struct Bg", init="{{1, 2, 3, 4, 5}}", lit=None),
}


def expr(form, ty):
    p = ty == "ptr"
    return dict(var="a", lit=TYPES[ty]["lit"], binary="a + 1" if p else "a + b", neg="-a", call="mk()", callarg="id2(a, b)",
                assign="a = b", chain="a = b = d", opassign="a += 1" if p else "a += b", postinc="a++", preinc="++a",
                cond="c ? a : b", comma="(k, a)", cast="(T)(long)k" if p else "(T)k", member="s.m", deref="*pa", index="arr[1]",
                stmtexpr="({ k; a; })")[form]


LOCALS = "T a, b, d; T arr[3]; struct W s; T *pa; int k; int c; long double LA, LB, LD;"
SETUP = "a = mk(); b = mk(); d = mk(); arr[1] = a; s.m = a; pa = &a; k = 0; c = (int)(it & 1); LA = 1.5L; LB = 2.5L;"


def construct(ctxname, e, idx):
    return dict(exprstmt="%s;" % e, commalhs="(%s, k);" % e, forinc="for (k = 0; k < 1; %s) k++;" % e,
                condarm="c ? (%s) : a;" % e, condarmvoid="c ? (void)(%s) : (void)0;" % e,
                logand="(%s) && k;" % e, logor="(%s) || k;" % e, voidcast="(void)(%s);" % e,
                arg="use(%s);" % e, arg7="use7(1, 2, 3, 4, 5, 6, 7, %s);" % e, oddnest="usei(%s) + k;" % e, vararg="usev(1, %s);" % e, init="{ T v = %s; }" % e,
                **{"return": "use(r_%d(it));" % idx},
                ifcond="if (%s) k++;" % e, assignrhs="d = %s;" % e, stmtexprdiscard="({ %s; });" % e,
                stmtexprvalue="d = ({ k++; %s; });" % e,
                ldpendcomma="LD = LA + ((%s), LB);" % e, ldpendstmtexpr="LD = LA * ({ %s; LB; });" % e,
                ldpendvoid="k = LA < ((void)(%s), LB);" % e,
                condmixthen="c ? (%s) : (void)0;" % e, condmixelse="c ? (void)0 : (%s);" % e,
                whilecond="while (%s) break;" % e, forcond="for (; %s; ) break;" % e,
                docond="k = 0; do { if (k++) break; } while (%s);" % e)[ctxname]


def render_unit(ty, cases, ns=NS):
    t = TYPES[ty]
    src = ["int printf(const char *, ...);",
           "long probe_rsp(void); int probe_x87(void); void probe_reset(void);",
           "struct Sm { long x; int y; }; struct Bg { long x[5]; };",
           "typedef %s T;" % t["T"], "struct W { int pad; T m; };", "int gia[4];",
           "static T mk(void) { T v = %s; return v; }" % t["init"],
           "static T id2(T x, T y) { return y; }", "static void use(T x) {}", "static int usei(T x) { return 1; }", "static void use7(int a1, int a2, int a3, int a4, int a5, int a6, int a7, T x) {}", "static void usev(int n, ...) {}",
           "static int ldcheck(long double u, long double v) { long double w = u * v + u; return w == 4.375L; }"]
    for cs in cases:
        e = expr(cs["form"], ty)
        i = cs["idx"]
        if cs["ctx"] == "return":
            src.append("static T r_%d(long it) { %s %s return %s; }" % (i, LOCALS, SETUP, e))
        src.append("void c_%d(long n, long *out) { %s out[0] = probe_rsp(); for (long it = 0; it < n; it++) { %s %s } out[1] = probe_rsp(); }"
                   % (i, LOCALS, SETUP, construct(cs["ctx"], e, i)))
    src.append("static void (*tab[])(long, long *) = {%s};" % ", ".join("c_%d" % cs["idx"] for cs in cases))
    src.append("static int ids[] = {%s};" % ", ".join(str(cs["idx"]) for cs in cases))
    src.append("static long ns[] = {%s};" % ", ".join(str(n) for n in ns))
    src.append("int main(void) { long out[2]; for (int i = 0; i < %d; i++) for (int j = 0; j < %d; j++) {"
               " probe_reset(); tab[i](ns[j], out); int tag = probe_x87(); int ok = ldcheck(1.25L, 2.5L); probe_reset();"
               " printf(\"%%d %%ld %%ld %%d %%d\\n\", ids[i], ns[j], out[1] - out[0], tag, ok); } return 0; }" % (len(cases), len(ns)))
    return "\n".join(src) + "\n"


# ---------------------------------------------------------- comma chains (Chains.tla)
CHAIN_NS = (1, 9, 2000)
CH_T = {"ldouble": ("long double", "L"), "double": ("double", "D"), "int": ("int", "I"), "struct": ("struct Sc", "S")}


def chain_expr(cs):
    def leaf(m):
        j = "ABCD".index(m.group(0)) + 1
        pfx = CH_T[cs["types"][j - 1]][1]
        return "%s%d" % (pfx, j) if cs["kind"] == "var" else "%s%d = %sR" % (pfx, j, pfx)
    return re.sub(r"[ABCD]", leaf, cs["shape"])


def chain_sig(cs):
    return "chain:%s:%s:%s:%s" % (cs["shape"].replace(" ", ""), "-".join(cs["types"]), cs["kind"], cs["ctx"])


def render_chains(cases):
    src = ["int printf(const char *, ...);", "long probe_rsp(void); int probe_x87(void); void probe_reset(void);",
           "struct Sc { short y; };",
           "static int ldcheck(long double u, long double v) { long double w = u * v + u; return w == 4.375L; }"]
    # operands are file-scope objects (the functions stay small: only the construct is under test)
    init = {"L": "1.5L", "D": "2.5", "I": "3", "S": "{4}"}
    src.append(" ".join("static %s %s;" % (t, ", ".join(["%s%d = %s" % (p, j, init[p]) for j in range(1, 5)] + ["%sR = %s" % (p, init[p]), p + "V"]))
                        for t, p in CH_T.values()))
    for cs in cases:
        e = chain_expr(cs)
        last = CH_T[cs["types"][-1]][1]
        body = {"stmt": "%s;" % e, "forinc": "for (k = 0; k < 1; %s) k++;" % e, "value": "%sV = %s;" % (last, e)}[cs["ctx"]]
        src.append("void c_%d(long n, long *out) { int k; out[0] = probe_rsp(); for (long it = 0; it < n; it++) { %s } out[1] = probe_rsp(); }"
                   % (cs["idx"], body))
    src.append("static void (*tab[])(long, long *) = {%s};" % ", ".join("c_%d" % cs["idx"] for cs in cases))
    src.append("static int ids[] = {%s};" % ", ".join(str(cs["idx"]) for cs in cases))
    src.append("static long ns[] = {%s};" % ", ".join(str(n) for n in CHAIN_NS))
    src.append("int main(void) { long out[2]; for (int i = 0; i < %d; i++) for (int j = 0; j < %d; j++) {"
               " probe_reset(); tab[i](ns[j], out); int tag = probe_x87(); int ok = ldcheck(1.25L, 2.5L); probe_reset();"
               " printf(\"%%d %%ld %%ld %%d %%d\\n\", ids[i], ns[j], out[1] - out[0], tag, ok); } return 0; }" % (len(cases), len(CHAIN_NS)))
    return "\n".join(src) + "\n"


# ------------------------------------- jumps out of an expression with values pending (Jumps.tla)
def jump_sig(cs):
    return "jumpout:%s:%s:%s" % (cs["jump"], cs["construct"], cs["pend"])


def jump_stmt(cs):
    j = {"continue": "continue", "break": "break", "gotofwd": "goto Lf", "gotoback": "goto Lb", "return": "return 1"}[cs["jump"]]
    sei = "({ if (c) %s; 8; })" % j
    sex = "({ if (c) %s; LB; })" % j
    return dict(none="({ if (c) %s; k++; });" % j, assign="k = %s;" % sei, rhs="%s + k;" % sei, rhsf="%s + dk;" % sei,
                args7="use7(%s, 1, 2, 3, 4, 5, 6, 7);" % sei, structarg="uses(%s, sv);" % sei, ldarg="usel(%s, LA);" % sei,
                x87="LA + %s;" % sex, x87cmp="LA < %s;" % sex, x87two="LA + (LB + %s);" % sex)[cs["pend"]]


JLOCALS = "int k = 0, c = 0; double dk = 2.5; long double LA = 1.5L, LB = 2.5L; struct Bg sv = {{1, 2, 3, 4, 5}};"


def jump_loop(cs):
    st, i = jump_stmt(cs), cs["idx"]
    jc = (cs["jump"], cs["construct"])
    if jc == ("continue", "for"):
        return "for (long it = 0; it < n; it++) { c = (int)(it & 1); %s }" % st
    if jc == ("continue", "while"):
        return "{ long it = 0; while (it < n) { c = (int)(it & 1); it++; %s } }" % st
    if jc == ("continue", "do"):
        return "{ long it = 0; do { c = (int)(it & 1); it++; %s } while (it < n); }" % st
    if jc == ("break", "for"):
        return "for (long it = 0; it < n; it++) { c = (int)(it & 1); for (k = 0; k < 2; k++) { %s } }" % st
    if jc == ("break", "while"):
        return "for (long it = 0; it < n; it++) { c = (int)(it & 1); k = 0; while (k++ < 2) { %s } }" % st
    if jc == ("break", "do"):
        return "for (long it = 0; it < n; it++) { c = (int)(it & 1); k = 0; do { %s } while (k++ < 1); }" % st
    if jc == ("break", "switch"):
        return "for (long it = 0; it < n; it++) { c = (int)(it & 1); switch (k & 0) { case 0: %s } }" % st
    if jc == ("gotofwd", "block"):
        return "for (long it = 0; it < n; it++) { c = (int)(it & 1); { %s k++; } Lf: ; }" % st
    if jc == ("gotoback", "block"):
        return "{ long it = 0; Lb: if (it < n) { c = (int)(it & 1); it++; %s goto Lb; } }" % st
    if jc == ("return", "fn"):
        return "for (long it = 0; it < n; it++) k += r_%d((int)(it & 1));" % i
    raise Infra("jump case %r" % (jc,))


def render_jumps(cases):
    src = ["int printf(const char *, ...);", "long probe_rsp(void); int probe_x87(void); void probe_reset(void);",
           "struct Bg { long x[5]; };",
           "static void use7(int a1, int a2, int a3, int a4, int a5, int a6, int a7, int x) {}",
           "static void uses(int x, struct Bg s) {}", "static void usel(int x, long double l) {}",
           "static int ldcheck(long double u, long double v) { long double w = u * v + u; return w == 4.375L; }"]
    for cs in cases:
        if cs["jump"] == "return":
            src.append("static int r_%d(int c) { %s %s return 0; }" % (cs["idx"], JLOCALS.replace("c = 0", "c0 = 0"), jump_stmt(cs)))
        src.append("void c_%d(long n, long *out) { %s out[0] = probe_rsp(); %s out[1] = probe_rsp(); }" % (cs["idx"], JLOCALS, jump_loop(cs)))
    src.append("static void (*tab[])(long, long *) = {%s};" % ", ".join("c_%d" % cs["idx"] for cs in cases))
    src.append("static int ids[] = {%s};" % ", ".join(str(cs["idx"]) for cs in cases))
    src.append("static long ns[] = {%s};" % ", ".join(str(n) for n in CHAIN_NS))
    src.append("int main(void) { long out[2]; for (int i = 0; i < %d; i++) for (int j = 0; j < %d; j++) {"
               " probe_reset(); tab[i](ns[j], out); int tag = probe_x87(); int ok = ldcheck(1.25L, 2.5L); probe_reset();"
               " printf(\"%%d %%ld %%ld %%d %%d\\n\", ids[i], ns[j], out[1] - out[0], tag, ok); } return 0; }" % (len(cases), len(CHAIN_NS)))
    return "\n".join(src) + "\n"


# ------------------------------------- an expression evaluated with N values pending (Pending.tla)
PEND_ITER = 9
PLOCALS = "long a = 3, b = 5, d = 9, k = 0, kk = 24; int c = (int)(it & 1);"
PFORM = dict(var="a", call="idl(a)", alloca8="fill(alloca(8), 8, a)", alloca24="fill(alloca(24), 24, a)", alloca100="fill(alloca(100), 100, a)",
             allocan="fill(alloca(kk), kk, a)", vla="({ char v[kk]; fill(v, kk, a); })", stmtexpr="({ k++; a; })", cond="(c ? a : b)",
             assign="(a = b)", chain="(a = b = d)", postinc="a++", call8="sum8(a, b, d, 1, 2, 3, 4, 5)")
XLOCALS = "T a = 1.5L, b = 2.5L, d = 4.5L; T arr[3]; struct W s; T *pa = &a; int k = 3; int c = (int)(it & 1); arr[1] = 6.5L; s.m = 5.5L;"
PMIX = [("struct S3", "ts"), ("long", "tl"), ("double", "td"), ("long double", "tx")]          # argument i has type PMIX[i % 4]


def pend_sig(cs):
    return "pending:%s:%s:%s:n%d" % (cs["bank"], cs["pat"], cs["form"], cs["n"])


def pend_operand(pat, i):
    if pat == "long":
        return "tl%d" % i
    if pat == "double":
        return "td%d" % i
    if pat == "alt":
        return ("tl%d" if i % 2 else "td%d") % i
    if pat == "mix":
        return "%s%d" % (PMIX[i % 4][1], i)
    return "tx%d" % i


def pend_expr(cs):
    b, pat, n = cs["bank"], cs["pat"], cs["n"]
    if b == "x87":
        e = "deep8()" if cs["form"] == "calldeep" else "(%s)" % expr(cs["form"], "ldouble")
        for i in range(n, 0, -1):
            e = "(tx%d + %s)" % (i, e)
        return e
    e = PFORM[cs["form"]]
    if b == "sum":
        for i in range(1, n + 1):
            e = "(%s + %s)" % (e, pend_operand(pat, i))
        return e
    return "pk_%s_%d(%s)" % (pat, n, ", ".join([e] + [pend_operand(pat, i) for i in range(1, n + 1)]))


def render_pending(bank, cases):
    src = ["int printf(const char *, ...);", "long probe_rsp(void); int probe_x87(void); void probe_reset(void);",
           "struct S3 { long a, b, c; };", "typedef long double T;", "struct W { int pad; T m; };",
           "static long double mk(void) { long double v = 1.5L; return v; }", "static long double id2(long double x, long double y) { return y; }",
           "static long fill(void *p, long n, long x) { unsigned char *q = p; long s = 0; for (long i = 0; i < n; i++) q[i] = 0x55;"
           " for (long i = 0; i < n; i++) s += q[i]; return x + s - n * 0x55; }",
           "static long idl(long x) { return x; }",
           "static long sum8(long a1, long a2, long a3, long a4, long a5, long a6, long a7, long a8)"
           " { return a1 + 2 * a2 + 3 * a3 + 4 * a4 + 5 * a5 + 6 * a6 + 7 * a7 + 8 * a8; }",
           "static int ldcheck(long double u, long double v) { long double w = u * v + u; return w == 4.375L; }"]
    for i in range(1, 13):
        src.append("static long tl%d = %d; static double td%d = %d; static long double tx%d = %d; static struct S3 ts%d = {0, %d, 0};"
                   % (i, 3 ** i, i, 3 ** i, i, 3 ** i, i, 3 ** i))
    src.append("static long double dv = 1.5L;"
               " static long double deep8(void) { return tx1 + (tx2 + (tx3 + (tx4 + (tx5 + (tx6 + (tx7 + dv)))))); }")
    for pat, n in sorted(set((cs["pat"], cs["n"]) for cs in cases if cs["bank"] == "args")):
        ty = lambda i: "long" if pat == "long" else PMIX[i % 4][0]
        val = lambda i: ("t%d.b" if ty(i) == "struct S3" else "(long)t%d") % i
        src.append("static long pk_%s_%d(%s) { return %s; }" % (pat, n, ", ".join(["long e"] + ["%s t%d" % (ty(i), i) for i in range(1, n + 1)]),
                                                                " + ".join(["e"] + ["%d * %s" % (i + 1, val(i)) for i in range(1, n + 1)])))
    for cs in cases:
        e = pend_expr(cs)
        if bank == "x87":
            body = "%s T r = %s; return (long)(r * 2);" % (XLOCALS, e)
        elif bank == "sum" and cs["pat"] != "long" and cs["n"] > (1 if cs["pat"] == "alt" else 0):
            body = "%s double r = %s; return (long)(r * 2);" % (PLOCALS, e)
        else:
            body = "%s long r = %s; return r * 2;" % (PLOCALS, e)
        src.append("long p_%d(long it) { %s }" % (cs["idx"], body))
    src.append("static long (*tab[])(long) = {%s};" % ", ".join("p_%d" % cs["idx"] for cs in cases))
    src.append("static int ids[] = {%s};" % ", ".join(str(cs["idx"]) for cs in cases))
    src.append("static long exps[][2] = {%s};" % ", ".join("{%d, %d}" % tuple(cs["exp"]) for cs in cases))
    # argv[1] = position of the first case to run (the harness restarts behind a case that killed the program)
    src.append("int atoi(const char *); int fflush(void *);")
    src.append("int main(int argc, char **argv) { for (int i = argc > 1 ? atoi(argv[1]) : 0; i < %d; i++) { long bad = 0, got = 0; probe_reset();"
               " for (long it = 0; it < %d; it++) { long v = tab[i](it); if (v != exps[i][it & 1]) { bad++; got = v; } }"
               " int tag = probe_x87(); int ok = ldcheck(1.25L, 2.5L); probe_reset();"
               " printf(\"%%d %%ld %%ld %%d %%d\\n\", ids[i], bad, got, tag, ok); fflush(0); } return 0; }" % (len(cases), PEND_ITER))
    return "\n".join(src) + "\n"


# ------------------------------------- simultaneously live call results (LiveCalls.tla)
LC = {"ri": ("struct R { int v[3]; };", "struct R", "int", 3), "rs": ("struct R { double v[2]; };", "struct R", "double", 2),
      "rc": ("struct R { unsigned char v[8]; int n; };", "struct R", "unsigned char", 8), "un": ("union R { int v[4]; long w; };", "union R", "int", 4),
      "mi": ("struct R { long v[5]; };", "struct R", "long", 5), "ml": ("struct R { long double v[2]; };", "struct R", "long double", 2)}


def livecall_expr(cs):
    calls = ["mk%s(%d)" % ("AB"[f], x) for f, x in zip(cs["fns"], cs["xs"])]
    args = [c + ".v" for c in calls]
    if cs["use"] == "lastbyval":
        args[-1] = calls[-1]
    return "comb%d%s(%s)" % (cs["n"], "v" if cs["use"] == "lastbyval" else "", ", ".join(args))


def render_livecalls(cls, cases):
    d, R, E, ln = LC[cls]
    src = ["int printf(const char *, ...);", d, "typedef %s R; typedef %s E;" % (R, E)]
    for f, name in enumerate("AB"):
        src.append("static R mk%s(int x) { R r; for (int j = 0; j < %d; j++) r.v[j] = %d + x * 10 + j; return r; }" % (name, ln, f * 100))
    src += ["static long comb2(const E *p, const E *q) { return (long)p[0] + (long)q[1] * 1000; }",
            "static long comb3(const E *p, const E *q, const E *s) { return (long)p[0] + (long)q[1] * 1000 + (long)s[0] * 1000000; }",
            "static long comb2v(const E *p, R q) { return (long)p[0] + (long)q.v[1] * 1000; }",
            "static long comb3v(const E *p, const E *q, R s) { return (long)p[0] + (long)q[1] * 1000 + (long)s.v[0] * 1000000; }"]
    for cs in cases:
        e = livecall_expr(cs)
        body = {"assign": "long r; r = %s; return r;" % e, "init": "long r = %s; return r;" % e, "return": "return %s;" % e}[cs["ctx"]]
        src.append("long t_%d(void) { %s }" % (cs["idx"], body))
    src.append("static long (*tab[])(void) = {%s};" % ", ".join("t_%d" % cs["idx"] for cs in cases))
    src.append("static int ids[] = {%s};" % ", ".join(str(cs["idx"]) for cs in cases))
    src.append("int main(void) { for (int i = 0; i < %d; i++) printf(\"%%d %%ld\\n\", ids[i], tab[i]()); return 0; }" % len(cases))
    return "\n".join(src) + "\n"


CAST_TYPES = [("i8", "signed char"), ("i16", "short"), ("i32", "int"), ("i64", "long"), ("u8", "unsigned char"), ("u16", "unsigned short"),
              ("u32", "unsigned int"), ("u64", "unsigned long"), ("f32", "float"), ("f64", "double"), ("f80", "long double"), ("b", "_Bool")]


def render_casts():
    """every row x column of codegen.c's cast table (plus _Bool), each conversion in a loop"""
    src = []
    for fn, ft in CAST_TYPES:
        for tn, tt in CAST_TYPES:
            src.append("%s cast_%s_%s(%s x, int n) { %s r; r = 0; for (int i = 0; i < n; i++) r = (%s)x; return r; }" % (tt, fn, tn, ft, tt, tt))
    return "\n".join(src) + "\n"


# ------------------------------------------------------------ compilation
def compile_S(ctx, tree, src, out, incs=()):
    env = dict(os.environ, CHIBICC_VERIF_TRACE=os.path.join(ctx.scratch, "h5.trace"))
    r = subprocess.run([tree + "/chibicc", "-I" + tree + "/include"] + ["-I" + i for i in incs] + ["-S", "-o", out, src],
                       capture_output=True, text=True, env=env, timeout=120)
    if r.returncode != 0:
        raise Infra("chibicc -S failed on %s: %s" % (src, r.stderr[-600:]))
    return open(out).read()


def ld_callees(ctx, tree, src, incs):
    """unhooked tree only: functions whose prototype returns long double (from the preprocessed source)"""
    r = subprocess.run([tree + "/chibicc", "-I" + tree + "/include"] + ["-I" + i for i in incs] + ["-E", src],
                       capture_output=True, text=True, timeout=60)
    names = ["long\\s+double"] + [re.escape(t) for t in re.findall(r"typedef\s+long\s+double\s+(\w+)\s*;", r.stdout)]
    return set(re.findall(r"\b(?:%s)\s+(\w+)\s*\(" % "|".join(names), r.stdout))


def unit_program(ctx, tree, label, src, incs, hooked_expected=None):
    """-> (list of function records for StackDisc, hooked?)"""
    sfile = os.path.join(ctx.tmp("c20-s"), re.sub(r"[^\w.]", "_", label) + ".s")
    asm = compile_S(ctx, tree, src, sfile, incs)
    hooked = "# V:fn " in asm
    try:
        u = asmparse.parse(asm)
        ldc = None if hooked else ld_callees(ctx, tree, src, incs)
        prog = []
        for fn in u.funcs.values():
            code = asmparse.stack_function(fn, ldcallees=ldc, hooked=hooked)
            for c in code:
                if c["k"] == "nop":
                    c["s"] = ""
            prog.append(dict(fn=label + ":" + fn.name, code=code, starts=[i + 1 for i, c in enumerate(code) if c["k"] == "stmt+"]))
    except asmparse.Unknown as e:
        raise Infra("emitted code outside the effect table (%s): %s" % (label, e))
    return prog, hooked, asm


# -------------------------------------------------------------------- TLC
def run_stackdisc(ctx, prog, label, modes, workers=6):
    pf = os.path.join(ctx.scratch, "sd-%s.json" % label)
    out = os.path.join(ctx.scratch, "sd-%s.out" % label)
    json.dump(prog, open(pf, "w"), separators=(",", ":"))
    cfg = ctx.cfg("stack", "StackDisc_batch.cfg", Modes="{%s}" % ",".join('"%s"' % m for m in modes))
    res = ctx.tlc("stack", "StackDisc", cfg, env=dict(PROG=pf, OUT=out), workers=workers, timeout=1500, heap="8g")
    if not res.ok:
        raise Infra("TLC stopped on %s: %s" % (label, res.trace_text()[:1500]))
    return vt.read_ndjson(out)


def counterexample(ctx, fnrec, mode):
    pf = os.path.join(ctx.scratch, "sd-one-%s.json" % re.sub(r"[^\w.]", "_", fnrec["fn"]))
    json.dump([fnrec], open(pf, "w"))
    cfg = ctx.cfg("stack", "StackDisc_one.cfg", Modes='{"%s"}' % mode)
    res = ctx.tlc("stack", "StackDisc", cfg, env=dict(PROG=pf), workers=1, timeout=300, count=False)
    txt = res.trace_text()
    # annotate the path with the instruction text
    lines = []
    for m in re.finditer(r"/\\ pc = (\d+)|/\\ d = (-?\d+)|/\\ x = (-?\d+)", txt):
        pass
    path = []
    for st in re.split(r"State \d+:", txt)[1:]:
        g = lambda k: (re.search(r"/\\ %s = (-?\d+)" % k, st) or [None, "?"])[1]
        pc = g("pc")
        ins = fnrec["code"][int(pc) - 1] if pc.isdigit() and 0 < int(pc) <= len(fnrec["code"]) else {}
        path.append("pc=%s rsp8=%s x87=%s   line %s: %s" % (pc, g("d"), g("x"), ins.get("ln", "-"), ins.get("s", "")))
    return "\n".join(path) + "\n\n" + txt[:6000]


def control(ctx):
    """Sensitivity control: hand-made functions with one residue each; TLC must flag every one."""
    def ins(k, n=0, m=0, t=(), s=""):
        return dict(k=k, n=n, m=m, t=list(t), s=s, ln=0)
    leak_loop = [ins("base", 16), ins("nop"), ins("d", -1, s="push in a loop"), ins("jcc", t=[2]), ins("reset"), ins("ret", 0)]
    x87_leak = [ins("base", 16), ins("stmt+", 1, 0), ins("x", 1, s="fldt"), ins("stmt-", 1, 0), ins("x", -1), ins("reset"), ins("ret", 0)]
    misalign = [ins("base", 16), ins("d", -1), ins("call"), ins("d", 1), ins("reset"), ins("ret", 0)]
    depth = [ins("base", 16), ins("d", -1), ins("stmt+", 1, 0), ins("stmt-", 1, 0), ins("d", 1), ins("reset"), ins("ret", 0)]
    livecall = [ins("base", 16), ins("x", 1, s="fldt"), ins("call", 1, s="call f"), ins("x", -1, s="faddp"), ins("x", -1), ins("reset"), ins("ret", 0)]
    good = [ins("base", 16), ins("stmt+", 1, 0), ins("d", -1), ins("x", 1), ins("jcc", t=[7]), ins("nop"), ins("x", -1), ins("d", 1),
            ins("stmt-", 1, 0), ins("reset"), ins("ret", 0)]
    prog = [dict(fn="control:" + n, code=c, starts=[i + 1 for i, x in enumerate(c) if x["k"] == "stmt+"])
            for n, c in (("leak_loop", leak_loop), ("x87_leak", x87_leak), ("misalign", misalign), ("depth", depth), ("livecall", livecall), ("good", good))]
    v = run_stackdisc(ctx, prog, "control", ["fn", "st"], workers=2)
    got = {(r["fn"].split(":")[1], r["kind"]) for r in v}
    want = {("leak_loop", "rsp-unbounded"), ("x87_leak", "x87-residue-at-stmt-end"), ("misalign", "call-misaligned"), ("depth", "logged-depth-differs"), ("livecall", "x87-live-at-call")}
    if not want <= got or any(f == "good" for f, _ in got):
        raise Infra("sensitivity control failed: StackDisc flagged %s, expected %s and nothing in `good`" % (sorted(got), sorted(want)))
    # the x87 budget: a store() that needs one register more than its operand must be rejected by Pending.tla
    res = ctx.tlc("stack", "Pending", ctx.cfg("stack", "Pending.cfg", name="Pending-ctl", Variant='"assign-dup"', Stride=997, TreeDepth=1),
                  env=dict(OUT=os.path.join(ctx.scratch, "pending-ctl.ndjson")), workers=1, timeout=300, heap="1g", count=False)
    if res.ok:
        raise Infra("sensitivity control failed: Pending.tla accepts the variant 'assign-dup'")


# --------------------------------------------------------- Discard corpus
def discard_cases(ctx, stride):
    out = os.path.join(ctx.scratch, "discard.ndjson")
    cfg = ctx.cfg("stack", "Discard.cfg", Seed=ctx.seed % stride if stride > 1 else 0, Stride=stride)
    res = ctx.tlc("stack", "Discard", cfg, env=dict(OUT=out), workers=2, timeout=300)
    if not res.ok:
        raise Infra("Discard.tla: " + res.trace_text()[:500])
    cases = sorted(vt.read_ndjson(out), key=lambda c: c["idx"])
    if not cases:
        raise Infra("Discard.tla generated nothing")
    return cases


def builder_cases(ctx, module, stride):
    out = os.path.join(ctx.scratch, module + ".ndjson")
    cfg = ctx.cfg("stack", module + ".cfg", Seed=ctx.seed % stride if stride > 1 else 0, Stride=stride)
    res = ctx.tlc("stack", module, cfg, env=dict(OUT=out), workers=2, timeout=300)
    cases = sorted(vt.read_ndjson(out), key=lambda c: c["idx"])
    if not res.ok or not cases:
        raise Infra("%s.tla generated nothing: %s" % (module, res.trace_text()[:300]))
    return cases


def run_livecalls(ctx, tree, lunits):
    """compile + run the LiveCalls units with the tree's chibicc; a value that differs from Level A is given to gcc too"""
    def one(item):
        cls, (f, cl) = item
        exe = f[:-2] + ".exe"
        r = vt.sh([tree + "/chibicc", "-I" + tree + "/include", "-o", exe, f], timeout=120)
        if r.returncode:
            raise Infra("chibicc failed on %s: %s" % (f, r.stderr[-500:]))
        p = subprocess.run([exe], capture_output=True, text=True, timeout=60)
        got = {int(l.split()[0]): int(l.split()[1]) for l in p.stdout.splitlines() if len(l.split()) == 2}
        bad = [cs for cs in cl if got.get(cs["idx"]) != cs["exp"]]
        ggot = {}
        if bad:
            r = vt.sh(["cc", "-w", "-O0", "-o", exe + ".gcc", f], timeout=120)
            if r.returncode == 0:
                p2 = subprocess.run([exe + ".gcc"], capture_output=True, text=True, timeout=60)
                ggot = {int(l.split()[0]): int(l.split()[1]) for l in p2.stdout.splitlines() if len(l.split()) == 2}
        return cls, p.returncode, got, ggot
    n = 0
    for cls, rc, got, ggot in vt.pmap(one, sorted(lunits.items())):
        f, cl = lunits[cls]
        for cs in cl:
            n += 1
            ctx.note_case("livecalls:%s:%s" % (cls, cs["idx"]), nontrivial=True)
            g = got.get(cs["idx"])
            if g == cs["exp"]:
                continue
            if ggot.get(cs["idx"]) != cs["exp"]:          # the reference compiler disagrees with Level A too
                ctx.oracle_disagreements += 1
                continue
            e = livecall_expr(cs)
            ctx.report("livecalls:%s:%s:%dcalls:%s" % (cls, cs["use"], cs["n"], "value-not-its-own" if g is not None else "program-died"),
                       "`%s` (%s, context %s): Level A and gcc give %d, the tree's chibicc gives %s - the value of a call was not usable while a later call of the same type ran"
                       % (e, LC[cls][0], cs["ctx"], cs["exp"], g), case=dict(kind="livecalls", cls=cls, case=cs, expr=e, expected=cs["exp"], observed=g, rc=rc))
    ctx.cov["traces_validated_against_impl"] += n
    return n


def run_discard_programs(ctx, tree, units):
    """compile with the tree's chibicc, link the gcc-compiled probes, run; -> {idx: [(N, rspdiff, tag, ok)]}"""
    d = ctx.tmp("c20-run")
    probe = os.path.join(d, "probe.o")
    r = vt.sh(["cc", "-O1", "-c", "-o", probe, os.path.join(vt.VERIF, "harness/c/c20_probe.c")])
    if r.returncode:
        raise Infra("probe build failed: " + r.stderr[-500:])

    def one(item):
        ty, (srcfile, cases) = item
        obj, exe = srcfile[:-2] + ".o", srcfile[:-2] + ".exe"
        r = vt.sh([tree + "/chibicc", "-I" + tree + "/include", "-c", "-o", obj, srcfile], timeout=120)
        if r.returncode:
            raise Infra("chibicc -c failed on %s: %s" % (srcfile, r.stderr[-500:]))
        r = vt.sh(["cc", "-no-pie", "-o", exe, obj, probe], timeout=60)
        if r.returncode:
            raise Infra("link failed on %s: %s" % (srcfile, r.stderr[-500:]))
        p = subprocess.run([exe], capture_output=True, text=True, timeout=300)
        res = {}
        for l in p.stdout.splitlines():
            f = l.split()
            if len(f) == 5:
                res.setdefault(int(f[0]), []).append(tuple(int(x) for x in f[1:]))
        return ty, p.returncode, res
    return {ty: (rc, res) for ty, rc, res in vt.pmap(one, sorted(units.items()))}


def run_pending(ctx, tree, punits, probe=None):
    """Pending.tla programs: compile with the tree's chibicc, link the probes, run (restarting behind a case that kills the
    program); a value that differs from Level A is given to gcc too"""
    d = ctx.tmp("c20-pend")
    probe = os.path.join(d, "probe.o")
    r = vt.sh(["cc", "-O1", "-c", "-o", probe, os.path.join(vt.VERIF, "harness/c/c20_probe.c")])
    if r.returncode:
        raise Infra("probe build failed: " + r.stderr[-500:])

    def rows(exe, cl):
        got, died, start = {}, [], 0
        for _ in range(8):
            p = vt.run_limited([exe, str(start)], timeout=120, mem_gb=2)
            for l in p.stdout.splitlines():
                f = l.split()
                if len(f) == 5:
                    got[int(f[0])] = tuple(int(x) for x in f[1:])
            missing = [k for k, cs in enumerate(cl) if k >= start and cs["idx"] not in got]
            if p.returncode == 0 or not missing:
                break
            died.append((cl[missing[0]]["idx"], p.returncode))
            start = missing[0] + 1
        return got, died

    def one(item):
        bank, (f, cl) = item
        obj, exe = f[:-2] + ".o", f[:-2] + ".exe"
        r = vt.run_limited([tree + "/chibicc", "-I" + tree + "/include", "-c", "-o", obj, f], timeout=120)
        if r.returncode:
            raise Infra("chibicc -c failed on %s: %s" % (f, r.stderr[-500:]))
        r = vt.sh(["cc", "-no-pie", "-o", exe, obj, probe], timeout=60)
        if r.returncode:
            raise Infra("link failed on %s: %s" % (f, r.stderr[-500:]))
        got, died = rows(exe, cl)
        ggot = {}
        if died or any(got.get(cs["idx"], (1,))[0] != 0 for cs in cl):
            r = vt.sh(["cc", "-w", "-O0", "-Dalloca=__builtin_alloca", "-no-pie", "-o", exe + ".gcc", f, probe], timeout=120)
            if r.returncode == 0:
                ggot = rows(exe + ".gcc", cl)[0]
        return bank, got, dict(died), ggot
    n = 0
    for bank, got, died, ggot in vt.pmap(one, sorted(punits.items()), workers=4):
        f, cl = punits[bank]
        for cs in cl:
            sig = pend_sig(cs)
            ctx.note_case("run:" + sig, nontrivial=cs["n"] > 0)
            g = got.get(cs["idx"])
            if g is None and cs["idx"] not in died:
                continue                                    # behind the restart limit: not run
            n += 1
            e = pend_expr(cs)
            if ggot.get(cs["idx"], (1,))[0] != 0 and (g is None or g[0] != 0):
                ctx.oracle_disagreements += 1               # the reference compiler does not deliver the Level A value either
                continue
            case = dict(kind="pending", bank=bank, case=cs, expr=e, expected=cs["exp"], observed=g, source=open(f).read())
            if g is None:
                ctx.report(sig + ":program-died", "`%s`: the program died (status %s) while evaluating it with %d values pending" % (e, died[cs["idx"]], cs["n"]), case=case)
            elif g[0]:
                ctx.report(sig + ":value-lost", "`%s` evaluated with %d values pending (%s, %s): Level A and gcc give %s (doubled), the tree's chibicc gives %d in %d of %d evaluations"
                           % (e, cs["n"], bank, cs["pat"], cs["exp"], g[1], g[0], PEND_ITER), case=case)
            elif g[2] != 0xffff or g[3] != 1:
                ctx.report(sig + (":run-x87-residue" if g[2] != 0xffff else ":run-ld-corrupted"),
                           "`%s` with %d values pending: x87 tag word %#06x afterwards (0xffff = empty), later long double computation %s"
                           % (e, cs["n"], g[2], "correct" if g[3] == 1 else "WRONG"), case=case)
    ctx.cov["traces_validated_against_impl"] += n
    return n


# -------------------------------------------------------------------- run
def report_static(ctx, viol, byfn, casemap, unitsrc):
    """viol: emitted violation records; one report per (function, kind)."""
    seen, n_cex = {}, 0
    for r in viol:
        key = (r["fn"], r["kind"])
        seen.setdefault(key, r)
    for (fn, kind), r in sorted(seen.items()):
        unit, fname = fn.split(":", 1)
        cs = casemap.get(fn)
        if cs:
            sig = "%s:%s" % (cs.get("sig") or "discard:%s:%s:%s" % (cs["form"], cs["type"], cs["ctx"]), kind)
        else:
            sig = "corpus:%s:%s" % (unit, kind)
        p = None
        if not vt.match_finding(ctx.findings, sig) and n_cex < 8:
            n_cex += 1
            p = ctx.replay_dir("static-%s-%s" % (fn, kind))
            open(p + "/counterexample.txt", "w").write(counterexample(ctx, byfn[fn], r["mode"]))
            if unit in unitsrc:
                open(p + "/unit.c", "w").write(unitsrc[unit][0])
                open(p + "/unit.s", "w").write(unitsrc[unit][1])
            json.dump(dict(kind="static", unit=unit, function=fname, violation=r, case=cs,
                           source=unitsrc.get(unit, [None, None, None])[2],
                           expected="(rsp8, x87) = (0, 0) at every statement end, x87 in 0..8, rsp8 bounded, balanced at ret"),
                      open(p + "/case.json", "w"), indent=1)
        ctx.report(sig, "%s: %s in the emitted code at asm line %s (%s): rsp8=%s x87=%s [%s exploration%s]"
                   % (fn, kind, r["ln"], r["s"], r["d"], r["x"], r["mode"], ", statement %s" % r["sid"] if r["mode"] == "st" else ""),
                   p, case=dict(fn=fn, kind=kind))


def run(ctx):
    q = ctx.quick
    tree = ctx.build()
    ctx.phase("build")
    control(ctx)
    ctx.phase("control")
    # ---- Discard programs
    cases = discard_cases(ctx, 3 if q else 1)
    bytype = {}
    for cs in cases:
        bytype.setdefault(cs["type"], []).append(cs)
    d = ctx.tmp("c20-src")
    units, unitsrc, prog, casemap, hooked_any = {}, {}, [], {}, None
    for ty, cl in sorted(bytype.items()):
        f = os.path.join(d, "discard_%s.c" % ty)
        open(f, "w").write(render_unit(ty, cl))
        units[ty] = (f, cl)
    for cs in cases:
        cs.update(sig="discard:%s:%s:%s" % (cs["form"], cs["type"], cs["ctx"]), text="`%s` in context %s" % (expr(cs["form"], cs["type"]), cs["ctx"]))
    # comma expressions of every grouping (Chains.tla)
    chains = builder_cases(ctx, "Chains", 24 if q else 1)
    for cs in chains:
        cs.update(form="chain", type="-".join(cs["types"]), sig=chain_sig(cs), text=chain_expr(cs))
    nsplit = 4 if q else 8
    for j in range(nsplit):
        cl = chains[j::nsplit]
        if cl:
            f = os.path.join(d, "chains_%d.c" % j)
            open(f, "w").write(render_chains(cl))
            units["chains_%d" % j] = (f, cl)
    # jumps out of a statement expression while values of the enclosing expression are pending (Jumps.tla): all of them
    jumps = builder_cases(ctx, "Jumps", 1)
    for cs in jumps:
        cs.update(form="jump", type=cs["pend"], sig=jump_sig(cs), text="`%s` (%s out of a %s)" % (jump_stmt(cs), cs["jump"], cs["construct"]))
    f = os.path.join(d, "jumps.c")
    open(f, "w").write(render_jumps(jumps))
    units["jumps"] = (f, jumps)
    # an expression evaluated with N values pending on the machine stack / the x87 stack (Pending.tla)
    pcases = builder_cases(ctx, "Pending", 6 if q else 1)
    punits = {}
    for bank in ("sum", "args", "x87"):
        cl = [cs for cs in pcases if cs["bank"] == bank]
        for cs in cl:
            cs.update(type=bank, sig=pend_sig(cs), text="`%s`" % pend_expr(cs))
        if cl:
            f = os.path.join(d, "pending_%s.c" % bank)
            open(f, "w").write(render_pending(bank, cl))
            punits[bank] = (f, cl)
    # two or three live results of calls returning the same aggregate type (LiveCalls.tla)
    lcases = builder_cases(ctx, "LiveCalls", 6 if q else 1)
    lunits = {}
    for cls in LC:
        cl = [cs for cs in lcases if cs["cls"] == cls]
        if cl:
            f = os.path.join(d, "livecalls_%s.c" % cls)
            open(f, "w").write(render_livecalls(cls, cl))
            lunits[cls] = (f, cl)

    def label(ty):
        return ty if ty.startswith(("chains", "jumps")) else "discard_" + ty

    def comp(item):
        ty, (f, cl) = item
        return ty, unit_program(ctx, tree, label(ty), f, [])
    for ty, (pr, hooked, asm) in vt.pmap(comp, sorted(units.items())):
        prog += pr
        hooked_any = hooked if hooked_any is None else (hooked_any and hooked)
        unitsrc[label(ty)] = (open(units[ty][0]).read(), asm, None)
        for cs in units[ty][1]:
            casemap["%s:c_%d" % (label(ty), cs["idx"])] = cs
            casemap["%s:r_%d" % (label(ty), cs["idx"])] = cs

    def compp(item):
        bank, (f, cl) = item
        return bank, unit_program(ctx, tree, "pending_" + bank, f, [])
    for bank, (pr, hooked, asm) in vt.pmap(compp, sorted(punits.items())):
        prog += pr
        unitsrc["pending_" + bank] = (open(punits[bank][0]).read(), asm, None)
        for cs in punits[bank][1]:
            casemap["pending_%s:p_%d" % (bank, cs["idx"])] = cs

    def compl(item):
        cls, (f, cl) = item
        return cls, unit_program(ctx, tree, "livecalls_" + cls, f, [])
    # (the LiveCalls programs are judged on their values; their emitted code joins the static corpus in the thorough tier)
    for cls, (pr, hooked, asm) in vt.pmap(compl, [] if q else sorted(lunits.items())):
        prog += pr
        unitsrc["livecalls_" + cls] = (open(lunits[cls][0]).read(), asm, None)
    f = os.path.join(d, "casts.c")
    open(f, "w").write(render_casts())
    pr, hooked, asm = unit_program(ctx, tree, "casts", f, [])
    prog += pr
    unitsrc["casts"] = (open(f).read(), asm, None)
    ctx.phase("discard compiled (%d cases, hooked=%s)" % (len(cases), hooked_any))
    # ---- repository corpus
    srcs = sorted(glob.glob(tree + "/test/*.c")) + sorted(glob.glob(tree + "/*.c"))
    if q:
        srcs = vt.subsample(srcs, ctx.seed, 3)

    def comp2(src):
        label = os.path.relpath(src, tree)
        return label, src, unit_program(ctx, tree, label, src, [tree + "/test", tree])
    for label, src, (pr, hooked, asm) in vt.pmap(comp2, srcs):
        prog += pr
        unitsrc[label] = ("", asm, label)
    ctx.phase("corpus compiled (%d files, %d functions, %d instructions)" % (len(srcs), len(prog), sum(len(p["code"]) for p in prog)))
    modes = ["fn", "st"] if hooked_any else ["fn"]
    if not hooked_any:
        ctx.assumptions.append("tree under test has no H5 hook: per-function analysis only, callee return classes from prototypes "
                               "(calls through pointers make the x87 depth unknown for the rest of the path)")
    byfn = {p["fn"]: p for p in prog}
    # one TLC run per chunk of the corpus (bounds the size of the program constant TLC has to hold)
    viol, chunk, size, nchunk = [], [], 0, 0
    for p in prog + [None]:
        if p is None or size + len(p["code"]) > 450000:
            if chunk:
                viol += run_stackdisc(ctx, chunk, "corpus%d" % nchunk, modes, workers=6 if q else 8)
                nchunk += 1
            chunk, size = [], 0
        if p is not None:
            chunk.append(p)
            size += len(p["code"])
    ctx.phase("stackdisc")
    report_static(ctx, viol, byfn, casemap, unitsrc)
    nst = sum(len(p["starts"]) for p in prog)
    for p in prog:
        ctx.note_case(p["fn"], nontrivial=len(p["code"]) > 12)
    ctx.cov["traces_validated_against_impl"] += len(prog) + (nst if hooked_any else 0)
    ctx.sample(dict(kind="function of the emitted code checked", fn=prog[len(prog) // 2]["fn"], instructions=len(prog[len(prog) // 2]["code"]),
                    statements=len(prog[len(prog) // 2]["starts"])))
    # ---- replay in the other direction: run the Discard programs with probes
    results = run_discard_programs(ctx, tree, units)
    nrun = 0
    for ty, (rc, res) in sorted(results.items()):
        for cs in units[ty][1]:
            rows = res.get(cs["idx"], [])
            base = cs["sig"]
            ctx.note_case("run:" + base, nontrivial=True)
            if len(rows) != 3:
                ctx.report(base + ":program-died", "discard_%s exited with %s before finishing case %d (%d of 3 lines)" % (ty, rc, cs["idx"], len(rows)),
                           case=dict(kind="run", type=ty, case=cs, source=open(units[ty][0]).read()))
                continue
            for (n, diff, tag, ok) in rows:
                nrun += 1
                what = "rsp-residue" if diff != 0 else "x87-residue" if tag != 0xffff else "ld-corrupted" if ok != 1 else None
                if what:
                    ctx.report("%s:run-%s" % (base, what), "%s, %d iterations: rsp moved by %d bytes, x87 tag word %#06x (0xffff = empty), later long double computation %s"
                               % (cs["text"], n, diff, tag, "correct" if ok == 1 else "WRONG"),
                               case=dict(kind="run", type=ty, case=cs, n=n, observed=dict(rsp_diff=diff, x87_tag=tag, ld_ok=ok),
                                         expected=dict(rsp_diff=0, x87_tag=0xffff, ld_ok=1), source=open(units[ty][0]).read()))
                    break
    ctx.cov["traces_validated_against_impl"] += nrun
    nlive = run_livecalls(ctx, tree, lunits)
    npend = run_pending(ctx, tree, punits)
    ctx.sample(dict(kind="discard program run", case=cases[len(cases) // 2], construct=construct(cases[len(cases) // 2]["ctx"], expr(cases[len(cases) // 2]["form"], cases[len(cases) // 2]["type"]), 0), iterations=list(NS)))
    ctx.phase("replay")
    ctx.assumptions += ["frame set-up/tear-down (push rbp / mov rsp,rbp / sub $n,rsp ... mov rbp,rsp / pop rbp) is pattern-recognised; rsp8 is relative to the post-prologue value",
                        "rsp arithmetic between the `# V:alloca` markers is the storage deliberately obtained with alloca/VLA and is exempt",
                        "inline asm statements are interpreted with the same effect table as generated code"]
    return ctx.finish(rule="case = one function of the emitted code (explored from its entry and from each of its statements) or one (form, type, context) Discard program run with N in {1, 9, 100000}; non-trivial = more than 12 instructions; distinct = distinct function / (form, type, context)",
                      exhaustive=not q,
                      extra=dict(functions=len(prog), statements=nst, instructions=sum(len(p["code"]) for p in prog),
                                 discard_cases=len(cases), chain_cases=len(chains), livecall_cases=nlive, jump_cases=len(jumps), pending_cases=npend, discard_runs=nrun, hooked=bool(hooked_any)))


def unit_for(cs):
    """-> (unit label, C source, function-name prefixes) of the one-case unit a recorded case belongs to"""
    sig = cs.get("sig") or ""
    if sig.startswith("jumpout:"):
        return "jumps", render_jumps([cs])
    if sig.startswith("pending:"):
        return "pending_" + cs["bank"], render_pending(cs["bank"], [cs])
    if sig.startswith("chain:"):
        return "chains_0", render_chains([cs])
    return "discard_" + cs["type"], render_unit(cs["type"], [cs])


def replay(ctx, path):
    c = json.load(open(os.path.join(path, "case.json")))
    if "kind" not in c:
        c = c.get("case") or c          # written by ctx.report: {sig, what, case}
    tree = ctx.build()
    if c.get("kind") == "static":
        if c.get("case"):
            cs = c["case"]
            lab, src = unit_for(cs)
            f = os.path.join(ctx.tmp("c20-src"), lab + ".c")
            open(f, "w").write(src)
            prog, hooked, asm = unit_program(ctx, tree, lab, f, [])
            casemap = {"%s:%s_%d" % (lab, pfx, cs["idx"]): cs for pfx in ("c", "r", "p")}
        else:
            src = os.path.join(tree, c["source"])
            prog, hooked, asm = unit_program(ctx, tree, c["source"], src, [tree + "/test", tree])
            prog = [p for p in prog if p["fn"] == c["unit"] + ":" + c["function"]]
            casemap = {}
        viol = run_stackdisc(ctx, prog, "replay", ["fn", "st"] if hooked else ["fn"], workers=2)
        report_static(ctx, viol, {p["fn"]: p for p in prog}, casemap, {})
    elif c.get("kind") == "run":
        cs = c["case"]
        lab, src = unit_for(cs)
        f = os.path.join(ctx.tmp("c20-src"), lab + ".c")
        open(f, "w").write(src)
        rc, res = run_discard_programs(ctx, tree, {lab: (f, [cs])})[lab]
        for (n, diff, tag, ok) in res.get(cs["idx"], []):
            if diff != 0 or tag != 0xffff or ok != 1:
                ctx.report((cs.get("sig") or "discard:%s:%s:%s" % (cs["form"], cs["type"], cs["ctx"])) + ":run", "N=%d rsp_diff=%d tag=%#x ld_ok=%d" % (n, diff, tag, ok), case=c)
    elif c.get("kind") == "pending":
        cs = c["case"]
        f = os.path.join(ctx.tmp("c20-src"), "pending_%s.c" % cs["bank"])
        open(f, "w").write(render_pending(cs["bank"], [cs]))
        run_pending(ctx, tree, {cs["bank"]: (f, [cs])})
    return ctx.finish(rule="replay of one recorded case")
