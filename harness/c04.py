"""C04 — every lvalue designates exactly its object's bytes and bits.

1. TLC, exhaustive: tla/mem/LValue.tla (Level A object memory + lvalues on top of Layout.tla's
   LayoutA; RoundTrip / Frame / FormsAgree / PathsDisjoint; byte-loop copy Level I), BitFieldI.tla
   (chibicc's shift pair and mask/merge at scaled unit sizes, every value and neighbouring-bit
   pattern), FrameI.tla (assign_lvar_offsets, all frames of <= 4 locals over the alignment
   alphabet), AllocaI.tla (the alloca temp-area shuffle, sizes 1..48 x pending temporaries 0..3).
   Sensitivity controls: a wrong variant of each must be rejected by TLC.
2. Generate -> replay as a stepwise trace: every selected shape of LValue.tla is walked (a store
   through every member/element path, op-assignments, whole-aggregate copy, zero fill); the walk is
   rendered as a C function (storage x spelling rotate), compiled by the chibicc of the tree under
   test, and the hex dump of the object, its two guards and the copy source after every step must
   equal Level A's memory.  VLA / alloca blocks: contents survive, blocks are disjoint and aligned.
   gcc is the tie-break.
"""
import json, os, hashlib
import vt
from vt import Infra

CT = dict(char="char", uchar="unsigned char", short="short", ushort="unsigned short", int="int", uint="unsigned",
          long="long", ptr="char *", float="float", double="double", ldouble="long double",
          al8_char="_Alignas(8) char", al16_char="_Alignas(16) char")
BFT = dict(char="char", short="short", int="int", uint="unsigned", long="long", uchar="unsigned char",
           ushort="unsigned short", ulong="unsigned long", bool="_Bool", enum="enum E")
PRELUDE = r'''
int printf(const char *, ...);
void *memcpy(void *, const void *, unsigned long);
void *malloc(unsigned long);
void *alloca(unsigned long);
enum E { EN = -1, E0, E1 };
static void fill(void *p, int n, int b) { unsigned char *c = p; for (int j = 1; j <= n; j++) c[j - 1] = (b + 7 * j) % 256; }
static void hex(const void *p, int n) { const unsigned char *c = p; for (int j = 0; j < n; j++) printf("%02x", c[j]); }
static void dump(int i, int k, long r, long g, void *pre, void *obj, int n, void *post, void *src) {
  printf("D %d %d %016lx %016lx ", i, k, r, g); hex(pre, 16); printf(" "); hex(obj, n); printf(" "); hex(post, 16);
  printf(" "); hex(src, n); printf("\n"); }
static int disj(void *a, unsigned long na, void *b, unsigned long nb) {
  unsigned long x = (unsigned long)a, y = (unsigned long)b; return x + na <= y || y + nb <= x; }
static void dirty(void) { volatile unsigned char junk[512]; for (int j = 0; j < 512; j++) junk[j] = 0xee; }
/* storage classes pgend / pgstart: the object's last (first) byte is the last (first) byte of a page and the page
   behind (before) it is inaccessible, so an access that is wider than the object or starts before it faults;
   the handler names the walk and the step and the program goes on with the next walk */
void *mmap(void *, unsigned long, int, int, int, long);
int mprotect(void *, unsigned long, int);
int __sigsetjmp(void *, int);
void siglongjmp(void *, int);
void *signal(int, void *);
int fflush(void *);
static void *pgalloc(unsigned long n, int where) {
  char *m = mmap(0, 3 * 4096, 0, 0x22, -1, 0);
  mprotect(m + 4096, 4096, 3);
  return where == 1 ? m + 8192 - n : m + 4096;
}
static long env_[64]; static volatile int cur_i, cur_k;
static void onfault(int sig) { printf("\nX %d %d %d\n", cur_i, cur_k, sig); siglongjmp(env_, 1); }
#define INSTALL signal(11, onfault); signal(7, onfault)
#define TRY(f) do { if (!__sigsetjmp(env_, 1)) f(); } while (0)
'''
IVAL = dict(ones=[255] * 8, pat=[165, 60, 90, 195, 105, 150, 30, 113], neg=[91, 194, 37, 188, 70, 169, 225, 142],
            one=[1, 0, 0, 0, 0, 0, 0, 0], zero=[0] * 8)
OPC = [90, 165, 15, 240, 51, 204, 85, 170]
STORAGES = ["global", "static", "auto", "heap", "complit", "pgend", "pgstart"]
CLASSIC = STORAGES[:5]


def copy_how(w):
    """spelling of the whole-aggregate copy: obj = src / *p = *q / *p = ret(q) (struct returned by value)"""
    if w.get("copyhow"):
        return w["copyhow"]
    if w["storage"] == "pgend":       # `return *q` moves a small aggregate through registers: the site where widths matter
        return "ret"
    if w["storage"] == "pgstart":
        return "deref"
    return pick(["assign", "deref", "ret"], w["sid"], w["salt"], "c")
BASEFORMS = ["dot", "arrow", "addr_arrow", "deref_dot", "charcast"]
IDXFORMS = ["index", "ptr_add", "rev_index"]


def le(bs):
    return sum(b << (8 * j) for j, b in enumerate(bs))


def lit(bs):
    return "(long)0x%016xUL" % le(bs)


# ------------------------------------------------------------------ rendering
def decl(t, name):
    k = t["k"]
    if k == "int" or k == "fp":
        return "%s %s" % (CT[t["id"]], name)
    if k == "arr":
        return decl(t["sub"][0], "%s[%d]" % (name, t["n"]))
    if k == "bf":
        return "%s %s:%d" % (BFT[t["t"]], name if t["named"] else "", t["w"])
    at = []
    if t["packed"]:
        at.append("packed")
    if t["aln"]:
        at.append("aligned(%d)" % t["aln"])
    a = " __attribute__((%s))" % ", ".join(at) if at else ""
    body = " ".join(decl(m, "" if (m["k"] == "agg" and m["anon"]) else "%s_%d" % (name or "m", j)) + ";"
                    for j, m in enumerate(t["sub"]))
    return "%s%s { %s } %s" % ("union" if t["union"] else "struct", a, body, "" if t.get("anon") else name)


def top_decl(t, i):
    """typedef of the top-level aggregate; members are named by their index path (m_0, m_1_0 ...)"""
    at = " __attribute__((packed))" if t["packed"] else ""
    names = {}

    def body(tt, prefix, path):
        # adversarial member names: an EARLIER member's name has every later sibling's name as a proper prefix
        # (aaa, aa, a), and the names hoisted out of anonymous members extend a sibling's name (aa_aa, aa_a),
        # so a member lookup that accepts a prefix match, or the first match, resolves to the wrong member
        out = []
        nsub = len(tt["sub"])
        for j, m in enumerate(tt["sub"]):
            nm = (prefix + "_" if prefix else "") + "a" * (nsub - j)
            names[path + (j,)] = nm
            if m["k"] == "agg":
                inner = body(m, nm, path + (j,))
                a2 = []
                if m["packed"]:
                    a2.append("packed")
                if m["aln"]:
                    a2.append("aligned(%d)" % m["aln"])
                a2 = " __attribute__((%s))" % ", ".join(a2) if a2 else ""
                out.append("%s%s { %s } %s;" % ("union" if m["union"] else "struct", a2, inner, "" if m["anon"] else nm))
            elif m["k"] == "arr":
                # arrays of aggregates: declare the element type inline
                el, dims = m, ""
                while el["k"] == "arr":
                    dims += "[%d]" % el["n"]
                    el = el["sub"][0]
                if el["k"] == "agg":
                    inner = body(el, nm + "e", path + (j, "e"))
                    out.append("%s { %s } %s%s;" % ("union" if el["union"] else "struct", inner, nm, dims))
                else:
                    out.append("%s %s%s;" % (CT[el["id"]], nm, dims))
            elif m["k"] == "bf":
                out.append("%s %s:%d;" % (BFT[m["t"]], nm if m["named"] else "", m["w"]))
            else:
                out.append("%s %s;" % (CT[m["id"]], nm))
        return " ".join(out)
    b = body(t, "", ())
    return "typedef %s%s { %s } T%d;" % ("union" if t["union"] else "struct", at, b, i), names


def path_expr(t, names, hops, base, idxform, arrow=None):
    """C spelling of a path: anonymous members are not spelled; base is an expression of the aggregate type,
    arrow (if given) a pointer expression used for the first member access"""
    e, cur, key = base, t, ()
    first = True
    for n, h in enumerate(hops):
        if h["h"] == "m":
            m = cur["sub"][h["i"]]
            key = key + (h["i"],)
            if not (m["k"] == "agg" and m["anon"]):
                e = "%s->%s" % (arrow, names[key]) if (first and arrow) else "%s.%s" % (e, names[key])
                first = False
            cur = m
        else:
            lastidx = all(x["h"] != "i" for x in hops[n + 1:])
            if lastidx and idxform == "ptr_add":
                e = "(*(%s + %d))" % (e, h["i"])
            elif lastidx and idxform == "rev_index":
                e = "(%d[%s])" % (h["i"], e)
            else:
                e = "%s[%d]" % (e, h["i"])
            cur = cur["sub"][0]
            if cur["k"] == "agg":
                key = key + ("e",)
    return e


def pick(seq, *key):
    h = int(hashlib.sha1(repr(key).encode()).hexdigest()[:8], 16)
    return seq[h % len(seq)]


def render_walk(i, w):
    """One walk = one C function; returns (source, expected lines)."""
    t, paths, steps = w["shape"], w["paths"], w["steps"]
    storage = w["storage"]
    td, names = top_decl(t, i)
    src = [td]
    sz = t["sz"]
    g = "G%d_" % i
    if storage == "global":
        src.append("char %spre[16]; T%d %sobj; char %spost[16]; T%d %ssrc;" % (g, i, g, g, i, g))
    if copy_how(w) == "ret":
        src.append("static T%d ret%d(T%d *q) { return *q; }" % (i, i, i))
    zf = [s for s in steps if s["a"]["act"] == "zerofill"]
    f = ["static void f%d(void) {" % i]
    if storage == "global":
        f.append(" char *pre = %spre, *post = %spost; T%d *p = &%sobj, *q = &%ssrc;" % (g, g, i, g, g))
        OBJ = "%sobj" % g
    elif storage == "static":
        f.append(" static char pre[16]; static T%d obj; static char post[16]; static T%d src; T%d *p = &obj, *q = &src;" % (i, i, i))
        OBJ = "obj"
    elif storage == "auto":
        f.append(" char pre[16]; T%d obj; char post[16]; T%d src; T%d *p = &obj, *q = &src;" % (i, i, i))
        OBJ = "obj"
    elif storage == "heap":
        f.append(" char *pre = malloc(16); T%d *p = malloc(sizeof(T%d)); char *post = malloc(16); T%d *q = malloc(sizeof(T%d));" % (i, i, i, i))
        OBJ = "(*p)"
    elif storage in ("pgend", "pgstart"):
        wh = 1 if storage == "pgend" else 2
        f.append(" char *pre = malloc(16); T%d *p = pgalloc(sizeof(T%d), %d); char *post = malloc(16); T%d *q = pgalloc(sizeof(T%d), %d);" % (i, i, wh, i, i, wh))
        OBJ = "(*p)"
    else:
        f.append(" char *pre = (char[16]){0}; T%d *p = &(T%d){0}; char *post = (char[16]){0}; T%d *q = &(T%d){0};" % (i, i, i, i))
        OBJ = "(*p)"
    f.append(" cur_i = %d; cur_k = 0; fill(pre, 16, 33); fill(p, sizeof *p, 97); fill(post, 16, 161); fill(q, sizeof *q, 19);" % i)
    f.append(' printf("A %d %%d %%d %%d\\n", (int)sizeof(T%d), (int)((unsigned long)p %% %d), disj(pre, 16, p, sizeof *p) && disj(post, 16, p, sizeof *p)'
             ' && disj(pre, 16, post, 16) && disj(q, sizeof *q, p, sizeof *p) && disj(q, sizeof *q, pre, 16) && disj(q, sizeof *q, post, 16));'
             % (i, i, t["al"]))
    for s in steps:
        a, k = s["a"], s["step"]
        act = a["act"]
        f.append(" cur_k = %d;" % k)
        if act == "nested":
            p, r = paths[a["pi"] - 1], paths[a["pj"] - 1]

            def spell(pp, salt):
                bf = pick(BASEFORMS[:4], w["sid"], k, w["salt"], salt)
                ix = pick(IDXFORMS, w["sid"], k, w["salt"], salt + "i")
                if bf == "arrow":
                    return path_expr(t, names, pp["hops"], None, ix, arrow="p")
                if bf == "addr_arrow":
                    return path_expr(t, names, pp["hops"], None, ix, arrow="(&%s)" % OBJ)
                return path_expr(t, names, pp["hops"], "(*p)" if bf == "deref_dot" else OBJ, ix)
            e, er = spell(p, "np"), spell(r, "nr")
            plain = path_expr(t, names, p["hops"], "(*p)", "index")
            plain_r = path_expr(t, names, r["hops"], "(*p)", "index")
            cp = "(char *)" if p["id"] == "ptr" else ""
            cr = "(char *)" if r["id"] == "ptr" else ""
            v = IVAL[a["v"]] if r["t"] != "bool" else (IVAL["zero"] if a["v"] == "zero" else IVAL["one"])
            how = a["op"]
            if how == "chain":
                x = "%s = %s(long)(%s = %s%s)" % (e, cp, er, cr, lit(v))
            elif how == "call":
                src.append("static long wr%d_%d(T%d *p) { %s = %s%s; return %s; }" % (i, k, i, plain_r, cr, lit(v), lit(IVAL["pat"])))
                x = "%s = %swr%d_%d(p)" % (e, cp, i, k)
            elif how == "preinc":
                x = "%s = %s(long)(++%s)" % (e, cp, er)
            else:
                x = "%s = %s(long)(%s++)" % (e, cp, er)
            f.append(" { long r = (long)(%s); long g = (long)%s; dump(%d, %d, r, g, pre, p, sizeof *p, post, q); }" % (x, plain, i, k))
        elif act in ("store", "opassign", "storeagg"):
            p = paths[a["pi"] - 1]
            bform = pick(BASEFORMS, w["sid"], k, w["salt"], "b")
            iform = pick(IDXFORMS, w["sid"], k, w["salt"], "i")
            if bform == "charcast" and p["k"] == "bf":
                bform = "arrow"
            if bform == "arrow":
                e = path_expr(t, names, p["hops"], None, iform, arrow="p")
            elif bform == "addr_arrow":
                e = path_expr(t, names, p["hops"], None, iform, arrow="(&%s)" % OBJ)
            elif bform == "deref_dot":
                e = path_expr(t, names, p["hops"], "(*p)", iform)
            else:
                e = path_expr(t, names, p["hops"], OBJ, iform)
            plain = path_expr(t, names, p["hops"], "(*p)", "index")
            if bform == "charcast":
                e = "(*(__typeof__(%s) *)((char *)p + %d))" % (plain, p["lv"]["off"])
            isptr = p["id"] == "ptr"
            cast = "(char *)" if isptr else ""
            if act == "store":
                v = IVAL[a["v"]] if p["t"] != "bool" else (IVAL["zero"] if a["v"] == "zero" else IVAL["one"])
                f.append(" { long r = (long)(%s = %s%s); long g = (long)%s; dump(%d, %d, r, g, pre, p, sizeof *p, post, q); }"
                         % (e, cast, lit(v), plain, i, k))
            elif act == "opassign":
                op = a["op"]
                if isptr and op in ("or", "xor", "and"):
                    x = "%s = (char *)((unsigned long)%s %s %s)" % (e, e, {"or": "|", "xor": "^", "and": "&"}[op], lit(OPC))
                else:
                    x = {"or": "%s |= %s" % (e, lit(OPC)), "xor": "%s ^= %s" % (e, lit(OPC)), "and": "%s &= %s" % (e, lit(OPC)),
                         "add1": "%s += 1" % e, "postinc": "%s++" % e, "preinc": "++%s" % e, "predec": "--%s" % e,
                         "postdec": "%s--" % e}[op]
                f.append(" { long r = (long)(%s); long g = (long)%s; dump(%d, %d, r, g, pre, p, sizeof *p, post, q); }"
                         % (x, plain, i, k))
            else:
                bs = ", ".join(str(max(b, 0)) for b in a["res"])
                f.append(" { static unsigned char vb[] = {%s}; __typeof__(%s) tmp; memcpy(&tmp, vb, sizeof tmp); %s = tmp;"
                         " dump(%d, %d, 0, 0, pre, p, sizeof *p, post, q); }" % (bs, plain, e, i, k))
        elif act == "copy":
            how = copy_how(w)
            x = {"assign": "%s = %s" % (OBJ, "(*q)" if storage in ("heap", "complit", "pgend", "pgstart") else ("%ssrc" % g if storage == "global" else "src")),
                 "deref": "*p = *q", "ret": "*p = ret%d(q)" % i}[how]
            f.append(" %s; dump(%d, %d, 0, 0, pre, p, sizeof *p, post, q);" % (x, i, k))
        elif act == "zerofill":
            f.append(" { T%d z; dirty(); zf%d(&z); dump(%d, %d, 0, 0, pre, &z, sizeof z, post, q); }" % (i, i, i, k))
    f.append("}")
    for s in zf:
        p = paths[s["a"]["pi"] - 1]
        if p["k"] in ("int", "bf"):
            v = IVAL[s["a"]["v"]] if p["t"] != "bool" else IVAL["one"]
            init = ("(char *)" if p["id"] == "ptr" else "") + lit(v)
            pre = ""
        else:
            # first leaf is a floating member: initialise from a variable holding Level A's value bytes
            o, n = p["lv"]["off"], p["lv"]["size"]
            bs = ", ".join(str(max(b, 0)) for b in s["mem"]["obj"][o:o + n])
            pre = "static unsigned char vb[] = {%s}; %s tv; memcpy(&tv, vb, sizeof tv); " % (bs, CT[p["id"]])
            init = "tv"
        src.append("static void zf%d(T%d *out) { %sT%d z = { %s }; *out = z; }" % (i, i, pre, i, init))
    return "\n".join(src + f) + "\n"


def hexmask(bs):
    return "".join("--" if b < 0 else "%02x" % b for b in bs)


def get_bits(mem, pos, w, sg):
    v = 0
    for b in range(w):
        byte = mem[(pos + b) // 8]
        if byte < 0:
            return None
        v |= ((byte >> ((pos + b) % 8)) & 1) << b
    if sg and (v >> (w - 1)) & 1:
        v |= ((1 << 64) - 1) ^ ((1 << w) - 1)
    return v


def eq_masked(exp, got):
    return len(exp) == len(got) and all(e == "-" or e == g for e, g in zip(exp, got))


def judge_walk(i, w, lines):
    """Compare the program's lines for walk i with Level A.  Returns list of (sig, what) - at most the first
    divergence (after a divergence the memories differ and later steps are not judged)."""
    t, paths = w["shape"], w["paths"]
    if i in lines.get(("skipped",), ()):
        return []
    a0 = lines.get(("A", i))
    if a0 is None:
        return [("walk:no-output", "no output for the walk")]
    if int(a0[0]) != t["sz"]:
        return [("layout:sizeof", "sizeof %s, Level A (Layout.tla) %d" % (a0[0], t["sz"]))]
    if a0[1] != "0":
        return [("addr:%s:misaligned" % w["storage"], "object address %% %d = %s" % (t["al"], a0[1]))]
    if a0[2] != "1":
        return [("addr:%s:overlap" % w["storage"], "object, guards and source overlap")]
    soft = []
    for s in w["steps"]:
        a, k = s["a"], s["step"]
        got = lines.get(("D", i, k))
        act = a["act"] + (":" + a["op"] if a["op"] else "")
        pid = paths[a["pi"] - 1]["id"] if a["pi"] else t["id"]
        flt = lines.get(("X", i))
        if flt is not None and int(flt[0]) == k:
            # Level I (LValue.tla AccessI): the storage unit chibicc addresses for this bit-field reaches beyond the object
            over = any(paths[j - 1].get("over") for j in (a["pi"], a.get("pj", 0)) if j)
            if a["act"] == "copy":
                pid = "%s:sz%d" % (copy_how(w), t["sz"])
            return [("%s:%s:fault%s" % (act, pid, ":unit-beyond-object" if over else ""),
                     "step %d: signal %s - an access outside the object, which %s at a page boundary" % (k, flt[1], "ends" if w["storage"] == "pgend" else "starts"))]
        if got is None:
            return [("%s:%s:no-output" % (act, pid), "step %d printed nothing" % k)]
        r, g, pre, obj, post, srcm = got
        m = s["mem"]
        if not eq_masked(hexmask(m["pre"]), pre) or not eq_masked(hexmask(m["post"]), post):
            return [("%s:%s:guard" % (act, pid), "step %d: guard object changed: pre %s post %s" % (k, pre, post))]
        if a["act"] != "zerofill" and not eq_masked(hexmask(m["src"]), srcm):
            return [("%s:%s:source" % (act, pid), "step %d: the source object of the copy changed" % k)]
        if not eq_masked(hexmask(m["obj"]), obj):
            return [("%s:%s:mem" % (act, pid), "step %d (%s path %d %s): memory %s, Level A %s" % (k, act, a["pi"], a["v"], obj, hexmask(m["obj"])))]
        if a["act"] in ("store", "opassign", "nested"):
            p = paths[a["pi"] - 1]
            lv = p["lv"]
            pos = lv["off"] * 8 + lv.get("bitoff", 0) if "unit" not in lv else a["pos"]
            wd = a["w"]
            eg = get_bits(m["obj"], a["pos"], wd, p["sg"])
            if eg is not None and int(g, 16) != eg:
                soft.append(("%s:%s:load" % (act, pid), "step %d: read back %s, Level A %016x" % (k, g, eg)))
            er = le(a["res"])
            if eg is not None and int(r, 16) != er:
                soft.append(("%s:%s:value" % (act, pid), "step %d: value of the expression %s, Level A %016x" % (k, r, er)))
    return soft


# ------------------------------------------------------------------ compile / run
def run_batch(ctx, compiler, tree, items, render, tag, prelude=PRELUDE):
    """items = [(i, case)]; one C file; returns (dict of parsed lines | None, info)"""
    d = ctx.tmp("prog-%s" % tag)
    src = "%s/b%s-%d.c" % (d, compiler, items[0][0])
    with open(src, "w") as fh:
        fh.write(prelude)
        for i, c in items:
            fh.write(render(i, c))
        fh.write("#ifndef TRY\n#define TRY(f) f()\n#define INSTALL\n#endif\n")
        fh.write("int main(void) {\n INSTALL;\n" + "".join(" TRY(f%d);\n" % i for i, _ in items) + " return 0; }\n")
    exe = src[:-2] + ".exe"
    if compiler == "gcc":
        cmd = ["gcc", "-w", "-std=gnu11", "-O0", "-o", exe, src]
    else:
        cmd = [tree + "/chibicc", "-I" + tree + "/include", "-o", exe, src]
    p = vt.run_limited(cmd, timeout=180)
    if p.returncode != 0:
        return None, ("compile", p.returncode, (p.stderr or "")[-500:])
    r = vt.run_limited([exe], timeout=60, mem_gb=1)
    try:
        os.unlink(exe)
    except OSError:
        pass
    if r.returncode != 0:
        return None, ("run", r.returncode, (r.stdout or "")[-300:] + (r.stderr or "")[-300:])
    lines = {}
    for l in r.stdout.splitlines():
        f = l.split()
        if not f:
            continue
        if f[0] == "A":
            lines[("A", int(f[1]))] = f[2:]
        elif f[0] == "D":
            lines[("D", int(f[1]), int(f[2]))] = f[3:]
        else:
            lines[(f[0], int(f[1]))] = f[2:]
    return lines, None


def run_all(ctx, compiler, tree, items, render, tag, per, prelude=PRELUDE, limit=12):
    """batches in parallel; failed batches are bisected; returns (lines, bad=[(i, case, info)])"""
    batches = [items[k:k + per] for k in range(0, len(items), per)]
    lines, bad = {}, []

    def rec(batch):
        l, info = run_batch(ctx, compiler, tree, batch, render, tag, prelude)
        if l is not None:
            lines.update(l)
        elif len(batch) == 1:
            bad.append((batch[0][0], batch[0][1], info))
        elif len(bad) < limit:
            h = len(batch) // 2
            rec(batch[:h])
            rec(batch[h:])
        else:
            # enough culprits named (they are reported); the rest of this batch is left unjudged
            lines.setdefault(("skipped",), set()).update(i for i, _ in batch)
    vt.pmap(rec, batches, workers=min(vt.NCPU, 12))
    return lines, bad


def has_fp(t):
    return t["k"] == "fp" or any(has_fp(m) for m in t["sub"])


def check_walks(ctx, tree, walks, tag="walk", first=0):
    # returning by value a packed struct of 9..16 bytes with a member across the eightbyte boundary aborts the compiler (open finding C04-F2):
    # those shapes are copied by assignment in the big batches; two of them keep the by-value return, alone
    # in a batch, so that the finding stays visible without bisecting whole batches
    walks = list(walks)
    nret = 0
    for k, w in enumerate(walks):
        if w["shape"]["packed"] and 8 < w["shape"]["sz"] <= 16 and not w.get("copyhow") and len(walks) > 1:
            how = copy_how(w)
            if how == "ret":
                walks[k] = dict(w, copyhow="deref")
                if nret < 2:
                    nret += 1
                    walks.append(dict(w, copyhow="ret", solo=True))
    items = [(first + k, w) for k, w in enumerate(walks)]
    solo = [it for it in items if it[1].get("solo")]
    lines, bad = run_all(ctx, "chibicc", tree, [it for it in items if not it[1].get("solo")], render_walk, tag, per=60)
    for it in solo:
        l2, b2 = run_all(ctx, "chibicc", tree, [it], render_walk, tag + "-solo", per=1)
        lines.update(l2)
        bad += b2
    for i, w, info in bad:
        gl, gbad = run_all(ctx, "gcc", tree, [(i, w)], render_walk, tag + "-g", per=1)
        if gbad:
            ctx.oracle_disagreements += 1
            continue
        ids = "+".join(m["id"] for m in w["shape"]["sub"])
        import re
        am = re.search(r"(\w+): Assertion", info[2] or "")
        ctx.report("walk:%s:%s" % (info[0], "assert:" + am.group(1) if am else "crash" if info[1] not in (0, 1) else "rejected"),
                   "chibicc %s rc=%s on shape %s (%s): %s" % (info[0], info[1], ids, w["storage"], info[2]),
                   case=dict(kind="walk", walk=w, index=i, source=PRELUDE + render_walk(i, w)))
    failing = []
    badidx = set(i for i, _, _ in bad)
    for i, w in items:
        ctx.note_case("%s:%d:%s:%d" % (tag, w["sid"], w["storage"], w["salt"]), nontrivial=len(w["steps"]) >= 2)
        if i in badidx:
            continue
        v = judge_walk(i, w, lines)
        if v:
            failing.append((i, w, v))
    if failing:
        glines, _ = run_all(ctx, "gcc", tree, [(i, w) for i, w, _ in failing], render_walk, tag + "-gcc", per=60)
        for i, w, v in failing:
            gv = judge_walk(i, w, glines)
            if gv:                                   # the reference compiler disagrees with Level A too (on those signatures)
                ctx.cov.setdefault("oracle_disagreement_examples", [])
                if len(ctx.cov["oracle_disagreement_examples"]) < 5:
                    ctx.cov["oracle_disagreement_examples"].append(dict(shape="+".join(m["id"] for m in w["shape"]["sub"]), gcc=gv[0], chibicc=v[0]))
            ids = "+".join(m["id"] for m in w["shape"]["sub"])
            kind = "union" if w["shape"]["union"] else "packed" if w["shape"]["packed"] else "struct"
            gs = set(x[0] for x in gv)
            seen = set()
            for sig, what in v:
                if sig in seen:
                    continue
                seen.add(sig)
                if sig in gs:
                    ctx.oracle_disagreements += 1
                    continue
                ctx.report(sig, "%s {%s} (%s): %s" % (kind, ids, w["storage"], what),
                           case=dict(kind="walk", walk=w, index=i, source=PRELUDE + render_walk(i, w)))
    ctx.cov["traces_validated_against_impl"] += len(items) - len(bad)
    return lines


def load_walks(path):
    rows = vt.read_ndjson(path)
    by = {}
    for r in rows:
        by.setdefault(r["sid"], []).append(r)
    walks = []
    for sid in sorted(by):
        steps = sorted(by[sid], key=lambda r: r["step"])
        if steps[0]["step"] != 1 or [s["step"] for s in steps] != list(range(1, len(steps) + 1)):
            raise Infra("walk %s is not a contiguous step sequence" % sid)
        walks.append(dict(sid=sid, shape=steps[0]["shape"], paths=steps[0]["paths"], vm=steps[0]["vm"],
                          steps=[dict(step=s["step"], a=s["a"], mem=s["mem"]) for s in steps]))
    return walks


def with_storage(walks, seed, all_storages):
    out = []
    for n, w in enumerate(walks):
        # quick: two of the five classic storage classes (rotating), the page-end placement for every shape and
        # the page-start placement for every other one
        sts = STORAGES if all_storages else ([CLASSIC[(n + seed) % 5], CLASSIC[(n + seed + 2) % 5], "pgend"] + (["pgstart"] if (n + seed) % 2 == 0 else []))
        for s in sts:
            out.append(dict(w, storage=s, salt=seed))
    return out


# ------------------------------------------------------------------ run
def tlc_models(ctx, q):
    """exhaustive checks + sensitivity controls (run in parallel threads, <= 4 workers each)"""
    jobs = []

    def mc(area, module, cfgbase, what, expect_ok=True, workers=2, **consts):
        def go():
            cfg = ctx.cfg(area, cfgbase, **consts)
            res = ctx.tlc(area, module, cfg, workers=workers, count=expect_ok, heap="4g", timeout=1500)
            return (module, cfgbase, consts, what, expect_ok, res)
        jobs.append(go)
    mc("mem", "LValue", "LValue_mc.cfg", "Level A invariants (free exploration, tiny alphabet)", MaxSteps=1 if q else 2, workers=4)
    mc("mem", "LValue", "LValue_mc.cfg", "byte loop bound size-1 must be rejected", expect_ok=False, MaxSteps=0, Bound=1)
    mc("mem", "BitFieldI", "BitFieldI_mc.cfg", "bit-field shift pair / mask-merge refine Level A", R=6 if q else 8, workers=4)
    for v in ("mask_w1", "sar_shr", "shl_off1", "bool_signed", "w64"):
        mc("mem", "BitFieldI", "BitFieldI_mc.cfg", "wrong bit-field variant %s must be rejected" % v, expect_ok=False, R=6 if v != "bool_signed" else 8, Variant='"%s"' % v)
    mc("mem", "FrameI", "FrameI_mc.cfg", "assign_lvar_offsets: locals disjoint, aligned, inside the frame", MaxLocals=3 if q else 4)
    mc("mem", "FrameI", "FrameI_mc.cfg", "frame layout ignoring _Alignas must be rejected", expect_ok=False, MaxLocals=2, Variant='"no_alignas"')
    for v in ("zero_round8", "zero_down8"):
        mc("mem", "FrameI", "FrameI_mc.cfg", "zero fill of a re-initialised local (%s) must be rejected" % v, expect_ok=False, MaxLocals=2, Variant='"%s"' % v)
    mc("mem", "FrameI", "FrameI_mc.cfg", "alignment > 16 is not honoured (recorded finding)", expect_ok=False, MaxLocals=1, MaxAlign=32)
    mc("mem", "LValue", "LValue_mc.cfg", "bit-field unit beyond the object (recorded finding)", expect_ok=False, MaxSteps=0, UnitCheck=True)
    mc("mem", "AllocaI", "AllocaI_mc.cfg", "alloca shuffle keeps temporaries and blocks (one block, sizes 1..48)", MaxSize=48, MaxBlocks=1)
    mc("mem", "AllocaI", "AllocaI_mc.cfg", "alloca shuffle keeps temporaries and blocks (two blocks)", MaxSize=20 if q else 48, MaxBlocks=2, workers=4)
    for v in ("copy_short", "copy_down", "no_bottom_update"):
        mc("mem", "AllocaI", "AllocaI_mc.cfg", "wrong alloca variant %s must be rejected" % v, expect_ok=False, MaxSize=20, Variant='"%s"' % v)
    mc("mem", "Temps", "Temps_mc.cfg", "one return buffer per type (temporaries of one type coincide) must be rejected", expect_ok=False, Variant='"by_type"')
    for module, cfgbase, consts, what, expect_ok, res in vt.pmap(lambda j: j(), jobs, workers=4):
        if expect_ok and not res.ok:
            p = ctx.replay_dir("tlc-%s" % module)
            open(p + "/counterexample.txt", "w").write(res.trace_text())
            json.dump(dict(kind="tlc", module=module, cfg=cfgbase, consts=consts), open(p + "/case.json", "w"))
            ctx.report("tlc:%s:%s" % (module, res.violated), what, p)
        if not expect_ok and res.ok:
            if "recorded finding" in what:
                continue                      # the defect has been repaired in the model: nothing to report
            raise Infra("sensitivity control failed: TLC accepts %s %s (%s)" % (module, consts, what))
        if not expect_ok and "recorded finding" in what and not res.ok and module == "LValue":
            ctx.report("extent:bitfield-unit-beyond-object", "a bit-field is loaded and stored through a storage unit of its declared type; in a packed struct/union the object can end before that unit does (TLC counterexample in LValue.tla, ExtentOK with UnitCheck = TRUE)")
        elif not expect_ok and "recorded finding" in what and not res.ok:
            ctx.report("frame:overaligned-local", "assign_lvar_offsets: a local with _Alignas(32) is placed at rbp-k*32, but rbp is only 16-byte aligned (TLC counterexample in FrameI.tla, MaxAlign=32)")


def run(ctx):
    q = ctx.quick
    tree = ctx.build()
    ctx.phase("build")
    import concurrent.futures
    ex = concurrent.futures.ThreadPoolExecutor(1)
    fut = ex.submit(tlc_models, ctx, q)
    out = os.path.join(ctx.scratch, "walks.ndjson")
    cfg = ctx.cfg("mem", "LValue_gen.cfg", Seed=ctx.seed % 16, Stride=16 if q else 1)
    g = ctx.tlc("mem", "LValue", cfg, env=dict(OUT=out), workers=4, heap="6g", timeout=3000)
    if not g.ok:
        p = ctx.replay_dir("tlc-LValue-gen")
        open(p + "/counterexample.txt", "w").write(g.trace_text())
        ctx.report("tlc:LValue:gen:%s" % g.violated, "Level A invariant violated on a generated walk", p)
    walks = load_walks(out)
    if len(walks) < 100:
        raise Infra("generator wrote only %d walks" % len(walks))
    ctx.phase("generation")
    ws = with_storage(walks, ctx.seed, all_storages=not q)
    ctx.sample(dict(kind="walk", shape="+".join(m["id"] for m in ws[len(ws) // 2]["shape"]["sub"]), storage=ws[len(ws) // 2]["storage"],
                    steps=[(s["a"]["act"], s["a"]["pi"], s["a"]["v"] or s["a"]["op"]) for s in ws[len(ws) // 2]["steps"]],
                    c_source=render_walk(0, ws[len(ws) // 2])[:1500]))
    check_walks(ctx, tree, ws)
    ctx.phase("walk replay")
    import c04_blocks
    c04_blocks.run_blocks(ctx, tree, q)
    ctx.phase("vla/alloca replay")
    import c04_temps
    c04_temps.run_temps(ctx, tree, q)
    ctx.phase("temporaries replay")
    fut.result()
    ex.shutdown()
    ctx.phase("model checking")
    ctx.assumptions += [
        "Level A's layout is Layout.tla's LayoutA (validated against gcc by C08); shapes on which gcc and chibicc lay bit-fields out differently (packed bit-field crossing a storage unit, D24) are outside the domain",
        "padding bytes are unspecified after a store that covers them and are compared only as 'unchanged' by stores that do not",
        "struct assignment is expected to copy bytes that are only partly covered by bit-fields (both compilers do)",
        "bit-fields of enumerated type use an enum with a negative enumerator (signed on both compilers)",
        "gcc is consulted only for walks on which chibicc disagrees with Level A"]
    return ctx.finish(
        rule="case = one walk of LValue.tla (one aggregate shape: a store through every member/element path, op-assignments, whole-aggregate copy, zero fill) rendered for one storage class with rotating spellings, or one VLA/alloca context x size; non-trivial = at least 2 steps; distinct = distinct (shape, storage, seed) / (context, sizes)",
        exhaustive=not q, extra=dict(walk_shapes=len(walks), walks_replayed=len(ws)))


def replay(ctx, path):
    c = json.load(open(os.path.join(path, "case.json")))
    c = c.get("case") or c
    tree = ctx.build()
    if c.get("kind") == "walk":
        check_walks(ctx, tree, [c["walk"]], first=c.get("index", 0))
    elif c.get("kind") == "blocks":
        import c04_blocks
        c04_blocks.replay_one(ctx, tree, c)
    elif c.get("kind") == "temps":
        import c04_temps
        c04_temps.replay_one(ctx, tree, c)
    elif c.get("kind") == "tlc":
        ctx.tlc_expect_ok("mem", c["module"], ctx.cfg("mem", c["cfg"], **c.get("consts", {})), "replayed model check")
    return ctx.finish(rule="replay of one recorded case")
