"""C09 — macro expansion follows C11 6.10.3 and terminates.

1. TLC, exhaustive (tla/pp/Macro.tla = Prosser's algorithm as a state machine):
   NeverExpandHidden, StepBound (termination within MaxSteps), RescanStable,
   FinalAgree (same result for every order of argument pre-expansion, equal to the
   functional definition), StandardExamples (6.10.3.5 verbatim), <>Finished under
   weak fairness.  Sensitivity control: with HideFix = FALSE (a function-like
   expansion forgets its own name) TLC must find the non-terminating behaviour.
2. Generate -> replay: every finished behaviour of the families F1..F17 is one
   input; `chibicc -E` of the tree under test must print exactly the expected
   pp-token spellings (harness tokenizer, validated against Lexer.tla by C19 and
   here on a sample); a per-process timeout decides termination.  Inputs whose
   result 6.10.3.4p4 leaves unspecified carry both conforming results; inputs with
   a constraint violation / undefined paste / unterminated invocation are "diag":
   the compiler must answer with output or a diagnostic, never a crash or hang.
   gcc -E -P is the tie-break oracle (BUILDER_GUIDE 1.4).
   White space is part of the comparison wherever # makes it visible: a token is
   preceded by a blank iff white space is written before it, or before the item
   (macro name, parameter, #x, l ## r, __LINE__ ...) in whose place it stands (F13);
   only next to an item that VANISHED is a blank optional.  A backslash outside
   literals is a pp-token of its own and is stringized as it is (F14); a # that macro
   replacement puts first on a line never starts a directive (F15).  A directive ends with
   its line (6.10p2; DirLines.tla, F16): a new-line at every token boundary of every kind
   of directive line, the rest of the would-be directive starting the next line.
3. Directive layout (tla/pp/Layout.tla): comments and line splices at every token boundary of
   every kind of directive line; TLC checks that translation phases 2-3 give back the plain
   spelling's logical lines, every text is replayed in a process of its own.
4. Trace validation of hook H3 events against MacroTrace.tla.
"""
import glob, json, os, re, subprocess, threading
import vt, ppcase, pptok
from vt import Infra

_LOCK = threading.Lock()

# family -> (number of cases, quick stride, thorough stride); strides are primes that do not divide the radices
FAMS = {"F1": (140544, 127, 1), "F2": (44376, 53, 1), "F3": (6615, 11, 1), "F4": (12433, 7, 1), "F5": (21, 1, 1), "F6": (26, 1, 1),
        "F7": (36980, 97, 1), "F8": (3200, 3, 1), "F9": (392, 1, 1), "F10": (110, 1, 1), "F11": (216, 1, 1), "F12": (18, 1, 1),
        "F13": (1020, 1, 1), "F14": (24, 1, 1), "F15": (225, 1, 1), "F16": (1495, 1, 1), "F17": (120, 1, 1)}
MERGED = ("F5", "F9", "F10", "F11", "F12", "F14", "F15", "F16", "F17")      # always complete: one TLC run (pseudo-family FS) enumerates them all
MERGED_DYN = ("F6", "F13")                                    # likewise (pseudo-family FD), one order of argument pre-expansion (__COUNTER__)

EXTRAS = [   # closed hand-written list: expansion next to directives, shape of the remaining predefined dynamic macros
    ("emptyexp-then-directive", "#define E\nx E\n#define Y 1\nY\n", ["x", "1"]),
    ("emptyexp-bol-then-directive", "#define E\nE\n#define Y 2\nY\n", ["2"]),
    ("emptyfun-then-directive", "#define F(x)\nx F(1)\n#define Y 3\nY\n", ["x", "3"]),
    ("emptyexp-then-if", "#define E\n#define G() E\nG()\n#if 1\nok\n#endif\n", ["ok"]),
    ("funlike-name-then-directive", "#define f(x) x\nf\n#define Y 4\nY\n", ["f", "4"]),
    ("redefine-between", "#define A 1\nA\n#undef A\n#define A 2\nA\n", ["1", "2"]),
    ("paste-ppnumber-in-if", "#define CAT(a,b) a##b\n#if CAT(0x,FE) == 254 && CAT(0xA,E) == 174\nyes\n#else\nno\n#endif\n", ["yes"]),
    ("paste-ppnumber-then-tokens", "#define CAT(a,b) a##b\n#define S(x) #x\n#define XS(x) S(x)\nXS(CAT(0x,FE) z CAT(1,p) w)\n", ['"0xFE z 1p w"']),
    ("kind-by-space", "#define f (x) y\nf(1)\n#define g(x) (x)\ng(1)\n", ["(", "x", ")", "y", "(", "1", ")", "(", "1", ")"]),
]
# -D values are tokenised from a buffer of their own: a value ending in an exponent letter ends the buffer
EXTRAS_D = [
    ("cmdline-ppnumber-if", ["-DV=0xFE", "-DW=0xAE", "-DX=1e"], "#if V == 254 && W == 174\nyes\n#else\nno\n#endif\n", ["yes"]),
    ("cmdline-ppnumber-stringize", ["-DV=0xFE", "-DX=1p"], "#define S(x) #x\n#define XS(x) S(x)\nXS(V z X w) V\n", ['"0xFE z 1p w"', "0xFE"]),
    # tokens made by ## and # inside the operand of a computed #include (C10 owns the search; the headers are written by
    # run_extras into the directory that -I names)
    ("computed-include-angle-paste", ["-I@DIR@"], "#define INC(n) <c09x##n.h>\n#include INC(2)\n", ["c09x2_ok"]),
    ("computed-include-quote-paste", ["-I@DIR@"], "#define Q(x) #x\n#define INC(n) Q(c09x##n.h)\n#include INC(2)\n", ["c09x2_ok"]),
    ("computed-include-line-paste", ["-I@DIR@"], "#define CAT(a,b) a##b\n#define XCAT(a,b) CAT(a,b)\n#define INC <XCAT(c09x,__LINE__).h>\n#include INC\n", ["c09x4_ok"]),
]
SHAPES = [("__DATE__", r'"[A-Z][a-z][a-z] [ 0-9][0-9] [0-9]{4}"'), ("__TIME__", r'"[0-9]{2}:[0-9]{2}:[0-9]{2}"'),
          ("__TIMESTAMP__", r'"[A-Z][a-z][a-z] [A-Z][a-z][a-z] [ 0-9][0-9] [0-9]{2}:[0-9]{2}:[0-9]{2} [0-9]{4}"'),
          ("__BASE_FILE__", None)]


def tlc_full(ctx, module, cfg, **kw):
    """ctx.tlc, insisting that a run without error explored the whole graph.  Under heavy machine load TLC
    was seen to stop right after the initial states with exit 0 (`N states left on queue`); such a run
    proves nothing, so it is repeated (and is an infrastructure error if it keeps happening)."""
    count = kw.pop("count", True)
    for attempt in range(3):
        if attempt and kw.get("env", {}).get("OUT") and os.path.exists(kw["env"]["OUT"]):
            os.unlink(kw["env"]["OUT"])
        res = ctx.tlc("pp", module, cfg, count=False, **kw)
        if not res.ok or ("Model checking completed" in res.out and res.left == 0):
            if count:
                with _LOCK:                       # several TLC jobs run in threads: keep the sums exact
                    ctx.cov["states"] += res.distinct
                    ctx.cov["transitions"] += res.generated
            return res
    raise Infra("TLC stopped early three times on %s %s:\n%s" % (module, cfg, res.out[-1500:]))


def run_gen(ctx, fam, cfg, out, workers, timeout=1500):
    g = tlc_full(ctx, "Macro", cfg, env=dict(OUT=out), workers=workers, timeout=timeout, heap="6g")
    if not g.ok:
        p = ctx.replay_dir("tlc-Macro-%s" % fam)
        open(p + "/counterexample.txt", "w").write(g.trace_text())
        json.dump(dict(kind="tlc", area="pp", module="Macro", cfg=open(cfg).read()), open(p + "/case.json", "w"))
        ctx.report("tlc:Macro:%s:%s" % (fam, g.violated), "Macro.tla violates %s on family %s" % (g.violated, fam), p)
    recs = vt.read_ndjson(out)
    if not recs:
        raise Infra("generator wrote nothing for family %s" % fam)
    return ppcase.group(recs)


def expect_ok(ctx, module, cfg, what, **kw):
    res = tlc_full(ctx, module, cfg, **kw)
    if not res.ok:
        p = ctx.replay_dir("tlc-%s-%s" % (module, os.path.basename(cfg)))
        open(p + "/counterexample.txt", "w").write(res.trace_text())
        json.dump(dict(kind="tlc", area="pp", module=module, cfg=open(cfg if os.path.isabs(cfg) else os.path.join(vt.TLA, "pp", cfg)).read()),
                  open(p + "/case.json", "w"))
        ctx.report("tlc:%s:%s:%s" % (module, re.sub(r"-\d+", "", os.path.basename(cfg)), res.violated), what, p)
    return res


DYN = ("F6", "F13")         # families with __COUNTER__ / __LINE__ / __FILE__: one process per case
OWN_TEXT = ("F16",)         # families whose cases are whole texts with directive lines of their own: one process per case


def expected(c, res):
    outs = c["outs"]
    if c["fam"] in DYN:
        outs = [ppcase.subst_dynamic(o, res["line"], res["file"]) for o in outs]
    return outs


def matches(c, toks, outs):
    return any(ppcase.toks_match(o, toks) for o in outs)


def judge(ctx, chib, gcc, c, res, prop="C09"):
    """compare one replayed case with the specification; report through ctx"""
    key = "%s:%d" % (c["fam"], c["id"])
    feats = "+".join(ppcase.features(c))
    info = dict(kind="case", case=c)
    if res["rc"] == "timeout":
        res = chib.run_one(c, timeout=4 * chib.timeout)       # a rejection must repeat (loaded machine)
    if res["rc"] == "timeout":
        ctx.report("timeout:%s:%s" % (feats, c["fam"]), "%s: chibicc -E did not terminate within %ss" % (key, 4 * chib.timeout), case=info)
        return False
    if isinstance(res["rc"], int) and res["rc"] < 0 or (res["rc"] not in (0, 1)):
        ctx.report("crash:%s:%s" % (feats, c["fam"]), "%s: chibicc -E died with status %s" % (key, res["rc"]), case=info)
        return False
    if res["rc"] == 1 and not re.search(r"\S", res["err"]):
        # the driver maps a dead cc1 (signal, or memory limit hit by an endless expansion) to a silent exit 1
        ctx.report("crash:%s:%s" % (feats, c["fam"]), "%s: chibicc -E failed without a diagnostic (crash or runaway expansion)" % key, case=info)
        return False
    if c["class"] != "ok":
        if "baddirective" in c["flags"] and res["rc"] == 0 and not re.search(r"\S", res["err"]):
            # DirLines.tla: an executed directive violates the syntax (no operand on its own line ...): 5.1.1.3
            # requires a diagnostic.  The compiler accepted the text silently, i.e. it read the directive's
            # operand from the following line.  (gcc must have diagnosed it, else it is the spec's problem.)
            g = gcc.run_one(c)
            if g["rc"] == 0 and not re.search(r"\S", g["err"]):
                ctx.oracle_disagreements += 1
                return True
            info.update(got=res["toks"], rc=res["rc"], text=res["text"] or ppcase.render_case(c)[0])
            ctx.report("undiagnosed:%s:%s" % (feats, c["fam"]),
                       "%s: a directive without its operand on its own line is accepted silently (output `%s`)   input: %s" % (
                           key, " ".join(res["toks"] or []), ppcase.render_case(c)[0].replace("\n", " \\n ")), case=info)
            return False
        return True
    outs = expected(c, res)
    if res["rc"] == 0 and res["toks"] is not None and matches(c, res["toks"], outs):
        return True
    # disagreement: ask the tie-break oracle before reporting
    g = gcc.run_one(c)
    gouts = expected(c, g)
    if g["rc"] != 0 or g["toks"] is None or not matches(c, g["toks"], gouts):
        ctx.oracle_disagreements += 1
        return True
    if res["rc"] != 0:
        sig = "rejected:%s:%s" % (feats, ppcase.errmsg(res["err"]))
        what = "%s: well-defined input rejected (%s); expected %s" % (key, ppcase.errmsg(res["err"]), ppcase.show(outs[0]))
    elif res["toks"] is None:
        sig = "garbled:%s:%s" % (feats, c["fam"])
        what = "%s: output structure broken: %r" % (key, (res["out"] or "")[:200])
    else:
        # same characters, different token boundaries: the printer let two tokens fuse
        fused = any(ppcase.tok_matches("".join(o), "".join(res["toks"])) for o in outs)
        sig = "%s:%s:%s" % ("fused" if fused else "tokens", feats, c["fam"])
        what = "%s: expected `%s` got `%s`" % (key, ppcase.show(outs[0]), " ".join(res["toks"]))
    info.update(got=res["toks"], rc=res["rc"], err=res["err"][-300:], text=res["text"] or ppcase.render_case(c)[0], expected=outs)
    ctx.report(sig, what + "   input: " + ppcase.render_case(c)[0].replace("\n", " \\n "), case=info)
    return False


def replay_cases(ctx, chib, gcc, cases, prop="C09"):
    # one process per case: F6 (__COUNTER__ is global) and PS (nothing may precede the sequence under test)
    ok = [c for c in cases if c["class"] == "ok" and c["fam"] not in DYN + OWN_TEXT + ("PS",)]
    single = [c for c in cases if c["class"] == "ok" and c["fam"] in DYN + OWN_TEXT + ("PS",)]
    diag = [c for c in cases if c["class"] == "diag" and c["fam"] not in OWN_TEXT]
    diag = vt.subsample(diag, ctx.seed, 5 if ctx.quick else 1)      # thorough: every one (the quick samples are subsets)
    diag += [c for c in cases if c["class"] == "diag" and c["fam"] in OWN_TEXT]       # (a diagnostic is REQUIRED there: every one)
    res = chib.run_cases(ok)
    res.update(chib.run_cases(single + diag, single=True))
    n = 0
    for c in ok + single + diag:
        r = res[(c["fam"], c["id"])]
        nontrivial = c["steps"] >= 2
        ctx.note_case("%s:%d" % (c["fam"], c["id"]), nontrivial=nontrivial)
        judge(ctx, chib, gcc, c, r, prop)
        n += 1
    ctx.cov["traces_validated_against_impl"] += n
    return n


def run_extras(ctx, chib):
    for n in (2, 4):
        open(os.path.join(chib.dir, "c09x%d.h" % n), "w").write("c09x%d_ok\n" % n)
    for name, text, exp in EXTRAS:
        rc, out, err, f = chib.run_text(text, "x-" + name)
        toks = pptok.lex(out) if rc == 0 else None
        ctx.note_case("extra:" + name)
        if toks != exp:
            ctx.report("extra:%s" % name, "input %r: expected %s got %s %s" % (text, exp, toks, ppcase.errmsg(err) if rc else ""),
                       case=dict(kind="extra", name=name, text=text, expected=exp, got=toks))
    for name, opts, text, exp in EXTRAS_D:
        f = os.path.join(chib.dir, "xd-%s.c" % name)
        open(f, "w").write(text)
        rc, out, err = ppcase.run_limited(chib.cmd + [o.replace("@DIR@", chib.dir) for o in opts] + [f], chib.timeout)
        toks = pptok.lex(out) if rc == 0 else None
        ctx.note_case("extra:" + name)
        if toks != exp:
            ctx.report("extra:%s" % name, "options %s input %r: expected %s got %s %s" % (opts, text, exp, toks, ppcase.errmsg(err) if rc else ""),
                       case=dict(kind="extra", name=name, text=text, expected=exp, got=toks))
    for name, rx in SHAPES:
        rc, out, err, f = chib.run_text(name + "\n", "s-" + name)
        toks = pptok.lex(out) if rc == 0 else None
        ctx.note_case("shape:" + name)
        good = toks is not None and len(toks) == 1 and (re.fullmatch(rx, toks[0]) if rx else toks[0] == '"%s"' % f)
        if not good:
            ctx.report("shape:%s" % name, "%s expands to %s" % (name, toks), case=dict(kind="shape", name=name, got=toks))
    ctx.cov["traces_validated_against_impl"] += len(EXTRAS) + len(EXTRAS_D) + len(SHAPES)


def layout_generate(ctx, workers):
    """Layout.tla: every (directive scenario, token boundary, comment/splice decoration); TLC checks that
    phases 2-3 give back the plain spelling's logical lines and emits the texts"""
    out = os.path.join(ctx.scratch, "layout.ndjson")
    res = tlc_full(ctx, "Layout", "Layout_gen.cfg", env=dict(OUT=out), workers=workers, heap="4g")
    if not res.ok:
        p = ctx.replay_dir("tlc-Layout")
        open(p + "/counterexample.txt", "w").write(res.trace_text())
        json.dump(dict(kind="tlc", area="pp", module="Layout", cfg=open(os.path.join(vt.TLA, "pp", "Layout_gen.cfg")).read()),
                  open(p + "/case.json", "w"))
        ctx.report("tlc:Layout:%s" % res.violated, "Layout.tla violates %s" % res.violated, p)
    ctl = tlc_full(ctx, "Layout", "Layout_ctl.cfg", workers=1, count=False, heap="4g")
    if ctl.ok:
        raise Infra("sensitivity control failed: TLC accepts physical lines as logical lines (Layout_ctl.cfg)")
    rows = vt.read_ndjson(out)
    if len(rows) < 500:
        raise Infra("Layout.tla emitted only %d texts" % len(rows))
    return sorted(rows, key=lambda r: r["id"])


def _lex_no_pragma(out):
    return pptok.lex("\n".join(l for l in out.splitlines() if not l.lstrip().startswith("#pragma")))


def layout_replay(ctx, chib, gcc, rows):
    """each decorated directive text through `chibicc -E`, one process per text; expected = the tokens of the
    plain spelling (fixed per scenario in Layout.tla)"""
    open(os.path.join(chib.dir, "lay.h"), "w").write("inc_ok\n")
    open(os.path.join(gcc.dir, "lay.h"), "w").write("inc_ok\n")

    def one(r):
        return chib.run_text(r["text"], "L_%d" % r["id"])
    for r, (rc, out, err, f) in zip(rows, vt.pmap(one, rows)):
        ctx.note_case("L:%d" % r["id"])
        if rc == "timeout":
            rc, out, err, f = chib.run_text(r["text"], "L_%d" % r["id"], timeout=4 * chib.timeout)
        toks = pptok.lex(out) if rc == 0 else None
        if toks == r["want"]:
            continue
        g = gcc.run_text(r["text"], "L_%d" % r["id"])
        if g[0] != 0 or _lex_no_pragma(g[1]) != r["want"]:
            ctx.oracle_disagreements += 1
            continue
        kind = "timeout" if rc == "timeout" else "rejected" if rc != 0 else "tokens"
        ctx.report("layout:%s:scen%d:deco%d" % (kind, r["scen"], r["deco"]),
                   "directive layout L:%d: expected `%s` got %s   input: %r" % (
                       r["id"], " ".join(r["want"]), ("`%s`" % " ".join(toks)) if toks is not None else ppcase.errmsg(err), r["text"]),
                   case=dict(kind="layout", row=r))
    ctx.cov["traces_validated_against_impl"] += len(rows)
    ctx.cov["layout_cases"] = len(rows)


def model_jobs(ctx):
    """the exhaustive checks of the machine itself, as independent TLC jobs"""
    q = ctx.quick
    jobs = []
    # (every order of argument pre-expansion, the functional definition and the standard's examples are
    # checked by the generation runs themselves: Macro_gen.cfg has ArgOrder = "any" and all invariants)
    # liveness under weak fairness on a small configuration
    jobs.append(("mc", ctx.cfg("pp", "Macro_live.cfg", Family='"F5"'), "Macro.tla: some behaviour never finishes (F5)"))
    # sensitivity control: without the macro's own name in the hide set the machine must loop
    jobs.append(("control", ctx.cfg("pp", "Macro_mc.cfg", Family='"F5"', HideFix=False), None))
    return jobs


def run_model_job(ctx, job, workers):
    kind, cfg, what = job
    if kind == "mc":
        expect_ok(ctx, "Macro", cfg, what, workers=workers, heap="6g")
    else:
        ctl = tlc_full(ctx, "Macro", cfg, workers=workers, count=False, heap="6g")
        if ctl.ok:
            raise Infra("sensitivity control failed: TLC accepts the machine without hide sets\n" + ctl.out[-1500:])


def trace_validation(ctx, tree, cases):
    """Hook H3 (proposed/C09/hook-H3-expand-macro.diff): every expansion event of real runs must be a
    step of the machine (MacroTrace.tla).  Without the hook in the tree there are no events: skipped."""
    d = ctx.tmp("h3")
    texts = []
    ok = [c for c in cases if c["class"] == "ok" and c["fam"] in ("F2", "F3", "F5", "F7", "F9", "F17")]
    ok.sort(key=lambda c: c["fam"] != "F17")       # (stable) the family whose hide sets differ most goes first: only 600 cases are traced
    for i in range(0, min(len(ok), 600), 60):
        f = os.path.join(d, "gen%d.c" % i)
        open(f, "w").write("".join(ppcase.render_case(c)[0] for c in ok[i:i + 60]))
        texts.append(f)
    srcs = [tree + "/test/macro.c"] + sorted(glob.glob(tree + "/*.c"))[:(2 if ctx.quick else 99)]

    def rec(src):
        tf = os.path.join(d, os.path.basename(src) + ".trace")
        env = dict(os.environ, CHIBICC_VERIF_TRACE=tf)
        rc = ppcase.run_limited([tree + "/chibicc", "-I" + tree + "/include", "-I" + tree + "/test", "-I" + tree, "-E", "-o", "/dev/null", src],
                                60, env=env)[0]
        if rc == "timeout":
            return None
        return tf if os.path.exists(tf) else None
    evs, nproc = [], 0
    for tf in vt.pmap(rec, texts + srcs):
        if not tf:
            continue
        bypid = {}
        for r in vt.read_ndjson(tf):
            if r.get("e") == "exp":
                bypid.setdefault(r["pid"], []).append(r)
        for pid in sorted(bypid):
            evs.append(dict(e="reset", src=os.path.basename(tf)))
            for r in sorted(bypid[pid], key=lambda r: r["seq"]):
                evs.append(dict(e="exp", k=r["k"], m=r["m"], hin=r.get("hin", []), hrp=r.get("hrp", []), hout=r.get("hout", [])))
            nproc += 1
    if not evs:
        ctx.cov["h3_trace_validation"] = "hook H3 not present in the tree under test: skipped"
        return
    tf = os.path.join(ctx.scratch, "h3.ndjson")
    vt.write_ndjson(tf, evs)
    res = ctx.tlc("pp", "MacroTrace", "MacroTrace.cfg", env=dict(TRACE=tf), workers=1, timeout=600)
    if not (res.ok and res.depth == len(evs) + 1):
        res2 = ctx.tlc("pp", "MacroTrace", "MacroTrace.cfg", env=dict(TRACE=tf), workers=1, timeout=600, count=False)
        if res2.depth != res.depth:
            raise Infra("trace validation not reproducible (%d vs %d)" % (res.depth, res2.depth))
        bad = evs[res.depth - 1] if res.depth - 1 < len(evs) else None
        p = ctx.replay_dir("trace-h3")
        os.replace(tf, p + "/trace.ndjson")
        json.dump(dict(kind="trace", matched=res.depth - 1, rejected_event=bad), open(p + "/case.json", "w"), indent=1)
        ctx.report("trace:h3:%s:hide-set-not-prosser" % (bad or {}).get("k"),
                   "expansion event %d of %d is not a step of the machine: %s" % (res.depth, len(evs), bad), p)
    ctx.cov["traces_validated_against_impl"] += nproc
    ctx.cov["h3_trace_events"] = len(evs)
    ctx.cov["h3_trace_validation"] = "%d processes" % nproc


def tools(ctx, tree):
    chib = ppcase.Runner(ctx, "chibicc", [tree + "/chibicc", "-E"], timeout=5)
    gcc = ppcase.Runner(ctx, "gcc", ["cc", "-E", "-P", "-w"], timeout=20, ucn=True)
    for r in (chib, gcc):       # the header that the directive texts (Layout.tla, DirLines.tla) include
        open(os.path.join(r.dir, "lay.h"), "w").write("inc_ok\n")
    return chib, gcc


def run(ctx):
    q = ctx.quick
    tree = ctx.build()
    chib, gcc = tools(ctx, tree)
    ctx.phase("build done")
    jobs = []
    for fam, (n, qs, ts) in list(FAMS.items()) + [("FS", (0, 1, 1)), ("FD", (0, 1, 1))]:
        if fam in MERGED + MERGED_DYN:
            continue
        stride = qs if q else ts
        cfg = ctx.cfg("pp", "Macro_gen.cfg", Family='"%s"' % fam, Stride=stride, Seed=ctx.seed % stride,
                      ArgOrder='"ltr"' if fam == "FD" else '"any"')      # __COUNTER__: one order only
        jobs.append((fam, cfg, cfg[:-4] + ".ndjson"))
    big = {"F1": 6, "F2": 4, "F7": 4}
    cap = int(os.environ.get("VERIF_TLC_CAP", "0"))       # development aid on a shared machine: fewer TLC threads
    # generation (one TLC per family, a few at a time) next to the exhaustive checks of the machine itself
    def gen(j):
        return run_gen(ctx, j[0], j[1], j[2], workers=min(cap or 99, 2 if q else big.get(j[0], 2)))
    mjobs = model_jobs(ctx)
    lay = {}

    def layout(_):
        lay["rows"] = layout_generate(ctx, min(cap or 99, 2))
        return None

    def mc(j):
        run_model_job(ctx, j, min(cap or 99, 2))
        return None
    results = vt.pmap(lambda t: t[0](t[1]), [(gen, j) for j in jobs] + [(mc, j) for j in mjobs] + [(layout, None)],
                      workers=(2 if cap else 8 if q else 4))
    ctx.phase("tlc done")
    total = 0
    for (fam, cfg, out), cases in zip(jobs, results[:len(jobs)]):
        for c in cases:
            d = ctx.cov.setdefault("families", {}).setdefault(c["fam"], dict(cases=0))
            d["cases"] += 1
            d[c["class"]] = d.get(c["class"], 0) + 1
        for f in sorted(set(c["fam"] for c in cases)):      # case markers carry the id only: one family per batch
            total += replay_cases(ctx, chib, gcc, [c for c in cases if c["fam"] == f])
        oks = [c for c in cases if c["class"] == "ok"]
        if oks:
            c = oks[len(oks) // 2]
            ctx.sample(dict(family=fam, id=c["id"], input=ppcase.render_case(c)[0], expected=" ".join(c["outs"][0]), flags=c["flags"]))
        ctx.phase("replayed " + fam)
    run_extras(ctx, chib)
    layout_replay(ctx, chib, gcc, lay["rows"])
    ctx.phase("layout done")
    trace_validation(ctx, tree, [c for cs in results[:len(jobs)] for c in cs])
    ctx.phase("traces done")
    # the tokenizer that judged: spot-validation against Lexer.tla (the whole domain is validated by C19)
    ctx.assumptions += [
        "harness tokenizer (pptok.py) is validated against Lexer.tla on the complete pair/triple domain by check C19",
        "white space inside a stringized text is compared exactly, except next to an item that vanished (empty expansion, empty argument, absent __VA_OPT__): a blank is optional there (Macro.tla der/tv; 52 of the 999 well-defined F13 texts have such a place)",
        "[GNU] `, ## __VA_ARGS__` follows gcc/clang (comma deleted only when the variable argument is absent; operand not pre-expanded); present-but-empty variable arguments are excluded",
        "__LINE__ only in invocations written on one line; __DATE__/__TIME__/__TIMESTAMP__/__BASE_FILE__ are checked for shape only",
        "6.10.3.4p4 situations carry both conforming results (hide set of the name alone / intersected with the closing parenthesis)"]
    return ctx.finish(
        rule="case = one (definitions, invocation) input of the families F1..F17 of MacroFamilies.tla, run to completion by Macro.tla and replayed through chibicc -E; non-trivial = the machine took at least 2 steps; distinct = distinct (family, index)",
        exhaustive=not q,
        extra=dict(replayed=total))


def replay(ctx, path):
    c = json.load(open(os.path.join(path, "case.json")))
    c = c.get("case") or c
    if c.get("kind") == "tlc":
        cfgp = os.path.join(ctx.scratch, "replay.cfg")
        open(cfgp, "w").write(c["cfg"])
        ctx.tlc_expect_ok("pp", c.get("module", "Macro"), cfgp, "replayed model check", env=dict(OUT=os.path.join(ctx.scratch, "o.ndjson")))
        return ctx.finish(rule="replay of one recorded case")
    tree = ctx.build()
    chib, gcc = tools(ctx, tree)
    if c.get("kind") == "case":
        case = c["case"]
        r = chib.run_one(case)
        ctx.note_case("replay")
        judge(ctx, chib, gcc, case, r)
    elif c.get("kind") == "layout":
        layout_replay(ctx, chib, gcc, [c["row"]])
    elif c.get("kind") == "trace":
        print("re-validate with: TRACE=%s/trace.ndjson tlc -workers 1 -config MacroTrace.cfg MacroTrace.tla (in tla/pp)" % path)
    elif c.get("kind") == "extra":
        global EXTRAS
        EXTRAS = [e for e in EXTRAS if e[0] == c["name"]]
        run_extras(ctx, chib)
    return ctx.finish(rule="replay of one recorded case")
